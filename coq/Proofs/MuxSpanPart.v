(* C03, fMP4 variants: each part's DURATION is the media time spanned by the part (leading stream).
   Parts are the finer grouping of the sample log of MuxLog.v: all_parts s (MuxPartIds.v) lists the finalized parts
   of the evicted, listed and open segments in order, the samples buffered in the track are those of the part being
   built.  This file: what the rotations of the leading stream do to (all_parts, start of the open part, buffered
   samples), and what a write of the leading track does to them (fmp4_part_step): the look-ahead unit joins the
   part being built - a part is opened for it, starting at its timestamp, if the stream starts now - and, if the
   write rotates parts or segments, that part is finalized at the incoming unit's timestamp and a new, empty one
   starts there.  MuxSpanPartHist.v carries the invariant along histories. *)
From Coq Require Import List ZArith Bool Lia Arith.
From GoHls Require Import Model.Mux Proofs.MuxStream Proofs.MuxLift Proofs.MuxWindow Proofs.MuxHistory Proofs.MuxTimes
  Proofs.MuxMulti Proofs.MuxCut Proofs.MuxLog Proofs.MuxLogStep Proofs.MuxLogTS Proofs.MuxPartIds Proofs.MuxAgree
  Proofs.MuxGroups Proofs.MuxRAStart Proofs.MuxRAHist Proofs.MuxChain Proofs.MuxSpan.
Import ListNotations.
Local Open Scope Z_scope.

Definition op_start (s : stream) : option Z := option_map p_start (st_openpart s).

Lemma app_self_nil {A} (l x : list A) : l ++ x = l -> x = [].
Proof. intros H. apply (app_inv_head l). now rewrite app_nil_r. Qed.

(* ---- the part rotation of a stream: the open part is finalized with the buffered samples ---- *)
Lemma rotp_parts_own m si d cn s seg op :
  LI m -> nth_error (m_streams m) si = Some s -> st_open s = Some seg -> st_openpart s = Some op ->
  exists s1 pf,
    nth_error (m_streams (stream_rotateParts m si d cn)) si = Some s1
    /\ all_parts s1 = all_parts s ++ [pf]
    /\ p_id pf = p_id op /\ p_start pf = p_start op /\ p_end pf = d /\ p_samples pf = buffered (m_tracks m) s
    /\ op_start s1 = (if cn then Some d else None)
    /\ st_leading s1 = st_leading s.
Proof.
  intros HL Es Eo Ep. pose proof (rotp_some m si d cn s seg op Es Eo Ep) as E1.
  - set (pf := fst (part_finalize op (m_tracks m) (st_tracks s) d)) in *.
    exists (fst (srot_parts (c_variant (m_cfg m)) s seg pf d cn)), pf.
    split; [rewrite E1; eapply nth_error_upd_const; exact Es|].
    split; [now apply all_parts_srot_parts|].
    destruct (part_finalize_spec op (m_tracks m) (st_tracks s) d) as (A & B & C & _). fold pf in A, B, C.
    destruct (part_finalize_linked op (m_tracks m) s si d (li_streams m HL si s Es)) as (P1 & _). cbv zeta in P1. fold pf in P1.
    split; [exact A|]. split; [exact B|]. split; [exact C|]. split; [exact P1|].
    destruct (srot_parts_frame (c_variant (m_cfg m)) s seg pf d cn) as (_ & _ & _ & _ & _ & _ & _ & _ & F9).
    split; [unfold op_start; rewrite F9; now destruct cn|].
    destruct (srot_parts_static (c_variant (m_cfg m)) s seg pf d cn) as [x ->]. reflexivity.
Qed.

Lemma rots_parts_own m si d ntp f s seg op :
  LI m -> nth_error (m_streams m) si = Some s -> st_open s = Some seg -> st_openpart s = Some op ->
  exists s2 pf,
    nth_error (m_streams (stream_rotateSegments m si d ntp f)) si = Some s2
    /\ all_parts s2 = all_parts s ++ [pf]
    /\ p_id pf = p_id op /\ p_start pf = p_start op /\ p_end pf = d /\ p_samples pf = buffered (m_tracks m) s
    /\ op_start s2 = Some d
    /\ st_leading s2 = st_leading s.
Proof.
  intros HL Es Eo Ep. pose proof HL as [L1 L2 L3 L4 L5 L6].
  destruct (rots_cases m si d ntp f L1) as [[E1 E2]|(s' & seg' & p0 & s2 & Es' & Eo' & Ep' & E1 & E2 & T2 & O2 & P2 & cur & Hs2)].
  { intros s0 Hs0. apply L5. eapply nth_error_In; eauto. }
  - exfalso. destruct (rots_own m si d ntp f s Es) as (s1 & Hs1 & Hn1 & _); [congruence|].
    rewrite E1, Es in Hs1. injection Hs1 as <-. lia.
  - rewrite Es in Es'. injection Es' as <-. rewrite Eo in Eo'. injection Eo' as <-. rewrite Ep in Ep'. injection Ep' as <-.
    cbv zeta in Hs2.
    set (pf := fst (part_finalize op (m_tracks m) (st_tracks s) d)) in *.
    set (s1 := fst (srot_parts (c_variant (m_cfg m)) s seg pf d false)) in *.
    set (g1 := sg_with_parts seg (sg_parts seg ++ [pf])) in *.
    assert (Ho1 : st_open s1 = Some g1).
    { subst s1 g1. now destruct (srot_parts_frame (c_variant (m_cfg m)) s seg pf d false) as (_ & _ & _ & _ & _ & _ & _ & F8 & _). }
    exists s2, pf. split; [rewrite E1; eapply nth_error_upd_const; exact Es|].
    destruct (part_finalize_spec op (m_tracks m) (st_tracks s) d) as (A & B & C & _). fold pf in A, B, C.
    destruct (part_finalize_linked op (m_tracks m) s si d (L2 si s Es)) as (P1 & _). cbv zeta in P1. fold pf in P1.
    split.
    { rewrite Hs2, (all_parts_srot_segments _ _ s1 g1 d ntp f cur Ho1). subst s1. now apply all_parts_srot_parts. }
    split; [exact A|]. split; [exact B|]. split; [exact C|]. split; [exact P1|].
    destruct (srot_segments_frame (c_variant (m_cfg m)) (c_segcount (m_cfg m)) s1 g1 d ntp f cur) as (_ & _ & _ & _ & _ & _ & F7 & _).
    split.
    + unfold op_start. rewrite Hs2, F7. destruct (c_variant (m_cfg m)); [congruence|reflexivity|reflexivity].
    + rewrite Hs2. rewrite srot_segments_leading. subst s1.
      destruct (srot_parts_static (c_variant (m_cfg m)) s seg pf d false) as [x ->]. reflexivity.
Qed.

(* ---- the composite rotations, on the leading stream ---- *)
Definition Rotated (m m' : mstate) (sl : stream) (op : part) (d : Z) : Prop :=
  exists s' pf,
    nth_error (m_streams m') (leading_index m) = Some s'
    /\ all_parts s' = all_parts sl ++ [pf]
    /\ p_id pf = p_id op /\ p_start pf = p_start op /\ p_end pf = d /\ p_samples pf = buffered (m_tracks m) sl
    /\ op_start s' = Some d
    /\ buffered (m_tracks m') s' = [].

Lemma rotated_buffered m m' li sl s' pf :
  nth_error (m_streams m) li = Some sl -> nth_error (m_streams m') li = Some s' ->
  slog m' li = slog m li -> all_parts s' = all_parts sl ++ [pf] -> p_samples pf = buffered (m_tracks m) sl ->
  buffered (m_tracks m') s' = [].
Proof.
  intros Es Es' Hlog Hp Hs.
  rewrite (slog_all_parts m li sl Es), (slog_all_parts m' li s' Es'), Hp, flat_map_app' in Hlog.
  cbn [flat_map] in Hlog. rewrite app_nil_r, Hs, <- app_assoc in Hlog.
  apply app_inv_head in Hlog. now apply app_self_nil in Hlog.
Qed.

Lemma parts_rotateParts_lead m d sl seg op :
  LI m -> leading_stream m = Some sl -> st_leading sl = true -> st_open sl = Some seg -> st_openpart sl = Some op ->
  Rotated m (rotateParts m d) sl op d.
Proof.
  intros HL Hsl Hll Ho Hp. rewrite leading_stream_nth in Hsl. set (li := leading_index m) in *.
  destruct (rotp_parts_own m li d true sl seg op HL Hsl Ho Hp) as (s1 & pf & Hs1 & A & B & C & D & E & F & G).
  assert (Hs' : nth_error (m_streams (rotateParts m d)) li = Some s1).
  { unfold rotateParts. fold li. apply rotate_others_keeps_leading; auto using rotp_other, flags_rotp. congruence. }
  exists s1, pf. fold li. split; [exact Hs'|]. split; [exact A|]. split; [exact B|]. split; [exact C|]. split; [exact D|].
  split; [exact E|]. split; [exact F|].
  destruct (SameLogs_rotateParts m d HL) as [_ HS].
  exact (rotated_buffered m _ li sl s1 pf Hsl Hs' (HS li) A E).
Qed.

Lemma parts_rotateSegments_lead m d ntp f sl seg op :
  LI m -> leading_stream m = Some sl -> st_leading sl = true -> st_open sl = Some seg -> st_openpart sl = Some op ->
  Rotated m (rotateSegments m d ntp f) sl op d.
Proof.
  intros HL Hsl Hll Ho Hp. rewrite leading_stream_nth in Hsl. set (li := leading_index m) in *.
  destruct (rots_parts_own m li d ntp f sl seg op HL Hsl Ho Hp) as (s1 & pf & Hs1 & A & B & C & D & E & F & G).
  assert (Hs' : nth_error (m_streams (rotateSegments m d ntp f)) li = Some s1).
  { unfold rotateSegments. fold li. apply rotate_others_keeps_leading; auto using rots_other, flags_rots. congruence. }
  exists s1, pf. fold li. split; [exact Hs'|]. split; [exact A|]. split; [exact B|]. split; [exact C|]. split; [exact D|].
  split; [exact E|]. split; [exact F|].
  destruct (SameLogs_rotateSegments m d ntp f HL) as [_ HS].
  exact (rotated_buffered m _ li sl s1 pf Hsl Hs' (HS li) A E).
Qed.

(* ---- muxerPart.writeSample: the sample joins the buffered ones; parts and the open part's start stay ---- *)
Lemma parts_pws m ti smp m' s t :
  LI m -> part_writeSample m ti ti smp = Ok m' ->
  nth_error (m_streams m) ti = Some s -> nth_error (m_tracks m) ti = Some t -> st_open s <> None ->
  exists s', nth_error (m_streams m') ti = Some s' /\ all_parts s' = all_parts s /\ op_start s' = op_start s
             /\ buffered (m_tracks m') s' = buffered (m_tracks m) s ++ [smp].
Proof.
  intros HL Hw Es Et Hop. unfold part_writeSample in Hw. rewrite Es, Et in Hw.
  destruct (st_open s) as [seg|] eqn:Eo; [|congruence].
  destruct (st_openpart s) as [p|] eqn:Ep.
  2:{ exfalso. apply (li_part m HL s (nth_error_In _ _ Es)); congruence. }
  destruct (_ <? _); [discriminate|]. injection Hw as <-.
  unfold upd_stream, upd_track. cbn [set_stream set_tracks m_streams m_tracks].
  rewrite (nth_error_upd_same _ ti _ s Es). eexists. split; [reflexivity|].
  pose proof (li_streams m HL ti s Es) as Hts.
  split; [|split].
  - unfold all_parts, published. cbn [st_with st_evicted st_segments st_open x_evicted x_segments x_open st_mut sg_with_size sg_parts].
    now rewrite Eo.
  - unfold op_start. cbn [st_with st_openpart x_openpart]. now rewrite Ep.
  - unfold buffered. cbn [st_with st_tracks]. rewrite Hts.
    rewrite (nth_error_upd_same _ ti _ t Et), Et. cbn [tk_with tk_samples]. now destruct (tk_samples t).
Qed.

(* ================================================================================================
   The effect of a write of the leading track on the parts of its stream.
   ================================================================================================ *)
Section PartStep.
  Variable F0 : list bool.
  Variable T0 : list (tcfg * bool * nat).
  Hypothesis HOL : OneLead F0.

  Theorem fmp4_part_step m t ra pc smp0 m' prev s :
    ST F0 T0 m ->
    nth_error (m_tracks m) (li F0) = Some t -> tk_leading t = true -> tk_next t = Some prev ->
    0 <= shifted t smp0 ->
    nth_error (m_streams m) (li F0) = Some s ->
    fmp4WriteSample m (li F0) ra pc smp0 = (m', Ok tt) ->
    let rate := t_rate (tk_cfg t) in
    let d := timestampToDuration (shifted t smp0) rate in
    let smp := emit_of prev (shifted t smp0) in
    let st0 := if opened_at m (li F0) then op_start s else Some (timestampToDuration (s_dts prev) rate) in
    let buf0 := buffered (m_tracks m) s in
    exists s', nth_error (m_streams m') (li F0) = Some s' /\
      ((all_parts s' = all_parts s /\ op_start s' = st0 /\ buffered (m_tracks m') s' = buf0 ++ [smp])
       \/ (exists pf, all_parts s' = all_parts s ++ [pf] /\ Some (p_start pf) = st0 /\ p_end pf = d
                      /\ p_samples pf = buf0 ++ [smp] /\ op_start s' = Some d /\ buffered (m_tracks m') s' = [])).
  Proof.
    intros HS Ht Hlead Hn Hd Es. set (ti := li F0) in *. cbv zeta.
    pose proof HS as ((HL & HB) & HO & HF & HT).
    unfold fmp4WriteSample. rewrite Ht. cbv zeta.
    fold (shifted t smp0). pose proof (li_tracks m HL ti t Ht) as Hsi. rewrite Hsi.
    destruct (shifted t smp0 <? 0) eqn:E0; [apply Z.ltb_lt in E0; lia|]. clear E0.
    fold (incoming_of t smp0). rewrite Hn, Hlead. cbn [negb andb].
    set (m1 := upd_track m ti (fun t0 => tk_with t0 (tk_firstRA t0) (tk_params t0) (Some (incoming_of t smp0))
                                                 (tk_samples t0) (tk_start t0))).
    assert (S1 : ST F0 T0 m1).
    { subst m1. unfold upd_track, set_tracks. apply ST_frame; [|exact HS]. apply map_upd_static. intros x. reflexivity. }
    pose proof S1 as ((L1 & _) & _).
    assert (Ht1 : exists t1, nth_error (m_tracks m1) ti = Some t1).
    { subst m1. unfold upd_track. cbn [set_tracks m_tracks]. rewrite (nth_error_upd_same _ ti _ t Ht). eauto. }
    destruct Ht1 as (t1 & Ht1).
    assert (Es1 : nth_error (m_streams m1) ti = Some s) by exact Es.
    assert (B1 : buffered (m_tracks m1) s = buffered (m_tracks m) s).
    { unfold buffered. rewrite (li_streams m HL ti s Es). subst m1. unfold upd_track. cbn [set_tracks m_tracks].
      rewrite (nth_error_upd_same _ ti _ t Ht), Ht. reflexivity. }
    assert (B1' : buffered (m_tracks m1) s = buffered (m_tracks m) s) by exact B1.
    clear B1'.
    change (match nth_error (m_streams m1) ti with
            | Some s => match st_open s with Some _ => true | None => false end | None => false end) with (opened_at m ti).
    set (smp := emit_of prev (shifted t smp0)).
    set (rate := t_rate (tk_cfg t)).
    set (st0 := if opened_at m ti then op_start s else Some (timestampToDuration (s_dts prev) rate)).
    set (m2 := if negb (opened_at m ti)
               then createFirstSegment m1 (timestampToDuration (s_dts smp) rate) (s_ntp smp) else m1).
    assert (S2 : ST F0 T0 m2 /\ opened_at m2 ti = true
                 /\ exists s2, nth_error (m_streams m2) ti = Some s2 /\ all_parts s2 = all_parts s /\ op_start s2 = st0
                               /\ buffered (m_tracks m2) s2 = buffered (m_tracks m) s).
    { subst m2 st0. destruct (opened_at m ti) eqn:Eop; cbn [negb].
      - split; [exact S1|]. split; [exact Eop|]. exists s. auto.
      - assert (Ho1 : st_open s = None).
        { unfold opened_at in Eop. rewrite Es in Eop. now destruct (st_open s). }
        split; [|split].
        + apply (ST_create F0 T0 m1 _ _ ti t1 Ht1); [|exact S1]. rewrite (li_tracks m1 L1 ti t1 Ht1). exact Eop.
        + unfold opened_at, createFirstSegment. cbn [set_stream m_streams]. rewrite nth_error_map, Es1. reflexivity.
        + eexists. split; [unfold createFirstSegment; cbn [set_stream m_streams]; rewrite nth_error_map, Es1; reflexivity|].
          split; [|split].
          * unfold all_parts, published, stream_createFirst.
            cbn [st_with st_evicted st_segments st_open x_evicted x_segments x_open st_mut new_seg sg_parts].
            now rewrite Ho1.
          * unfold op_start, stream_createFirst. cbn [st_with st_openpart x_openpart].
            destruct (c_variant (m_cfg m1)) eqn:Ev; [exfalso; exact (li_variant m1 L1 Ev)|reflexivity|reflexivity].
          * exact B1. }
    destruct S2 as (S2 & Op2 & s2 & Es2 & A2 & O2 & B2).
    set (m3 := fmp4AdjustPartDuration m2 (timestampToDuration (shifted t smp0 - s_dts prev) rate)).
    destruct (adjust_frame m2 (timestampToDuration (shifted t smp0 - s_dts prev) rate)) as (A3 & B3 & C3). fold m3 in A3, B3, C3.
    assert (S3 : ST F0 T0 m3) by (apply (TC_adjust (ST F0 T0) (ST_frame F0 T0)); exact S2).
    pose proof S3 as ((L3 & _) & _).
    match goal with |- context [part_writeSample ?a ti ti ?b] => change a with m3; change b with smp end.
    destruct (part_writeSample m3 ti ti smp) as [m4| |] eqn:Ew; [|discriminate|discriminate].
    pose proof (ST_pws F0 T0 _ _ _ _ _ S3 Ew) as S4.
    pose proof S4 as ((L4 & _) & _).
    assert (Es3 : nth_error (m_streams m3) ti = Some s2) by (rewrite B3; exact Es2).
    assert (Ho2 : st_open s2 <> None).
    { unfold opened_at in Op2. rewrite Es2 in Op2. destruct (st_open s2); congruence. }
    assert (Ht3 : exists t3, nth_error (m_tracks m3) ti = Some t3).
    { destruct (nth_error (m_tracks m3) ti) as [t3|] eqn:E; [eauto|]. exfalso.
      apply nth_error_None in E. rewrite <- (li_len m3 L3) in E.
      assert (ti < length (m_streams m3))%nat by (apply nth_error_Some; congruence). lia. }
    destruct Ht3 as (t3 & Ht3).
    destruct (parts_pws m3 ti smp m4 s2 t3 L3 Ew Es3 Ht3 Ho2) as (s4 & Es4 & A4 & O4 & B4).
    rewrite C3, B2 in B4. rewrite A2 in A4. rewrite O2 in O4.
    cbn [negb]. rewrite Es4.
    match goal with |- context [if ?c then _ else _] => destruct c eqn:Edue end.
    - intros Hr.
      set (d := timestampToDuration (shifted t smp0) rate) in *.
      assert (Em' : m_streams m' = m_streams (rotateSegments m4 d (s_ntp (incoming_of t smp0)) pc)
                    /\ m_tracks m' = m_tracks (rotateSegments m4 d (s_ntp (incoming_of t smp0)) pc))
        by (destruct pc; injection Hr as <-; split; reflexivity).
      destruct Em' as [Es' Et'].
      destruct (ST_lead F0 T0 HOL m4 S4) as [Hli (sl & Hsl & Hll & _)].
      pose proof Hsl as Hsl'. rewrite leading_stream_nth, Hli in Hsl'. fold ti in Hsl'. rewrite Es4 in Hsl'. injection Hsl' as <-.
      assert (Ho4 : st_open s4 <> None).
      { pose proof (opened_pws _ _ _ _ _ ti Ew) as E. unfold opened_at in E, Op2. rewrite Es4, Es3 in E.
        rewrite <- B3 in Op2. rewrite Es3 in Op2. destruct (st_open s4); [discriminate|]. destruct (st_open s2); discriminate. }
      destruct (st_open s4) as [seg|] eqn:Eo4; [|congruence].
      destruct (st_openpart s4) as [op|] eqn:Ep4.
      2:{ exfalso. apply (li_part m4 L4 s4 (nth_error_In _ _ Es4)); congruence. }
      destruct (parts_rotateSegments_lead m4 d (s_ntp (incoming_of t smp0)) pc s4 seg op L4 Hsl Hll Eo4 Ep4)
        as (s' & pf & Hs' & P1 & _ & P3 & P4 & P5 & P6 & P7).
      rewrite Hli in Hs'. fold ti in Hs'.
      exists s'. split; [rewrite Es'; exact Hs'|]. right. exists pf.
      split; [now rewrite P1, A4|]. split; [rewrite P3, <- O4; unfold op_start; now rewrite Ep4|].
      split; [exact P4|]. split; [now rewrite P5, B4|]. split; [exact P6|]. now rewrite Et'.
    - match goal with |- context [if ?c then _ else _] => destruct c end; intros [= <-].
      + destruct (ST_lead F0 T0 HOL m4 S4) as [Hli (sl & Hsl & Hll & _)].
        pose proof Hsl as Hsl'. rewrite leading_stream_nth, Hli in Hsl'. fold ti in Hsl'. rewrite Es4 in Hsl'. injection Hsl' as <-.
        assert (Ho4 : st_open s4 <> None).
        { pose proof (opened_pws _ _ _ _ _ ti Ew) as E. unfold opened_at in E, Op2. rewrite Es4, Es3 in E.
          rewrite <- B3 in Op2. rewrite Es3 in Op2. destruct (st_open s4); [discriminate|]. destruct (st_open s2); discriminate. }
        destruct (st_open s4) as [seg|] eqn:Eo4; [|congruence].
        destruct (st_openpart s4) as [op|] eqn:Ep4.
        2:{ exfalso. apply (li_part m4 L4 s4 (nth_error_In _ _ Es4)); congruence. }
        destruct (parts_rotateParts_lead m4 (timestampToDuration (shifted t smp0) rate) s4 seg op L4 Hsl Hll Eo4 Ep4)
          as (s' & pf & Hs' & P1 & _ & P3 & P4 & P5 & P6 & P7).
        rewrite Hli in Hs'. fold ti in Hs'.
        exists s'. split; [exact Hs'|]. right. exists pf.
        split; [now rewrite P1, A4|]. split; [rewrite P3, <- O4; unfold op_start; now rewrite Ep4|].
        split; [exact P4|]. split; [now rewrite P5, B4|]. split; [exact P6|exact P7].
      + exists s4. split; [exact Es4|]. left. auto.
  Qed.
End PartStep.
