(* Soundness of the lockset / publication discipline (proved once, for every table and trace). *)
From Coq Require Import List Arith Bool Relations Lia.
From GoHls Require Import Model.Lockset.
Import ListNotations.

Lemma hb1_lt : forall tr i j, hb1 tr i j -> i < j.
Proof. intros tr i j H; destruct H; assumption. Qed.

Lemma hb_lt : forall tr i j, hb tr i j -> i < j.
Proof.
  intros tr i j H. induction H as [x y H|x y z _ IH1 _ IH2].
  - eapply hb1_lt; eauto.
  - lia.
Qed.

Lemma hb_step : forall tr i j, hb1 tr i j -> hb tr i j.
Proof. intros; apply t_step; assumption. Qed.

Lemma hb_trans : forall tr i j k, hb tr i j -> hb tr j k -> hb tr i k.
Proof. intros; eapply t_trans; eauto. Qed.

Lemma at_inj : forall tr i e1 e2, at_ tr i e1 -> at_ tr i e2 -> e1 = e2.
Proof. unfold at_; intros tr i e1 e2 H1 H2; rewrite H1 in H2; congruence. Qed.

(* ---------- searching the first release of m by t in a range ---------- *)
Definition is_rel (t : tid) (m : mutex) (e : option event) : bool :=
  match e with
  | Some (Rel t' m' _) => Nat.eqb t t' && Nat.eqb m m'
  | _ => false
  end.

Lemma is_rel_true : forall tr t m r,
  is_rel t m (nth_error tr r) = true <-> exists x, at_ tr r (Rel t m x).
Proof.
  intros tr t m r. unfold at_, is_rel. split.
  - destruct (nth_error tr r) as [[| t' m' x | | |]|]; try discriminate.
    intro H. apply andb_true_iff in H. destruct H as [H1 H2].
    apply Nat.eqb_eq in H1. apply Nat.eqb_eq in H2. subst. eauto.
  - intros [x H]. rewrite H. rewrite !Nat.eqb_refl. reflexivity.
Qed.

Fixpoint first_rel (tr : trace) (t : tid) (m : mutex) (lo n : nat) : option nat :=
  match n with
  | 0 => None
  | S n' => if is_rel t m (nth_error tr lo) then Some lo else first_rel tr t m (S lo) n'
  end.

Lemma first_rel_some : forall tr t m n lo r,
  first_rel tr t m lo n = Some r ->
  lo <= r /\ r < lo + n /\ is_rel t m (nth_error tr r) = true /\
  forall r', lo <= r' -> r' < r -> is_rel t m (nth_error tr r') = false.
Proof.
  intros tr t m n. induction n as [|n IH]; intros lo r H; simpl in H.
  - discriminate.
  - destruct (is_rel t m (nth_error tr lo)) eqn:E.
    + inversion H; subst. repeat split; try lia. assumption.
    + apply IH in H. destruct H as (H1 & H2 & H3 & H4).
      repeat split; try lia; try assumption.
      intros r' Hlo Hr. destruct (Nat.eq_dec r' lo) as [->|Hne]; [assumption|].
      apply H4; lia.
Qed.

Lemma first_rel_none : forall tr t m n lo,
  first_rel tr t m lo n = None ->
  forall r', lo <= r' -> r' < lo + n -> is_rel t m (nth_error tr r') = false.
Proof.
  intros tr t m n. induction n as [|n IH]; intros lo H r' Hlo Hhi; simpl in H.
  - lia.
  - destruct (is_rel t m (nth_error tr lo)) eqn:E; [discriminate|].
    destruct (Nat.eq_dec r' lo) as [->|Hne]; [assumption|].
    apply (IH (S lo)); try assumption; lia.
Qed.

Lemma is_rel_false : forall tr t m r x,
  is_rel t m (nth_error tr r) = false -> ~ at_ tr r (Rel t m x).
Proof.
  intros tr t m r x H Hat.
  assert (is_rel t m (nth_error tr r) = true) by (apply is_rel_true; eauto). congruence.
Qed.

(* ---------- two accesses holding a common mutex, one exclusively, are ordered ---------- *)
Lemma common_lock_hb : forall tr i j t t' a b o o' m x y,
  wf_trace tr -> i < j ->
  at_ tr i (Acc t a o) -> at_ tr j (Acc t' b o') -> t <> t' ->
  holds tr t m x i -> holds tr t' m y j -> (x = Excl \/ y = Excl) ->
  hb tr i j.
Proof.
  intros tr i j t t' a b o o' m x y WF Hij Hi Hj Hne Hh1 Hh2 Hex.
  destruct Hh1 as (q1 & Hq1i & Hq1 & Hnr1).
  destruct Hh2 as (q2 & Hq2j & Hq2 & Hnr2).
  assert (Hq2i : q2 <> i).
  { intro E; subst. pose proof (at_inj _ _ _ _ Hi Hq2) as E; discriminate. }
  assert (Hq12 : q1 <> q2).
  { intro E; subst. pose proof (at_inj _ _ _ _ Hq1 Hq2) as E. inversion E; subst. congruence. }
  destruct (lt_dec i q2) as [Hlt|Hge].
  - (* t' acquires after the access at i: t must have released in between *)
    destruct (first_rel tr t m (S q1) (q2 - S q1)) as [r|] eqn:F.
    + apply first_rel_some in F. destruct F as (Hr1 & Hr2 & Hr3 & Hr4).
      apply is_rel_true in Hr3. destruct Hr3 as [x' Hr].
      assert (Hir : i < r).
      { destruct (lt_dec i r) as [?|Hn]; [assumption|].
        exfalso.
        assert (r <> i). { intro E; subst. pose proof (at_inj _ _ _ _ Hi Hr) as E; discriminate. }
        apply (Hnr1 r x'); try lia. assumption. }
      assert (Hhold : holds tr t m x r).
      { exists q1. split; [lia|]. split; [assumption|].
        intros r0 x0 H1 H2. apply is_rel_false. apply Hr4; lia. }
      pose proof (wf_rel tr WF r t m x x' Hr Hhold) as Exx. subst x'.
      eapply hb_trans.
      * apply hb_step. eapply hb_po with (e1 := Acc t a o) (e2 := Rel t m x); eauto.
      * eapply hb_trans.
        -- assert (Hrq : r < q2) by lia.
           apply hb_step. exact (hb_lock tr r q2 t t' m x y Hrq Hr Hq2 Hex).
        -- apply hb_step. eapply hb_po with (e1 := Acq t' m y) (e2 := Acc t' b o'); eauto.
    + (* no release: t still holds m when t' acquires - impossible with an exclusive mode *)
      exfalso.
      assert (Hhold : holds tr t m x q2).
      { exists q1. split; [lia|]. split; [assumption|].
        intros r0 x0 H1 H2. apply is_rel_false.
        apply (first_rel_none _ _ _ _ _ F); lia. }
      assert (Hne' : t <> t') by assumption.
      destruct (wf_excl tr WF q2 t' m y t x Hq2 Hne' Hhold) as [E1 E2].
      destruct Hex; congruence.
  - (* t' acquired before i and holds across it: the two holds overlap *)
    exfalso.
    assert (Hlt : q2 < i) by lia.
    destruct (lt_dec q1 q2) as [H12|H21].
    + assert (Hhold : holds tr t m x q2).
      { exists q1. split; [assumption|]. split; [assumption|].
        intros r0 x0 H1 H2. apply Hnr1; lia. }
      destruct (wf_excl tr WF q2 t' m y t x Hq2 Hne Hhold) as [E1 E2].
      destruct Hex; congruence.
    + assert (Hhold : holds tr t' m y q1).
      { exists q2. split; [lia|]. split; [assumption|].
        intros r0 x0 H1 H2. apply Hnr2; lia. }
      assert (Hne' : t' <> t) by congruence.
      destruct (wf_excl tr WF q1 t m x t' y Hq1 Hne' Hhold) as [E1 E2].
      destruct Hex; congruence.
Qed.

(* ---------- a_pre / a_post order two accesses ---------- *)
Lemma pub_hb : forall tr i j t t' a b o k,
  wf_trace tr -> conforms tr ->
  at_ tr i (Acc t a o) -> at_ tr j (Acc t' b o) ->
  In k (a_pre a) -> In k (a_post b) -> hb tr i j.
Proof.
  intros tr i j t t' a b o k WF CF Hi Hj Hpre Hpost.
  destruct (cf_post tr CF j t' b o k Hj Hpost) as (s & Hsj & Hs).
  destruct (wf_sub tr WF s t' _ Hs) as (p & tp & Hps & Hp).
  destruct (cf_pre tr CF i t a o k p tp Hi Hpre Hp) as [Hip Etp]. subst tp.
  eapply hb_trans.
  - apply hb_step. eapply hb_po with (e1 := Acc t a o) (e2 := Pub t (key_of k o)); eauto.
  - eapply hb_trans.
    + apply hb_step. eapply hb_pub; eauto.
    + apply hb_step. eapply hb_po with (e1 := Sub t' (key_of k o)) (e2 := Acc t' b o); eauto.
Qed.

(* ---------- reflection of the boolean checks ---------- *)
Lemma common_lock_true : forall a b,
  common_lock a b = true ->
  exists m x y, In (m, x) (a_locks a) /\ In (m, y) (a_locks b) /\ (x = Excl \/ y = Excl).
Proof.
  intros a b H. unfold common_lock in H.
  apply existsb_exists in H. destruct H as ([m x] & Hin1 & H).
  apply existsb_exists in H. destruct H as ([m' y] & Hin2 & H).
  simpl in H. apply andb_true_iff in H. destruct H as [Hm Hx].
  apply Nat.eqb_eq in Hm. subst m'.
  exists m, x, y. split; [assumption|]. split; [assumption|].
  apply orb_true_iff in Hx. destruct Hx as [Hx|Hx].
  - left. destruct x; [reflexivity|discriminate].
  - right. destruct y; [reflexivity|discriminate].
Qed.

Lemma kclass_eqb_eq : forall x y, kclass_eqb x y = true -> x = y.
Proof. destruct x, y; simpl; intro H; try reflexivity; discriminate. Qed.

Lemma pub_ordered_true : forall a b,
  pub_ordered a b = true -> exists k, In k (a_pre a) /\ In k (a_post b).
Proof.
  intros a b H. unfold pub_ordered in H.
  apply existsb_exists in H. destruct H as (k & Hin1 & H).
  apply existsb_exists in H. destruct H as (k' & Hin2 & H).
  apply kclass_eqb_eq in H. subst k'. eauto.
Qed.

Lemma conflicting_conflictb : forall a b, conflicting a b -> conflictb a b = true.
Proof.
  intros a b [Hl Hw]. unfold conflictb. rewrite Hl, Nat.eqb_refl. simpl.
  destruct Hw as [Hw|Hw]; rewrite Hw; [reflexivity|apply orb_true_r].
Qed.

Lemma same_thread_roles_true : forall tr i j t t' a b o o',
  conforms tr -> at_ tr i (Acc t a o) -> at_ tr j (Acc t' b o') ->
  same_thread_roles a b = true -> t = t'.
Proof.
  intros tr i j t t' a b o o' CF Hi Hj H. unfold same_thread_roles in H.
  apply orb_true_iff in H. destruct H as [H|H].
  - apply andb_true_iff in H. destruct H as [H1 H2].
    eapply (cf_writer tr CF); eauto.
  - destruct (a_role a) eqn:Ea; try discriminate.
    destruct (a_role b) eqn:Eb; try discriminate.
    eapply (cf_init tr CF); eauto.
Qed.

(* ---------- the ordered half: a checked pair, first access earlier, is hb-ordered ---------- *)
Lemma safe_pair_ordered : forall tr i j t t' a b o,
  wf_trace tr -> conforms tr -> i < j ->
  at_ tr i (Acc t a o) -> at_ tr j (Acc t' b o) -> t <> t' -> conflicting a b ->
  pair_safe (a, b) = true -> hb tr i j.
Proof.
  intros tr i j t t' a b o WF CF Hij Hi Hj Hne Hc Hs.
  unfold pair_safe in Hs.
  rewrite (conflicting_conflictb _ _ Hc) in Hs. simpl in Hs.
  apply orb_true_iff in Hs. destruct Hs as [Hs|Hs].
  apply orb_true_iff in Hs. destruct Hs as [Hs|Hs].
  apply orb_true_iff in Hs. destruct Hs as [Hs|Hs].
  - exfalso. apply Hne. eapply same_thread_roles_true; eauto.
  - apply common_lock_true in Hs. destruct Hs as (m & x & y & H1 & H2 & Hex).
    eapply common_lock_hb; eauto.
    + eapply (cf_locks tr CF); eauto.
    + eapply (cf_locks tr CF); eauto.
  - apply pub_ordered_true in Hs. destruct Hs as (k & H1 & H2).
    eapply pub_hb; eauto.
  - (* b precedes a's subscription: impossible when a comes first *)
    apply pub_ordered_true in Hs. destruct Hs as (k & H1 & H2).
    assert (Hji : hb tr j i) by (eapply pub_hb; eauto).
    apply hb_lt in Hji. lia.
Qed.

(* ---------- the theorem, with an exclusion list (empty list = the full statement) ---------- *)
Theorem lockset_sound_excluding : forall (T : list access) (ex : access * access -> bool) tr,
  wf_trace tr -> conforms tr -> runs_table T tr ->
  (forall p, In p (all_pairs T) -> pair_safe p = true \/ ex p = true) ->
  forall i j t t' a b o,
    i <> j -> at_ tr i (Acc t a o) -> at_ tr j (Acc t' b o) -> t <> t' -> conflicting a b ->
    ~ hb tr i j -> ~ hb tr j i ->
    ex (a, b) = true \/ ex (b, a) = true.
Proof.
  intros T ex tr WF CF RT Hall i j t t' a b o Hij Hi Hj Hne Hc Hn1 Hn2.
  assert (Ha : In a T) by (eapply RT; eauto).
  assert (Hb : In b T) by (eapply RT; eauto).
  destruct (lt_dec i j) as [Hlt|Hge].
  - destruct (Hall (a, b)) as [Hs|Hx].
    + unfold all_pairs. apply in_prod; assumption.
    + exfalso. apply Hn1. eapply safe_pair_ordered; eauto.
    + left; assumption.
  - assert (Hlt : j < i) by lia.
    destruct (Hall (b, a)) as [Hs|Hx].
    + unfold all_pairs. apply in_prod; assumption.
    + exfalso. apply Hn2.
      assert (Hc' : conflicting b a).
      { destruct Hc as [H1 H2]. split; [congruence|tauto]. }
      eapply safe_pair_ordered with (t := t') (t' := t); eauto.
    + right; assumption.
Qed.

Theorem lockset_sound : forall (T : list access) tr,
  table_ok T = true ->
  wf_trace tr -> conforms tr -> runs_table T tr -> ~ race tr.
Proof.
  intros T tr Hok WF CF RT (i & j & t & t' & a & b & o & Hij & Hi & Hj & Hne & Hc & Hn1 & Hn2).
  unfold table_ok in Hok. rewrite forallb_forall in Hok.
  destruct (lockset_sound_excluding T (fun _ => false) tr WF CF RT) with
      (i := i) (j := j) (t := t) (t' := t') (a := a) (b := b) (o := o); try assumption; try discriminate.
  intros p Hp. left. apply Hok. assumption.
Qed.
