(* MPEG-TS side of C10: a stream processor fed with the 33-bit container values of true
   (unwrapped) times delivers  true time - origin  for every unit from the leading track's
   first unit on, drops what precedes (by design) and what has pts < 0, once, in order. *)
From Coq Require Import List ZArith Bool Lia.
From GoHls Require Import Model.ClientTime Proofs.ClientTimeArith Proofs.ClientTimeDecode
                          Proofs.ClientTimeFMP4.
Import ListNotations.
Local Open Scope Z_scope.

(* a [pes] whose time fields hold TRUE times; the container carries them modulo 2^33 *)
Definition wrap_pes (e : pes) : pes :=
  {| pe_track := pe_track e; pe_rawPTS := wrap33 (pe_rawPTS e); pe_rawDTS := wrap33 (pe_rawDTS e);
     pe_payload := pe_payload e; pe_elapsed := pe_elapsed e; pe_anchor := pe_anchor e |}.
Definition wrap_seg (s : msegment) : msegment :=
  {| ms_dateTime := ms_dateTime s; ms_pes := map wrap_pes (ms_pes s) |}.
Definition wrap_stream (st : mstream) : mstream :=
  {| mst_tracks := mst_tracks st; mst_segments := map wrap_seg (mst_segments st) |}.

(* decode time of a unit: audio callbacks pass pts as dts *)
Definition tdts (tracks : list mcodec) (e : pes) : Z :=
  match nth_error tracks (pe_track e) with
  | Some MH264 => pe_rawDTS e
  | _ => pe_rawPTS e
  end.

Definition gap (a b : Z) : Prop := -4294967296 <= b - a <= 4294967295.

(* the Decode calls the stream processor makes, in order: pts then dts of every unit *)
Fixpoint pes_gaps (tracks : list mcodec) (last : Z) (l : list pes) : Prop :=
  match l with
  | [] => True
  | e :: r =>
      match nth_error tracks (pe_track e) with
      | None => pes_gaps tracks last r
      | Some _ => gap last (pe_rawPTS e) /\ gap (pe_rawPTS e) (tdts tracks e)
                  /\ pes_gaps tracks (tdts tracks e) r
      end
  end.

Fixpoint last_time (tracks : list mcodec) (last : Z) (l : list pes) : Z :=
  match l with
  | [] => last
  | e :: r =>
      match nth_error tracks (pe_track e) with
      | None => last_time tracks last r
      | Some _ => last_time tracks (tdts tracks e) r
      end
  end.

Lemma pes_gaps_app : forall tracks a b last,
  pes_gaps tracks last (a ++ b) <->
  pes_gaps tracks last a /\ pes_gaps tracks (last_time tracks last a) b.
Proof.
  intros tracks a. induction a as [|e r IH]; intros b last; cbn [app pes_gaps last_time].
  - tauto.
  - destruct (nth_error tracks (pe_track e)); rewrite IH; tauto.
Qed.

Lemma last_time_app : forall tracks a b last,
  last_time tracks last (a ++ b) = last_time tracks (last_time tracks last a) b.
Proof.
  intros tracks a. induction a as [|e r IH]; intros b last; cbn [app last_time]; [reflexivity|].
  destruct (nth_error tracks (pe_track e)); apply IH.
Qed.

(* what one unit contributes to the output when the origin is t0 *)
Definition unit_out (tracks : list mcodec) (t0 : Z) (e : pes) : list (nat * (Z * Z * Z)) :=
  match nth_error tracks (pe_track e) with
  | None => []
  | Some _ =>
      if pe_rawPTS e - t0 <? 0 then []
      else [(pe_track e, (pe_rawPTS e - t0, tdts tracks e - t0, pe_payload e))]
  end.

Definition mkeys (out : list (nat * delivery)) : list (nat * (Z * Z * Z)) :=
  map (fun x => (fst x, dkey (snd x))) out.

Lemma mkeys_app : forall a b, mkeys (a ++ b) = mkeys a ++ mkeys b.
Proof. intros. unfold mkeys. apply map_app. Qed.

Definition started (t0 last : Z) (s : mstate) : Prop :=
  m_trackProcessors s = true /\ exists td, m_td s = Some td /\ td_inv t0 last td.

(* getNTP as a closed formula *)
Definition spec_mgetNTP (n : ntpMPEGTS) (ts : Z) : option Z :=
  if mntpAvailable n then Some (mntpValue n + Z.quot ((ts - mntpTimestamp n) * second) 90000)
  else None.

Lemma mgetNTP_spec : forall n ts, mpegts_getNTP n ts = Ok (spec_mgetNTP n ts).
Proof.
  intros. unfold mpegts_getNTP, spec_mgetNTP. destruct (mntpAvailable n); [|reflexivity].
  cbn [negb]. rewrite t2d_quot by lia. reflexivity.
Qed.

(* ---------- one unit, track processors running ---------- *)
Lemma processSample_started : forall isL tracks lead dt s e t0 last s' out codec,
  nth_error tracks (pe_track e) = Some codec ->
  started t0 last s ->
  gap last (pe_rawPTS e) -> gap (pe_rawPTS e) (tdts tracks e) ->
  processSample isL tracks lead dt s (wrap_pes e) = Ok (s', out) ->
  let isLT := Nat.eqb (pe_track e) lead in
  let setsDate := negb (m_dateTimeProcessed s) && isL && isLT in
  mkeys out = unit_out tracks t0 e
  /\ started t0 (tdts tracks e) s'
  /\ m_leadingTrackFound s' = (m_leadingTrackFound s || isLT)
  /\ m_dateTimeProcessed s' = (m_dateTimeProcessed s || setsDate)
  /\ m_ntp s' = (if setsDate then match dt with Some v => mpegts_setNTP v (tdts tracks e - t0)
                                          | None => m_ntp s end
                 else m_ntp s)
  /\ m_hist s' = (if setsDate then m_hist s ++ [m_ntp s'] else m_hist s)
  /\ (isL = true -> forall j d, In (j, d) out -> dl_ntp d = spec_mgetNTP (m_ntp s') (dl_dts d)).
Proof.
  intros isL tracks lead dt s e t0 last s' out codec Hc (Htp & td & Htd & Hinv) G1 G2 H isLT setsDate.
  unfold processSample in H. cbn [wrap_pes pe_track pe_rawPTS pe_rawDTS pe_payload pe_elapsed pe_anchor] in H.
  rewrite Hc in H.
  assert (Hraw : (match codec with MH264 => wrap33 (pe_rawDTS e) | MAudio => wrap33 (pe_rawPTS e) end)
                 = wrap33 (tdts tracks e)).
  { unfold tdts. rewrite Hc. destruct codec; reflexivity. }
  rewrite Hraw in H. fold isLT in H.
  (* the prologue does not change what matters *)
  set (s1 := if isLT
             then {| m_td := m_td s; m_ntp := m_ntp s; m_hist := m_hist s; m_trackProcessors := true;
                     m_leadingTrackFound := true; m_dateTimeProcessed := m_dateTimeProcessed s |}
             else s).
  assert (Hs1 : (if isLT then
                   if m_trackProcessors s then
                     Ok {| m_td := m_td s; m_ntp := m_ntp s; m_hist := m_hist s; m_trackProcessors := true;
                           m_leadingTrackFound := true; m_dateTimeProcessed := m_dateTimeProcessed s |}
                   else
                     bind (if isL then Ok (Some (mpegts_initialize (wrap33 (tdts tracks e))))
                           else match m_td s with Some td => Ok (Some td) | None => Err ErrBlocked end)
                          (fun td => Ok {| m_td := td; m_ntp := m_ntp s; m_hist := m_hist s;
                                           m_trackProcessors := true; m_leadingTrackFound := true;
                                           m_dateTimeProcessed := m_dateTimeProcessed s |})
                 else Ok s) = Ok s1).
  { subst s1. rewrite Htp. destruct isLT; reflexivity. }
  rewrite Hs1 in H. cbn [bind] in H.
  assert (P1 : m_trackProcessors s1 = true) by (subst s1; destruct isLT; [reflexivity|assumption]).
  assert (P2 : m_td s1 = Some td) by (subst s1; destruct isLT; assumption).
  assert (P3 : m_ntp s1 = m_ntp s) by (subst s1; destruct isLT; reflexivity).
  assert (P4 : m_hist s1 = m_hist s) by (subst s1; destruct isLT; reflexivity).
  assert (P5 : m_dateTimeProcessed s1 = m_dateTimeProcessed s) by (subst s1; destruct isLT; reflexivity).
  assert (P6 : m_leadingTrackFound s1 = (m_leadingTrackFound s || isLT)).
  { subst s1. destruct isLT; cbn; [rewrite orb_true_r|rewrite orb_false_r]; reflexivity. }
  rewrite P1, P2 in H. cbn [negb] in H. unfold mpegts_convert in H.
  destruct (Decode_step t0 last td (pe_rawPTS e) Hinv G1) as [V1 I1].
  destruct (Decode td (wrap33 (pe_rawPTS e))) as [td1 pts]. cbn [fst snd] in V1, I1. subst pts.
  destruct (Decode_step t0 (pe_rawPTS e) td1 (tdts tracks e) I1 G2) as [V2 I2].
  destruct (Decode td1 (wrap33 (tdts tracks e))) as [td2 dts]. cbn [fst snd] in V2, I2. subst dts.
  rewrite P3, P4, P5 in H. fold setsDate in H.
  set (n := if setsDate then match dt with Some v => mpegts_setNTP v (tdts tracks e - t0) | None => m_ntp s end
            else m_ntp s) in *.
  bind_inv_as H nobs Hnobs. bind_inv_as H ntp Hntp. bind_inv_as H r Hr.
  injection H as <- <-.
  cbn [m_trackProcessors m_td m_leadingTrackFound m_dateTimeProcessed m_ntp m_hist].
  apply handleData_ok in Hr. rewrite mgetNTP_spec in Hntp. injection Hntp as <-.
  repeat split.
  - unfold unit_out. rewrite Hc. subst r. destruct (pe_rawPTS e - t0 <? 0); reflexivity.
  - exists td2. auto.
  - assumption.
  - intros ->. cbn [bind] in Hnobs. injection Hnobs as <-.
    intros j d Hin. subst r. destruct (pe_rawPTS e - t0 <? 0); [contradiction|].
    destruct Hin as [E|[]]. injection E as <- <-. reflexivity.
Qed.

(* ---------- a list of units, track processors running ---------- *)
Lemma processPES_started : forall isL tracks lead dt l s t0 last s' out,
  started t0 last s -> pes_gaps tracks last l ->
  processPES isL tracks lead dt s (map wrap_pes l) = Ok (s', out) ->
  mkeys out = flat_map (unit_out tracks t0) l
  /\ started t0 (last_time tracks last l) s'.
Proof.
  intros isL tracks lead dt l. induction l as [|e r IH]; intros s t0 last s' out St G H.
  - cbn in H. injection H as <- <-. cbn. auto.
  - cbn [map processPES] in H. bind_inv_as H x Hx. destruct x as [s1 a].
    bind_inv_as H y Hy. destruct y as [s2 b]. injection H as <- <-.
    cbn [pes_gaps last_time flat_map] in *. rewrite mkeys_app.
    destruct (nth_error tracks (pe_track e)) as [codec|] eqn:Hc.
    + destruct G as (G1 & G2 & G3).
      pose proof (processSample_started _ _ _ _ _ _ _ _ _ _ _ Hc St G1 G2 Hx) as P.
      cbv zeta in P. destruct P as (K & St1 & _).
      destruct (IH _ _ _ _ _ St1 G3 Hy) as [K2 St2]. rewrite K, K2. auto.
    + unfold processSample in Hx. cbn [wrap_pes pe_track] in Hx. rewrite Hc in Hx.
      injection Hx as <- <-.
      destruct (IH _ _ _ _ _ St G Hy) as [K2 St2]. rewrite K2.
      assert (U : unit_out tracks t0 e = []) by (unfold unit_out; rewrite Hc; reflexivity).
      rewrite U. auto.
Qed.

(* ---------- before the leading track started: units are dropped ---------- *)
Definition isLeadUnit (tracks : list mcodec) (lead : nat) (e : pes) : bool :=
  match nth_error tracks (pe_track e) with Some _ => Nat.eqb (pe_track e) lead | None => false end.

Fixpoint dropUntilLead (tracks : list mcodec) (lead : nat) (l : list pes) : list pes :=
  match l with
  | [] => []
  | e :: r => if isLeadUnit tracks lead e then e :: r else dropUntilLead tracks lead r
  end.

(* the state initializeTrackProcessors leaves behind on the leading track's first unit *)
Definition start_state (isL : bool) (tracks : list mcodec) (s : mstate) (e0 : pes) : mstate :=
  {| m_td := if isL then Some (mpegts_initialize (wrap33 (tdts tracks e0))) else m_td s;
     m_ntp := m_ntp s; m_hist := m_hist s; m_trackProcessors := true;
     m_leadingTrackFound := true; m_dateTimeProcessed := m_dateTimeProcessed s |}.

Lemma processSample_first : forall isL tracks lead dt s e0,
  m_trackProcessors s = false -> isLeadUnit tracks lead e0 = true ->
  (isL = true \/ m_td s <> None) ->
  processSample isL tracks lead dt s (wrap_pes e0)
  = processSample isL tracks lead dt (start_state isL tracks s e0) (wrap_pes e0).
Proof.
  intros isL tracks lead dt s e0 Htp Hl Hc. unfold isLeadUnit in Hl.
  destruct (nth_error tracks (pe_track e0)) as [codec|] eqn:E; [|discriminate].
  unfold processSample. cbn [wrap_pes pe_track pe_rawPTS pe_rawDTS].
  rewrite E, Hl, Htp. unfold start_state.
  cbn [m_td m_ntp m_hist m_trackProcessors m_leadingTrackFound m_dateTimeProcessed].
  assert (Hraw : (match codec with MH264 => wrap33 (pe_rawDTS e0) | MAudio => wrap33 (pe_rawPTS e0) end)
                 = wrap33 (tdts tracks e0)).
  { unfold tdts. rewrite E. destruct codec; reflexivity. }
  rewrite Hraw.
  destruct isL.
  - reflexivity.
  - destruct Hc as [Hc|Hc]; [discriminate|]. destruct (m_td s); [reflexivity|congruence].
Qed.

Lemma processPES_notstarted : forall isL tracks lead dt l s s' out,
  m_trackProcessors s = false -> (isL = true \/ m_td s <> None) ->
  processPES isL tracks lead dt s (map wrap_pes l) = Ok (s', out) ->
  match dropUntilLead tracks lead l with
  | [] => out = [] /\ s' = s
  | e0 :: r =>
      processPES isL tracks lead dt (start_state isL tracks s e0) (map wrap_pes (e0 :: r)) = Ok (s', out)
  end.
Proof.
  intros isL tracks lead dt l. induction l as [|e r IH]; intros s s' out Htp Hc H.
  - cbn in H. injection H as <- <-. cbn. auto.
  - cbn [dropUntilLead]. destruct (isLeadUnit tracks lead e) eqn:L.
    + cbn [map processPES] in *. rewrite <- processSample_first by assumption. exact H.
    + cbn [map processPES] in H. bind_inv_as H x Hx. destruct x as [s1 a].
      assert (Hs1 : s1 = s /\ a = []).
      { unfold processSample in Hx. cbn [wrap_pes pe_track] in Hx. unfold isLeadUnit in L.
        destruct (nth_error tracks (pe_track e)) as [codec|]; [|injection Hx as <- <-; auto].
        rewrite L in Hx. cbn [bind] in Hx. rewrite Htp in Hx. cbn [negb] in Hx.
        injection Hx as <- <-. auto. }
      destruct Hs1 as [-> ->]. bind_inv_as H y Hy. destruct y as [s2 b]. injection H as <- <-.
      cbn [app]. apply IH; assumption.
Qed.

(* ---------- segments ---------- *)
Definition all_pes (segs : list msegment) : list pes := flat_map ms_pes segs.

Lemma processSegmentsM_started : forall isL tracks lead segs s t0 last s' out,
  started t0 last s -> pes_gaps tracks last (all_pes segs) ->
  processSegmentsM isL tracks lead s (map wrap_seg segs) = Ok (s', out) ->
  mkeys out = flat_map (unit_out tracks t0) (all_pes segs)
  /\ started t0 (last_time tracks last (all_pes segs)) s'.
Proof.
  intros isL tracks lead segs. induction segs as [|seg r IH]; intros s t0 last s' out St G H.
  - cbn in H. injection H as <- <-. cbn. auto.
  - cbn [map processSegmentsM] in H. bind_inv_as H x Hx. destruct x as [s1 a].
    bind_inv_as H y Hy. destruct y as [s2 b]. injection H as <- <-.
    unfold all_pes in *. cbn [flat_map] in *. apply pes_gaps_app in G. destruct G as [G1 G2].
    unfold processSegmentM in Hx. cbn [wrap_seg ms_dateTime ms_pes] in Hx.
    bind_inv_as Hx z Hz. destruct z as [s3 c]. destruct (negb (m_leadingTrackFound s3)); [discriminate|].
    injection Hx as <- <-.
    apply processPES_started with (t0 := t0) (last := last) in Hz; auto.
    destruct Hz as [K St1].
    destruct (IH _ _ _ _ _ St1 G2 Hy) as [K2 St2].
    rewrite mkeys_app, flat_map_app, last_time_app, K, K2. auto.
Qed.

Lemma mpegtsPickLeadingTrack_valid : forall tracks,
  tracks <> [] -> nth_error tracks (mpegtsPickLeadingTrack tracks) <> None.
Proof.
  intros tracks Hne. unfold mpegtsPickLeadingTrack.
  assert (G : forall l i j, firstH264_from i l = Some j -> (i <= j)%nat /\ nth_error l (j - i) <> None).
  { induction l as [|c r IH]; intros i j H; cbn in H; [discriminate|].
    destruct c.
    - injection H as <-. rewrite Nat.sub_diag. cbn. split; [lia|discriminate].
    - apply IH in H. destruct H as [H1 H2]. split; [lia|].
      replace (j - i)%nat with (S (j - S i)) by lia. exact H2. }
  destruct (firstH264_from 0 tracks) as [j|] eqn:F.
  - apply G in F. rewrite Nat.sub_0_r in F. tauto.
  - destruct tracks; [congruence|]. cbn. discriminate.
Qed.

(* the units the stream processor works on: everything from the leading track's first unit *)
Definition processed (st : mstream) : list pes :=
  dropUntilLead (mst_tracks st) (mpegtsPickLeadingTrack (mst_tracks st)) (all_pes (mst_segments st)).

Definition origin_of (tracks : list mcodec) (l : list pes) : Z :=
  match l with e0 :: _ => tdts tracks e0 | [] => 0 end.

Lemma dropUntilLead_app_nil : forall tracks lead a b,
  dropUntilLead tracks lead a = [] ->
  dropUntilLead tracks lead (a ++ b) = dropUntilLead tracks lead b.
Proof.
  intros tracks lead a. induction a as [|e r IH]; intros b H; [reflexivity|].
  cbn [app dropUntilLead] in *. destruct (isLeadUnit tracks lead e); [discriminate|]. auto.
Qed.

Lemma dropUntilLead_app_cons : forall tracks lead a b e0 r,
  dropUntilLead tracks lead a = e0 :: r ->
  dropUntilLead tracks lead (a ++ b) = e0 :: r ++ b.
Proof.
  intros tracks lead a. induction a as [|e r0 IH]; intros b e0 r H; [discriminate|].
  cbn [app dropUntilLead] in *. destruct (isLeadUnit tracks lead e).
  - injection H as <- <-. reflexivity.
  - auto.
Qed.

(* a stream processor started in state [s0] (track processors not yet created); the leading
   one creates the converter (origin = decode time of its leading track's first unit), a
   rendition finds the client's converter with origin t0g and last decoded time lastg *)
Lemma runStream_keys : forall isL st s0 s' out t0g lastg,
  (isL = true \/ exists td, m_td s0 = Some td /\ td_inv t0g lastg td) ->
  runStreamMPEGTS isL s0 (wrap_stream st) = Ok (s', out) ->
  let tracks := mst_tracks st in
  let p := processed st in
  let t0 := if isL then origin_of tracks p else t0g in
  let last0 := if isL then origin_of tracks p else lastg in
  pes_gaps tracks last0 p ->
  mkeys out = flat_map (unit_out tracks t0) p
  /\ (mst_segments st <> [] -> started t0 (last_time tracks last0 p) s').
Proof.
  intros isL st s0 s' out t0g lastg Hc H tracks p t0 last0 G.
  unfold runStreamMPEGTS in H. cbn [wrap_stream mst_segments mst_tracks] in H.
  destruct (mst_segments st) as [|seg r] eqn:Es.
  - cbn in H. injection H as <- <-. subst p. unfold processed. rewrite Es. cbn. split; [reflexivity|congruence].
  - cbn [map] in H. fold tracks in H.
    destruct (Nat.eqb (length tracks) 0) eqn:E0; [discriminate|].
    destruct (Nat.ltb clientMaxTracksPerStream (length tracks)); [discriminate|].
    set (lead := mpegtsPickLeadingTrack tracks) in *.
    cbn [processSegmentsM] in H. bind_inv_as H x Hx. destruct x as [s1 a].
    bind_inv_as H y Hy. destruct y as [s2 b]. injection H as <- <-.
    unfold processSegmentM in Hx. cbn [wrap_seg ms_dateTime ms_pes m_td m_ntp m_hist m_trackProcessors] in Hx.
    bind_inv_as Hx z Hz. destruct z as [s3 c].
    destruct (negb (m_leadingTrackFound s3)) eqn:Ef; [discriminate|]. injection Hx as <- <-.
    apply processPES_notstarted in Hz; [|reflexivity|].
    2:{ cbn [m_td]. destruct Hc as [Hc|(td & Hc & _)]; [auto|right; congruence]. }
    destruct (dropUntilLead tracks lead (ms_pes seg)) as [|e0 r0] eqn:D.
    + destruct Hz as [-> ->]. cbn in Ef. discriminate.
    + assert (Dp : p = e0 :: r0 ++ all_pes r).
      { subst p. unfold processed. rewrite Es. unfold all_pes. cbn [flat_map].
        fold tracks. fold lead. apply dropUntilLead_app_cons. exact D. }
      assert (St0 : started t0 last0 (start_state isL tracks
                      {| m_td := m_td s0; m_ntp := m_ntp s0; m_hist := m_hist s0;
                         m_trackProcessors := false; m_leadingTrackFound := false;
                         m_dateTimeProcessed := false |} e0)).
      { split; [reflexivity|]. cbn [start_state m_td]. subst t0 last0. destruct isL.
        - rewrite Dp. cbn [origin_of]. eexists. split; [reflexivity|]. apply mpegts_initialize_inv.
        - destruct Hc as [Hc|(td & Hc & Hi)]; [discriminate|]. exists td. auto. }
      rewrite Dp in G. change (e0 :: r0 ++ all_pes r) with ((e0 :: r0) ++ all_pes r) in G.
      apply pes_gaps_app in G. destruct G as [G1 G2].
      apply processPES_started with (t0 := t0) (last := last0) in Hz; auto.
      destruct Hz as [K St1].
      apply processSegmentsM_started with (t0 := t0) (last := last_time tracks last0 (e0 :: r0)) in Hy; auto.
      destruct Hy as [K2 St2].
      rewrite Dp. change (e0 :: r0 ++ all_pes r) with ((e0 :: r0) ++ all_pes r).
      rewrite mkeys_app, flat_map_app, last_time_app, K, K2. auto.
Qed.

(* ---------- per-track view ---------- *)
Definition kproj (j : nat) (l : list (nat * (Z * Z * Z))) : list (Z * Z * Z) :=
  map snd (filter (fun x => Nat.eqb (fst x) j) l).

Lemma kproj_mkeys : forall j out, kproj j (mkeys out) = map dkey (proj j out).
Proof.
  intros j out. unfold kproj, mkeys, proj. induction out as [|x r IH]; [reflexivity|].
  cbn [map filter fst]. destruct (Nat.eqb (fst x) j); cbn [map snd]; [f_equal|]; exact IH.
Qed.

(* units of track j among the processed ones, normalised; container order *)
Definition track_units (tracks : list mcodec) (j : nat) (l : list pes) : list pes :=
  filter (fun e => match nth_error tracks (pe_track e) with
                   | Some _ => Nat.eqb (pe_track e) j | None => false end) l.

Definition mnorm (tracks : list mcodec) (t0 : Z) (e : pes) : Z * Z * Z :=
  (pe_rawPTS e - t0, tdts tracks e - t0, pe_payload e).

Lemma kproj_units : forall tracks t0 j l,
  kproj j (flat_map (unit_out tracks t0) l)
  = filter keepk (map (mnorm tracks t0) (track_units tracks j l)).
Proof.
  intros tracks t0 j l. unfold kproj. induction l as [|e r IH]; [reflexivity|].
  cbn [flat_map track_units filter]. rewrite filter_app, map_app, IH.
  unfold unit_out. destruct (nth_error tracks (pe_track e)) as [c|]; [|reflexivity].
  destruct (Nat.eqb (pe_track e) j) eqn:E.
  - cbn [map filter]. unfold keepk at 2. cbn [mnorm fst].
    rewrite Z.ltb_antisym. destruct (0 <=? pe_rawPTS e - t0); cbn [negb filter fst map snd app];
      rewrite ?E; reflexivity.
  - destruct (pe_rawPTS e - t0 <? 0); cbn [filter fst]; rewrite ?E; reflexivity.
Qed.

(* c10_all_delivered / c10_mpegts_time for one stream processor *)
Lemma mpegts_stream_delivers : forall isL st s0 s' out t0g lastg j,
  (isL = true \/ exists td, m_td s0 = Some td /\ td_inv t0g lastg td) ->
  runStreamMPEGTS isL s0 (wrap_stream st) = Ok (s', out) ->
  let tracks := mst_tracks st in
  let p := processed st in
  let t0 := if isL then origin_of tracks p else t0g in
  let last0 := if isL then origin_of tracks p else lastg in
  pes_gaps tracks last0 p ->
  map dkey (proj j out) = filter keepk (map (mnorm tracks t0) (track_units tracks j p)).
Proof.
  intros isL st s0 s' out t0g lastg j Hc H tracks p t0 last0 G.
  destruct (runStream_keys isL st s0 s' out t0g lastg Hc H G) as [K _].
  rewrite <- kproj_mkeys. fold tracks p t0 in K. rewrite K. apply kproj_units.
Qed.

(* ---------- NTP (c10_abs_time): leading stream, one segment ---------- *)
Lemma processPES_app : forall isL tracks lead dt a b s s' out,
  processPES isL tracks lead dt s (a ++ b) = Ok (s', out) ->
  exists s1 o1 o2, processPES isL tracks lead dt s a = Ok (s1, o1)
    /\ processPES isL tracks lead dt s1 b = Ok (s', o2) /\ out = o1 ++ o2.
Proof.
  intros isL tracks lead dt a. induction a as [|e r IH]; intros b s s' out H.
  - cbn [app] in H. exists s, [], out. cbn. auto.
  - cbn [app processPES] in H. bind_inv_as H x Hx. destruct x as [s1 o1].
    bind_inv_as H y Hy. destruct y as [s2 o2]. injection H as <- <-.
    apply IH in Hy. destruct Hy as (s3 & o3 & o4 & Hy1 & Hy2 & ->).
    exists s3, (o1 ++ o3), o4. cbn [processPES]. rewrite Hx. cbn [bind]. rewrite Hy1. cbn [bind].
    rewrite app_assoc. auto.
Qed.

(* once the segment's date has been processed, every unit is stamped from the same anchor *)
Lemma processPES_ntp_fixed : forall tracks lead dt l s t0 last s' out,
  started t0 last s -> pes_gaps tracks last l -> m_dateTimeProcessed s = true ->
  processPES true tracks lead dt s (map wrap_pes l) = Ok (s', out) ->
  m_ntp s' = m_ntp s /\ m_dateTimeProcessed s' = true /\
  forall j d, In (j, d) out -> dl_ntp d = spec_mgetNTP (m_ntp s) (dl_dts d).
Proof.
  intros tracks lead dt l. induction l as [|e r IH]; intros s t0 last s' out St G Hd H.
  - cbn in H. injection H as <- <-. cbn. tauto.
  - cbn [map processPES] in H. bind_inv_as H x Hx. destruct x as [s1 a].
    bind_inv_as H y Hy. destruct y as [s2 b]. injection H as <- <-.
    cbn [pes_gaps] in G.
    destruct (nth_error tracks (pe_track e)) as [codec|] eqn:Hc.
    + destruct G as (G1 & G2 & G3).
      pose proof (processSample_started _ _ _ _ _ _ _ _ _ _ _ Hc St G1 G2 Hx) as P.
      cbv zeta in P. rewrite Hd in P. cbn [negb andb orb] in P.
      destruct P as (_ & St1 & _ & D1 & N1 & _ & NT).
      destruct (IH _ _ _ _ _ St1 G3 D1 Hy) as (N2 & D2 & NT2).
      split; [congruence|]. split; [assumption|].
      intros j d Hin. apply in_app_or in Hin. destruct Hin as [Hin|Hin].
      * rewrite <- N1. eapply NT; eauto.
      * rewrite <- N1. eapply NT2; eauto.
    + unfold processSample in Hx. cbn [wrap_pes pe_track] in Hx. rewrite Hc in Hx.
      injection Hx as <- <-. cbn [app]. eapply IH; eauto.
Qed.

(* AbsoluteTime of the leading stream's units from the segment's first leading-track unit on:
   DateTime + duration_of(dts - dts of that first unit) *)
Lemma mpegts_abs_time : forall tracks lead dtv e0 post s t0 last s' out,
  started t0 last s -> m_dateTimeProcessed s = false ->
  isLeadUnit tracks lead e0 = true ->
  pes_gaps tracks last (e0 :: post) ->
  processPES true tracks lead (Some dtv) s (map wrap_pes (e0 :: post)) = Ok (s', out) ->
  forall j d, In (j, d) out ->
    dl_ntp d = Some (dtv + Z.quot ((dl_dts d - (tdts tracks e0 - t0)) * second) 90000).
Proof.
  intros tracks lead dtv e0 post s t0 last s' out St Hd Hl G H j d Hin.
  cbn [map processPES] in H. bind_inv_as H x Hx. destruct x as [s1 a].
  bind_inv_as H y Hy. destruct y as [s2 b]. injection H as <- <-.
  unfold isLeadUnit in Hl. cbn [pes_gaps] in G.
  destruct (nth_error tracks (pe_track e0)) as [codec|] eqn:Hc; [|discriminate].
  destruct G as (G1 & G2 & G3).
  pose proof (processSample_started _ _ _ _ _ _ _ _ _ _ _ Hc St G1 G2 Hx) as P.
  cbv zeta in P. rewrite Hd, Hl in P. cbn [negb andb orb] in P.
  destruct P as (_ & St1 & _ & D1 & N1 & _ & NT).
  assert (E : forall x, spec_mgetNTP (m_ntp s1) x
                        = Some (dtv + Z.quot ((x - (tdts tracks e0 - t0)) * second) 90000)).
  { intros x. rewrite N1. reflexivity. }
  apply in_app_or in Hin. destruct Hin as [Hin|Hin].
  - rewrite (NT eq_refl j d Hin). apply E.
  - destruct (processPES_ntp_fixed _ _ _ _ _ _ _ _ _ St1 G3 D1 Hy) as (_ & _ & NT2).
    rewrite (NT2 j d Hin). apply E.
Qed.

(* units that precede the segment's first leading-track unit keep the previous anchor *)
Lemma mpegts_abs_time_before : forall tracks lead dt pre s t0 last s' out,
  started t0 last s -> m_dateTimeProcessed s = false ->
  dropUntilLead tracks lead pre = [] ->
  pes_gaps tracks last pre ->
  processPES true tracks lead dt s (map wrap_pes pre) = Ok (s', out) ->
  m_ntp s' = m_ntp s /\ m_dateTimeProcessed s' = false /\
  forall j d, In (j, d) out -> dl_ntp d = spec_mgetNTP (m_ntp s) (dl_dts d).
Proof.
  intros tracks lead dt pre. induction pre as [|e r IH]; intros s t0 last s' out St Hd Hdrop G H.
  - cbn in H. injection H as <- <-. cbn. tauto.
  - cbn [map processPES] in H. bind_inv_as H x Hx. destruct x as [s1 a].
    bind_inv_as H y Hy. destruct y as [s2 b]. injection H as <- <-.
    cbn [pes_gaps dropUntilLead] in *. destruct (isLeadUnit tracks lead e) eqn:L; [discriminate|].
    unfold isLeadUnit in L.
    destruct (nth_error tracks (pe_track e)) as [codec|] eqn:Hc.
    + destruct G as (G1 & G2 & G3).
      pose proof (processSample_started _ _ _ _ _ _ _ _ _ _ _ Hc St G1 G2 Hx) as P.
      cbv zeta in P. rewrite Hd, L in P. cbn [negb andb orb] in P.
      destruct P as (_ & St1 & _ & D1 & N1 & _ & NT).
      destruct (IH _ _ _ _ _ St1 D1 Hdrop G3 Hy) as (N2 & D2 & NT2).
      split; [congruence|]. split; [assumption|].
      intros j d Hin. apply in_app_or in Hin. destruct Hin as [Hin|Hin].
      * rewrite <- N1. eapply NT; eauto.
      * rewrite <- N1. eapply NT2; eauto.
    + unfold processSample in Hx. cbn [wrap_pes pe_track] in Hx. rewrite Hc in Hx.
      injection Hx as <- <-. cbn [app]. eapply IH; eauto.
Qed.
