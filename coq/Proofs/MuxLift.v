(* Lifting per-stream invariants to every reachable muxer state.
   A predicate P on streams that is preserved by the single-stream operations (create first
   segment, rotate parts, rotate segments, write into the open segment, copy of target
   durations) is preserved by mux_step, hence holds after any write history. *)
From Coq Require Import List ZArith Bool Lia Arith.
From GoHls Require Import Model.Mux.
Import ListNotations.
Local Open Scope Z_scope.

Lemma Forall_upd {A} (P : A -> Prop) l i f :
  Forall P l -> (forall x, nth_error l i = Some x -> P x -> P (f x)) -> Forall P (upd l i f).
Proof.
  revert i; induction l as [|x l IH]; intros i Hl Hf; [destruct i; constructor|].
  inversion Hl; subst. destruct i as [|i]; simpl.
  - constructor; auto.
  - constructor; auto.
Qed.

Lemma upd_length {A} (l : list A) i f : length (upd l i f) = length l.
Proof. revert i; induction l as [|x l IH]; intros [|i]; simpl; auto. Qed.

Lemma nth_error_upd_same {A} (l : list A) i f x :
  nth_error l i = Some x -> nth_error (upd l i f) i = Some (f x).
Proof.
  revert i; induction l as [|y l IH]; intros [|i] H; simpl in *; try discriminate.
  - now injection H as ->.
  - auto.
Qed.

Lemma nth_error_upd_other {A} (l : list A) i j f :
  i <> j -> nth_error (upd l i f) j = nth_error l j.
Proof.
  revert i j; induction l as [|y l IH]; intros [|i] [|j] H; simpl; auto; try congruence.
Qed.

(* ---- configuration and stream-count frames ---- *)
Ltac unf_set := unfold upd_track, upd_stream, set_stream, set_tracks, set_paths, set_pending, set_adj, add_err.

Lemma cfg_stream_rotateParts m si d cn : m_cfg (stream_rotateParts m si d cn) = m_cfg m.
Proof.
  unfold stream_rotateParts. destruct (nth_error (m_streams m) si); [|reflexivity].
  destruct (st_openpart s); [|reflexivity]. destruct (st_open s); [|reflexivity].
  destruct (part_finalize _ _ _ _). destruct (srot_parts _ _ _ _ _ _). destruct b; reflexivity.
Qed.

Lemma cfg_stream_rotateSegments m si d ntp f : m_cfg (stream_rotateSegments m si d ntp f) = m_cfg m.
Proof.
  unfold stream_rotateSegments.
  set (m1 := match c_variant (m_cfg m) with MPEGTS => m | _ => stream_rotateParts m si d false end).
  assert (H1 : m_cfg m1 = m_cfg m) by (subst m1; destruct (c_variant (m_cfg m)); auto using cfg_stream_rotateParts).
  destruct (nth_error (m_streams m1) si); [|exact H1].
  destruct (st_open s); [|exact H1].
  destruct (srot_segments _ _ _ _ _ _ _ _) as [[s' regen] bump]. destruct bump; exact H1.
Qed.

Lemma cfg_fold {A} (f : mstate -> A -> mstate) (l : list A) :
  (forall m a, m_cfg (f m a) = m_cfg m) -> forall m, m_cfg (fold_left f l m) = m_cfg m.
Proof.
  intros Hf. induction l as [|a l IH]; intros m; simpl; [reflexivity|]. now rewrite IH, Hf.
Qed.

Lemma cfg_rotate_others m1 f both :
  (forall m i, m_cfg (f m i) = m_cfg m) -> m_cfg (rotate_others m1 f both) = m_cfg m1.
Proof.
  intros Hf. unfold rotate_others. apply cfg_fold. intros m i.
  destruct (nth_error (m_streams m) i) as [s|]; [|reflexivity].
  destruct (st_leading s); [reflexivity|].
  destruct (leading_stream (f m i)); [unfold upd_stream; cbn [set_stream m_cfg]|]; apply Hf.
Qed.

Lemma cfg_rotateParts m d : m_cfg (rotateParts m d) = m_cfg m.
Proof.
  unfold rotateParts. rewrite cfg_rotate_others; [apply cfg_stream_rotateParts|].
  intros; apply cfg_stream_rotateParts.
Qed.

Lemma cfg_rotateSegments m d ntp f : m_cfg (rotateSegments m d ntp f) = m_cfg m.
Proof.
  unfold rotateSegments. rewrite cfg_rotate_others; [apply cfg_stream_rotateSegments|].
  intros; apply cfg_stream_rotateSegments.
Qed.

Lemma cfg_adjust m sd : m_cfg (fmp4AdjustPartDuration m sd) = m_cfg m.
Proof.
  unfold fmp4AdjustPartDuration. destruct (c_variant (m_cfg m)); auto.
  destruct (m_freeze m); auto. destruct (sd =? 0); auto. destruct (existsb _ _); auto.
Qed.

Lemma cfg_part_writeSample m ti si smp m' : part_writeSample m ti si smp = Ok m' -> m_cfg m' = m_cfg m.
Proof.
  unfold part_writeSample.
  destruct (nth_error (m_streams m) si) as [s|]; [|now intros [= <-]].
  destruct (nth_error (m_tracks m) ti) as [t|]; [|now intros [= <-]].
  destruct (st_open s); [|now intros [= <-]]. destruct (st_openpart s); [|now intros [= <-]].
  destruct (_ <? _); [discriminate|]. now intros [= <-].
Qed.

Lemma cfg_ts_write m si u size e inc : m_cfg (fst (ts_write m si u size e inc)) = m_cfg m.
Proof.
  unfold ts_write. destruct (nth_error _ _) as [s|]; [|reflexivity].
  destruct (st_open s); [|reflexivity]. destruct (_ <? _); reflexivity.
Qed.

Lemma cfg_fmp4WriteSample m ti ra pc smp : m_cfg (fst (fmp4WriteSample m ti ra pc smp)) = m_cfg m.
Proof.
  unfold fmp4WriteSample.
  destruct (nth_error (m_tracks m) ti) as [t|]; [|reflexivity].
  destruct (_ <? 0); [reflexivity|].
  destruct (tk_next t) as [prev|]; [|reflexivity].
  match goal with |- context [if ?c then wok ?a else _] => destruct c; [reflexivity|] end.
  match goal with |- context [part_writeSample ?m3 ti ?si ?smp] =>
    assert (H3 : m_cfg m3 = m_cfg m);
      [|destruct (part_writeSample m3 ti si smp) as [m4| |] eqn:Ew; [|exact H3|exact H3]] end.
  { match goal with |- m_cfg (if ?c then fmp4AdjustPartDuration ?x ?y else ?z) = _ => destruct c end;
      rewrite ?cfg_adjust;
      match goal with |- m_cfg (if ?c then createFirstSegment ?x ?y ?z else ?w) = _ => destruct c end;
      reflexivity. }
  pose proof (cfg_part_writeSample _ _ _ _ _ Ew) as H4. rewrite H3 in H4.
  destruct (negb (tk_leading t)); [exact H4|].
  destruct (nth_error (m_streams m4) (tk_stream t)) as [s|]; [|exact H4].
  match goal with |- context [if ?c then _ else _] => destruct c end.
  - destruct pc; cbn [fst wok set_adj m_cfg]; now rewrite cfg_rotateSegments.
  - match goal with |- context [if ?c then _ else _] => destruct c end; [|exact H4].
    cbn [fst wok]. now rewrite cfg_rotateParts.
Qed.

Lemma cfg_video_params m ti t a ex : m_cfg (fst (video_params m ti t a ex)) = m_cfg m.
Proof.
  unfold video_params.
  destruct (a_params a) as [p|].
  - destruct (ex && negb (p =? tk_params t));
      match goal with |- context [if ?c then _ else _] => destruct c end; reflexivity.
  - match goal with |- context [if ?c then _ else _] => destruct c end; reflexivity.
Qed.

Lemma cfg_write_video m ti t a : m_cfg (fst (write_video m ti t a)) = m_cfg m.
Proof.
  unfold write_video.
  set (ex := match t_kind (tk_cfg t) with H264 | H265 => true | _ => a_ra a end).
  pose proof (cfg_video_params m ti t a ex) as H1.
  destruct (video_params m ti t a ex) as [m1 pc]. cbn [fst] in H1.
  destruct (t_kind (tk_cfg t)).
  - destruct (negb (a_ra a) && negb (a_nonidr a)); [exact H1|].
    destruct (negb (tk_firstRA t) && negb (a_ra a)); [exact H1|].
    destruct (c_variant (m_cfg m)).
    + rewrite cfg_ts_write.
      match goal with |- m_cfg (if ?c then _ else _) = _ => destruct c end; [exact H1|].
      destruct (nth_error _ _); [|exact H1].
      match goal with |- m_cfg (if ?c then _ else _) = _ => destruct c end; [|exact H1].
      now rewrite cfg_rotateSegments.
    + now rewrite cfg_fmp4WriteSample.
    + now rewrite cfg_fmp4WriteSample.
  - destruct (negb (tk_firstRA t) && negb (a_ra a)); [exact H1|]. now rewrite cfg_fmp4WriteSample.
  - destruct (negb (tk_firstRA t) && negb (a_ra a)); [exact H1|]. now rewrite cfg_fmp4WriteSample.
  - destruct (negb (tk_firstRA t) && negb (a_ra a)); [exact H1|]. now rewrite cfg_fmp4WriteSample.
  - destruct (negb (tk_firstRA t) && negb (a_ra a)); [exact H1|]. now rewrite cfg_fmp4WriteSample.
  - destruct (negb (tk_firstRA t) && negb (a_ra a)); [exact H1|]. now rewrite cfg_fmp4WriteSample.
Qed.

Lemma cfg_write_audio_units units : forall m ti k rate srate i pts ntp,
  m_cfg (fst (write_audio_units m ti k rate srate i pts ntp units)) = m_cfg m.
Proof.
  induction units as [|x units IH]; intros m ti k rate srate i pts ntp; [reflexivity|].
  cbn [write_audio_units].
  destruct (match k with OPUS => (pts, ntp) | _ => _ end) as [upts untp].
  match goal with |- context [fmp4WriteSample m ti true false ?s] =>
    pose proof (cfg_fmp4WriteSample m ti true false s) as H1;
    destruct (fmp4WriteSample m ti true false s) as [m' r] end.
  cbn [fst] in H1. destruct r as [u|e|p]; [|exact H1|exact H1].
  destruct k; rewrite IH; exact H1.
Qed.

Lemma cfg_write_audio m ti t a : m_cfg (fst (write_audio m ti t a)) = m_cfg m.
Proof.
  unfold write_audio.
  destruct (c_variant (m_cfg m)); try apply cfg_write_audio_units.
  destruct (nth_error (m_streams m) (tk_stream t)) as [s|]; [|reflexivity].
  match goal with |- context [if ?c then wok m else _] => destruct c; [reflexivity|] end.
  rewrite cfg_ts_write.
  destruct (tk_leading t); [|reflexivity].
  match goal with |- m_cfg (if ?c then _ else _) = _ => destruct c end; [reflexivity|].
  destruct (st_open s); [|reflexivity].
  match goal with |- m_cfg (if ?c then _ else _) = _ => destruct c end; [|reflexivity].
  now rewrite cfg_rotateSegments.
Qed.

Lemma cfg_mux_step m o : m_cfg (fst (mux_step m o)) = m_cfg m.
Proof.
  destruct o as [ti a]. unfold mux_step, mux_write.
  destruct (nth_error (m_tracks m) ti) as [t|]; [|reflexivity].
  destruct (isVideo _); [apply cfg_write_video|apply cfg_write_audio].
Qed.

Lemma cfg_mux_run ops : forall m, m_cfg (mux_run m ops) = m_cfg m.
Proof.
  induction ops as [|o ops IH]; intros m; [reflexivity|]. cbn [mux_run]. now rewrite IH, cfg_mux_step.
Qed.

(* ---------------------------------------------------------------- generic traversal *)
(* A state predicate GG that is preserved by the primitive state operations is preserved by
   mux_step and mux_run. *)
(* the attributes of a track that no operation changes *)
Definition tk_static (t : trk) : tcfg * bool * nat := (tk_cfg t, tk_leading t, tk_stream t).
(* ... and those that only muxerPart.writeSample / finalize change: everything but the look-ahead
   sample, the first-random-access flag and the current parameters *)
Definition tk_frame (t : trk) : tcfg * bool * nat * option (list sample) * Z :=
  (tk_cfg t, tk_leading t, tk_stream t, tk_samples t, tk_start t).

Lemma map_upd_static {A B} (g : A -> B) (l : list A) i f :
  (forall x, g (f x) = g x) -> map g (upd l i f) = map g l.
Proof.
  intros Hf. revert i. induction l as [|x l IH]; intros [|i]; simpl; auto; now rewrite ?Hf, ?IH.
Qed.

(* "the stream has an open segment" (absent streams count as not open) *)
Definition opened_at (m : mstate) (si : nat) : bool :=
  match nth_error (m_streams m) si with
  | Some s => match st_open s with Some _ => true | None => false end
  | None => false
  end.

Section TraverseC.
  (* traversal with the two composite rotations (Muxer.rotatePartsInner / rotateSegmentsInner) as units *)
  Variable GG : mstate -> Prop.
  Hypothesis H_frame : forall m tracks pending sdurs adj freeze errs,
    map tk_frame tracks = map tk_frame (m_tracks m) ->
    GG m -> GG {| m_cfg := m_cfg m; m_tracks := tracks; m_streams := m_streams m; m_pending := pending;
                  m_sdurs := sdurs; m_adj := adj; m_freeze := freeze; m_paths := m_paths m; m_errs := errs |}.
  (* createFirstSegment is only ever called for a track of the state whose stream is not open *)
  Hypothesis H_create : forall m d ntp ti t,
    nth_error (m_tracks m) ti = Some t -> opened_at m (tk_stream t) = false ->
    GG m -> GG (createFirstSegment m d ntp).
  Hypothesis HC_rotP : forall m d, GG m -> GG (rotateParts m d).
  Hypothesis HC_rotS : forall m d ntp f, GG m -> GG (rotateSegments m d ntp f).
  Hypothesis H_pws : forall m ti si smp m', GG m -> part_writeSample m ti si smp = Ok m' -> GG m'.
  Hypothesis H_ts : forall m si u size e inc, GG m -> GG (fst (ts_write m si u size e inc)).

  Lemma TC_upd_track m i f : (forall t, tk_frame (f t) = tk_frame t) -> GG m -> GG (upd_track m i f).
  Proof. intros Hf H. unfold upd_track, set_tracks. apply H_frame; [now apply map_upd_static|exact H]. Qed.
  Lemma TC_set_pending m b : GG m -> GG (set_pending m b).
  Proof. intros H. unfold set_pending. now apply H_frame. Qed.
  Lemma TC_set_adj m a b c : GG m -> GG (set_adj m a b c).
  Proof. intros H. unfold set_adj. now apply H_frame. Qed.
  Ltac tut := apply TC_upd_track; [intros ?; reflexivity|].

  Lemma TC_adjust m sd : GG m -> GG (fmp4AdjustPartDuration m sd).
  Proof.
    intros H. unfold fmp4AdjustPartDuration. destruct (c_variant (m_cfg m)); auto.
    destruct (m_freeze m); auto. destruct (sd =? 0); auto. destruct (existsb _ _); auto.
    now apply TC_set_adj.
  Qed.

  Lemma TC_fmp4WriteSample m ti ra pc smp : GG m -> GG (fst (fmp4WriteSample m ti ra pc smp)).
  Proof.
    intros H. unfold fmp4WriteSample.
    destruct (nth_error (m_tracks m) ti) as [t|] eqn:Ht; [|exact H].
    destruct (_ <? 0); [exact H|].
    destruct (tk_next t) as [prev|]; [|cbn [fst wok]; (tut; assumption)].
    match goal with |- context [if ?c then wok ?a else _] =>
      destruct c; [cbn [fst wok]; (tut; assumption)|] end.
    match goal with |- context [part_writeSample ?m3 ti ?si ?smp] =>
      assert (H3 : GG m3); [|destruct (part_writeSample m3 ti si smp) as [m4| |] eqn:Ew; [|exact H3|exact H3]] end.
    { match goal with |- GG (if ?c then fmp4AdjustPartDuration ?x ?y else ?z) => destruct c end;
        try apply TC_adjust;
        (match goal with |- GG (if ?c then createFirstSegment ?x ?y ?z else ?w) => destruct c eqn:Ec end;
         [|(tut; assumption)]);
        (apply andb_true_iff in Ec; destruct Ec as [_ Ec]; apply negb_true_iff in Ec;
         eapply H_create; [apply (nth_error_upd_same _ ti _ t Ht)|exact Ec|(tut; assumption)]). }
    pose proof (H_pws _ _ _ _ _ H3 Ew) as H4.
    destruct (negb (tk_leading t)); [exact H4|].
    destruct (nth_error (m_streams m4) (tk_stream t)) as [s|]; [|exact H4].
    match goal with |- context [if ?c then _ else _] => destruct c end.
    - destruct pc; cbn [fst wok]; apply TC_set_adj; now apply HC_rotS.
    - match goal with |- context [if ?c then _ else _] => destruct c end; [|exact H4].
      cbn [fst wok]. now apply HC_rotP.
  Qed.

  Lemma TC_video_params m ti t a ex : GG m -> GG (fst (video_params m ti t a ex)).
  Proof.
    intros H. unfold video_params.
    destruct (a_params a) as [p|].
    - destruct (ex && negb (p =? tk_params t));
        match goal with |- context [if ?c then _ else _] => destruct c end; cbn [fst];
        repeat (first [apply TC_set_pending | tut]); exact H.
    - match goal with |- context [if ?c then _ else _] => destruct c end; cbn [fst];
        repeat (first [apply TC_set_pending | tut]); exact H.
  Qed.

  Lemma video_params_track m ti t a ex :
    nth_error (m_tracks m) ti = Some t ->
    exists t1, nth_error (m_tracks (fst (video_params m ti t a ex))) ti = Some t1 /\ tk_stream t1 = tk_stream t.
  Proof.
    intros Ht. unfold video_params.
    destruct (a_params a) as [p|].
    - destruct (ex && negb (p =? tk_params t));
        match goal with |- context [if ?c then _ else _] => destruct c end; cbn [fst set_pending upd_track set_tracks m_tracks];
        try (rewrite (nth_error_upd_same _ ti _ t Ht)); eauto.
    - match goal with |- context [if ?c then _ else _] => destruct c end; cbn [fst set_pending m_tracks]; eauto.
  Qed.

  Lemma TC_write_video m ti t a : nth_error (m_tracks m) ti = Some t -> GG m -> GG (fst (write_video m ti t a)).
  Proof.
    intros Ht H. unfold write_video.
    set (ex := match t_kind (tk_cfg t) with H264 | H265 => true | _ => a_ra a end).
    pose proof (TC_video_params m ti t a ex H) as H1.
    destruct (video_params_track m ti t a ex Ht) as (t1 & Ht1 & Es1).
    destruct (video_params m ti t a ex) as [m1 pc]. cbn [fst] in H1, Ht1.
    assert (H2 : GG (set_firstRA m1 ti)) by (unfold set_firstRA; (tut; assumption)).
    destruct (t_kind (tk_cfg t)).
    - destruct (negb (a_ra a) && negb (a_nonidr a)); [exact H1|].
      destruct (negb (tk_firstRA t) && negb (a_ra a)); [exact H1|].
      destruct (c_variant (m_cfg m)).
      + apply H_ts.
        match goal with |- GG (if ?c then _ else _) => destruct c eqn:Ec end.
        * apply negb_true_iff in Ec.
          eapply (H_create _ _ _ ti); [unfold set_firstRA, upd_track; cbn [set_tracks m_tracks]; apply (nth_error_upd_same _ ti _ t1 Ht1)| |exact H2].
          cbn [tk_with tk_stream]. rewrite Es1. exact Ec.
        * destruct (nth_error (m_streams (set_firstRA m1 ti)) (tk_stream t)); [|exact H2].
          match goal with |- GG (if ?c then _ else _) => destruct c end; [|exact H2].
          now apply HC_rotS.
      + apply TC_fmp4WriteSample. exact H2.
      + apply TC_fmp4WriteSample. exact H2.
    - destruct (negb (tk_firstRA t) && negb (a_ra a)); [exact H1|]. apply TC_fmp4WriteSample. exact H2.
    - destruct (negb (tk_firstRA t) && negb (a_ra a)); [exact H1|]. apply TC_fmp4WriteSample. exact H2.
    - destruct (negb (tk_firstRA t) && negb (a_ra a)); [exact H1|]. apply TC_fmp4WriteSample. exact H2.
    - destruct (negb (tk_firstRA t) && negb (a_ra a)); [exact H1|]. apply TC_fmp4WriteSample. exact H2.
    - destruct (negb (tk_firstRA t) && negb (a_ra a)); [exact H1|]. apply TC_fmp4WriteSample. exact H2.
  Qed.

  Lemma TC_write_audio_units units : forall m ti k rate srate i pts ntp,
    GG m -> GG (fst (write_audio_units m ti k rate srate i pts ntp units)).
  Proof.
    induction units as [|x units IH]; intros m ti k rate srate i pts ntp H; [exact H|].
    cbn [write_audio_units].
    destruct (match k with OPUS => (pts, ntp) | _ => _ end) as [upts untp].
    match goal with |- context [fmp4WriteSample m ti true false ?s] =>
      pose proof (TC_fmp4WriteSample m ti true false s H) as H1;
      destruct (fmp4WriteSample m ti true false s) as [m' r] end.
    cbn [fst] in H1. destruct r as [u|e|p]; [|exact H1|exact H1].
    destruct k; apply IH; exact H1.
  Qed.

  Lemma TC_write_audio m ti t a : nth_error (m_tracks m) ti = Some t -> GG m -> GG (fst (write_audio m ti t a)).
  Proof.
    intros Ht H. unfold write_audio.
    destruct (c_variant (m_cfg m)); try (apply TC_write_audio_units; exact H).
    destruct (nth_error (m_streams m) (tk_stream t)) as [s|] eqn:Es; [|exact H].
    match goal with |- context [if ?c then wok m else _] => destruct c; [exact H|] end.
    apply H_ts.
    destruct (tk_leading t); [|exact H].
    match goal with |- GG (if ?c then _ else _) => destruct c eqn:Ec end.
    - apply negb_true_iff in Ec. eapply H_create; [exact Ht| |exact H].
      unfold opened_at. rewrite Es. exact Ec.
    - destruct (st_open s); [|exact H].
      match goal with |- GG (if ?c then _ else _) => destruct c end; [|exact H].
      now apply HC_rotS.
  Qed.

  Lemma TC_mux_step m o : GG m -> GG (fst (mux_step m o)).
  Proof.
    intros H. destruct o as [ti a]. unfold mux_step, mux_write.
    destruct (nth_error (m_tracks m) ti) as [t|] eqn:Ht; [|exact H].
    destruct (isVideo _); [now apply TC_write_video|now apply TC_write_audio].
  Qed.

  Lemma TC_mux_run ops : forall m, GG m -> GG (mux_run m ops).
  Proof.
    induction ops as [|o ops IH]; intros m H; [exact H|]. cbn [mux_run]. apply IH. now apply TC_mux_step.
  Qed.
End TraverseC.

Section Traverse.
  Variable GG : mstate -> Prop.
  Hypothesis H_frame : forall m tracks pending sdurs adj freeze errs,
    map tk_frame tracks = map tk_frame (m_tracks m) ->
    GG m -> GG {| m_cfg := m_cfg m; m_tracks := tracks; m_streams := m_streams m; m_pending := pending;
                  m_sdurs := sdurs; m_adj := adj; m_freeze := freeze; m_paths := m_paths m; m_errs := errs |}.
  (* createFirstSegment is only ever called for a track of the state whose stream is not open *)
  Hypothesis H_create : forall m d ntp ti t,
    nth_error (m_tracks m) ti = Some t -> opened_at m (tk_stream t) = false ->
    GG m -> GG (createFirstSegment m d ntp).
  Hypothesis H_rotp : forall m si d, GG m -> GG (stream_rotateParts m si d true).
  Hypothesis H_rots : forall m si d ntp f, GG m -> GG (stream_rotateSegments m si d ntp f).
  Hypothesis H_copy : forall m i (l : stream) (both : bool),
    GG m -> GG (upd_stream m i (copy_targets both l)).
  Hypothesis H_pws : forall m ti si smp m', GG m -> part_writeSample m ti si smp = Ok m' -> GG m'.
  Hypothesis H_ts : forall m si u size e inc, GG m -> GG (fst (ts_write m si u size e inc)).

  Lemma fold_T {A} (f : mstate -> A -> mstate) (l : list A) :
    (forall m a, GG m -> GG (f m a)) -> forall m, GG m -> GG (fold_left f l m).
  Proof. intros Hf. induction l as [|a l IH]; intros m Hm; simpl; auto. Qed.

  Lemma T_rotate_others m1 f both :
    (forall m i, GG m -> GG (f m i)) -> GG m1 -> GG (rotate_others m1 f both).
  Proof.
    intros Hf H. unfold rotate_others. apply fold_T; [|exact H].
    intros m i Hm. destruct (nth_error (m_streams m) i) as [s|]; [|exact Hm].
    destruct (st_leading s); [exact Hm|].
    destruct (leading_stream (f m i)); [apply H_copy|]; now apply Hf.
  Qed.

  Lemma T_rotateParts m d : GG m -> GG (rotateParts m d).
  Proof.
    intros H. unfold rotateParts. apply T_rotate_others; [|now apply H_rotp].
    intros; now apply H_rotp.
  Qed.

  Lemma T_rotateSegments m d ntp f : GG m -> GG (rotateSegments m d ntp f).
  Proof.
    intros H. unfold rotateSegments. apply T_rotate_others; [|now apply H_rots].
    intros; now apply H_rots.
  Qed.


  Lemma T_mux_step m o : GG m -> GG (fst (mux_step m o)).
  Proof. apply (TC_mux_step GG); auto using T_rotateParts, T_rotateSegments. Qed.

  Lemma T_mux_run ops : forall m, GG m -> GG (mux_run m ops).
  Proof.
    induction ops as [|o ops IH]; intros m H; [exact H|]. cbn [mux_run]. apply IH. now apply T_mux_step.
  Qed.
End Traverse.

(* ---------------------------------------------------------------- per-stream invariants *)
Section Lift.
  Variable P : cfg -> stream -> Prop.

  Hypothesis P_create : forall c s d ntp, P c s -> P c (stream_createFirst (c_variant c) s d ntp).
  Hypothesis P_rotp : forall m si d,
    Forall (P (m_cfg m)) (m_streams m) -> Forall (P (m_cfg m)) (m_streams (stream_rotateParts m si d true)).
  Hypothesis P_rots : forall m si d ntp f,
    Forall (P (m_cfg m)) (m_streams m) -> Forall (P (m_cfg m)) (m_streams (stream_rotateSegments m si d ntp f)).
  (* writes into the open segment / part: anything that keeps ids, times and the part list *)
  Hypothesis P_open : forall c s g p,
    P c s ->
    (forall g0, st_open s = Some g0 ->
       sg_gap g = sg_gap g0 /\ sg_id g = sg_id g0 /\ sg_ntp g = sg_ntp g0 /\ sg_start g = sg_start g0
       /\ sg_forced g = sg_forced g0 /\ sg_parts g = sg_parts g0) ->
    (forall p0, st_openpart s = Some p0 -> exists p1, p = Some p1 /\ p_id p1 = p_id p0 /\ p_start p1 = p_start p0) ->
    (st_openpart s = None -> p = None) ->
    st_open s <> None ->
    P c (st_with s {| x_nextSeg := st_nextSeg s; x_nextPart := st_nextPart s; x_segments := st_segments s;
                      x_open := Some g; x_openpart := p; x_init := st_init s;
                      x_delcount := st_delcount s; x_target := st_target s;
                      x_parttarget := st_parttarget s; x_evicted := st_evicted s |}).
  Hypothesis P_targets : forall c s t pt,
    st_leading s = false ->
    P c s ->
    P c (st_with s {| x_nextSeg := st_nextSeg s; x_nextPart := st_nextPart s; x_segments := st_segments s;
                      x_open := st_open s; x_openpart := st_openpart s; x_init := st_init s;
                      x_delcount := st_delcount s; x_target := t;
                      x_parttarget := pt; x_evicted := st_evicted s |}).

  Definition G (m : mstate) : Prop := Forall (P (m_cfg m)) (m_streams m).

  Lemma G_createFirst m d ntp : G m -> G (createFirstSegment m d ntp).
  Proof.
    unfold G, createFirstSegment. cbn [set_stream m_cfg m_streams]. intros H.
    apply Forall_map. eapply Forall_impl; [|exact H]. intros s Hs. now apply P_create.
  Qed.

  Lemma G_rotp m si d : G m -> G (stream_rotateParts m si d true).
  Proof. unfold G. rewrite cfg_stream_rotateParts. apply P_rotp. Qed.

  Lemma G_rots m si d ntp f : G m -> G (stream_rotateSegments m si d ntp f).
  Proof. unfold G. rewrite cfg_stream_rotateSegments. apply P_rots. Qed.

  Lemma G_copy_targets m i (l : stream) (both : bool) :
    G m -> G (upd_stream m i (copy_targets both l)).
  Proof.
    unfold G, upd_stream. cbn [set_stream m_cfg m_streams]. intros H.
    apply Forall_upd; [exact H|]. intros s _ Hs. unfold copy_targets.
    destruct (st_leading s) eqn:El; [exact Hs|].
    cbn [st_mut x_nextSeg x_nextPart x_segments x_open
      x_openpart x_init x_delcount x_target x_evicted]. now apply P_targets.
  Qed.

  Lemma G_part_writeSample m ti si smp m' :
    G m -> part_writeSample m ti si smp = Ok m' -> G m'.
  Proof.
    intros H. unfold part_writeSample.
    destruct (nth_error (m_streams m) si) as [s|] eqn:Es; [|intros [= <-]; exact H].
    destruct (nth_error (m_tracks m) ti) as [t|]; [|intros [= <-]; exact H].
    destruct (st_open s) as [seg|] eqn:Eo; [|intros [= <-]; exact H].
    destruct (st_openpart s) as [p|] eqn:Ep; [|intros [= <-]; exact H].
    destruct (c_segmax (m_cfg m) <? sg_size seg + s_size smp); [discriminate|].
    intros [= <-]. unfold G, upd_stream, upd_track. cbn [set_stream set_tracks m_cfg m_streams].
    apply Forall_upd; [exact H|]. intros s0 Hs0 HP. rewrite Es in Hs0. injection Hs0 as <-.
    cbn [st_mut x_nextSeg x_nextPart x_segments x_open x_openpart x_init x_delcount x_target
         x_parttarget x_evicted].
    apply P_open; auto.
    - intros g0 Hg0. rewrite Eo in Hg0. injection Hg0 as <-. simpl. repeat split; auto.
    - intros p0 Hp0. rewrite Ep in Hp0. injection Hp0 as <-. eexists. split; [reflexivity|]. simpl. auto.
    - congruence.
    - congruence.
  Qed.

  Lemma G_ts_write m si u size e inc : G m -> G (fst (ts_write m si u size e inc)).
  Proof.
    intros H. unfold ts_write.
    destruct (nth_error (m_streams m) si) as [s|] eqn:Es; [|exact H].
    destruct (st_open s) as [seg|] eqn:Eo; [|exact H].
    destruct (c_segmax (m_cfg m) <? sg_size seg + size); [exact H|].
    cbn [fst wok]. unfold G, upd_stream. cbn [set_stream m_cfg m_streams].
    apply Forall_upd; [exact H|]. intros s0 Hs0 HP. rewrite Es in Hs0. injection Hs0 as <-.
    cbn [st_mut x_nextSeg x_nextPart x_segments x_open x_openpart x_init x_delcount x_target
         x_parttarget x_evicted].
    apply P_open; auto.
    - intros g0 Hg0. rewrite Eo in Hg0. injection Hg0 as <-. simpl. repeat split; auto.
    - intros p0 Hp0. exists p0. auto.
    - congruence.
  Qed.

  Lemma G_mux_step m o : G m -> G (fst (mux_step m o)).
  Proof.
    apply (T_mux_step G); auto using G_createFirst, G_rotp, G_rots, G_copy_targets, G_ts_write;
      try (intros; assumption); intros; eapply G_part_writeSample; eauto.
  Qed.

  Lemma G_mux_run ops : forall m, G m -> G (mux_run m ops).
  Proof.
    induction ops as [|o ops IH]; intros m H; [exact H|]. cbn [mux_run]. apply IH. now apply G_mux_step.
  Qed.
End Lift.
