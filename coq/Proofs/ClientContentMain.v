(* M9 proofs, part 3: MPEG-TS stream processor, playlist use, whole client run, fuel lemmas,
   refutation witnesses. *)
From Coq Require Import List ZArith Bool String Lia.
From GoHls Require Import Model.ClientContent Proofs.ClientContentOps Proofs.ClientContentFmp4.
Import ListNotations.
Local Open Scope Z_scope.

(* ====================================================================== MPEG-TS *)
Definition tlink (p : tsp) (c : option conv) : Prop :=
  s_procsInit p = true -> exists tc, c = Some (CTs tc).

Lemma handleData_90k_np : forall el pts dts, is_panic (handleData 90000 el pts dts) = false.
Proof. intros. apply handleData_np. lia. Qed.

Lemma ts_processSample_inv : forall p c el dt i rawPTS rawDTS counts,
  tlink p c -> conv_ok c ->
  is_panic (ts_processSample p c el dt i rawPTS rawDTS counts) = false /\
  forall p' c' counts', ts_processSample p c el dt i rawPTS rawDTS counts = Ok (p', c', counts') ->
    tlink p' c' /\ conv_ok c' /\ s_cst p' = s_cst p.
Proof.
  intros p c el dt i rawPTS rawDTS counts Hl Hc. unfold ts_processSample.
  set (isL := Nat.eqb i (s_leadingIdx p)).
  (* the initialization step *)
  assert (A : exists r,
     (if isL
      then if s_procsInit p then Ok (tsp_set p true true (s_dateTimeProcessed p), c)
           else c' <- ts_initializeTrackProcessors p c rawDTS ;; Ok (tsp_set p true true (s_dateTimeProcessed p), c')
      else Ok (p, c)) = r /\ is_panic r = false /\
     forall p1 c1, r = Ok (p1, c1) -> tlink p1 c1 /\ conv_ok c1 /\ s_cst p1 = s_cst p).
  { eexists. split; [reflexivity|]. destruct isL.
    - destruct (s_procsInit p) eqn:PI.
      + split; [reflexivity|]. intros p1 c1 E. inversion E; subst. splits; auto. intros _. apply Hl. auto.
      + unfold ts_initializeTrackProcessors. destruct (s_isLeading p).
        * cbn [bind]. split; [reflexivity|]. intros p1 c1 E. inversion E; subst. splits; cbn; auto.
          intros _. eauto.
        * destruct c as [[tc|tc]|]; cbn [bind]; (split; [reflexivity|]); try discriminate.
          intros p1 c1 E. inversion E; subst. splits; cbn; auto. intros _. eauto.
    - split; [reflexivity|]. intros p1 c1 E. inversion E; subst. auto. }
  destruct A as [r [-> [Nr Sr]]].
  destruct r as [[p1 c1]| | |]; cbn [bind]; try (split; [auto|discriminate]).
  destruct (Sr p1 c1 eq_refl) as [Hl1 [Hc1 Hcst]].
  destruct (s_procsInit p1) eqn:PI; cbn [negb].
  - destruct (Hl1 PI) as [tc ->]. cbn [leadingTimeConvMPEGTS bind].
    destruct (td_decode tc rawPTS) as [tc1 pts]. cbn [leadingTimeConvMPEGTS bind].
    destruct (td_decode tc1 rawDTS) as [tc2 dts].
    match goal with |- context [tgetNTP ?x ?y] => destruct (tgetNTP_ok x y) as [ntp ->] end. cbn [bind].
    split.
    + apply bind_np; [apply handleData_90k_np|]. intros; reflexivity.
    + intros p' c' counts' E. apply bind_ok in E. destruct E as [hr [_ E]]. inversion E; subst.
      splits; cbn; auto.
      * intros _. eauto.
      * destruct (negb (s_dateTimeProcessed p1) && s_isLeading p1 && isL); auto.
  - split; [reflexivity|]. intros p' c' counts' E. inversion E; subst. auto.
Qed.

Lemma ts_on_data_inv : forall p c el dt i pts dts counts,
  tlink p c -> conv_ok c ->
  is_panic (ts_on_data p c el dt i pts dts counts) = false /\
  forall p' c' counts', ts_on_data p c el dt i pts dts counts = Ok (p', c', counts') ->
    tlink p' c' /\ conv_ok c' /\ s_cst p' = s_cst p.
Proof.
  intros p c el dt i pts dts counts Hl Hc. unfold ts_on_data.
  destruct (nth_error (s_cst p) i) as [[[[]|] cr]|];
    try (apply ts_processSample_inv; auto);
    (split; [reflexivity|]; intros p' c' counts' E; inversion E; subst; auto).
Qed.

Section AnyReader.
  Context {R : Type}.
  Variable rd_read : R -> R * ts_read.

  Lemma ts_read_loop_inv : forall fuel rd p c el dt counts nerr,
    tlink p c -> conv_ok c ->
    is_panic (ts_read_loop rd_read fuel rd p c el dt counts nerr) = false /\
    forall rd' p' c' counts' nerr',
      ts_read_loop rd_read fuel rd p c el dt counts nerr = Ok (rd', p', c', counts', nerr') ->
      tlink p' c' /\ conv_ok c' /\ s_cst p' = s_cst p.
  Proof.
    induction fuel as [|fuel IH]; intros rd p c el dt counts nerr Hl Hc; cbn.
    - split; [reflexivity|discriminate].
    - destruct (rd_read rd) as [rd' x]. destruct x as [n i pts dts|n|n|n].
      + destruct (ts_on_data_inv p c el dt i pts dts counts Hl Hc) as [N S].
        destruct (ts_on_data p c el dt i pts dts counts) as [[[p' c'] counts']| | |]; cbn [bind];
          try (split; [auto|discriminate]).
        destruct (S _ _ _ eq_refl) as [a [b d]].
        destruct (IH rd' p' c' el dt counts' (nerr + n)%nat a b) as [N2 S2]. split; auto.
        intros. destruct (S2 _ _ _ _ _ H) as [x [y z]]. splits; auto. congruence.
      + apply IH; auto.
      + split; [reflexivity|discriminate].
      + split; [reflexivity|]. intros ? ? ? ? ? E. inversion E; subst. auto.
  Qed.

  (* the reader oracle's contract: a Read that neither fails nor reports the end of the
     input has consumed at least one packet *)
  Variable rd_size : R -> nat.
  Hypothesis rd_contract : forall r r' x, rd_read r = (r', x) ->
    match x with RData _ _ _ _ | RNone _ => (rd_size r' < rd_size r)%nat | _ => True end.

  Lemma ts_on_data_noof : forall p c el dt i pts dts counts,
    is_oof (ts_on_data p c el dt i pts dts counts) = false.
  Proof.
    intros. unfold ts_on_data.
    assert (K : forall a b, is_oof (ts_processSample p c el dt i a b counts) = false).
    { intros. unfold ts_processSample. apply bind_noof.
      - destruct (Nat.eqb i (s_leadingIdx p)); auto. destruct (s_procsInit p); auto.
        apply bind_noof; [|auto]. unfold ts_initializeTrackProcessors.
        destruct (s_isLeading p); auto. destruct c as [[|]|]; auto.
      - intros [p1 c1] _. destruct (negb (s_procsInit p1)); auto.
        apply bind_noof; [destruct c1 as [[|]|]; auto|]. intros tc0 _.
        destruct (td_decode tc0 a) as [tc1 pts']. cbn [leadingTimeConvMPEGTS bind].
        destruct (td_decode tc1 b) as [tc2 dts'].
        apply bind_noof.
        + match goal with |- context [tgetNTP ?x ?y] => destruct (tgetNTP_ok x y) as [nn ->] end. reflexivity.
        + intros. apply bind_noof; [apply handleData_noof|auto]. }
    destruct (nth_error (s_cst p) i) as [[[[]|] cr]|]; auto.
  Qed.

  Lemma ts_read_loop_fuel : forall fuel rd p c el dt counts nerr,
    (rd_size rd < fuel)%nat -> is_oof (ts_read_loop rd_read fuel rd p c el dt counts nerr) = false.
  Proof.
    induction fuel as [|fuel IH]; intros rd p c el dt counts nerr H; [lia|]. cbn.
    destruct (rd_read rd) as [rd' x] eqn:E. pose proof (rd_contract _ _ _ E) as C.
    destruct x as [n i pts dts|n|n|n]; auto.
    - apply bind_noof; [apply ts_on_data_noof|]. intros [[p' c'] counts'] _. apply IH. lia.
    - apply IH. lia.
  Qed.
End AnyReader.

Lemma list_reader_contract : forall (r r' : list ts_read) x, list_reader r = (r', x) ->
  match x with RData _ _ _ _ | RNone _ => (List.length r' < List.length r)%nat | _ => True end.
Proof.
  intros r r' x E. destruct r as [|y r0]; cbn in E; inversion E; subst; auto.
  destruct x; cbn; auto.
Qed.

Lemma ts_processSegment_inv : forall p c el seg counts nerr,
  tlink p c -> conv_ok c ->
  is_panic (ts_processSegment p c el seg counts nerr) = false /\
  forall p' c' counts' nerr', ts_processSegment p c el seg counts nerr = Ok (p', c', counts', nerr') ->
    tlink p' c' /\ conv_ok c'.
Proof.
  intros p c el seg counts nerr Hl Hc. unfold ts_processSegment.
  set (p0 := tsp_set p (s_procsInit p) false false).
  assert (Hl0 : tlink p0 c) by (unfold tlink, p0; cbn; auto).
  destruct (ts_read_loop_inv list_reader (S (List.length (tg_reads seg))) (tg_reads seg) p0 c el
              (tg_dateTime seg) counts nerr Hl0 Hc) as [N S].
  destruct (ts_read_loop _ _ _ _ _ _ _ _ _) as [[[[[rd' p1] c1] counts1] nerr1]| | |]; cbn [bind];
    try (split; [auto|discriminate]).
  destruct (S _ _ _ _ _ eq_refl) as [a [b _]].
  destruct (negb (s_leadingTrackFound p1)); (split; [reflexivity|]); [discriminate|].
  intros ? ? ? ? E. inversion E; subst. auto.
Qed.

Lemma ts_processSegment_noof : forall p c el seg counts nerr,
  is_oof (ts_processSegment p c el seg counts nerr) = false.
Proof.
  intros. unfold ts_processSegment. apply bind_noof.
  - apply (ts_read_loop_fuel list_reader (@List.length ts_read) list_reader_contract). lia.
  - intros [[[[rd' p1] c1] counts1] nerr1] _. destruct (negb (s_leadingTrackFound p1)); auto.
Qed.

Lemma ts_run_loop_np : forall fuel p c el queue counts nerr,
  tlink p c -> conv_ok c ->
  is_panic (ts_run_loop fuel p c el queue counts nerr) = false /\
  forall c' counts' nerr', ts_run_loop fuel p c el queue counts nerr = Ok (c', counts', nerr') -> conv_ok c'.
Proof.
  induction fuel as [|fuel IH]; intros p c el queue counts nerr Hl Hc; cbn.
  - split; [reflexivity|discriminate].
  - destruct queue as [|[seg|] q].
    + split; [reflexivity|discriminate].
    + destruct (ts_processSegment_inv p c el seg counts nerr Hl Hc) as [N S].
      destruct (ts_processSegment p c el seg counts nerr) as [[[[p' c'] counts'] nerr']| | |]; cbn [bind];
        try (split; [auto|discriminate]).
      destruct (S _ _ _ _ eq_refl) as [a b]. apply IH; auto.
    + split; [reflexivity|]. intros ? ? ? E. inversion E; subst. auto.
Qed.

Lemma ts_run_loop_fuel : forall queue fuel p c el counts nerr,
  (List.length queue < fuel)%nat -> is_oof (ts_run_loop fuel p c el queue counts nerr) = false.
Proof.
  induction queue as [|[seg|] q IH]; intros fuel p c el counts nerr H; (destruct fuel as [|fuel]; [lia|]); cbn; auto.
  apply bind_noof; [apply ts_processSegment_noof|].
  intros [[[p' c'] counts'] nerr'] _. apply IH. cbn in H. lia.
Qed.

Lemma ts_initializeReader_np : forall pmt, is_panic (ts_initializeReader pmt) = false.
Proof.
  intros [all|]; cbn; auto. destruct (filter ts_supported all); auto.
  destruct (_ >? clientMaxTracksPerStream); auto.
Qed.

Lemma ts_initializeReader_noof : forall pmt, is_oof (ts_initializeReader pmt) = false.
Proof.
  intros [all|]; cbn; auto. destruct (filter ts_supported all); auto.
  destruct (_ >? clientMaxTracksPerStream); auto.
Qed.

(* only supported codecs become tracks: the MPEG-TS path never exposes a nil Codec *)
Lemma ts_tracks_have_codec : forall pmt lead ts,
  ts_initializeReader pmt = Ok (lead, ts) -> Forall (fun t => t_codec t <> None) ts.
Proof.
  intros [all|] lead ts E; cbn in E; [|discriminate].
  assert (Hs : forall c, In c (filter ts_supported all) -> ts_supported c = true)
    by (intros c Hc; apply filter_In in Hc; tauto).
  destruct (filter ts_supported all) as [|x r]; [discriminate|].
  destruct (_ >? clientMaxTracksPerStream); [discriminate|]. inversion E; subst.
  change (Forall (fun t => t_codec t <> None)
                 (map (fun c => {| t_codec := FromMPEGTS c; t_clockRate := 90000 |}) (x :: r))).
  apply Forall_forall. intros t Hin. apply in_map_iff in Hin. destruct Hin as [c [<- Hc]]. cbn.
  apply FromMPEGTS_supported. apply Hs. auto.
Qed.

(* ====================================================================== playlists *)
Lemma all_some_in : forall A (l : list (option A)) o, all_some l = true -> In o l -> exists x, o = Some x.
Proof.
  intros A l o H Hin. unfold all_some in H. rewrite forallb_forall in H. specialize (H o Hin).
  destruct o; [eauto|discriminate].
Qed.

Lemma all_some_cons : forall A (o : option A) l, all_some (o :: l) = true -> (exists x, o = Some x) /\ all_some l = true.
Proof.
  intros A o l H. unfold all_some in *. cbn in H. apply andb_true_iff in H. destruct H as [H1 H2].
  destruct o; [eauto|discriminate].
Qed.

Lemma candidates_ok : forall vs, all_some vs = true -> exists c, candidates vs = Ok c.
Proof.
  induction vs as [|o r IH]; intros H; cbn; [eauto|].
  apply all_some_cons in H. destruct H as [[v ->] Hr]. cbn [deref bind].
  destruct (IH Hr) as [c ->]. cbn [bind]. eauto.
Qed.

Lemma getRenditionsByGroup_ok : forall rs g, all_some rs = true -> exists l, getRenditionsByGroup rs g = Ok l.
Proof.
  induction rs as [|o r IH]; intros g H; cbn; [eauto|].
  apply all_some_cons in H. destruct H as [[v ->] Hr]. cbn [deref bind].
  destruct (IH g Hr) as [l ->]. cbn [bind]. eauto.
Qed.

Lemma rendition_streams_np : forall rs, is_panic (rendition_streams rs) = false.
Proof.
  induction rs as [|pl r IH]; cbn; auto.
  destruct (r_uri pl) as [u|]; auto.
  apply bind_np; [unfold clientAbsoluteURL; destruct (u_parse_ok u); auto|].
  intros. apply bind_np; auto.
Qed.

Lemma primary_streams_np : forall pl, structural_ok pl = true -> is_panic (primary_streams pl) = false.
Proof.
  intros [m|m] H; cbn; auto. cbn in H. apply andb_true_iff in H. destruct H as [Hv Hr].
  unfold pickLeadingPlaylist. destruct (candidates_ok _ Hv) as [c ->]. cbn [bind].
  destruct (greatest c None) as [v|]; auto.
  apply bind_np; [unfold clientAbsoluteURL; destruct (u_parse_ok _); auto|]. intros u _.
  destruct (String.eqb (v_audio v) ""); auto.
  destruct (getRenditionsByGroup_ok _ (v_audio v) Hr) as [l ->]. cbn [bind].
  destruct l; auto. apply bind_np; [apply rendition_streams_np|auto].
Qed.

Lemma primary_streams_noof : forall pl, is_oof (primary_streams pl) = false.
Proof.
  intros [m|m]; cbn; auto. apply bind_noof.
  - unfold pickLeadingPlaylist. apply bind_noof; [|auto].
    induction (mv_variants m) as [|o r IH]; cbn; auto.
    apply bind_noof; [apply deref_noof|]. intros. apply bind_noof; auto.
  - intros [v|] _; auto. apply bind_noof; [unfold clientAbsoluteURL; destruct (u_parse_ok _); auto|]. intros.
    destruct (String.eqb (v_audio v) ""); auto. apply bind_noof.
    + induction (mv_renditions m) as [|o r IH]; cbn; auto.
      apply bind_noof; [apply deref_noof|]. intros. apply bind_noof; auto.
    + intros [|x l] _; auto. apply bind_noof; [|auto].
      induction (x :: l) as [|pl r IH]; cbn; auto. destruct (r_uri pl) as [u|]; auto.
      apply bind_noof; [unfold clientAbsoluteURL; destruct (u_parse_ok u); auto|]. intros. apply bind_noof; auto.
Qed.

Lemma add_parts_ok : forall parts d, all_some parts = true -> exists x, add_parts d parts = Ok x.
Proof.
  induction parts as [|o r IH]; intros d H; cbn; [eauto|].
  apply all_some_cons in H. destruct H as [[p ->] Hr]. cbn [deref bind]. apply IH; auto.
Qed.

Lemma index_at_some : forall A (l : list (option A)) i,
  all_some l = true -> 0 <= i < zlen l -> exists x, index_at l i = Ok (Some x).
Proof.
  intros A l i H Hi. destruct (index_at_ok _ l i Hi) as [o [E N]].
  apply nth_error_In in N. destruct (all_some_in _ _ _ H N) as [x ->]. eauto.
Qed.

Lemma zlen_nonneg : forall A (l : list A), 0 <= zlen l.
Proof. intros. unfold zlen. lia. Qed.

Lemma dateTimeOfPreloadHint_np : forall pl,
  all_some (um_segments pl) = true -> all_some (um_parts pl) = true ->
  is_panic (dateTimeOfPreloadHint pl) = false.
Proof.
  intros pl Hs Hp. unfold dateTimeOfPreloadHint.
  destruct (zlen (um_segments pl) =? 0) eqn:E; auto. apply Z.eqb_neq in E.
  pose proof (zlen_nonneg _ (um_segments pl)).
  destruct (index_at_some _ (um_segments pl) (zlen (um_segments pl) - 1) Hs) as [s ->]; [lia|].
  cbn [bind deref]. destruct (us_dateTime s); auto.
  destruct (add_parts_ok (um_parts pl) (z + us_duration s) Hp) as [x ->]. reflexivity.
Qed.

Lemma fillSegmentQueue_np : forall first cur pl,
  all_some (um_segments pl) = true -> is_panic (fillSegmentQueue first cur pl) = false.
Proof.
  intros first cur pl Hs. unfold fillSegmentQueue.
  pose proof (zlen_nonneg _ (um_segments pl)) as Hz.
  apply bind_np.
  - destruct cur as [id|].
    + unfold findSegmentWithID.
      destruct ((id + 1 - um_mediaSequence pl <? 0) || (zlen (um_segments pl) <=? id + 1 - um_mediaSequence pl)) eqn:G; auto.
      apply orb_false_iff in G. destruct G as [G1 G2]. apply Z.ltb_ge in G1. apply Z.leb_gt in G2.
      destruct (index_at_some _ (um_segments pl) _ Hs (conj G1 G2)) as [s ->]. cbn [bind].
      destruct (negb (um_endlist pl) && _); auto.
    + destruct (um_playlistType first) as [[|]|].
      * unfold findSegmentWithInvPosition.
        destruct (zlen (um_segments pl) - clientLiveInitialDistance <? 0) eqn:G; auto. apply Z.ltb_ge in G.
        destruct (index_at_some _ (um_segments pl) (zlen (um_segments pl) - clientLiveInitialDistance) Hs) as [s ->];
          [unfold clientLiveInitialDistance in *; lia|]. reflexivity.
      * destruct (zlen (um_segments pl) =? 0) eqn:G; auto. apply Z.eqb_neq in G.
        destruct (index_at_some _ (um_segments pl) 0 Hs) as [s ->]; [lia|]. reflexivity.
      * unfold findSegmentWithInvPosition.
        destruct (zlen (um_segments pl) - clientLiveInitialDistance <? 0) eqn:G; auto. apply Z.ltb_ge in G.
        destruct (index_at_some _ (um_segments pl) (zlen (um_segments pl) - clientLiveInitialDistance) Hs) as [s ->];
          [unfold clientLiveInitialDistance in *; lia|]. reflexivity.
  - intros [oseg segPos] E.
    (* the selected element is a non-nil pointer in every Ok case *)
    assert (exists s, oseg = Some s) as [s ->].
    { destruct cur as [id|].
      - apply bind_ok in E. destruct E as [r [_ E]].
        destruct r as [[[[s|] pos] inv]|]; try discriminate.
        destruct (negb (um_endlist pl) && _); inversion E; eauto.
      - destruct (um_playlistType first) as [[|]|].
        + apply bind_ok in E. destruct E as [r [_ E]]. destruct r as [[[s|] pos]|]; inversion E; eauto.
        + destruct (zlen (um_segments pl) =? 0) eqn:G; [discriminate|]. apply Z.eqb_neq in G.
          destruct (index_at_some _ (um_segments pl) 0 Hs) as [s Es]; [lia|]. rewrite Es in E. inversion E; eauto.
        + apply bind_ok in E. destruct E as [r [_ E]]. destruct r as [[[s|] pos]|]; inversion E; eauto. }
    cbn [deref bind]. apply bind_np; [unfold clientAbsoluteURL; destruct (u_parse_ok _); auto|]. intros _ _.
    apply bind_np; [|auto].
    destruct (um_endlist pl); auto.
    (* reaching this point means a segment was selected, so the list is not empty *)
    assert (0 < zlen (um_segments pl)) as Hpos.
    { destruct (um_segments pl) as [|x l] eqn:SE; [|unfold zlen; cbn [List.length]; lia].
      exfalso. destruct cur as [id|].
      - cbn in E. unfold findSegmentWithID in E. cbn in E.
        destruct ((id + 1 - um_mediaSequence pl <? 0) || (0 <=? id + 1 - um_mediaSequence pl)) eqn:G.
        + discriminate.
        + apply orb_false_iff in G. destruct G as [G1 G2]. apply Z.ltb_ge in G1. apply Z.leb_gt in G2. lia.
      - destruct (um_playlistType first) as [[|]|]; cbn in E; discriminate. }
    destruct (index_at_some _ (um_segments pl) (zlen (um_segments pl) - 1) Hs) as [l ->]; [lia|]. reflexivity.
Qed.

Lemma runLowLatency_round_np : forall first pl,
  all_some (um_segments pl) = true -> all_some (um_parts pl) = true ->
  um_preloadHint pl <> None -> um_serverControl first <> None ->
  is_panic (runLowLatency_round first pl) = false.
Proof.
  intros first pl Hs Hp Hh Hc. unfold runLowLatency_round.
  destruct (um_preloadHint pl) as [h|]; [|contradiction]. cbn [deref bind].
  apply bind_np; [unfold clientAbsoluteURL; destruct (u_parse_ok _); auto|]. intros _ _.
  apply bind_np; [apply dateTimeOfPreloadHint_np; auto|]. intros _ _.
  destruct (um_serverControl first); [reflexivity|contradiction].
Qed.

Lemma also_np : forall A B (a : res A) (b : res B),
  is_panic a = false -> is_panic b = false -> is_panic (also a b) = false.
Proof. intros A B [] []; cbn; auto. Qed.

Lemma client_use_media_np : forall first pl cur,
  all_some (um_segments first) = true -> all_some (um_parts first) = true ->
  all_some (um_segments pl) = true -> all_some (um_parts pl) = true ->
  is_panic (client_use_media first pl cur) = false.
Proof.
  intros first pl cur Hfs Hfp Hs Hp. unfold client_use_media.
  apply also_np.
  - unfold stream_is_fmp4. destruct (um_map first) as [u|]; auto.
    destruct (negb (u_empty u)); auto. cbn. unfold clientAbsoluteURL. destruct (u_parse_ok u); auto.
  - apply also_np.
    + destruct (stream_is_ll first) eqn:LL; auto.
      unfold stream_is_ll in LL.
      destruct (um_serverControl first) as [[[] ?]|] eqn:SC; try discriminate.
      destruct (um_preloadHint first) eqn:PH; try discriminate.
      apply also_np.
      * apply runLowLatency_round_np; auto; congruence.
      * destruct (um_preloadHint pl) eqn:PH2; auto.
        apply runLowLatency_round_np; auto; congruence.
    + apply also_np; apply fillSegmentQueue_np; auto.
Qed.

Lemma client_use_playlist_np : forall first pl cur,
  structural_ok first = true -> structural_ok pl = true ->
  is_panic (client_use_playlist first pl cur) = false.
Proof.
  intros [f|f] [m|m] cur Hf Hm; cbn [client_use_playlist]; auto.
  - cbn in Hf, Hm. apply andb_true_iff in Hf, Hm. destruct Hf, Hm. apply client_use_media_np; auto.
  - apply bind_np; [apply primary_streams_np; auto|auto].
  - apply bind_np; [apply primary_streams_np; auto|auto].
Qed.

(* the guarantee is needed: a nil element makes the same code panic *)
Example client_use_playlist_needs_structure :
  exists first, structural_ok first = false /\ client_use_playlist first first None = Panic PNilDeref.
Proof.
  exists (PLMedia {| um_mediaSequence := 0; um_segments := [None]; um_parts := []; um_map := None;
                     um_serverControl := None; um_preloadHint := None; um_playlistType := Some PTVod;
                     um_endlist := false |}).
  split; reflexivity.
Qed.

(* runTraditional: one server answer per iteration *)
Lemma fillSegmentQueue_noof : forall first cur pl, is_oof (fillSegmentQueue first cur pl) = false.
Proof.
  intros. unfold fillSegmentQueue. apply bind_noof.
  - destruct cur as [id|].
    + apply bind_noof.
      * unfold findSegmentWithID. destruct (_ || _); auto. apply bind_noof; [apply index_at_noof|auto].
      * intros [[[[s|] pos] inv]|] _; auto. destruct (negb (um_endlist pl) && _); auto.
    + destruct (um_playlistType first) as [[|]|].
      * apply bind_noof.
        -- unfold findSegmentWithInvPosition. destruct (_ <? 0); auto. apply bind_noof; [apply index_at_noof|auto].
        -- intros [[[s|] pos]|] _; auto.
      * destruct (_ =? 0); auto. apply bind_noof; [apply index_at_noof|auto].
      * apply bind_noof.
        -- unfold findSegmentWithInvPosition. destruct (_ <? 0); auto. apply bind_noof; [apply index_at_noof|auto].
        -- intros [[[s|] pos]|] _; auto.
  - intros [oseg segPos] _. apply bind_noof; [apply deref_noof|]. intros.
    apply bind_noof; [unfold clientAbsoluteURL; destruct (u_parse_ok _); auto|]. intros.
    apply bind_noof; [|auto]. destruct (um_endlist pl); auto.
    apply bind_noof; [apply index_at_noof|auto].
Qed.

Lemma runTraditional_fuel : forall answers fuel first cur pl,
  (List.length answers < fuel)%nat -> is_oof (runTraditional fuel first cur pl answers) = false.
Proof.
  induction answers as [|a r IH]; intros fuel first cur pl H; (destruct fuel as [|fuel]; [lia|]); cbn.
  - apply bind_noof; [apply fillSegmentQueue_noof|]. intros [cur' ended] _. destruct ended; auto.
  - apply bind_noof; [apply fillSegmentQueue_noof|]. intros [cur' ended] _. destruct ended; auto.
    destruct a; auto. apply IH. cbn in H. lia.
Qed.

(* ====================================================================== whole run *)
Definition head_ok (h : head) : Prop :=
  match h with
  | HF p _ => fsp_ok p /\ f_procs p = None
  | HT p _ => s_procsInit p = false
  end.

(* per scenario: the repair is in, or the pinned tree's hypotheses hold *)
Definition scen_hyp (rp : repairs) (sc : scenario) : Prop :=
  rep_tracks rp = true \/ (forallb stream_wf (sc_streams sc) = true /\ all_supported sc = true).

Lemma stream_head_spec : forall rp sc isLeading r,
  scen_hyp rp sc ->
  is_panic (stream_head rp sc isLeading r) = false /\
  forall h, stream_head rp sc isLeading r = Ok h -> head_ok h.
Proof.
  intros rp sc isLeading r H. unfold stream_head. set (repaired := rep_tracks rp) in *.
  destruct (nth_error (sc_streams sc) _) as [s|] eqn:N; [|split; [reflexivity|discriminate]].
  apply nth_error_In in N.
  destruct s as [f|t].
  - assert (HH : match fs_init f with Some i => head_hyp repaired i | None => True end).
    { destruct (fs_init f) as [init|] eqn:FI; auto. destruct H as [H|[Hwf Hsup]]; [left; auto|right].
      unfold all_supported in Hsup. rewrite forallb_forall in Hwf, Hsup.
      specialize (Hwf _ N). specialize (Hsup _ N). cbn in Hwf, Hsup. rewrite FI in Hwf, Hsup.
      apply andb_true_iff in Hsup. tauto. }
    pose proof (fmp4_run_head_np repaired isLeading (fs_init f) HH) as NP.
    destruct (fs_segs f) as [|sg0 sgs] eqn:SG; [split; [reflexivity|discriminate]|]. rewrite <- SG.
    destruct (fmp4_run_head repaired isLeading (fs_init f)) as [[[lead ts] init]| | |] eqn:E; cbn [bind];
      try (split; [auto|discriminate]).
    split; [reflexivity|]. intros h Eh. inversion Eh; subst. cbn. split; auto.
    destruct (fs_init f) as [init0|]; [|cbn in E; discriminate].
    eapply fmp4_run_head_spec; eauto.
  - destruct (tst_segs t); [split; [reflexivity|discriminate]|].
    pose proof (ts_initializeReader_np (tst_pmt t)) as NP.
    destruct (ts_initializeReader (tst_pmt t)) as [[lead ts]| | |]; cbn [bind]; try (split; [auto|discriminate]).
    split; [reflexivity|]. intros h Eh. inversion Eh; subst. reflexivity.
Qed.

Lemma stream_head_noof : forall rp sc isLeading r, is_oof (stream_head rp sc isLeading r) = false.
Proof.
  intros. unfold stream_head. destruct (nth_error _ _) as [[f|t]|]; auto.
  - destruct (fs_segs f); auto. apply bind_noof; [apply fmp4_run_head_noof|]. intros [[lead ts] init] _. auto.
  - destruct (tst_segs t); auto. apply bind_noof; [apply ts_initializeReader_noof|]. intros [lead ts] _; auto.
Qed.

Lemma heads_spec : forall rp sc refs,
  scen_hyp rp sc ->
  is_panic (heads rp sc refs) = false /\ forall hs, heads rp sc refs = Ok hs -> Forall head_ok hs.
Proof.
  intros rp sc refs H. induction refs as [|[isL r] rest IH]; cbn.
  - split; [reflexivity|]. intros hs E. inversion E. constructor.
  - destruct (stream_head_spec rp sc isL r H) as [N S].
    destruct (stream_head rp sc isL r) as [h| | |]; cbn [bind]; try (split; [auto|discriminate]).
    destruct IH as [N2 S2]. destruct (heads rp sc rest) as [hs| | |]; cbn [bind]; try (split; [auto|discriminate]).
    split; [reflexivity|]. intros hs' E. inversion E; subst. constructor; auto.
Qed.

Lemma heads_noof : forall rp sc refs, is_oof (heads rp sc refs) = false.
Proof.
  intros rp sc refs. induction refs as [|[isL r] rest IH]; cbn; auto.
  apply bind_noof; [apply stream_head_noof|]. intros. apply bind_noof; auto.
Qed.

Lemma run_head_np : forall h c el,
  head_ok h -> conv_ok c ->
  is_panic (run_head h c el) = false /\
  forall c' counts n, run_head h c el = Ok (c', counts, n) -> conv_ok c'.
Proof.
  intros [p segs|p segs] c el Hh Hc; cbn [run_head].
  - destruct Hh as [Hok Hn].
    assert (Hl : link p c) by (unfold link; rewrite Hn; intro X; contradiction).
    destruct (fmp4_run_loop_np (S (S (List.length segs))) p c el (map Some segs ++ [None])
                (zero_counts (HF p segs)) Hok Hl Hc) as [N S].
    destruct (fmp4_run_loop _ _ _ _ _ _) as [[c' counts]| | |]; cbn [bind]; try (split; [auto|discriminate]).
    split; [reflexivity|]. intros ? ? ? E. inversion E; subst. eapply S; eauto.
  - assert (Hl : tlink p c) by (unfold tlink; rewrite Hh; discriminate).
    destruct (ts_run_loop_np (S (S (List.length segs))) p c el (map Some segs ++ [None])
                (zero_counts (HT p segs)) 0 Hl Hc) as [N S].
    split; auto.
Qed.

Lemma run_head_noof : forall h c el, is_oof (run_head h c el) = false.
Proof.
  intros [p segs|p segs] c el; cbn [run_head].
  - apply bind_noof; [|intros [c' counts] _; auto].
    apply fmp4_run_loop_fuel. rewrite app_length, map_length. cbn. lia.
  - apply ts_run_loop_fuel. rewrite app_length, map_length. cbn. lia.
Qed.

Lemma run_heads_np : forall hs c el acc nerr,
  Forall head_ok hs -> conv_ok c ->
  is_panic (snd (run_heads hs c el acc nerr)) = false.
Proof.
  induction hs as [|h rest IH]; intros c el acc nerr Hf Hc; cbn; auto.
  inversion Hf; subst. destruct (run_head_np h c el H1 Hc) as [N S].
  destruct (run_head h c el) as [[[c' counts] n]| | |]; cbn; auto.
  apply IH; auto. eapply S; eauto.
Qed.

Lemma run_heads_noof : forall hs c el acc nerr, is_oof (snd (run_heads hs c el acc nerr)) = false.
Proof.
  induction hs as [|h rest IH]; intros c el acc nerr; cbn; auto.
  pose proof (run_head_noof h c el) as N.
  destruct (run_head h c el) as [[[c' counts] n]| | |]; cbn; auto.
Qed.

Lemma client_run_gen_np : forall rp sc el,
  structural_ok (sc_primary sc) = true -> scen_hyp rp sc ->
  is_panic (o_end (client_run_gen rp sc el)) = false.
Proof.
  intros rp sc el Hst H. unfold client_run_gen.
  pose proof (primary_streams_np _ Hst) as NP.
  destruct (primary_streams (sc_primary sc)) as [refs| | |]; cbn; auto.
  destruct (heads_spec rp sc refs H) as [NH SH].
  destruct (heads rp sc refs) as [hs| | |]; cbn; auto.
  destruct (List.concat (map head_tracks hs)); cbn; auto.
  destruct (sc_onTracksErr sc); cbn; auto.
  pose proof (run_heads_np hs None el [] 0 (SH _ eq_refl) I) as R.
  destruct (run_heads hs None el [] 0) as [[counts nerr] e]. cbn in *. auto.
Qed.

Theorem client_run_np : forall sc el,
  mc_wf sc = true -> all_supported sc = true -> is_panic (o_end (client_run sc el)) = false.
Proof.
  intros sc el Hwf Hsup. unfold mc_wf in Hwf. apply andb_true_iff in Hwf. destruct Hwf as [Hst Hwf].
  apply client_run_gen_np; auto. right. auto.
Qed.

(* with the proposed repair of findings 1 and 2 the full statement holds: no hypothesis on the
   media content at all (whether or not the repair of finding 3 is in) *)
Theorem client_run_repaired_np : forall rp sc el,
  rep_tracks rp = true -> structural_ok (sc_primary sc) = true ->
  is_panic (o_end (client_run_gen rp sc el)) = false.
Proof. intros. apply client_run_gen_np; auto. left. auto. Qed.

Theorem client_run_fixed_np : forall sc el,
  structural_ok (sc_primary sc) = true -> is_panic (o_end (client_run_fixed sc el)) = false.
Proof. intros. apply client_run_repaired_np; auto. Qed.

Lemma client_run_gen_noof : forall rp sc el, is_oof (o_end (client_run_gen rp sc el)) = false.
Proof.
  intros rp sc el. unfold client_run_gen.
  pose proof (primary_streams_noof (sc_primary sc)) as NP.
  destruct (primary_streams (sc_primary sc)) as [refs| | |]; cbn; auto.
  pose proof (heads_noof rp sc refs) as NH.
  destruct (heads rp sc refs) as [hs| | |]; cbn; auto.
  destruct (List.concat (map head_tracks hs)); cbn; auto.
  destruct (sc_onTracksErr sc); cbn; auto.
  pose proof (run_heads_noof hs None el [] 0) as R.
  destruct (run_heads hs None el [] 0) as [[counts nerr] e]. cbn in *. auto.
Qed.

Theorem client_run_noof : forall sc el, is_oof (o_end (client_run sc el)) = false.
Proof. intros. apply client_run_gen_noof. Qed.

(* ====================================================================== witnesses *)
Definition vod_media : uplaylist :=
  PLMedia {| um_mediaSequence := 0;
             um_segments := [Some {| us_uri := {| u_parse_ok := true; u_empty := false; u_res := 0 |};
                                     us_dateTime := None; us_duration := 1000000000 |}];
             um_parts := []; um_map := Some {| u_parse_ok := true; u_empty := false; u_res := 0 |};
             um_serverControl := None; um_preloadHint := None; um_playlistType := Some PTVod;
             um_endlist := true |}.

Definition one_sample : sample := {| s_duration := 3000; s_ptsoff := 0; s_okAV1 := true; s_okAVCC := true |}.

Definition one_seg (ids : list Z) : fseg :=
  {| fg_dateTime := None;
     fg_parts := Some [map (fun i => {| pt_id := i; pt_baseTime := 0; pt_samples := [one_sample] |}) ids] |}.

Definition one_stream (tracks : list init_track) (ids : list Z) : scenario :=
  {| sc_primary := vod_media;
     sc_streams := [SF {| fs_init := Some tracks; fs_segs := [one_seg ids] |}];
     sc_onTracksErr := false |}.

(* F5: one M-JPEG track (a codec mediacommon parses and gohlslib has no type for), one sample *)
Definition witness_unsupported_codec : scenario :=
  one_stream [{| it_id := 1; it_timescale := 90000; it_codec := FMJPEG |}] [1].

(* an H264 track whose mdhd time scale is 0 *)
Definition witness_zero_timescale : scenario :=
  one_stream [{| it_id := 1; it_timescale := 0; it_codec := FH264 |}] [1].

(* a valid stream: the hypotheses of the partial theorem are satisfiable and it plays to the end *)
Definition witness_valid : scenario :=
  one_stream [{| it_id := 1; it_timescale := 90000; it_codec := FH264 |};
              {| it_id := 2; it_timescale := 44100; it_codec := FMPEG4Audio |}] [1; 2].

Lemma refuted_unsupported_codec :
  mc_wf witness_unsupported_codec = true /\
  o_tracks (client_run witness_unsupported_codec 0) = Some [None] /\
  o_end (client_run witness_unsupported_codec 0) = Panic PNilFunc.
Proof. vm_compute. auto. Qed.

Lemma refuted_zero_timescale :
  mc_wf witness_zero_timescale = true /\
  o_end (client_run witness_zero_timescale 0) = Panic PDivZero.
Proof. vm_compute. auto. Qed.

Lemma valid_plays :
  mc_wf witness_valid = true /\ all_supported witness_valid = true /\
  client_run witness_valid 0 =
    {| o_tracks := Some [Some GH264; Some GMPEG4Audio]; o_counts := [[1%nat; 1%nat]];
       o_decodeErrors := 0; o_end := Ok tt |}.
Proof. vm_compute. auto. Qed.

(* the parser guarantees are needed as well: the code indexes Tracks[0] and calls a method on
   the Codec interface without a check *)
Lemma needs_parser_guarantees :
  o_end (client_run (one_stream [] []) 0) = Panic PIndex /\
  o_end (client_run (one_stream [{| it_id := 1; it_timescale := 90000; it_codec := FNil |}] [1]) 0) = Panic PNilDeref.
Proof. vm_compute. auto. Qed.

Lemma refuted_unsupported_codec_ex : exists sc el,
  mc_wf sc = true /\ o_tracks (client_run sc el) = Some [None] /\
  o_end (client_run sc el) = Panic PNilFunc.
Proof. exists witness_unsupported_codec, 0. exact refuted_unsupported_codec. Qed.

Lemma refuted_zero_timescale_ex : exists sc el,
  mc_wf sc = true /\ o_end (client_run sc el) = Panic PDivZero.
Proof. exists witness_zero_timescale, 0. exact refuted_zero_timescale. Qed.

(* the refutations stay within the partial theorem's complement: each witness violates exactly
   one of its hypotheses *)
Lemma witnesses_outside_hypothesis :
  all_supported witness_unsupported_codec = false /\ all_supported witness_zero_timescale = false.
Proof. vm_compute. auto. Qed.

(* the repaired client on the findings' witnesses: the unsupported track is not exposed and the
   stream fails with an error; the zero time scale is an error *)
Lemma repaired_on_witnesses :
  client_run_fixed witness_unsupported_codec 0 = fail_outcome (Err ENoSupportedTracks) /\
  client_run_fixed witness_zero_timescale 0 = fail_outcome (Err EInvalidTimeScale) /\
  client_run_fixed witness_valid 0 = client_run witness_valid 0 /\
  client_run_fixed (one_stream [{| it_id := 1; it_timescale := 90000; it_codec := FH264 |};
                                {| it_id := 2; it_timescale := 48000; it_codec := FAC3 |}] [1; 2]) 0 =
    {| o_tracks := Some [Some GH264]; o_counts := [[1%nat]]; o_decodeErrors := 0; o_end := Ok tt |}.
Proof. vm_compute. auto. Qed.

(* third finding (a wedge, not a panic): a VALID stream - one supported track, twelve parts in one
   segment - parks the stream processor for ever: the 11th finished entry cannot deposit its token
   (the buffer of chPartTrackProcessed holds 10 and is only read after all pushes), so its
   processor never takes the 12th entry. Eleven parts still play. *)
Definition many_parts (n : nat) : scenario :=
  {| sc_primary := vod_media;
     sc_streams := [SF {| fs_init := Some [{| it_id := 1; it_timescale := 90000; it_codec := FH264 |}];
                          fs_segs := [{| fg_dateTime := None;
                                         fg_parts := Some (map (fun k => [{| pt_id := 1; pt_baseTime := Z.of_nat k * 900;
                                                                             pt_samples := [one_sample] |}]) (seq 0 n)) |}] |}];
     sc_onTracksErr := false |}.

Lemma wedge_witness : exists sc el,
  mc_wf sc = true /\ all_supported sc = true /\ o_end (client_run sc el) = Err EBlocked.
Proof. exists (many_parts 12), 0. vm_compute. auto. Qed.

Lemma eleven_parts_play :
  client_run (many_parts 11) 0 =
    {| o_tracks := Some [Some GH264]; o_counts := [[11%nat]]; o_decodeErrors := 0; o_end := Ok tt |}.
Proof. vm_compute. auto. Qed.

Lemma repaired_many_parts :
  client_run_fixed (many_parts 12) 0 =
    {| o_tracks := Some [Some GH264]; o_counts := [[12%nat]]; o_decodeErrors := 0; o_end := Ok tt |}.
Proof. vm_compute. auto. Qed.

