(* C14, tag level, multivariant playlists: EXT-X-MEDIA and EXT-X-STREAM-INF. *)
From Coq Require Import List ZArith Bool String Ascii Lia.
From GoHls Require Import Model.PlaylistBase Model.Playlist Model.PlaylistSpec
  Proofs.PlaylistStr Proofs.PlaylistNum Proofs.PlaylistAttrs Proofs.PlaylistTags.
Import ListNotations.
Local Open Scope string_scope.
Local Open Scope Z_scope.

Local Arguments byterange_marshal : simpl never.
Local Arguments byterange_unmarshal : simpl never.
Local Arguments fmt_int : simpl never.
Local Arguments parse_uint : simpl never.

Section WithOracles.
Variable orc : oracles.
Hypothesis OK : oracle_ok orc.

(* ---------- EXT-X-MEDIA ---------- *)
Definition opt_q (k : string) (o : option string) : list (string * aval) :=
  match o with Some x => [(k, AQ x)] | None => [] end.

Definition rendition_attrs (r : MultivariantRendition) : list (string * aval) :=
  [("TYPE", AU (r_type r)); ("GROUP-ID", AQ (r_groupid r))]
  ++ opt_list (negb (String.eqb (r_language r) "")) ("LANGUAGE", AQ (r_language r))
  ++ opt_list (negb (String.eqb (r_name r) "")) ("NAME", AQ (r_name r))
  ++ opt_list (r_autoselect r) ("AUTOSELECT", AU "YES")
  ++ opt_list (r_default r) ("DEFAULT", AU "YES")
  ++ opt_list (r_forced r) ("FORCED", AU "YES")
  ++ opt_q "CHANNELS" (r_channels r) ++ opt_q "URI" (r_uri r) ++ opt_q "INSTREAM-ID" (r_instreamid r).

Lemma render_tail_opt b x : render_tail (opt_list b x) = if b then String "," (render_attr x) else "".
Proof. destruct b; cbn [opt_list render_tail]; [now rewrite app_empty_r|reflexivity]. Qed.

Lemma render_tail_optq k o :
  render_tail (opt_q k o) = match o with Some x => String "," (render_attr (k, AQ x)) | None => "" end.
Proof. destruct o; cbn [opt_q render_tail]; [now rewrite app_empty_r|reflexivity]. Qed.

Lemma render_tail_one x : render_tail [x] = String "," (render_attr x).
Proof. cbn [render_tail]. now rewrite app_empty_r. Qed.

(* peel equal factors off both sides of a concatenation, one optional attribute at a time *)
Ltac peel1 :=
  match goal with
  | |- String ?c _ = String ?c _ => f_equal
  | |- ?x ++ _ = ?x ++ _ => f_equal
  | |- (if ?b then _ else _) ++ _ = (if ?b then _ else _) ++ _ =>
      apply (f_equal2 append); [destruct b; reflexivity|]
  | |- (match ?o with Some _ => _ | None => _ end) ++ _ = (match ?o with Some _ => _ | None => _ end) ++ _ =>
      apply (f_equal2 append); [destruct o; reflexivity|]
  end.
Ltac peel := repeat rewrite app_assoc'; cbn [append]; repeat rewrite app_assoc'; cbn [append];
             repeat peel1; try reflexivity.

Lemma rendition_marshal_render r :
  rendition_marshal r = "#EXT-X-MEDIA:" ++ render_attrs (rendition_attrs r) ++ lf.
Proof.
  unfold rendition_marshal, rendition_attrs. cbn [render_attrs app render_tail].
  rewrite !render_tail_app, !render_tail_opt, !render_tail_optq.
  unfold render_attr, render_val, lf. cbn [fst snd].
  peel.
Qed.

Lemma forallb_opt_list {A} (f : A -> bool) b x : forallb f (opt_list b x) = if b then f x else true.
Proof. destruct b; cbn [opt_list forallb]; [apply andb_true_r|reflexivity]. Qed.

Lemma forallb_opt_q k o :
  forallb attr_ok2 (opt_q k o) = match o with Some x => attr_ok2 (k, AQ x) | None => true end.
Proof. destruct o; cbn [opt_q forallb]; [apply andb_true_r|reflexivity]. Qed.

Lemma rendition_attrs_ok r : wf_rendition r = true -> forallb attr_ok2 (rendition_attrs r) = true.
Proof.
  unfold wf_rendition. intros H. split_and H.
  assert (Ht : attr_ok2 ("TYPE", AU (r_type r)) = true).
  { repeat match goal with
    | Hx : (_ || _) = true |- _ => apply orb_true_iff in Hx as [Hx|Hx]
    end;
    match goal with Hx : String.eqb (r_type r) _ = true |- _ => apply String.eqb_eq in Hx; rewrite Hx; reflexivity end. }
  unfold rendition_attrs. rewrite !forallb_app, !forallb_opt_list, !forallb_opt_q. cbn [forallb].
  rewrite Ht.
  repeat (match goal with |- (_ && _) = true => apply andb_true_iff; split end); try reflexivity;
    try (match goal with |- (if ?b then _ else _) = true => destruct b; [|reflexivity] end);
    try (match goal with |- match ?o with Some _ => _ | None => _ end = true =>
           let E := fresh "E" in destruct o eqn:E; [|reflexivity] end);
    cbn [opt_ok] in *; first [reflexivity | apply quoted_attr_ok2; auto].
Qed.

Lemma rendition_roundtrip r : wf_rendition r = true ->
  rendition_unmarshal (render_attrs (rendition_attrs r)) = Ok r.
Proof.
  intros Hwf. pose proof (rendition_attrs_ok r Hwf) as Hok.
  unfold rendition_unmarshal. rewrite attrs_unmarshal_render by (apply attr_ok2_ok, Hok). clear Hok.
  unfold wf_rendition, rendition_attrs, opt_list, opt_q, nonempty in *.
  destruct r as [ty gid name lang au de fo ch uri isid];
    cbn [r_type r_groupid r_name r_language r_autoselect r_default r_forced r_channels r_uri r_instreamid] in *.
  split_and Hwf.
  assert (Hg : String.eqb gid "" = false) by
    (match goal with H : negb (String.eqb gid "") = true |- _ => apply negb_true_iff in H; exact H end).
  assert (Hn : String.eqb name "" = false) by
    (match goal with H : negb (String.eqb name "") = true |- _ => apply negb_true_iff in H; exact H end).
  assert (Hty : ty = "AUDIO" \/ ty = "VIDEO" \/ ty = "SUBTITLES" \/ ty = "CLOSED-CAPTIONS").
  { repeat match goal with
    | Hx : (_ || _) = true |- _ => apply orb_true_iff in Hx as [Hx|Hx]
    end;
    match goal with Hx : String.eqb ty _ = true |- _ => apply String.eqb_eq in Hx; auto end. }
  destruct gid as [|gc gs]; [discriminate Hg|]. destruct name as [|nc ns]; [discriminate Hn|].
  destruct Hty as [-> | [-> | [-> | ->]]];
    destruct ch as [ch|], uri as [uri|], isid as [isid|];
    try (match goal with H : _ = true |- _ => cbn in H; discriminate H end);
    destruct lang as [|lc ls], au, de, fo; reflexivity.
Qed.

(* ---------- EXT-X-STREAM-INF ---------- *)
Definition variant_attrs (v : MultivariantVariant) : list (string * aval) :=
  [("BANDWIDTH", AU (fmt_int (v_bandwidth v)))]
  ++ match v_avgbandwidth v with Some x => [("AVERAGE-BANDWIDTH", AU (fmt_int x))] | None => [] end
  ++ [("CODECS", AQ (join "," (v_codecs v)))]
  ++ opt_list (negb (String.eqb (v_resolution v) "")) ("RESOLUTION", AU (v_resolution v))
  ++ match v_framerate v with Some f => [("FRAME-RATE", AU (fmt_rate orc f))] | None => [] end
  ++ opt_list (negb (String.eqb (v_video v) "")) ("VIDEO", AQ (v_video v))
  ++ opt_list (negb (String.eqb (v_audio v) "")) ("AUDIO", AQ (v_audio v))
  ++ opt_list (negb (String.eqb (v_subtitles v) "")) ("SUBTITLES", AQ (v_subtitles v))
  ++ opt_list (negb (String.eqb (v_closedcaptions v) "")) ("CLOSED-CAPTIONS", AQ (v_closedcaptions v)).

Lemma render_tail_optm {A} (o : option A) (f : A -> string * aval) :
  render_tail (match o with Some x => [f x] | None => [] end) =
  match o with Some x => String "," (render_attr (f x)) | None => "" end.
Proof. destruct o; cbn [render_tail]; [now rewrite app_empty_r|reflexivity]. Qed.

Lemma variant_marshal_render v :
  variant_marshal orc v = "#EXT-X-STREAM-INF:" ++ render_attrs (variant_attrs v) ++ lf ++ v_uri v ++ lf.
Proof.
  unfold variant_marshal, variant_attrs. cbn [render_attrs app render_tail].
  repeat (rewrite render_tail_app; cbn [render_tail app]).
  rewrite !render_tail_opt.
  rewrite (render_tail_optm (v_avgbandwidth v) (fun x => ("AVERAGE-BANDWIDTH", AU (fmt_int x)))).
  rewrite (render_tail_optm (v_framerate v) (fun f => ("FRAME-RATE", AU (fmt_rate orc f)))).
  cbn [render_tail].
  unfold render_attr, render_val, lf. cbn [fst snd].
  peel.
Qed.


Lemma split_byte_none c s : no_byte c s = true -> split_byte c s = [s].
Proof.
  induction s as [|a s IH]; simpl; auto. intros H. apply andb_true_iff in H as [Ha Hs].
  apply negb_true_iff in Ha. rewrite Ha, IH by auto. reflexivity.
Qed.

Lemma split_byte_two c a b :
  no_byte c a = true -> no_byte c b = true -> split_byte c (a ++ String c b) = [a; b].
Proof.
  intros Ha Hb. induction a as [|x a IH]; simpl.
  - rewrite Ascii.eqb_refl. now rewrite split_byte_none.
  - simpl in Ha. apply andb_true_iff in Ha as [Hx Ha]. apply negb_true_iff in Hx.
    rewrite Hx, IH by auto. reflexivity.
Qed.

Lemma split_join l : forallb (no_byte ",") l = true -> l <> [] -> split_byte "," (join "," l) = l.
Proof.
  induction l as [|x l IH]; [congruence|]. intros H _. cbn [forallb] in H. apply andb_true_iff in H as [Hx Hl].
  destruct l as [|y l]; [cbn [join]; now apply split_byte_none|].
  change (join "," (x :: y :: l)) with (x ++ String "," (join "," (y :: l))).
  assert (E := IH Hl ltac:(discriminate)).
  clear IH. revert E. generalize (join "," (y :: l)). intros r E.
  induction x as [|a x IHx]; simpl.
  - now rewrite E.
  - simpl in Hx. apply andb_true_iff in Hx as [Ha Hx]. apply negb_true_iff in Ha. rewrite Ha.
    rewrite IHx by auto. reflexivity.
Qed.

Lemma join_quoted_ok l : forallb codec_ok l = true -> quoted_ok (join "," l) = true.
Proof.
  induction l as [|x l IH]; [reflexivity|]. cbn [forallb]. intros H. apply andb_true_iff in H as [Hx Hl].
  unfold codec_ok in Hx. split_and Hx.
  assert (Q : quoted_ok x = true) by assumption.
  destruct l as [|y l]; [exact Q|].
  change (join "," (x :: y :: l)) with (x ++ String "," (join "," (y :: l))).
  specialize (IH Hl). unfold quoted_ok in *. apply andb_true_iff in Q as [A B]. apply andb_true_iff in IH as [C D].
  rewrite no_crlf_app, no_byte_app, A, B. rewrite no_crlf_string. cbn [no_byte]. rewrite C, D. reflexivity.
Qed.

Lemma codecs_no_comma l : forallb codec_ok l = true -> forallb (no_byte ",") l = true.
Proof.
  induction l as [|x l IH]; [reflexivity|]. cbn [forallb]. intros H. apply andb_true_iff in H as [Hx Hl].
  unfold codec_ok in Hx. split_and Hx. assert (N : no_byte "," x = true) by assumption. now rewrite N, IH.
Qed.

Lemma rate_attr_ok2 f : attr_ok2 ("FRAME-RATE", AU (fmt_rate orc f)) = true.
Proof. apply num_attr_ok2; auto. apply (ok_rate_chars orc OK f). Qed.

Lemma forallb_optm {A} (o : option A) (f : A -> string * aval) :
  forallb attr_ok2 (match o with Some x => [f x] | None => [] end) =
  match o with Some x => attr_ok2 (f x) | None => true end.
Proof. destruct o; cbn [forallb]; [apply andb_true_r|reflexivity]. Qed.

Lemma variant_attrs_ok v : wf_variant v = true -> forallb attr_ok2 (variant_attrs v) = true.
Proof.
  unfold wf_variant. intros H. split_and H. apply int31_range in H.
  unfold variant_attrs. rewrite !forallb_app, !forallb_opt_list.
  rewrite (forallb_optm (v_avgbandwidth v) (fun x => ("AVERAGE-BANDWIDTH", AU (fmt_int x)))).
  rewrite (forallb_optm (v_framerate v) (fun f => ("FRAME-RATE", AU (fmt_rate orc f)))).
  cbn [forallb]. rewrite int_attr_ok2 by (auto; lia).
  rewrite quoted_attr_ok2 by (auto using join_quoted_ok).
  destruct (v_avgbandwidth v) as [ab|]; cbn [opt_ok] in *;
    [match goal with Hx : int31 ab = true |- _ => apply int31_range in Hx end; rewrite int_attr_ok2 by (auto; lia)|];
  (destruct (v_framerate v); [rewrite rate_attr_ok2|]);
  destruct (String.eqb (v_resolution v) "") eqn:Er, (String.eqb (v_video v) ""), (String.eqb (v_audio v) ""),
    (String.eqb (v_subtitles v) ""), (String.eqb (v_closedcaptions v) ""); cbn [negb orb] in *;
    rewrite ?quoted_attr_ok2, ?unquoted_attr_ok2 by auto; reflexivity.
Qed.


Lemma uri_line_no_lf u : uri_line_ok u = true -> no_byte LF u = true /\ String.eqb u "" = false /\ (exists c r, u = String c r /\ Ascii.eqb c "#" = false).
Proof.
  unfold uri_line_ok, no_crlf. intros H. split_and H. split; [assumption|].
  destruct u as [|c r]; [discriminate|]. split; [reflexivity|]. exists c, r. split; auto.
  match goal with Hx : negb _ = true |- _ => now apply negb_true_iff in Hx end.
Qed.

Local Arguments split_byte : simpl never.
Local Arguments join : simpl never.

Lemma variant_roundtrip v : wf_variant v = true ->
  variant_unmarshal orc (render_attrs (variant_attrs v) ++ lf ++ v_uri v) = Ok v.
Proof.
  intros Hwf. pose proof (variant_attrs_ok v Hwf) as Hok.
  pose proof (render_attrs_no_crlf _ Hok) as Hnl. unfold no_crlf in Hnl. apply andb_true_iff in Hnl as [Hnl _].
  unfold wf_variant in Hwf. split_and Hwf.
  assert (Hu : uri_line_ok (v_uri v) = true) by assumption.
  destruct (uri_line_no_lf _ Hu) as (Hu1 & Hu2 & c & r & Eu & Hc).
  unfold variant_unmarshal. unfold lf. change (String LF "" ++ v_uri v) with (String LF (v_uri v)).
  rewrite split_byte_two by assumption. unfold list_at. cbn [nth_error bind].
  rewrite attrs_unmarshal_render by (apply attr_ok2_ok, Hok). cbn [bind]. clear Hok Hnl.
  assert (Hcod : split_byte "," (join "," (v_codecs v)) = v_codecs v).
  { apply split_join; [apply codecs_no_comma; assumption|].
    match goal with Hx : negb (Nat.eqb (List.length (v_codecs v)) 0) = true |- _ =>
      destruct (v_codecs v); [discriminate Hx|discriminate] end. }
  assert (Hbw : parse_uint 31 (fmt_int (v_bandwidth v)) = Some (v_bandwidth v))
    by (apply parse_uint_fmt_int, int31_range; assumption).
  unfold variant_attrs, opt_list in *.
  destruct v as [bw codecs uri avg res fr vid aud sub cc];
    cbn [v_bandwidth v_codecs v_uri v_avgbandwidth v_resolution v_framerate v_video v_audio v_subtitles v_closedcaptions] in *.
  subst uri.
  destruct avg as [ab|], fr as [f|]; cbn [opt_ok] in *;
  try (assert (Hab : parse_uint 31 (fmt_int ab) = Some ab) by (apply parse_uint_fmt_int, int31_range; assumption));
  try (assert (Hfr : parse_rate orc (fmt_rate orc f) = Some f) by (apply (ok_rate orc OK); assumption));
  destruct (String.eqb res "") eqn:E1, (String.eqb vid "") eqn:E2, (String.eqb aud "") eqn:E3,
    (String.eqb sub "") eqn:E4, (String.eqb cc "") eqn:E5;
    cbn; rewrite ?Hbw, ?Hab, ?Hfr, ?Hcod; cbn; rewrite ?Hbw, ?Hab, ?Hfr, ?Hcod; cbn; rewrite ?Hc; cbn;
    repeat match goal with
    | H : String.eqb _ "" = true |- _ => apply String.eqb_eq in H; subst
    end; reflexivity.
Qed.

End WithOracles.
