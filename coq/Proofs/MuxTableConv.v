(* C18 (and the other half of C05): the URL table holds nothing but what the playlists list.
   In every reachable state a key that resolves is the index, a media playlist, the init segment of a stream
   that has one, a LISTED non-gap segment of its stream, or (Low-Latency) a part of a listed or open segment
   or the preload hint (the next part id).  So what leaves the window stops resolving for good, and the
   table is bounded by the window bound. *)
From Coq Require Import List ZArith Bool Lia Arith.
From GoHls Require Import Model.Mux Proofs.MuxStream Proofs.MuxLift Proofs.MuxWindow Proofs.MuxHistory Proofs.MuxPlaylist
  Proofs.MuxTimes Proofs.MuxPaths Proofs.MuxMulti Proofs.MuxLog Proofs.MuxLogStep Proofs.MuxLogTS Proofs.MuxPartIds
  Proofs.MuxAgree Proofs.MuxResolve.
Import ListNotations.
Local Open Scope Z_scope.

Definition allowed (m : mstate) (k : pathkey) : Prop :=
  match k with
  | KIndex => True
  | KPlaylist _ => True
  | KInit si => exists s, nth_error (m_streams m) si = Some s /\ st_init s <> None
  | KSeg si id => exists s g, nth_error (m_streams m) si = Some s /\ In g (st_segments s) /\ sg_gap g = false /\ sg_id g = id
  | KPart si q => c_variant (m_cfg m) = LL /\
                  exists s, nth_error (m_streams m) si = Some s /\
                            ((exists p, In p (listed_all s) /\ p_id p = q) \/ q = st_nextPart s)
  end.

Definition CONV (m : mstate) : Prop := forall k h, lookup (m_paths m) k = Some h -> allowed m k.

(* [allowed] only reads the variant, and of each stream its window, open segment's parts, init and next part id *)
Definition sview (s : stream) := (st_segments s, option_map sg_parts (st_open s), st_init s, st_nextPart s).

Lemma listed_all_view s s' : sview s' = sview s -> listed_all s' = listed_all s.
Proof.
  unfold sview, listed_all. intros H. injection H as H1 H2 H3 H4. rewrite H1.
  destruct (st_open s'), (st_open s); simpl in H2; try discriminate; [|reflexivity]. now injection H2 as ->.
Qed.

Lemma allowed_ext m m' k :
  c_variant (m_cfg m') = c_variant (m_cfg m) ->
  (forall si s, nth_error (m_streams m) si = Some s -> exists s', nth_error (m_streams m') si = Some s' /\ sview s' = sview s) ->
  allowed m k -> allowed m' k.
Proof.
  intros Hv Hs. destruct k as [| |si|si id|si q]; cbn [allowed]; auto.
  - intros (s & Es & Hi). destruct (Hs si s Es) as (s' & Es' & V). exists s'. split; [exact Es'|].
    unfold sview in V. injection V as _ _ V3 _. now rewrite V3.
  - intros (s & g & Es & Hg & G1 & G2). destruct (Hs si s Es) as (s' & Es' & V). exists s', g. split; [exact Es'|].
    unfold sview in V. injection V as V1 _ _ _. now rewrite V1.
  - intros (Hl & s & Es & H). split; [congruence|]. destruct (Hs si s Es) as (s' & Es' & V). exists s'. split; [exact Es'|].
    rewrite (listed_all_view s s' V). unfold sview in V. injection V as _ _ _ V4. now rewrite V4.
Qed.

Lemma CONV_ext m m' :
  m_paths m' = m_paths m -> c_variant (m_cfg m') = c_variant (m_cfg m) ->
  (forall si s, nth_error (m_streams m) si = Some s -> exists s', nth_error (m_streams m') si = Some s' /\ sview s' = sview s) ->
  CONV m -> CONV m'.
Proof. intros Hp Hv Hs H k h Hk. rewrite Hp in Hk. eapply allowed_ext; eauto. Qed.

Lemma view_upd l i (f : stream -> stream) :
  (forall s, sview (f s) = sview s) ->
  forall si s, nth_error l si = Some s -> exists s', nth_error (upd l i f) si = Some s' /\ sview s' = sview s.
Proof.
  intros Hf si s Es. destruct (Nat.eq_dec i si) as [->|Hne].
  - exists (f s). split; [now apply nth_error_upd_same|apply Hf].
  - exists s. split; [now rewrite nth_error_upd_other|reflexivity].
Qed.

(* ---------------------------------------------------------------- operations that leave the table alone *)
Lemma CONV_frame m tracks pending sdurs adj freeze errs :
  CONV m ->
  CONV {| m_cfg := m_cfg m; m_tracks := tracks; m_streams := m_streams m; m_pending := pending;
          m_sdurs := sdurs; m_adj := adj; m_freeze := freeze; m_paths := m_paths m; m_errs := errs |}.
Proof. apply CONV_ext; auto. intros si s Es. eauto. Qed.

Lemma CONV_copy m i (l : stream) (both : bool) : CONV m -> CONV (upd_stream m i (copy_targets both l)).
Proof.
  apply CONV_ext; auto. unfold upd_stream. cbn [set_stream m_streams]. apply view_upd.
  intros s. unfold copy_targets. destruct (st_leading s); reflexivity.
Qed.

Lemma CONV_pws m ti si smp m' : CONV m -> part_writeSample m ti si smp = Ok m' -> CONV m'.
Proof.
  intros H. unfold part_writeSample.
  destruct (nth_error (m_streams m) si) as [s|] eqn:Es; [|now intros [= <-]].
  destruct (nth_error (m_tracks m) ti) as [t|]; [|now intros [= <-]].
  destruct (st_open s) as [seg|] eqn:Eo; [|now intros [= <-]]. destruct (st_openpart s); [|now intros [= <-]].
  destruct (_ <? _); [discriminate|]. intros [= <-]. revert H. apply CONV_ext; auto.
  unfold upd_stream, upd_track. cbn [set_stream set_tracks m_streams].
  intros sj s0 Es0. destruct (Nat.eq_dec si sj) as [<-|Hne].
  - rewrite Es in Es0. injection Es0 as <-. eexists. split; [apply (nth_error_upd_same _ si _ s Es)|].
    unfold sview. cbn [st_with st_segments st_open st_init st_nextPart x_segments x_open x_init x_nextPart sg_with_size sg_parts option_map].
    now rewrite Eo.
  - exists s0. split; [now rewrite nth_error_upd_other|reflexivity].
Qed.

Lemma CONV_ts m si u size e inc : CONV m -> CONV (fst (ts_write m si u size e inc)).
Proof.
  intros H. unfold ts_write.
  destruct (nth_error (m_streams m) si) as [s|] eqn:Es; [|exact H].
  destruct (st_open s) as [seg|] eqn:Eo; [|exact H]. destruct (_ <? _); [exact H|]. cbn [fst wok].
  revert H. apply CONV_ext; auto. unfold upd_stream. cbn [set_stream m_streams].
  intros sj s0 Es0. destruct (Nat.eq_dec si sj) as [<-|Hne].
  - rewrite Es in Es0. injection Es0 as <-. eexists. split; [apply (nth_error_upd_same _ si _ s Es)|].
    unfold sview. cbn [st_with st_segments st_open st_init st_nextPart x_segments x_open x_init x_nextPart sg_ts_write sg_parts option_map].
    now rewrite Eo.
  - exists s0. split; [now rewrite nth_error_upd_other|reflexivity].
Qed.

(* createFirstSegment is called when no stream is open: the open segment it installs has no part *)
Lemma CONV_create m d ntp : (forall s, In s (m_streams m) -> st_open s = None) -> CONV m -> CONV (createFirstSegment m d ntp).
Proof.
  intros Hn H k h Hk. unfold createFirstSegment in *. cbn [set_stream m_paths] in Hk.
  specialize (H k h Hk). destruct k as [| |si|si id|si q]; cbn [allowed set_stream m_streams m_cfg] in *; auto.
  - destruct H as (s & Es & Hi). eexists. split; [erewrite map_nth_error by exact Es; reflexivity|exact Hi].
  - destruct H as (s & g & Es & Hg & G1 & G2). eexists _, g. split; [erewrite map_nth_error by exact Es; reflexivity|auto].
  - destruct H as (Hl & s & Es & Hq). split; [exact Hl|]. eexists. split; [erewrite map_nth_error by exact Es; reflexivity|].
    unfold listed_all, stream_createFirst in *. cbn [st_with st_segments st_open st_nextPart x_segments x_open x_nextPart new_seg sg_parts].
    rewrite (Hn s (nth_error_In _ _ Es)) in Hq. exact Hq.
Qed.

(* ---------------------------------------------------------------- part rotation *)
Lemma rotp_all m si d cn :
  stream_rotateParts m si d cn = m
  \/ exists s seg p0,
       nth_error (m_streams m) si = Some s /\ st_open s = Some seg /\ st_openpart s = Some p0 /\
       let p := fst (part_finalize p0 (m_tracks m) (st_tracks s) d) in
       m_streams (stream_rotateParts m si d cn) = upd (m_streams m) si (fun _ => fst (srot_parts (c_variant (m_cfg m)) s seg p d cn))
       /\ m_paths (stream_rotateParts m si d cn) = paths_rot_parts (c_variant (m_cfg m)) (m_paths m) si (p_id p0) (st_nextPart s + 1)
       /\ m_cfg (stream_rotateParts m si d cn) = m_cfg m.
Proof.
  unfold stream_rotateParts.
  destruct (nth_error (m_streams m) si) as [s|] eqn:Es; [|left; auto].
  destruct (st_openpart s) as [p0|] eqn:Ep; [|left; auto].
  destruct (st_open s) as [seg|] eqn:Eo; [|left; auto].
  right. exists s, seg, p0. split; [reflexivity|]. split; [exact Eo|]. split; [exact Ep|].
  destruct (part_finalize_spec p0 (m_tracks m) (st_tracks s) d) as (A & _). cbv zeta in *.
  destruct (part_finalize p0 (m_tracks m) (st_tracks s) d) as [p tracks'] eqn:Ef. cbn [fst] in *.
  destruct (srot_parts (c_variant (m_cfg m)) s seg p d cn) as [s' bump].
  rewrite A. destruct bump; cbn [add_err set_paths set_tracks set_stream m_streams m_paths m_cfg fst]; auto.
Qed.

Lemma CONV_rotp m si d cn : GPI m -> CONV m -> CONV (stream_rotateParts m si d cn).
Proof.
  intros [_ HP] H. rewrite Forall_forall in HP.
  destruct (rotp_all m si d cn) as [->|(s & seg & p0 & Es & Eo & Ep & ES & EPa & EC)]; [exact H|]. cbv zeta in *.
  set (v := c_variant (m_cfg m)) in *.
  set (p := fst (part_finalize p0 (m_tracks m) (st_tracks s) d)) in *.
  set (s1 := fst (srot_parts v s seg p d cn)) in *.
  destruct (srot_parts_frame v s seg p d cn) as (F1 & _ & _ & _ & _ & F6 & F7 & F8 & _). fold s1 in F1, F6, F7, F8.
  assert (Hpid : p_id p = p_id p0) by (subst p; destruct (part_finalize_spec p0 (m_tracks m) (st_tracks s) d) as (A & _); exact A).
  assert (Hopen : p_id p0 = st_nextPart s) by (apply (pid_open s (HP s (nth_error_In _ _ Es))); exact Ep).
  assert (Hs1 : nth_error (m_streams (stream_rotateParts m si d cn)) si = Some s1)
    by (rewrite ES; apply (nth_error_upd_same _ si _ s Es)).
  assert (Hother : forall sj, sj <> si -> nth_error (m_streams (stream_rotateParts m si d cn)) sj = nth_error (m_streams m) sj)
    by (intros sj Hne; rewrite ES; apply nth_error_upd_other; congruence).
  intros k h Hk. rewrite EPa in Hk. fold v in Hk.
  destruct k as [| |sj|sj id|sj q]; cbn [allowed]; auto.
  - rewrite lookup_rot_parts_init in Hk. destruct (H _ _ Hk) as (s0 & Es0 & Hi).
    destruct (Nat.eq_dec sj si) as [->|Hne].
    + rewrite Es in Es0. injection Es0 as <-. exists s1. split; [exact Hs1|now rewrite F6].
    + exists s0. split; [now rewrite Hother|exact Hi].
  - rewrite lookup_rot_parts_seg in Hk. destruct (H _ _ Hk) as (s0 & g & Es0 & Hg & G1 & G2).
    destruct (Nat.eq_dec sj si) as [->|Hne].
    + rewrite Es in Es0. injection Es0 as <-. exists s1, g. split; [exact Hs1|]. rewrite F1. auto.
    + exists s0, g. split; [now rewrite Hother|auto].
  - rewrite EC. fold v.
    assert (Hkeep : allowed m (KPart sj q) -> ~ (sj = si /\ q = st_nextPart s) ->
              v = LL /\ exists s', nth_error (m_streams (stream_rotateParts m si d cn)) sj = Some s' /\
                ((exists p', In p' (listed_all s') /\ p_id p' = q) \/ q = st_nextPart s')).
    { intros (Hl & s0 & Es0 & Hq) Hnot. split; [exact Hl|].
      destruct (Nat.eq_dec sj si) as [->|Hne].
      - rewrite Es in Es0. injection Es0 as <-. exists s1. split; [exact Hs1|].
        destruct Hq as [(p' & Hp' & Hid)|Hq]; [|exfalso; apply Hnot; auto].
        left. exists p'. split; [|exact Hid]. unfold listed_all in *. rewrite F1, F8. rewrite Eo in Hp'.
        cbn [sg_with_parts sg_parts]. apply in_app_iff in Hp'. apply in_app_iff.
        destruct Hp' as [Hp'|Hp']; [now left|right; apply in_app_iff; now left].
      - exists s0. split; [now rewrite Hother|exact Hq]. }
    destruct v eqn:Ev; try (cbn [paths_rot_parts] in Hk; destruct (H _ _ Hk) as (Hl & _); fold v in Hl; congruence).
    rewrite lookup_rot_parts_part in Hk.
    destruct (Nat.eqb si sj && (st_nextPart s + 1 =? q)) eqn:E1.
    { apply andb_true_iff in E1. destruct E1 as [E1 E2]. apply Nat.eqb_eq in E1. apply Z.eqb_eq in E2. subst sj.
      split; [reflexivity|]. exists s1. split; [exact Hs1|]. right. rewrite F7. lia. }
    destruct (Nat.eqb si sj && (p_id p0 =? q)) eqn:E2.
    { apply andb_true_iff in E2. destruct E2 as [E2 E3]. apply Nat.eqb_eq in E2. apply Z.eqb_eq in E3. subst sj.
      split; [reflexivity|]. exists s1. split; [exact Hs1|]. left. exists p. split; [|congruence].
      unfold listed_all. rewrite F8. cbn [sg_with_parts sg_parts]. apply in_app_iff. right. apply in_app_iff. right. now left. }
    apply Hkeep; [exact (H _ _ Hk)|].
    intros [-> ->]. rewrite Nat.eqb_refl in E2. cbn [andb] in E2. rewrite Hopen, Z.eqb_refl in E2. discriminate.
Qed.

(* ---------------------------------------------------------------- segment rotation *)
Lemma window_append_keeps v sc segs seg g :
  In g (with_gaps v segs seg ++ [seg]) ->
  match snd (window_append v sc segs seg) with
  | Some d => g = d \/ In g (fst (window_append v sc segs seg))
  | None => In g (fst (window_append v sc segs seg))
  end.
Proof.
  intros Hin. destruct (window_append_spec v sc segs seg) as [(E1 & E2 & _)|(d & rest & E1 & E2 & E3 & _)]; cbv zeta in *.
  - rewrite E1, E2. exact Hin.
  - rewrite E1, E2. rewrite E3 in Hin. destruct Hin as [<-|Hin]; auto.
Qed.

Lemma in_with_gaps v segs seg g : In g segs -> In g (with_gaps v segs seg).
Proof. unfold with_gaps. destruct v; auto. destruct segs; [intros []|auto]. Qed.

Lemma CONV_rots m si d ntp f :
  cfg_wf (m_cfg m) -> G PW m -> GPI m -> CONV m -> CONV (stream_rotateSegments m si d ntp f).
Proof.
  intros Hwf HW HG H.
  pose proof (rots_full m si d ntp f) as HR. cbv zeta in HR.
  set (v := c_variant (m_cfg m)) in *.
  set (m1 := match v with MPEGTS => m | _ => stream_rotateParts m si d false end) in *.
  assert (H1 : CONV m1 /\ m_cfg m1 = m_cfg m /\ Forall (PW (m_cfg m)) (m_streams m1)).
  { subst m1. destruct v; (split; [|split]); auto using CONV_rotp, cfg_stream_rotateParts; apply PW_rotp; exact HW. }
  destruct H1 as (H1 & Hc1 & HW1).
  destruct HR as [->|(s & seg0 & cur & Es & Eo & ES & EP & EC)]; [exact H1|].
  set (r := srot_segments v (c_segcount (m_cfg m)) s seg0 d ntp f cur) in *.
  set (s2 := fst (fst r)) in *. set (regen := snd (fst r)) in *.
  set (seg := sg_with_end seg0 d) in *.
  destruct (srot_segments_frame v (c_segcount (m_cfg m)) s seg0 d ntp f cur) as (F1 & _ & _ & _ & F5 & F6 & _).
  fold r s2 seg in F1, F5, F6.
  assert (Fi : st_init s2 = if regen then Some cur else st_init s).
  { subst s2 regen r. unfold srot_segments. cbv zeta.
    destruct (window_append v (c_segcount (m_cfg m)) (x_segments (st_mut s)) (sg_with_end seg0 d)) as [segs2 dropped].
    destruct dropped; destruct (st_leading s); try destruct (x_target (st_mut s) =? 0); try destruct (x_target (st_mut s) <? _); reflexivity. }
  (* the closed segment is a real one *)
  assert (Hgap : sg_gap seg = false).
  { rewrite Forall_forall in HW1.
    destruct (wi_open _ _ _ (HW1 s (nth_error_In _ _ Es) Hwf) seg0 Eo) as [_ Hg]. exact Hg. }
  assert (Hs2 : nth_error (m_streams (stream_rotateSegments m si d ntp f)) si = Some s2)
    by (rewrite ES; apply (nth_error_upd_same _ si _ s Es)).
  assert (Hother : forall sj, sj <> si -> nth_error (m_streams (stream_rotateSegments m si d ntp f)) sj = nth_error (m_streams m1) sj)
    by (intros sj Hne; rewrite ES; apply nth_error_upd_other; congruence).
  (* a segment of the old window, or the closed one, is the dropped one or stays listed *)
  assert (Hstay : forall g, In g (st_segments s) \/ g = seg ->
            match dropped_of v (c_segcount (m_cfg m)) (st_segments s) seg with
            | Some dd => g = dd \/ In g (st_segments s2)
            | None => In g (st_segments s2)
            end).
  { intros g Hg. rewrite F1. unfold dropped_of. apply window_append_keeps.
    apply in_app_iff. destruct Hg as [Hg| ->]; [left; now apply in_with_gaps|right; now left]. }
  intros k h Hk. rewrite EP in Hk.
  destruct k as [| |sj|sj id|sj q]; cbn [allowed]; auto.
  - (* init *)
    rewrite lookup_rot_segments_init in Hk. fold regen in Hk.
    destruct (Nat.eq_dec sj si) as [->|Hne].
    + exists s2. split; [exact Hs2|]. rewrite Fi. rewrite Nat.eqb_refl, andb_true_r in Hk.
      destruct regen; [discriminate|]. destruct (H1 _ _ Hk) as (s0 & Es0 & Hi). rewrite Es in Es0. now injection Es0 as <-.
    + assert (E : Nat.eqb si sj = false) by (apply Nat.eqb_neq; congruence). rewrite E, andb_false_r in Hk.
      destruct (H1 _ _ Hk) as (s0 & Es0 & Hi). exists s0. split; [now rewrite Hother|exact Hi].
  - (* segments *)
    rewrite lookup_rot_segments_seg in Hk.
    destruct (Nat.eq_dec sj si) as [->|Hne].
    + rewrite Nat.eqb_refl in Hk. cbn [andb] in Hk.
      assert (Hfrom_old : lookup (m_paths m1) (KSeg si id) = Some h ->
                exists g, (In g (st_segments s) \/ g = seg) /\ sg_gap g = false /\ sg_id g = id).
      { intros Hl. destruct (H1 _ _ Hl) as (s0 & g & Es0 & Hg & G1 & G2). rewrite Es in Es0. injection Es0 as <-. eauto. }
      assert (Hnew : (sg_id seg =? id) = true -> exists g, (In g (st_segments s) \/ g = seg) /\ sg_gap g = false /\ sg_id g = id).
      { intros E. apply Z.eqb_eq in E. exists seg. auto. }
      assert (Hex : exists g, (In g (st_segments s) \/ g = seg) /\ sg_gap g = false /\ sg_id g = id
                              /\ (forall dd, dropped_of v (c_segcount (m_cfg m)) (st_segments s) seg = Some dd -> g <> dd)).
      { destruct (dropped_of v (c_segcount (m_cfg m)) (st_segments s) seg) as [dd|] eqn:Ed.
        - try rewrite Ed in Hk. rewrite andb_true_r in Hk.
          destruct (negb (sg_gap dd) && (sg_id dd =? id)) eqn:E0; [discriminate|].
          assert (Hg : exists g, (In g (st_segments s) \/ g = seg) /\ sg_gap g = false /\ sg_id g = id).
          { destruct (sg_id seg =? id) eqn:E; [now apply Hnew|now apply Hfrom_old]. }
          destruct Hg as (g & A & B & C). exists g. split; [exact A|]. split; [exact B|]. split; [exact C|].
          intros dd' [= <-] ->. rewrite B, C, Z.eqb_refl in E0. discriminate.
        - try rewrite Ed in Hk.
          assert (Hg : exists g, (In g (st_segments s) \/ g = seg) /\ sg_gap g = false /\ sg_id g = id).
          { destruct (sg_id seg =? id) eqn:E; [now apply Hnew|now apply Hfrom_old]. }
          destruct Hg as (g & A & B & C). exists g. split; [exact A|]. split; [exact B|]. split; [exact C|]. discriminate. }
      destruct Hex as (g & A & B & C & Dn). exists s2, g. split; [exact Hs2|].
      specialize (Hstay g A). destruct (dropped_of v (c_segcount (m_cfg m)) (st_segments s) seg) as [dd|].
      * destruct Hstay as [->|Hin]; [exfalso; now apply (Dn dd)|auto].
      * auto.
    + assert (E : Nat.eqb si sj = false) by (apply Nat.eqb_neq; congruence).
      assert (Hl : lookup (m_paths m1) (KSeg sj id) = Some h).
      { destruct (dropped_of v _ _ _); rewrite E, ?andb_false_r in Hk; cbn [andb] in Hk; exact Hk. }
      destruct (H1 _ _ Hl) as (s0 & g & Es0 & Hg). exists s0, g. split; [now rewrite Hother|exact Hg].
  - (* parts *)
    rewrite EC. fold v. rewrite lookup_rot_segments_part in Hk.
    assert (Hl : lookup (m_paths m1) (KPart sj q) = Some h
                 /\ forall dd, dropped_of v (c_segcount (m_cfg m)) (st_segments s) seg = Some dd ->
                      existsb (fun p => Nat.eqb si sj && (p_id p =? q)) (listed_parts v dd) = false).
    { destruct (dropped_of v _ _ _) as [dd|].
      - destruct (existsb _ (listed_parts v dd)) eqn:Ex; [discriminate|]. split; [exact Hk|]. now intros dd' [= <-].
      - split; [exact Hk|discriminate]. }
    destruct Hl as [Hl Hdrop]. destruct (H1 _ _ Hl) as (Hll & s0 & Es0 & Hq). rewrite Hc1 in Hll. fold v in Hll.
    split; [exact Hll|].
    destruct (Nat.eq_dec sj si) as [->|Hne]; [|exists s0; split; [now rewrite Hother|exact Hq]].
    rewrite Es in Es0. injection Es0 as <-. exists s2. split; [exact Hs2|].
    destruct Hq as [(p & Hp & Hid)|Hq]; [|right; rewrite F5; exact Hq].
    left. exists p. split; [|exact Hid].
    (* p sits in a segment of the old window or in the closed segment; that segment is not the dropped one *)
    assert (Hg : exists g, (In g (st_segments s) \/ g = seg) /\ In p (sg_parts g)).
    { unfold listed_all in Hp. rewrite Eo in Hp. apply in_app_iff in Hp. destruct Hp as [Hp|Hp].
      - apply in_flat_map in Hp. destruct Hp as (g & Hg & Hpg). exists g. auto.
      - exists seg. split; [now right|exact Hp]. }
    destruct Hg as (g & Hg & Hpg). specialize (Hstay g Hg).
    assert (Hin : In g (st_segments s2)).
    { destruct (dropped_of v (c_segcount (m_cfg m)) (st_segments s) seg) as [dd|] eqn:Ed; [|exact Hstay].
      destruct Hstay as [->|Hin]; [|exact Hin]. exfalso.
      specialize (Hdrop dd eq_refl). rewrite Hll in Hdrop. cbn [listed_parts] in Hdrop.
      assert (Hex : existsb (fun p0 => Nat.eqb si si && (p_id p0 =? q)) (sg_parts dd) = true).
      { apply existsb_exists. exists p. split; [exact Hpg|]. now rewrite Nat.eqb_refl, Hid, Z.eqb_refl. }
      congruence. }
    unfold listed_all. apply in_app_iff. left. apply in_flat_map. eauto.
Qed.

(* ---------------------------------------------------------------- histories *)
Definition CC (m : mstate) : Prop := CI m /\ CONV m.

Theorem CC_mux_step m o : CC m -> CC (fst (mux_step m o)).
Proof.
  apply (T_mux_step CC).
  - intros m0 tracks pending sdurs adj freeze errs Hf [A B]. split; [now apply CI_frame|now apply CONV_frame].
  - intros m0 d ntp ti t Ht Ho [(A & B & C & D) E].
    assert (Hn : forall s, In s (m_streams m0) -> st_open s = None) by (destruct C as [HS _]; eapply SYNC_all_closed; eauto).
    split; [|now apply CONV_create].
    split; [exact A|]. split; [|split].
    + apply (G_createFirst PW); auto. intros c s d0 ntp0. apply PW_create.
    + eapply GPI_create; eauto.
    + apply RSV_create; auto.
  - intros m0 si d [(A & B & C & D) E]. split; [|now apply CONV_rotp].
    split; [now rewrite cfg_stream_rotateParts|]. split; [|split].
    + apply (G_rotp PW); auto. intros; now apply PW_rotp.
    + now apply GPI_rotp.
    + now apply RSV_rotp.
  - intros m0 si d ntp f [(A & B & C & D) E]. split; [|now apply CONV_rots].
    split; [now rewrite cfg_stream_rotateSegments|]. split; [|split].
    + apply (G_rots PW); auto. intros; now apply PW_rots.
    + now apply GPI_rots.
    + now apply RSV_rots.
  - intros m0 i l both [(A & B & C & D) E]. split; [|now apply CONV_copy].
    split; [exact A|]. split; [|split].
    + apply (G_copy_targets PW); auto. intros c s t pt. apply PW_targets.
    + now apply GPI_copy.
    + now apply RSV_copy.
  - intros m0 ti si smp m' [(A & B & C & D) E] Hw. split; [|eapply CONV_pws; eauto].
    split; [now rewrite (cfg_part_writeSample _ _ _ _ _ Hw)|]. split; [|split].
    + eapply (G_part_writeSample PW); eauto. intros c s g p. apply PW_open.
    + eapply GPI_pws; eauto.
    + eapply RSV_pws; eauto.
  - intros m0 si u size e inc [(A & B & C & D) E]. split; [|now apply CONV_ts].
    split; [now rewrite cfg_ts_write|]. split; [|split].
    + apply (G_ts_write PW); auto. intros c s g p. apply PW_open.
    + now apply GPI_ts.
    + now apply RSV_ts.
Qed.

Theorem CC_mux_run ops : forall m, CC m -> CC (mux_run m ops).
Proof. induction ops as [|o ops IH]; intros m H; [exact H|]. cbn [mux_run]. apply IH. now apply CC_mux_step. Qed.

Theorem start_CC c m : start c = Ok m -> CC m.
Proof.
  intros Hs. split; [now apply (start_CI c)|].
  assert (EP : m_paths m = (KIndex, HStatic) :: map (fun i => (KPlaylist i, HStatic)) (seq 0 (length (m_streams m)))).
  { unfold start in Hs. destruct (negb (start_ok (norm_cfg c))); [discriminate|]. injection Hs as <-. reflexivity. }
  intros k h Hk. rewrite EP in Hk.
  assert (Hpl : forall l, lookup (map (fun i => (KPlaylist i, HStatic)) l) k = Some h -> exists i, k = KPlaylist i).
  { induction l as [|i l IH]; cbn [map lookup]; [discriminate|].
    destruct (pathkey_eqb k (KPlaylist i)) eqn:E; [|exact IH].
    intros _. destruct k; cbn [pathkey_eqb] in E; try discriminate. eauto. }
  cbn [lookup] in Hk. destruct (pathkey_eqb k KIndex) eqn:E0.
  - destruct k; cbn [pathkey_eqb] in E0; try discriminate. exact I.
  - destruct (Hpl _ Hk) as [i ->]. exact I.
Qed.

(* in every reachable state, a key that resolves is one the playlists list *)
Theorem table_only_lists_retained c m0 ops k h :
  start c = Ok m0 -> lookup (m_paths (mux_run m0 ops)) k = Some h -> allowed (mux_run m0 ops) k.
Proof. intros Hs. destruct (CC_mux_run ops m0 (start_CC c m0 Hs)) as [_ H]. apply H. Qed.

(* hence: at most SegmentCount segment URIs of a stream resolve, all of them listed *)
Theorem resolving_segments_are_listed c m0 ops si id h :
  start c = Ok m0 -> lookup (m_paths (mux_run m0 ops)) (KSeg si id) = Some h ->
  exists s g, nth_error (m_streams (mux_run m0 ops)) si = Some s /\ In g (st_segments s) /\ sg_gap g = false /\ sg_id g = id
              /\ Z.of_nat (length (st_segments s)) <= c_segcount (norm_cfg c).
Proof.
  intros Hs Hk. destruct (table_only_lists_retained c m0 ops _ _ Hs Hk) as (s & g & Es & Hg & G1 & G2).
  exists s, g. repeat (split; [assumption|]).
  pose proof (window_inv_reachable c ops m0 Hs) as HW. rewrite Forall_forall in HW.
  exact (wi_len _ _ _ (HW s (nth_error_In _ _ Es))).
Qed.
