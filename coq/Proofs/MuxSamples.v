(* First sample-level facts for C01 / C02 (the accounting invariant over whole histories is work in
   progress; the correspondence run compares every decoded sample with the model meanwhile). *)
From Coq Require Import List ZArith Bool Lia Arith.
From GoHls Require Import Model.Mux Proofs.MuxStream Proofs.MuxLift Proofs.MuxWindow Proofs.MuxHistory.
Import ListNotations.
Local Open Scope Z_scope.

(* the constant offset added to every fMP4 decode time is 10 s in the track's own clock *)
Lemma start_offset rate : 0 <= rate -> durationToTimestamp fmp4StartDTS rate = 10 * rate.
Proof.
  intros H. unfold durationToTimestamp, mulDiv, fmp4StartDTS, second.
  change (Z.quot (10 * 1000000000) 1000000000) with 10.
  change (Z.rem (10 * 1000000000) 1000000000) with 0. simpl (0 * rate).
  rewrite Z.quot_0_l by lia. lia.
Qed.

(* the sample a video write hands to the segmenter: decode time as written, presentation offset
   pts - dts, sync flag = random access *)
Lemma video_sample_fields a :
  s_dts (video_sample a) = a_dts a /\ s_ptsoff (video_sample a) = a_pts a - a_dts a
  /\ s_nonsync (video_sample a) = negb (a_ra a) /\ s_ntp (video_sample a) = a_ntp a.
Proof. repeat split. Qed.

(* fmp4WriteSample: a unit whose decode time plus 10 s is still negative is rejected silently *)
Lemma fmp4_rejects_negative m ti t ra pc smp :
  nth_error (m_tracks m) ti = Some t ->
  s_dts smp + durationToTimestamp fmp4StartDTS (t_rate (tk_cfg t)) < 0 ->
  fmp4WriteSample m ti ra pc smp = (m, Ok tt).
Proof.
  intros Ht Hneg. unfold fmp4WriteSample. rewrite Ht.
  destruct (_ <? 0) eqn:E; [reflexivity|]. apply Z.ltb_ge in E. lia.
Qed.

(* the first accepted unit of a track only fills the one-sample look-ahead: nothing is emitted *)
Lemma fmp4_first_unit_buffered m ti t ra pc smp :
  nth_error (m_tracks m) ti = Some t -> tk_next t = None ->
  0 <= s_dts smp + durationToTimestamp fmp4StartDTS (t_rate (tk_cfg t)) ->
  m_streams (fst (fmp4WriteSample m ti ra pc smp)) = m_streams m
  /\ snd (fmp4WriteSample m ti ra pc smp) = Ok tt.
Proof.
  intros Ht Hn Hpos. unfold fmp4WriteSample. rewrite Ht.
  destruct (_ <? 0) eqn:E; [apply Z.ltb_lt in E; lia|]. rewrite Hn. split; reflexivity.
Qed.

(* C02: the init segment is regenerated exactly when none exists yet or the segment being
   published was opened by a forced (parameter change) rotation, and then captures the tracks'
   current parameters *)
Lemma init_regenerated v sc s seg0 d ntp f cur :
  let r := srot_segments v sc s seg0 d ntp f cur in
  snd (fst r) = negb (variant_eqb v MPEGTS) && (match st_init s with None => true | Some _ => false end || sg_forced seg0)
  /\ st_init (fst (fst r)) = if snd (fst r) then Some cur else st_init s.
Proof.
  cbv zeta. unfold srot_segments. cbv zeta.
  destruct (window_append v sc (x_segments (st_mut s)) (sg_with_end seg0 d)) as [segs2 dropped].
  destruct dropped; destruct (st_leading s);
    try destruct (x_target (st_mut s) =? 0); try destruct (x_target (st_mut s) <? _);
    cbn; split; reflexivity.
Qed.

(* a segment opened by a rotation carries the force flag of that rotation (fMP4 variants) *)
Lemma forced_flag v sc s seg0 d ntp f cur g :
  st_open (fst (fst (srot_segments v sc s seg0 d ntp f cur))) = Some g ->
  sg_forced g = match v with MPEGTS => false | _ => f end /\ sg_start g = d /\ sg_ntp g = ntp.
Proof.
  destruct (srot_segments_frame v sc s seg0 d ntp f cur) as (_ & _ & _ & _ & _ & F6 & _).
  rewrite F6. intros [= <-]. repeat split.
Qed.
