(* C01, fMP4 variants: durations chain the decode times.
   In the log of a stream followed by the track's look-ahead unit, every unit's duration is the distance
   (as the 32-bit field stores it) from its decode time to the next unit's; hence, when the written decode
   times never decrease and never jump by 2^32 ticks or more, the decode time of every unit is the previous
   one's plus its duration - which is what makes consecutive fragments' base times contiguous. *)
From Coq Require Import List ZArith Bool Lia Arith.
From GoHls Require Import Model.Mux Proofs.MuxStream Proofs.MuxLift Proofs.MuxWindow Proofs.MuxHistory Proofs.MuxTimes
  Proofs.MuxMulti Proofs.MuxCut Proofs.MuxLog Proofs.MuxLogStep Proofs.MuxLogTS Proofs.MuxPartIds Proofs.MuxAgree
  Proofs.MuxGroups Proofs.MuxRAStart Proofs.MuxRAHist.
Import ListNotations.
Local Open Scope Z_scope.

Fixpoint chained (l : list sample) : Prop :=
  match l with
  | x :: ((y :: _) as l') => s_dur x = u32 (s_dts y - s_dts x) /\ chained l'
  | _ => True
  end.

Lemma chained_app_one l x y : chained (l ++ [x]) -> s_dur x = u32 (s_dts y - s_dts x) -> chained (l ++ [x; y]).
Proof.
  induction l as [|a l IH]; intros Hc Hx; [simpl; auto|].
  destruct l as [|b l]; simpl in *.
  - destruct Hc as [Ha _]. auto.
  - destruct Hc as [Ha Hc]. split; [exact Ha|]. apply IH; auto.
Qed.

Lemma chained_replace_last l x x' : s_dts x' = s_dts x -> chained (l ++ [x]) -> chained (l ++ [x']).
Proof.
  intros Hd. induction l as [|a l IH]; intros Hc; [simpl; auto|].
  destruct l as [|b l]; simpl in *.
  - destruct Hc as [Ha _]. split; [now rewrite Hd|exact I].
  - destruct Hc as [Ha Hc]. split; [exact Ha|]. now apply IH.
Qed.

Definition pend_list (m : mstate) (ti : nat) : list sample :=
  match pending m ti with Some p => [p] | None => [] end.

Record CH (m : mstate) (ti : nat) : Prop := {
  ch_chain : chained (slog m ti ++ pend_list m ti);
  ch_pend : slog m ti <> [] -> pending m ti <> None;
  ch_closed : opened_at m ti = false -> slog m ti = []
}.

(* ---- openness of every stream through a write ---- *)
Lemma opened_pws m a b smp m' j : part_writeSample m a b smp = Ok m' -> opened_at m' j = opened_at m j.
Proof.
  unfold part_writeSample.
  destruct (nth_error (m_streams m) b) as [s|] eqn:Es; [|now intros [= <-]].
  destruct (nth_error (m_tracks m) a) as [t|]; [|now intros [= <-]].
  destruct (st_open s) as [g|] eqn:Eo; [|now intros [= <-]]. destruct (st_openpart s); [|now intros [= <-]].
  destruct (_ <? _); [discriminate|]. intros [= <-].
  unfold opened_at, upd_stream, upd_track. cbn [set_stream set_tracks m_streams].
  destruct (Nat.eq_dec b j) as [->|Hne].
  - rewrite (nth_error_upd_same _ j _ s Es), Es, Eo. reflexivity.
  - now rewrite nth_error_upd_other by exact Hne.
Qed.

Lemma opened_rotateSegments m d ntp f j : LI m -> opened_at (rotateSegments m d ntp f) j = opened_at m j.
Proof.
  intros HL.
  enough (H : LI (rotateSegments m d ntp f) /\ forall j, opened_at (rotateSegments m d ntp f) j = opened_at m j) by apply H.
  apply (T_rotateSegments (fun m' => LI m' /\ forall j, opened_at m' j = opened_at m j)); auto.
  - intros m' si d' ntp' f' [A B]. split; [now apply LI_rots|]. intros k. rewrite opened_rots by exact A. apply B.
  - intros m' i l both [A B]. split; [now apply LI_copy|]. intros k. rewrite opened_copy. apply B.
Qed.

Lemma fmp4_opened_step m ti t ra pc smp0 m' :
  LI m -> nth_error (m_tracks m) ti = Some t -> fmp4WriteSample m ti ra pc smp0 = (m', Ok tt) ->
  (forall j, opened_at m j = true -> opened_at m' j = true)
  /\ (emitted_by m ti t smp0 <> [] -> opened_at m' ti = true).
Proof.
  intros HL Ht. unfold fmp4WriteSample, emitted_by. rewrite Ht. cbv zeta. fold (shifted t smp0).
  pose proof (li_tracks m HL ti t Ht) as Hsi. rewrite Hsi.
  destruct (shifted t smp0 <? 0); [intros [= <-]; split; [auto|congruence]|].
  fold (incoming_of t smp0).
  set (m1 := upd_track m ti (fun t0 => tk_with t0 (tk_firstRA t0) (tk_params t0) (Some (incoming_of t smp0))
                                               (tk_samples t0) (tk_start t0))).
  assert (O1 : forall j, opened_at m1 j = opened_at m j) by reflexivity.
  assert (L1 : LI m1).
  { apply (LI_ext m); auto. subst m1. unfold upd_track. cbn [set_tracks m_tracks]. apply map_upd_static. intros x. reflexivity. }
  destruct (tk_next t) as [prev|]; [|intros [= <-]; split; [auto|congruence]].
  change (match nth_error (m_streams m1) ti with
          | Some s => match st_open s with Some _ => true | None => false end | None => false end) with (opened_at m ti).
  destruct (negb (tk_leading t) && negb (opened_at m ti)) eqn:Eg; [intros [= <-]; split; [auto|congruence]|].
  set (m2 := if tk_leading t && negb (opened_at m ti) then createFirstSegment m1 _ _ else m1).
  assert (Ht1 : exists t1, nth_error (m_tracks m1) ti = Some t1).
  { subst m1. unfold upd_track. cbn [set_tracks m_tracks]. rewrite (nth_error_upd_same _ ti _ t Ht). eauto. }
  destruct Ht1 as (t1 & Ht1). destruct (stream_exists m1 ti t1 L1 Ht1) as (s1 & Hs1).
  assert (S2 : LI m2 /\ (forall j, opened_at m j = true -> opened_at m2 j = true) /\ opened_at m2 ti = true).
  { subst m2. destruct (tk_leading t && negb (opened_at m ti)) eqn:Ec.
    - split; [now apply LI_create|]. split.
      + intros j Hj.
        (* all streams closed before, all open after; j must exist *)
        unfold opened_at, createFirstSegment. cbn [set_stream m_streams]. rewrite nth_error_map.
        destruct (nth_error (m_streams m1) j) as [sj|] eqn:Ej; [reflexivity|].
        (* an absent stream was not open *)
        exfalso. revert Hj. unfold opened_at. change (m_streams m) with (m_streams m1). now rewrite Ej.
      + unfold opened_at, createFirstSegment. cbn [set_stream m_streams]. rewrite nth_error_map, Hs1. reflexivity.
    - split; [exact L1|]. split; [auto|].
      destruct (tk_leading t), (opened_at m ti) eqn:E; simpl in *; try congruence; exact E. }
  destruct S2 as (L2 & Mo2 & O2).
  match goal with |- context [part_writeSample ?a ti ti ?b] => set (m3 := a); set (smp := b) end.
  assert (S3 : LI m3 /\ (forall j, opened_at m3 j = opened_at m2 j)).
  { subst m3. destruct (tk_leading t); [|split; auto].
    match goal with |- context [fmp4AdjustPartDuration ?x ?y] => destruct (adjust_frame x y) as (A & B & C) end.
    split; [apply (LI_ext m2); auto; now rewrite C|]. intros j. unfold opened_at. now rewrite B. }
  destruct S3 as (L3 & O3).
  destruct (part_writeSample m3 ti ti smp) as [m4| |] eqn:Ew; [|discriminate|discriminate].
  pose proof (LI_pws _ _ _ _ _ L3 Ew) as L4.
  assert (O4 : forall j, opened_at m4 j = opened_at m2 j) by (intros j; rewrite (opened_pws _ _ _ _ _ j Ew); apply O3).
  assert (Fin : forall mf X, (forall j, opened_at mf j = opened_at m4 j) ->
            (forall j, opened_at m j = true -> opened_at mf j = true) /\ (X -> opened_at mf ti = true)).
  { intros mf X Hf. split; [intros j Hj; rewrite Hf, O4; now apply Mo2|intros _; now rewrite Hf, O4]. }
  destruct (negb (tk_leading t)); [intros [= <-]; now apply Fin|].
  destruct (nth_error (m_streams m4) ti); [|intros [= <-]; now apply Fin].
  match goal with |- context [if ?c then _ else _] => destruct c end.
  - intros Hr. apply Fin. intros j.
    assert (E : opened_at m' j = opened_at (rotateSegments m4 (timestampToDuration (shifted t smp0) (t_rate (tk_cfg t))) (s_ntp (incoming_of t smp0)) pc) j)
      by (destruct pc; injection Hr as <-; reflexivity).
    rewrite E. now apply opened_rotateSegments.
  - match goal with |- context [if ?c then _ else _] => destruct c end; intros [= <-]; apply Fin; auto.
    intros j. now apply opened_rotateParts.
Qed.

Lemma pending_heads m j : pending m j = match nth_error (heads m) j with Some h => fst h | None => None end.
Proof. unfold pending, heads. rewrite nth_error_map. destruct (nth_error (m_tracks m) j); reflexivity. Qed.

Theorem CH_fmp4 m ti t ra pc smp0 m' :
  LI m -> nth_error (m_tracks m) ti = Some t -> fmp4WriteSample m ti ra pc smp0 = (m', Ok tt) ->
  (forall j, CH m j) -> forall j, CH m' j.
Proof.
  intros HL Ht Hw HC j.
  destruct (fmp4_log_step m ti t ra pc smp0 m' HL Ht Hw) as (L' & Sother & Sti & _ & Hneg).
  destruct (fmp4_opened_step m ti t ra pc smp0 m' HL Ht Hw) as (Omono & Oemit).
  pose proof (heads_fmp4WriteSample m ti t ra pc smp0 m' Ht Hw) as Hh.
  destruct (Z_lt_le_dec (shifted t smp0) 0) as [Hlt|Hge]; [rewrite (Hneg Hlt); apply HC|].
  assert (E0 : (shifted t smp0 <? 0) = false) by (apply Z.ltb_ge; exact Hge). rewrite E0 in Hh.
  destruct (Nat.eq_dec j ti) as [->|Hne].
  - (* the written track *)
    assert (Hp' : pending m' ti = Some (incoming_of t smp0)).
    { rewrite pending_heads, Hh. rewrite (nth_error_upd_same _ ti _ (tk_nf t)); [reflexivity|].
      unfold heads. erewrite map_nth_error by exact Ht. reflexivity. }
    assert (Hp : pending m ti = tk_next t) by (unfold pending; now rewrite Ht).
    destruct (HC ti) as [C1 C2 C3].
    unfold emitted_by in Sti, Oemit. rewrite E0 in Sti, Oemit.
    destruct (tk_next t) as [prev|] eqn:En.
    + destruct (negb (tk_leading t) && negb (opened_at m ti)) eqn:Eg.
      * (* a non-leading track whose stream has not started: the previous look-ahead unit is dropped *)
        rewrite app_nil_r in Sti.
        assert (Hcl : opened_at m ti = false) by (apply andb_true_iff in Eg; destruct Eg as [_ Eg]; now apply negb_true_iff in Eg).
        pose proof (C3 Hcl) as Hnil.
        constructor.
        -- rewrite Sti, Hnil. unfold pend_list. rewrite Hp'. simpl. exact I.
        -- intros _. rewrite Hp'. discriminate.
        -- intros _. now rewrite Sti.
      * constructor.
        -- rewrite Sti. unfold pend_list. rewrite Hp'. rewrite <- app_assoc. cbn [app].
           apply chained_app_one.
           ++ apply (chained_replace_last _ prev); [reflexivity|].
              unfold pend_list in C1. rewrite Hp in C1. exact C1.
           ++ reflexivity.
        -- intros _. rewrite Hp'. discriminate.
        -- intros Hcl. exfalso. rewrite Oemit in Hcl; [discriminate|discriminate].
    + (* the first unit of the track *)
      rewrite app_nil_r in Sti.
      assert (Hnil : slog m ti = []).
      { destruct (slog m ti) eqn:E; [reflexivity|]. exfalso. apply C2; [discriminate|now rewrite Hp]. }
      constructor.
      * rewrite Sti, Hnil. unfold pend_list. rewrite Hp'. simpl. exact I.
      * intros _. rewrite Hp'. discriminate.
      * intros _. now rewrite Sti.
  - (* every other track *)
    assert (Hp : pending m' j = pending m j).
    { rewrite !pending_heads, Hh. now rewrite nth_error_upd_other by congruence. }
    destruct (HC j) as [C1 C2 C3].
    constructor; rewrite ?(Sother j Hne); unfold pend_list; rewrite ?Hp; auto.
    intros Hcl. apply C3. destruct (opened_at m j) eqn:E; [|reflexivity]. rewrite (Omono j E) in Hcl. discriminate.
Qed.

(* ---- lifting to writes and histories ---- *)
Lemma CH_ext m m' :
  m_streams m' = m_streams m -> map tk_samples (m_tracks m') = map tk_samples (m_tracks m) ->
  heads m' = heads m -> (forall j, CH m j) -> forall j, CH m' j.
Proof.
  intros Es Et Eh HC j. destruct (HC j) as [C1 C2 C3].
  assert (Hs : slog m' j = slog m j) by (apply slog_ext; auto).
  assert (Hp : pending m' j = pending m j) by (now rewrite !pending_heads, Eh).
  assert (Ho : opened_at m' j = opened_at m j) by (unfold opened_at; now rewrite Es).
  constructor; unfold pend_list; rewrite ?Hs, ?Hp, ?Ho; auto.
Qed.

Definition CHI (m : mstate) : Prop := LI m /\ forall j, CH m j.

Lemma CHI_write_video m tj t a m' :
  CHI m -> nth_error (m_tracks m) tj = Some t -> write_video m tj t a = (m', Ok tt) -> CHI m'.
Proof.
  intros [HL HC] Ht. unfold write_video. cbv zeta.
  set (ex := match t_kind (tk_cfg t) with H264 | H265 => true | _ => a_ra a end).
  pose proof (heads_video_params m tj t a ex) as Hh1.
  pose proof (cfg_video_params m tj t a ex) as Hc1.
  destruct (video_params_streams' m tj t a ex) as [Es1 Ef1].
  destruct (video_params m tj t a ex) as [m1 pc0]. cbn [fst] in *.
  assert (I1 : CHI m1).
  { split; [apply (LI_ext m); auto; now apply tk_stream_of_frame|]. apply (CH_ext m); auto. now apply samples_of_frame. }
  assert (Hskip : forall mr, wok m1 = (mr, Ok tt) -> CHI mr) by (intros mr [= <-]; exact I1).
  set (m2 := set_firstRA m1 tj).
  assert (I2 : CHI m2 /\ exists t2, nth_error (m_tracks m2) tj = Some t2).
  { destruct I1 as [L1 C1].
    assert (Ef2 : map tk_frame (m_tracks m2) = map tk_frame (m_tracks m1)).
    { subst m2. unfold set_firstRA, upd_track. cbn [set_tracks m_tracks]. apply map_upd_static. intros x. reflexivity. }
    split; [split|].
    - apply (LI_ext m1); auto. now apply tk_stream_of_frame.
    - assert (Hs2 : forall j, slog m2 j = slog m1 j) by (intros j; apply slog_ext; auto; now apply samples_of_frame).
      assert (Hp2 : forall j, pending m2 j = pending m1 j).
      { intros j. unfold pending. subst m2. unfold set_firstRA, upd_track. cbn [set_tracks m_tracks].
        destruct (Nat.eq_dec tj j) as [->|Hne].
        - destruct (nth_error (m_tracks m1) j) as [x|] eqn:Ex.
          + now rewrite (nth_error_upd_same _ j _ x Ex).
          + assert (Hn : nth_error (upd (m_tracks m1) j (fun t0 => tk_with t0 true (tk_params t0) (tk_next t0) (tk_samples t0) (tk_start t0))) j = None)
              by (apply nth_error_None; rewrite upd_length; now apply nth_error_None).
            now rewrite Hn.
        - now rewrite nth_error_upd_other by exact Hne. }
      intros j. destruct (C1 j) as [A B C]. constructor; unfold pend_list; rewrite ?Hs2, ?Hp2; auto.
    - assert (A : option_map tk_frame (nth_error (m_tracks m2) tj) = option_map tk_frame (nth_error (m_tracks m) tj))
        by (rewrite <- !nth_error_map, Ef2, Ef1; reflexivity).
      rewrite Ht in A. destruct (nth_error (m_tracks m2) tj) as [t2|]; simpl in A; [eauto|discriminate]. }
  destruct I2 as ([L2 C2] & t2 & Ht2).
  assert (Hgo : forall mr, fmp4WriteSample m2 tj (a_ra a) pc0 (video_sample a) = (mr, Ok tt) -> CHI mr).
  { intros mr Hw. split.
    - now destruct (fmp4_log_step m2 tj t2 (a_ra a) pc0 (video_sample a) mr L2 Ht2 Hw) as (A & _).
    - eapply CH_fmp4; eauto. }
  destruct (t_kind (tk_cfg t)).
  - destruct (negb (a_ra a) && negb (a_nonidr a)); [apply Hskip|].
    destruct (negb (tk_firstRA t) && negb (a_ra a)); [apply Hskip|].
    destruct (c_variant (m_cfg m)) eqn:Ev; [exfalso; exact (li_variant m HL Ev)|apply Hgo|apply Hgo].
  - destruct (negb (tk_firstRA t) && negb (a_ra a)); [apply Hskip|apply Hgo].
  - destruct (negb (tk_firstRA t) && negb (a_ra a)); [apply Hskip|apply Hgo].
  - destruct (negb (tk_firstRA t) && negb (a_ra a)); [apply Hskip|apply Hgo].
  - destruct (negb (tk_firstRA t) && negb (a_ra a)); [apply Hskip|apply Hgo].
  - destruct (negb (tk_firstRA t) && negb (a_ra a)); [apply Hskip|apply Hgo].
Qed.

Lemma CHI_audio_units units : forall m tj k rate srate i pts ntp m',
  CHI m -> write_audio_units m tj k rate srate i pts ntp units = (m', Ok tt) -> CHI m'.
Proof.
  induction units as [|x units IH]; intros m tj k rate srate i pts ntp m' HI; cbn [write_audio_units].
  - intros [= <-]. exact HI.
  - destruct (match k with OPUS => (pts, ntp) | _ => _ end) as [upts untp].
    match goal with |- context [fmp4WriteSample m tj true false ?s] =>
      set (smp := s); destruct (fmp4WriteSample m tj true false smp) as [m1 r] eqn:Ew end.
    destruct r as [[]|e|p]; [|discriminate|discriminate].
    assert (I1 : CHI m1).
    { destruct HI as [HL HC]. destruct (nth_error (m_tracks m) tj) as [t|] eqn:Ht.
      - split; [now destruct (fmp4_log_step m tj t true false smp m1 HL Ht Ew) as (A & _)|eapply CH_fmp4; eauto].
      - unfold fmp4WriteSample in Ew. rewrite Ht in Ew. injection Ew as <-. split; auto. }
    intros Hr. destruct k; eapply IH; eauto.
Qed.

Theorem CHI_mux_step m o m' : CHI m -> mux_step m o = (m', Ok tt) -> CHI m'.
Proof.
  intros HI. destruct o as [tj a]. unfold mux_step, mux_write.
  destruct (nth_error (m_tracks m) tj) as [t|] eqn:Ht; [|intros [= <-]; exact HI].
  destruct (isVideo (t_kind (tk_cfg t))).
  - intros Hw. eapply CHI_write_video; eauto.
  - unfold write_audio. destruct HI as [HL HC].
    destruct (c_variant (m_cfg m)) eqn:Ev; [exfalso; exact (li_variant m HL Ev)| |];
      intros Hw; eapply CHI_audio_units; eauto; split; auto.
Qed.

Theorem CHI_mux_run ops : forall m, CHI m -> all_ok m ops -> CHI (mux_run m ops).
Proof.
  induction ops as [|o ops IH]; intros m HI Hok; [exact HI|]. cbn [mux_run]. destruct Hok as [Hr Hok].
  apply IH; auto. eapply CHI_mux_step; eauto. rewrite <- Hr. apply surjective_pairing.
Qed.

Theorem start_CHI c m : start c = Ok m -> c_variant c <> MPEGTS -> CHI m.
Proof.
  intros Hs Hv. destruct (start_LI c m Hs Hv) as [HL H0]. split; [exact HL|].
  intros j. constructor; rewrite ?H0; try congruence.
  cbn [app]. unfold pend_list. destruct (pending m j); simpl; exact I.
Qed.

(* in every state reachable by successful writes, every stream's log followed by the look-ahead unit is
   chained: each unit's duration is the 32-bit distance from its decode time to the next unit's *)
Theorem durations_chain_decode_times c m0 ops j :
  start c = Ok m0 -> c_variant c <> MPEGTS -> all_ok m0 ops ->
  chained (slog (mux_run m0 ops) j ++ pend_list (mux_run m0 ops) j).
Proof.
  intros Hs Hv Hok. destruct (CHI_mux_run ops m0 (start_CHI c m0 Hs Hv) Hok) as [_ HC]. apply HC.
Qed.

(* ================================================================================================
   Contiguous base times.
   ================================================================================================ *)
(* consecutive decode times never decrease and never jump by 2^32 ticks or more *)
Fixpoint steps_fit (l : list sample) : Prop :=
  match l with
  | x :: ((y :: _) as l') => 0 <= s_dts y - s_dts x < 4294967296 /\ steps_fit l'
  | _ => True
  end.

Definition sum_dur (l : list sample) : Z := fold_right (fun x acc => s_dur x + acc) 0 l.

Lemma u32_small z : 0 <= z < 4294967296 -> u32 z = z.
Proof. intros H. unfold u32. now apply Z.mod_small. Qed.

Lemma chained_tail a l : chained (a :: l) -> chained l.
Proof. destruct l; simpl; [auto|]. now intros [_ H]. Qed.

Lemma steps_fit_tail a l : steps_fit (a :: l) -> steps_fit l.
Proof. destruct l; simpl; [auto|]. now intros [_ H]. Qed.

(* from the head of a non-empty run to the unit after it: the decode times differ by the run's durations *)
Lemma chained_run l1 : forall x sp y l2,
  chained (l1 ++ (x :: sp) ++ y :: l2) -> steps_fit (l1 ++ (x :: sp) ++ y :: l2) ->
  s_dts y = s_dts x + sum_dur (x :: sp).
Proof.
  induction l1 as [|a l1 IH]; intros x sp y l2 Hc Hs.
  - cbn [app] in *. revert x Hc Hs. induction sp as [|z sp IHs]; intros x Hc Hs.
    + simpl in *. destruct Hc as [Hc _]. destruct Hs as [Hs _]. rewrite Hc, u32_small by exact Hs. lia.
    + simpl in Hc, Hs. destruct Hc as [Hc Hc']. destruct Hs as [Hs Hs'].
      specialize (IHs z Hc' Hs'). cbn [sum_dur fold_right] in *. rewrite IHs, Hc, u32_small by exact Hs. lia.
  - apply (IH x sp y l2); [eapply chained_tail; exact Hc|eapply steps_fit_tail; exact Hs].
Qed.

(* ---- the base time of a fragment is the decode time of its first sample ---- *)
Definition track_ok (t : trk) : Prop :=
  forall ss, tk_samples t = Some ss -> exists x rest, ss = x :: rest /\ tk_start t = s_dts x.
Definition part_ok (p : part) : Prop :=
  p_samples p <> [] -> exists x rest, p_samples p = x :: rest /\ p_base p = s_dts x.

Definition PBI (m : mstate) : Prop :=
  Forall track_ok (m_tracks m) /\ Forall (fun s => Forall part_ok (all_parts s)) (m_streams m).

Lemma PBI_rotp m si d cn : LI m -> PBI m -> PBI (stream_rotateParts m si d cn).
Proof.
  intros HL [HT HS].
  destruct (rotp_spec m si d cn) as [[E1 E2]|(s & seg & p0 & Es & Eo & Ep & E1 & E2)]; cbv zeta in *.
  - split; [now rewrite E2|now rewrite E1].
  - pose proof (li_streams m HL si s Es) as Hts.
    split.
    + rewrite E2. unfold part_finalize. rewrite Hts.
      destruct (nth_error (m_tracks m) si) as [t|] eqn:Et; [|exact HT].
      destruct (tk_samples t) eqn:Ess; [|exact HT]. cbn [snd].
      apply Forall_upd; [exact HT|]. intros x _ _ ss Hss. discriminate.
    + rewrite E1. apply Forall_upd; [exact HS|]. intros x Hx Hok. rewrite Es in Hx. injection Hx as <-.
      rewrite all_parts_srot_parts by exact Eo. apply Forall_app. split; [exact Hok|]. constructor; [|constructor].
      unfold part_finalize. rewrite Hts.
      destruct (nth_error (m_tracks m) si) as [t|] eqn:Et; [|intros H; now elim H].
      destruct (tk_samples t) as [ss|] eqn:Ess; [|intros H; now elim H]. cbn [fst p_samples p_base].
      intros _. rewrite Forall_forall in HT. exact (HT t (nth_error_In _ _ Et) ss Ess).
Qed.

Lemma PBI_rots m si d ntp f : LI m -> PBI m -> PBI (stream_rotateSegments m si d ntp f).
Proof.
  intros HL HP. pose proof (rots_spec m si d ntp f) as [HS HT]. cbv zeta in HS, HT.
  set (m1 := match c_variant (m_cfg m) with MPEGTS => m | _ => stream_rotateParts m si d false end) in *.
  assert (H1 : PBI m1) by (subst m1; destruct (c_variant (m_cfg m)); auto using PBI_rotp).
  destruct H1 as [T1 S1]. split; [now rewrite HT|].
  destruct HS as [->|(s & seg0 & cur & Es & Eo & ->)]; [exact S1|].
  apply Forall_upd; [exact S1|]. intros x Hx Hok. rewrite Es in Hx. injection Hx as <-.
  now rewrite all_parts_srot_segments by exact Eo.
Qed.

Lemma PBI_all_parts_st_with s x :
  x_segments x = st_segments s -> x_evicted x = st_evicted s ->
  (match x_open x with Some g => sg_parts g | None => [] end) = (match st_open s with Some g => sg_parts g | None => [] end) ->
  all_parts (st_with s x) = all_parts s.
Proof.
  intros E1 E2 E3. unfold all_parts, published. cbn [st_with st_evicted st_segments st_open]. now rewrite E1, E2, E3.
Qed.

Definition LP (m : mstate) : Prop := LI m /\ PBI m.

Theorem LP_mux_step m o : LP m -> LP (fst (mux_step m o)).
Proof.
  apply (T_mux_step LP).
  - intros m0 tracks pending sdurs adj freeze errs Hf [HL [HT HS]]. split; [now apply LI_frame|]. split; [|exact HS].
    cbn [m_tracks]. apply Forall_forall. intros t' Ht'. apply In_nth_error in Ht'. destruct Ht' as [k Hk].
    assert (E : option_map tk_frame (nth_error tracks k) = option_map tk_frame (nth_error (m_tracks m0) k))
      by (rewrite <- !nth_error_map, Hf; reflexivity).
    rewrite Hk in E. simpl in E. destruct (nth_error (m_tracks m0) k) as [t0|] eqn:E0; simpl in E; [|discriminate].
    injection E as _ _ _ Es Est. rewrite Forall_forall in HT. pose proof (HT t0 (nth_error_In _ _ E0)) as H0.
    intros ss Hss. rewrite Es in Hss. rewrite Est. now apply H0.
  - intros m0 d ntp ti t Ht Ho [HL [HT HS]]. split; [now apply LI_create|]. split; [exact HT|].
    unfold createFirstSegment. cbn [set_stream m_streams]. apply Forall_map. eapply Forall_impl; [|exact HS].
    intros s Hs. unfold stream_createFirst.
    (* the parts of a replaced open segment (none in reachable states) can only disappear *)
    unfold all_parts, published in *. cbn [st_with st_evicted st_segments st_open x_evicted x_segments x_open st_mut new_seg sg_parts].
    rewrite app_nil_r. apply Forall_app in Hs. now destruct Hs.
  - intros m0 si d [HL HP]. split; [now apply LI_rotp|now apply PBI_rotp].
  - intros m0 si d ntp f [HL HP]. split; [now apply LI_rots|now apply PBI_rots].
  - intros m0 i l both [HL [HT HS]]. split; [now apply LI_copy|]. split; [exact HT|].
    unfold upd_stream. cbn [set_stream m_streams]. apply Forall_upd; [exact HS|]. intros x _ Hok.
    unfold copy_targets. destruct (st_leading x); [exact Hok|]. now rewrite PBI_all_parts_st_with.
  - intros m0 ti si smp m' [HL [HT HS]] Hw. split; [eapply LI_pws; eauto|].
    unfold part_writeSample in Hw.
    destruct (nth_error (m_streams m0) si) as [s|] eqn:Es; [|injection Hw as <-; split; auto].
    destruct (nth_error (m_tracks m0) ti) as [t|] eqn:Et; [|injection Hw as <-; split; auto].
    destruct (st_open s) as [seg|] eqn:Eo; [|injection Hw as <-; split; auto].
    destruct (st_openpart s) as [p|] eqn:Ep; [|injection Hw as <-; split; auto].
    destruct (_ <? _); [discriminate|]. injection Hw as <-.
    unfold upd_stream, upd_track. cbn [set_stream set_tracks m_streams m_tracks]. split.
    + apply Forall_upd; [exact HT|]. intros x Hx Hok. rewrite Et in Hx. injection Hx as <-.
      intros ss Hss. cbn [tk_with tk_samples tk_start] in *. injection Hss as <-.
      destruct (tk_samples t) as [l|] eqn:El.
      * destruct (Hok l El) as (x0 & rest & -> & Hst). exists x0, (rest ++ [smp]). split; [reflexivity|exact Hst].
      * exists smp, []. split; reflexivity.
    + apply Forall_upd; [exact HS|]. intros x Hx Hok. rewrite Es in Hx. injection Hx as <-.
      rewrite PBI_all_parts_st_with; auto. cbn [x_open sg_with_size sg_parts]. now rewrite Eo.
  - intros m0 si u size e inc [HL [HT HS]]. split; [now apply LI_ts|]. unfold ts_write.
    destruct (nth_error (m_streams m0) si) as [s|] eqn:Es; [|split; auto].
    destruct (st_open s) as [seg|] eqn:Eo; [|split; auto].
    destruct (_ <? _); [split; auto|]. cbn [fst wok]. split; [exact HT|].
    unfold upd_stream. cbn [set_stream m_streams]. apply Forall_upd; [exact HS|]. intros x Hx Hok.
    rewrite Es in Hx. injection Hx as <-. rewrite PBI_all_parts_st_with; auto. cbn [x_open sg_ts_write sg_parts]. now rewrite Eo.
Qed.

Theorem LP_mux_run ops : forall m, LP m -> LP (mux_run m ops).
Proof. induction ops as [|o ops IH]; intros m H; [exact H|]. cbn [mux_run]. apply IH. now apply LP_mux_step. Qed.

Lemma slog_all_parts m j s :
  nth_error (m_streams m) j = Some s -> slog m j = flat_map p_samples (all_parts s) ++ buffered (m_tracks m) s.
Proof.
  intros Es. unfold slog. rewrite Es. f_equal. unfold stream_emitted, all_parts, seg_samples.
  rewrite flat_map_app'. f_equal.
  - generalize (published s). induction l as [|g l IH]; simpl; auto. rewrite flat_map_app', IH. reflexivity.
  - destruct (st_open s); reflexivity.
Qed.

(* consecutive fragments of a track have contiguous base times: from one fragment with samples to the next
   one with samples (fragments without samples of this track in between), the base time advances by exactly
   the sum of the first one's sample durations *)
Theorem base_times_contiguous c m0 ops j s A P E Q B :
  start c = Ok m0 -> c_variant c <> MPEGTS -> all_ok m0 ops ->
  let m := mux_run m0 ops in
  nth_error (m_streams m) j = Some s ->
  all_parts s = A ++ P :: E ++ Q :: B ->
  p_samples P <> [] -> p_samples Q <> [] -> Forall (fun p => p_samples p = []) E ->
  steps_fit (slog m j ++ pend_list m j) ->
  p_base Q = p_base P + sum_dur (p_samples P).
Proof.
  intros Hs Hv Hok m Hj Hall HP HQ HE Hfit.
  destruct (CHI_mux_run ops m0 (start_CHI c m0 Hs Hv) Hok) as [HL HC].
  pose proof (ch_chain _ _ (HC j)) as Hch. fold m in Hch.
  assert (HPB : PBI m).
  { destruct (start_LI c m0 Hs Hv) as [HL0 _].
    assert (HP0 : PBI m0).
    { split.
      - apply Forall_forall. intros t Ht ss Hss. exfalso.
        assert (ET : m_tracks m0 = mk_tracks (norm_cfg c) 0 (c_tracks c)).
        { unfold start in Hs. destruct (negb (start_ok (norm_cfg c))); [discriminate|]. now injection Hs as <-. }
        rewrite ET in Ht. apply In_nth_error in Ht. destruct Ht as [k Hk].
        destruct (mk_tracks_static _ _ _ _ _ Hk) as (t0 & _ & _ & _ & _ & _ & Hn). congruence.
      - apply Forall_forall. intros s0 Hs0. destruct (start_GPI c m0 Hs) as [_ HPid].
        rewrite Forall_forall in HPid. destruct (HPid s0 Hs0) as [_ Hn _].
        assert (Hl : all_parts s0 = []).
        { pose proof (start_streams c m0 Hs) as ES. rewrite ES in Hs0.
          assert (Hnp : st_nextPart s0 = 0).
          { destruct (c_variant c); [destruct Hs0 as [<-|[]]; reflexivity| |];
              (clear - Hs0; revert Hs0; generalize 0%nat, false;
               induction (c_tracks c) as [|t ts IH]; intros i ch H; [destruct H|]; cbn [mk_streams] in H;
               match type of H with context [let '(a, b) := ?x in _] => destruct x as [dflt chosen'] end;
               destruct H as [<-|H]; [reflexivity|eauto]). }
          rewrite Hnp in Hn. destruct (all_parts s0); [reflexivity|simpl in Hn; lia]. }
        rewrite Hl. constructor. }
    exact (proj2 (LP_mux_run ops m0 (conj HL0 HP0))). }
  destruct HPB as [_ HS]. rewrite Forall_forall in HS.
  pose proof (HS s (nth_error_In _ _ Hj)) as Hparts. rewrite Hall in Hparts.
  rewrite Forall_forall in Hparts.
  destruct (Hparts P ltac:(apply in_app_iff; right; now left) HP) as (x & sp & EP & BP).
  destruct (Hparts Q ltac:(apply in_app_iff; right; right; apply in_app_iff; right; now left) HQ) as (y & sq & EQ & BQ).
  rewrite BP, BQ, EP.
  (* the flat log around P and Q *)
  assert (HflatE : flat_map p_samples E = []).
  { clear - HE. induction HE as [|p E Hp HE IH]; simpl; auto. now rewrite Hp, IH. }
  rewrite (slog_all_parts m j s Hj), Hall in Hch, Hfit.
  rewrite flat_map_app' in Hch, Hfit. cbn [flat_map] in Hch, Hfit.
  rewrite flat_map_app', HflatE in Hch, Hfit. cbn [flat_map app] in Hch, Hfit.
  rewrite EP, EQ in Hch, Hfit. rewrite <- !app_assoc in Hch, Hfit. cbn [app] in Hch, Hfit.
  eapply (chained_run (flat_map p_samples A) x sp y); [exact Hch|exact Hfit].
Qed.

(* the premises of base_times_contiguous are met by a run with four finalized parts (100 ms frames, 200 ms parts) *)
Definition ch_ops : list wop :=
  map (fun k => WWrite 0 (ex_au (k * 9000) (k =? 0) (10 + k))) [0;1;2;3;4;5;6;7;8].

Lemma chain_example : exists m0 s P Q B,
  start ex_cfg = Ok m0 /\ c_variant ex_cfg <> MPEGTS /\ all_ok m0 ch_ops
  /\ nth_error (m_streams (mux_run m0 ch_ops)) 0 = Some s
  /\ all_parts s = [] ++ P :: [] ++ Q :: B
  /\ p_samples P <> [] /\ p_samples Q <> [] /\ Forall (fun p => p_samples p = []) []
  /\ steps_fit (slog (mux_run m0 ch_ops) 0 ++ pend_list (mux_run m0 ch_ops) 0)
  /\ (p_base P, map s_dur (p_samples P), p_base Q) = (900000, [9000; 9000], 918000).
Proof.
  destruct (start ex_cfg) as [m0| |] eqn:E; [|vm_compute in E; discriminate|vm_compute in E; discriminate].
  vm_compute in E. injection E as <-.
  eexists. eexists. eexists. eexists. eexists.
  split; [reflexivity|]. split; [discriminate|]. split; [vm_compute; tauto|].
  split; [vm_compute; reflexivity|]. split; [vm_compute; reflexivity|].
  split; [discriminate|]. split; [discriminate|]. split; [constructor|].
  split; [vm_compute; repeat split; discriminate|]. vm_compute. reflexivity.
Qed.
