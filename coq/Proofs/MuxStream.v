(* Stream-level invariants of the muxer model: the segment window, media sequence numbers,
   ids, contiguity of segment and part times. Everything here is about the pure stream functions
   stream_createFirst / srot_parts / srot_segments of Model/Mux.v. *)
From Coq Require Import List ZArith Bool Lia Arith.
From GoHls Require Import Model.Mux.
Import ListNotations.
Local Open Scope Z_scope.

Definition published (s : stream) : list segrec := st_evicted s ++ st_segments s.
Definition first_id (v : variant) : Z := match v with LL => 7 | _ => 0 end.

(* ---------------------------------------------------------------- window_append *)
Lemma repeat_nth_error {A} (x : A) n i y : nth_error (repeat x n) i = Some y -> y = x /\ (i < n)%nat.
Proof.
  revert i; induction n as [|n IH]; intros [|i] H; simpl in H; try discriminate.
  - injection H as <-. split; [reflexivity|lia].
  - apply IH in H. destruct H. split; [assumption|lia].
Qed.

Lemma window_append_spec v sc segs seg :
  let pre := with_gaps v segs seg in
  (snd (window_append v sc segs seg) = None /\ fst (window_append v sc segs seg) = pre ++ [seg]
   /\ Z.of_nat (length (pre ++ [seg])) <= sc)
  \/ (exists d rest, snd (window_append v sc segs seg) = Some d
                     /\ fst (window_append v sc segs seg) = rest /\ pre ++ [seg] = d :: rest
                     /\ sc < Z.of_nat (length (pre ++ [seg]))).
Proof.
  intros pre. unfold window_append. fold pre.
  destruct (sc <? Z.of_nat (length (pre ++ [seg]))) eqn:E.
  - apply Z.ltb_lt in E. right.
    destruct (pre ++ [seg]) as [|d rest] eqn:Ep.
    + destruct pre; discriminate.
    + exists d, rest. simpl. auto.
  - apply Z.ltb_ge in E. left. simpl. auto.
Qed.

(* ---------------------------------------------------------------- the window invariant *)
Record WInv (v : variant) (sc : Z) (s : stream) : Prop := {
  wi_len : Z.of_nat (length (st_segments s)) <= sc;
  wi_del : st_delcount s = Z.of_nat (length (st_evicted s));
  wi_ids : forall i g, nth_error (published s) i = Some g -> sg_gap g = false -> sg_id g = Z.of_nat i;
  wi_gaps : forall i g, nth_error (published s) i = Some g -> sg_gap g = true -> v = LL /\ (i < 7)%nat;
  wi_llgaps : forall i g, v = LL -> nth_error (published s) i = Some g -> (i < 7)%nat -> sg_gap g = true;
  wi_next : st_nextSeg s = Z.max (first_id v) (Z.of_nat (length (published s)));
  wi_open : forall g, st_open s = Some g -> sg_id g = st_nextSeg s /\ sg_gap g = false;
  wi_empty : st_segments s = [] -> st_evicted s = [];
  wi_ll8 : v = LL -> published s <> [] -> (8 <= length (published s))%nat
}.

Lemma WInv_init v sc tracks isv num lead rend dflt name lang :
  0 <= sc ->
  WInv v sc (mk_stream tracks isv num lead rend dflt name lang (first_id v)).
Proof.
  intros Hsc. constructor; unfold published; simpl; auto; try lia;
    try (intros [|i] g H; discriminate); try (intros [|i] g ? H; discriminate);
    try discriminate; try congruence.
  destruct v; simpl; lia.
Qed.

Lemma WInv_createFirst v sc s d ntp :
  WInv v sc s -> WInv v sc (stream_createFirst v s d ntp).
Proof.
  intros [H1 H2 H3 H4 H5 H6 H7 H8 H9].
  constructor; unfold published, stream_createFirst in *; cbn [st_with st_mut st_segments st_evicted
    st_delcount st_nextSeg st_open x_segments x_evicted x_delcount x_nextSeg x_open]; auto.
  intros g [= <-]. simpl. auto.
Qed.

(* srot_parts does not touch the window *)
Lemma srot_parts_frame v s seg p d cn :
  let s' := fst (srot_parts v s seg p d cn) in
  st_segments s' = st_segments s /\ st_evicted s' = st_evicted s /\ st_delcount s' = st_delcount s
  /\ st_nextSeg s' = st_nextSeg s /\ st_target s' = st_target s /\ st_init s' = st_init s
  /\ st_nextPart s' = st_nextPart s + 1
  /\ st_open s' = Some (sg_with_parts seg (sg_parts seg ++ [p]))
  /\ st_openpart s' = (if cn then Some (new_part (st_nextPart s + 1) d) else None).
Proof.
  unfold srot_parts. cbv zeta.
  destruct (st_leading s); [destruct (x_parttarget (st_mut s) =? 0);
    [|destruct (partTargetDuration v _ _ =? _)]|]; simpl; repeat split; reflexivity.
Qed.

Lemma WInv_srot_parts v sc s seg p d cn :
  st_open s = Some seg ->
  WInv v sc s -> WInv v sc (fst (srot_parts v s seg p d cn)).
Proof.
  intros Hopen [H1 H2 H3 H4 H5 H6 H7 H8 H9].
  destruct (srot_parts_frame v s seg p d cn) as (F1 & F2 & F3 & F4 & _ & _ & _ & F8 & _).
  constructor; unfold published in *; rewrite ?F1, ?F2, ?F3, ?F4; auto.
  intros g Hg. rewrite F8 in Hg. injection Hg as <-.
  destruct (H7 _ Hopen) as [Ha Hb]. simpl. auto.
Qed.

Lemma nth_error_snoc {A} (l : list A) x i y :
  nth_error (l ++ [x]) i = Some y ->
  (nth_error l i = Some y /\ (i < length l)%nat) \/ (i = length l /\ y = x).
Proof.
  intros H. destruct (lt_dec i (length l)) as [Hl|Hl].
  - rewrite nth_error_app1 in H by lia. auto.
  - rewrite nth_error_app2 in H by lia.
    destruct (i - length l)%nat as [|k] eqn:E; simpl in H.
    + injection H as <-. right. split; [lia|reflexivity].
    + destruct k; discriminate.
Qed.

Lemma srot_segments_frame v sc s seg0 d ntp f cur :
  let s' := fst (fst (srot_segments v sc s seg0 d ntp f cur)) in
  let seg := sg_with_end seg0 d in
  st_segments s' = fst (window_append v sc (st_segments s) seg)
  /\ st_evicted s' = (match snd (window_append v sc (st_segments s) seg) with
                      | Some x => st_evicted s ++ [x] | None => st_evicted s end)
  /\ st_delcount s' = (match snd (window_append v sc (st_segments s) seg) with
                       | Some _ => st_delcount s + 1 | None => st_delcount s end)
  /\ st_nextSeg s' = st_nextSeg s + 1
  /\ st_nextPart s' = st_nextPart s
  /\ st_open s' = Some (new_seg (st_nextSeg s + 1) ntp d (match v with MPEGTS => false | _ => f end))
  /\ st_openpart s' = (match v with MPEGTS => None | _ => Some (new_part (st_nextPart s) d) end)
  /\ st_parttarget s' = st_parttarget s.
Proof.
  unfold srot_segments. cbv zeta.
  destruct (window_append v sc (x_segments (st_mut s)) (sg_with_end seg0 d)) as [segs2 dropped] eqn:Ew.
  cbn [st_mut x_segments] in Ew. rewrite Ew. cbn [fst snd].
  destruct dropped; destruct (st_leading s);
    try destruct (x_target (st_mut s) =? 0); try destruct (x_target (st_mut s) <? _);
    simpl; repeat split; reflexivity.
Qed.

Lemma published_srot_segments v sc s seg0 d ntp f cur :
  let s' := fst (fst (srot_segments v sc s seg0 d ntp f cur)) in
  let seg := sg_with_end seg0 d in
  published s' =
  st_evicted s ++ (with_gaps v (st_segments s) seg) ++ [seg].
Proof.
  cbv zeta. destruct (srot_segments_frame v sc s seg0 d ntp f cur) as (F1 & F2 & _).
  unfold published. rewrite F1, F2.
  destruct (window_append_spec v sc (st_segments s) (sg_with_end seg0 d)) as
    [(E1 & E2 & _)|(x & rest & E1 & E2 & E3 & _)].
  - rewrite E1, E2. reflexivity.
  - rewrite E1, E2. rewrite E3. rewrite <- app_assoc. reflexivity.
Qed.

Lemma WInv_srot_segments v sc s seg0 d ntp f cur :
  3 <= sc -> (v = LL -> 7 <= sc) ->
  st_open s = Some seg0 ->
  WInv v sc s -> WInv v sc (fst (fst (srot_segments v sc s seg0 d ntp f cur))).
Proof.
  intros Hsc Hll Hopen [H1 H2 H3 H4 H5 H6 H7 H8 H9].
  pose proof (published_srot_segments v sc s seg0 d ntp f cur) as HP. cbv zeta in HP.
  destruct (srot_segments_frame v sc s seg0 d ntp f cur) as (F1 & F2 & F3 & F4 & F5 & F6 & F7 & F8).
  set (s' := fst (fst (srot_segments v sc s seg0 d ntp f cur))) in *.
  set (seg := sg_with_end seg0 d) in *.
  destruct (H7 _ Hopen) as [Hid Hgap].
  assert (Hsegid : sg_id seg = st_nextSeg s) by (subst seg; simpl; exact Hid).
  assert (Hseggap : sg_gap seg = false) by (subst seg; simpl; exact Hgap).
  (* shape of the old published list *)
  set (pre := with_gaps v (st_segments s) seg) in *.
  assert (Hpub_old : published s = st_evicted s ++ st_segments s) by reflexivity.
  (* length of the new published list *)
  assert (Hlen_new : length (published s') = (length (st_evicted s) + length pre + 1)%nat).
  { rewrite HP, !app_length. simpl. lia. }
  (* case analysis: first LL rotation or not *)
  assert (Hcases : (v = LL /\ st_segments s = [] /\ st_evicted s = [] /\ pre = repeat (mkgap (sg_dur seg)) 7)
                   \/ (pre = st_segments s /\ (v = LL -> st_segments s <> []))).
  { subst pre. unfold with_gaps. destruct v; try (right; split; [reflexivity|discriminate]).
    destruct (st_segments s) eqn:Es.
    - left. repeat split; auto.
    - right. split; [reflexivity|]. intros _; discriminate. }
  constructor.
  - (* length bound *)
    rewrite F1.
    destruct (window_append_spec v sc (st_segments s) seg) as
      [(E1 & E2 & E3)|(x & rest & E1 & E2 & E3 & E4)]; fold pre in E2, E3 || fold pre in E3, E4.
    + rewrite E2. exact E3.
    + rewrite E2. fold pre in E3. assert (length (pre ++ [seg]) = S (length rest)) by (rewrite E3; reflexivity).
      rewrite app_length in H. simpl in H.
      destruct Hcases as [(Hv & Hs & He & Hp)|(Hp & _)].
      * rewrite Hp, repeat_length in H. specialize (Hll Hv). lia.
      * rewrite Hp in H. lia.
  - (* delcount *)
    rewrite F2, F3. destruct (snd (window_append v sc (st_segments s) seg)).
    + rewrite app_length. simpl. lia.
    + exact H2.
  - (* ids *)
    intros i g Hn Hg. rewrite HP in Hn. rewrite app_assoc in Hn.
    apply nth_error_snoc in Hn. destruct Hn as [(Hn & Hi)|(Hi & ->)].
    + destruct Hcases as [(Hv & Hs & He & Hp)|(Hp & _)].
      * rewrite He, Hp in Hn. cbn [app] in Hn. apply repeat_nth_error in Hn. destruct Hn as [-> _].
        discriminate.
      * rewrite Hp in Hn. apply (H3 i g); auto.
    + rewrite Hsegid, H6. rewrite app_length in Hi.
      destruct Hcases as [(Hv & Hs & He & Hp)|(Hp & Hne)].
      * rewrite Hpub_old, He, Hs, Hp, repeat_length in *. subst v. simpl in *. lia.
      * rewrite Hp in Hi. rewrite Hpub_old, app_length.
        destruct v; simpl; try lia.
        assert (Hne' : published s <> []).
        { rewrite Hpub_old. intros Hc. apply app_eq_nil in Hc. destruct Hc as [_ Hc].
          apply Hne in Hc; auto. }
        specialize (H9 eq_refl Hne'). rewrite Hpub_old, app_length in H9. lia.
  - (* gaps only in LL below 7 *)
    intros i g Hn Hg. rewrite HP in Hn. rewrite app_assoc in Hn.
    apply nth_error_snoc in Hn. destruct Hn as [(Hn & Hi)|(Hi & ->)].
    + destruct Hcases as [(Hv & Hs & He & Hp)|(Hp & _)].
      * rewrite He, Hp in Hn. cbn [app] in Hn. apply repeat_nth_error in Hn. destruct Hn as [_ Hlt]. auto.
      * rewrite Hp in Hn. apply (H4 i g); auto.
    + congruence.
  - (* LL: positions below 7 are gaps *)
    intros i g Hv Hn Hi. rewrite HP in Hn. rewrite app_assoc in Hn.
    apply nth_error_snoc in Hn. destruct Hn as [(Hn & Hi')|(Hi' & ->)].
    + destruct Hcases as [(_ & Hs & He & Hp)|(Hp & _)].
      * rewrite He, Hp in Hn. cbn [app] in Hn. apply repeat_nth_error in Hn. destruct Hn as [-> _]. reflexivity.
      * rewrite Hp in Hn. apply (H5 i g); auto.
    + exfalso. rewrite app_length in Hi'.
      destruct Hcases as [(_ & Hs & He & Hp)|(Hp & Hne)].
      * rewrite Hp, repeat_length in Hi'. lia.
      * rewrite Hp in Hi'.
        assert (Hne' : published s <> []).
        { rewrite Hpub_old. intros Hc. apply app_eq_nil in Hc. destruct Hc as [_ Hc].
          apply Hne in Hc; auto. }
        specialize (H9 Hv Hne'). rewrite Hpub_old, app_length in H9. lia.
  - (* nextSeg *)
    rewrite F4, H6, Hlen_new.
    destruct Hcases as [(Hv & Hs & He & Hp)|(Hp & Hne)].
    + rewrite Hpub_old, He, Hs, Hp, repeat_length. subst v. simpl. lia.
    + rewrite Hp, Hpub_old, app_length.
      destruct v; simpl; try lia.
      assert (Hne' : published s <> []).
      { rewrite Hpub_old. intros Hc. apply app_eq_nil in Hc. destruct Hc as [_ Hc].
        apply Hne in Hc; auto. }
      specialize (H9 eq_refl Hne'). rewrite Hpub_old, app_length in H9. lia.
  - (* open *)
    intros g Hg. rewrite F6 in Hg. injection Hg as <-. rewrite F4. simpl. auto.
  - (* empty window -> nothing evicted: the new window is never empty *)
    intros He. exfalso. rewrite F1 in He.
    destruct (window_append_spec v sc (st_segments s) seg) as
      [(E1 & E2 & E3)|(x & rest & E1 & E2 & E3 & E4)].
    + rewrite E2 in He. destruct (with_gaps v (st_segments s) seg); discriminate.
    + rewrite E2 in He. subst rest. fold pre in E3, E4.
      assert (length (pre ++ [seg]) = 1%nat) by (rewrite E3; reflexivity). lia.
  - (* LL: at least 8 published *)
    intros Hv _. rewrite Hlen_new.
    destruct Hcases as [(_ & Hs & He & Hp)|(Hp & Hne)].
    + rewrite Hp, repeat_length. lia.
    + rewrite Hp.
      assert (Hne' : published s <> []).
      { rewrite Hpub_old. intros Hc. apply app_eq_nil in Hc. destruct Hc as [_ Hc].
        apply Hne in Hc; auto. }
      specialize (H9 Hv Hne'). rewrite Hpub_old, app_length in H9. lia.
Qed.

(* published only grows at its tail *)
Lemma published_grows v sc s seg0 d ntp f cur :
  exists new, published (fst (fst (srot_segments v sc s seg0 d ntp f cur))) = published s ++ new
              /\ new <> [].
Proof.
  pose proof (published_srot_segments v sc s seg0 d ntp f cur) as HP. cbv zeta in HP.
  rewrite HP. unfold published, with_gaps.
  destruct v; try (exists [sg_with_end seg0 d]; rewrite <- app_assoc; split; [reflexivity|discriminate]).
  destruct (st_segments s) eqn:Es.
  - exists (repeat (mkgap (sg_dur (sg_with_end seg0 d))) 7 ++ [sg_with_end seg0 d]).
    rewrite app_nil_r. split; [reflexivity|]. simpl. discriminate.
  - exists [sg_with_end seg0 d]. rewrite <- app_assoc. split; [reflexivity|discriminate].
Qed.
