(* C05: every advertised URI resolves.  In every reachable state the path table maps the URI of every
   listed non-gap segment to a segment handler, the URI of every part of a listed or open segment
   (Low-Latency) to a part handler, and the init URI of a stream that has an init segment to its handler.
   Together with MuxPaths.v (index and playlists always resolve; evicted segments and their parts stop
   resolving at the rotation) this characterises the table from both sides. *)
From Coq Require Import List ZArith Bool Lia Arith.
From GoHls Require Import Model.Mux Proofs.MuxStream Proofs.MuxLift Proofs.MuxWindow Proofs.MuxHistory Proofs.MuxPlaylist
  Proofs.MuxTimes Proofs.MuxPaths Proofs.MuxMulti Proofs.MuxLog Proofs.MuxLogStep Proofs.MuxLogTS Proofs.MuxPartIds.
Import ListNotations.
Local Open Scope Z_scope.

(* ---- lookups in the table after a rotation ---- *)
Lemma lookup_rot_parts_seg v t si pid npid sj id :
  lookup (paths_rot_parts v t si pid npid) (KSeg sj id) = lookup t (KSeg sj id).
Proof. unfold paths_rot_parts. destruct v; auto. now rewrite !lookup_register. Qed.

Lemma lookup_rot_parts_init v t si pid npid sj :
  lookup (paths_rot_parts v t si pid npid) (KInit sj) = lookup t (KInit sj).
Proof. unfold paths_rot_parts. destruct v; auto. now rewrite !lookup_register. Qed.

Lemma lookup_rot_parts_part t si pid npid sj q :
  lookup (paths_rot_parts LL t si pid npid) (KPart sj q) =
  if Nat.eqb si sj && (npid =? q) then Some HHint
  else if Nat.eqb si sj && (pid =? q) then Some HPart else lookup t (KPart sj q).
Proof. unfold paths_rot_parts. rewrite !lookup_register. reflexivity. Qed.

Definition dropped_of (v : variant) (sc : Z) (segs : list segrec) (seg : segrec) : option segrec :=
  snd (window_append v sc segs seg).

Lemma lookup_rot_segments_seg v sc t si segs seg regen sj id :
  lookup (paths_rot_segments v sc t si segs seg regen) (KSeg sj id) =
  match dropped_of v sc segs seg with
  | Some d => if negb (sg_gap d) && Nat.eqb si sj && (sg_id d =? id) then None
              else if Nat.eqb si sj && (sg_id seg =? id) then Some HStatic else lookup t (KSeg sj id)
  | None => if Nat.eqb si sj && (sg_id seg =? id) then Some HStatic else lookup t (KSeg sj id)
  end.
Proof.
  unfold paths_rot_segments, dropped_of.
  assert (Hr : forall tt, lookup (if regen then register tt (KInit si) HStatic else tt) (KSeg sj id) = lookup tt (KSeg sj id))
    by (intros tt; destruct regen; [now rewrite lookup_register|reflexivity]).
  rewrite Hr. destruct (snd (window_append v sc segs seg)) as [d|].
  - destruct (sg_gap d); cbn [negb andb].
    + rewrite lookup_unregister_parts.
      assert (He : existsb (fun p => pathkey_eqb (KPart si (p_id p)) (KSeg sj id)) (listed_parts v d) = false)
        by (apply not_true_is_false; intros H; apply existsb_exists in H; destruct H as (x & _ & H); discriminate).
      rewrite He, lookup_register. reflexivity.
    + rewrite lookup_unregister. cbn [pathkey_eqb]. destruct (Nat.eqb si sj && (sg_id d =? id)); [reflexivity|].
      rewrite lookup_unregister_parts.
      assert (He : existsb (fun p => pathkey_eqb (KPart si (p_id p)) (KSeg sj id)) (listed_parts v d) = false)
        by (apply not_true_is_false; intros H; apply existsb_exists in H; destruct H as (x & _ & H); discriminate).
      rewrite He, lookup_register. reflexivity.
  - rewrite lookup_register. reflexivity.
Qed.

Lemma lookup_rot_segments_part v sc t si segs seg regen sj q :
  lookup (paths_rot_segments v sc t si segs seg regen) (KPart sj q) =
  match dropped_of v sc segs seg with
  | Some d => if existsb (fun p => Nat.eqb si sj && (p_id p =? q)) (listed_parts v d) then None else lookup t (KPart sj q)
  | None => lookup t (KPart sj q)
  end.
Proof.
  unfold paths_rot_segments, dropped_of.
  assert (Hr : forall tt, lookup (if regen then register tt (KInit si) HStatic else tt) (KPart sj q) = lookup tt (KPart sj q))
    by (intros tt; destruct regen; [now rewrite lookup_register|reflexivity]).
  rewrite Hr. destruct (snd (window_append v sc segs seg)) as [d|].
  - assert (Hu : forall tt, lookup (if sg_gap d then tt else unregister tt (KSeg si (sg_id d))) (KPart sj q) = lookup tt (KPart sj q))
      by (intros tt; destruct (sg_gap d); [reflexivity|now rewrite lookup_unregister]).
    rewrite Hu, lookup_unregister_parts, lookup_register. reflexivity.
  - now rewrite lookup_register.
Qed.

Lemma lookup_rot_segments_init v sc t si segs seg regen sj :
  lookup (paths_rot_segments v sc t si segs seg regen) (KInit sj) =
  if regen && Nat.eqb si sj then Some HStatic else lookup t (KInit sj).
Proof.
  unfold paths_rot_segments.
  assert (Hin : forall tt, lookup (match snd (window_append v sc segs seg) with
                   | Some d => if sg_gap d then unregister_parts tt si (listed_parts v d)
                               else unregister (unregister_parts tt si (listed_parts v d)) (KSeg si (sg_id d))
                   | None => tt end) (KInit sj) = lookup tt (KInit sj)).
  { intros tt. destruct (snd (window_append v sc segs seg)) as [d|]; [|reflexivity].
    assert (He : existsb (fun p => pathkey_eqb (KPart si (p_id p)) (KInit sj)) (listed_parts v d) = false)
      by (apply not_true_is_false; intros H; apply existsb_exists in H; destruct H as (x & _ & H); discriminate).
    destruct (sg_gap d); rewrite ?lookup_unregister, lookup_unregister_parts, He; reflexivity. }
  destruct regen; cbn [andb].
  - rewrite lookup_register. cbn [pathkey_eqb]. destruct (Nat.eqb si sj); [reflexivity|].
    rewrite Hin. now rewrite lookup_register.
  - rewrite Hin. now rewrite lookup_register.
Qed.

(* ---- the path table after the two stream rotations ---- *)
Lemma rotp_paths m si d cn :
  (m_paths (stream_rotateParts m si d cn) = m_paths m /\ m_streams (stream_rotateParts m si d cn) = m_streams m)
  \/ exists s seg p0,
       nth_error (m_streams m) si = Some s /\ st_open s = Some seg /\ st_openpart s = Some p0 /\
       m_paths (stream_rotateParts m si d cn) =
         paths_rot_parts (c_variant (m_cfg m)) (m_paths m) si (p_id p0) (st_nextPart s + 1).
Proof.
  unfold stream_rotateParts.
  destruct (nth_error (m_streams m) si) as [s|] eqn:Es; [|left; auto].
  destruct (st_openpart s) as [p0|] eqn:Ep; [|left; auto].
  destruct (st_open s) as [seg|] eqn:Eo; [|left; auto].
  right. exists s, seg, p0. repeat split; auto.
  destruct (part_finalize_spec p0 (m_tracks m) (st_tracks s) d) as (A & _). cbv zeta in A.
  destruct (part_finalize p0 (m_tracks m) (st_tracks s) d) as [p tracks'] eqn:Ef. cbn [fst] in A.
  destruct (srot_parts (c_variant (m_cfg m)) s seg p d cn) as [s' bump].
  rewrite A. destruct bump; reflexivity.
Qed.

Lemma rots_full m0 si d ntp f :
  let v := c_variant (m_cfg m0) in
  let m := match v with MPEGTS => m0 | _ => stream_rotateParts m0 si d false end in
  stream_rotateSegments m0 si d ntp f = m
  \/ exists s seg0 cur,
       nth_error (m_streams m) si = Some s /\ st_open s = Some seg0 /\
       let r := srot_segments v (c_segcount (m_cfg m0)) s seg0 d ntp f cur in
       m_streams (stream_rotateSegments m0 si d ntp f) = upd (m_streams m) si (fun _ => fst (fst r))
       /\ m_paths (stream_rotateSegments m0 si d ntp f) =
          paths_rot_segments v (c_segcount (m_cfg m0)) (m_paths m) si (st_segments s) (sg_with_end seg0 d) (snd (fst r))
       /\ m_cfg (stream_rotateSegments m0 si d ntp f) = m_cfg m0.
Proof.
  cbv zeta. unfold stream_rotateSegments.
  set (m := match c_variant (m_cfg m0) with MPEGTS => m0 | _ => stream_rotateParts m0 si d false end).
  assert (Hc : m_cfg m = m_cfg m0) by (subst m; destruct (c_variant (m_cfg m0)); auto using cfg_stream_rotateParts).
  destruct (nth_error (m_streams m) si) as [s|] eqn:Es; [|left; reflexivity].
  destruct (st_open s) as [seg0|] eqn:Eo; [|left; reflexivity].
  right. exists s, seg0, (map (fun ti => match nth_error (m_tracks m) ti with Some t => tk_params t | None => 0 end) (st_tracks s)).
  split; [reflexivity|]. split; [exact Eo|]. rewrite Hc.
  destruct (srot_segments (c_variant (m_cfg m0)) (c_segcount (m_cfg m0)) s seg0 d ntp f _) as [[s' regen] bump].
  cbn [fst snd]. destruct bump; cbn [add_err set_paths set_stream m_streams m_paths m_cfg]; auto.
Qed.

(* ---- consecutive numbers are distinct ---- *)
Lemma counted_bounds ids : forall from x, counted from ids -> In x ids -> from <= x < from + Z.of_nat (length ids).
Proof.
  induction ids as [|y ids IH]; intros from x Hc Hin; [destruct Hin|].
  destruct Hc as [-> Hc]. destruct Hin as [<-|Hin]; [simpl; lia|].
  specialize (IH _ _ Hc Hin). simpl length. lia.
Qed.

Lemma counted_nth ids : forall from i x, counted from ids -> nth_error ids i = Some x -> x = from + Z.of_nat i.
Proof.
  induction ids as [|y ids IH]; intros from [|i] x Hc Hn; simpl in Hn; try discriminate.
  - injection Hn as <-. destruct Hc as [-> _]. simpl. lia.
  - destruct Hc as [_ Hc]. rewrite (IH _ _ _ Hc Hn). lia.
Qed.

(* the invariant *)
Definition listed_all (s : stream) : list part :=
  flat_map sg_parts (st_segments s) ++ match st_open s with Some g => sg_parts g | None => [] end.

Record RES1 (v : variant) (t : ptable) (si : nat) (s : stream) : Prop := {
  rs_seg : forall g, In g (st_segments s) -> sg_gap g = false -> lookup t (KSeg si (sg_id g)) = Some HStatic;
  rs_part : v = LL -> forall p, In p (listed_all s) -> lookup t (KPart si (p_id p)) = Some HPart;
  rs_init : st_init s <> None -> lookup t (KInit si) = Some HStatic
}.

Definition RSV (m : mstate) : Prop :=
  forall si s, nth_error (m_streams m) si = Some s -> RES1 (c_variant (m_cfg m)) (m_paths m) si s.

Definition CI (m : mstate) : Prop := cfg_wf (m_cfg m) /\ G PW m /\ GPI m /\ RSV m.

Lemma listed_all_in_all_parts s p : In p (listed_all s) -> In p (all_parts s).
Proof.
  unfold listed_all, all_parts, published. rewrite flat_map_app', !in_app_iff. tauto.
Qed.

(* stream-local changes that touch neither the listed segments' parts, nor the init, nor the table *)
Lemma RSV_upd_stream m i f :
  (forall s, st_segments (f s) = st_segments s /\ st_init (f s) = st_init s
             /\ (forall p, In p (listed_all (f s)) -> In p (listed_all s))) ->
  RSV m -> RSV (upd_stream m i f).
Proof.
  intros Hf H si s' Hs'. unfold upd_stream in *. cbn [set_stream m_streams m_paths m_cfg] in *.
  destruct (Nat.eq_dec i si) as [->|Hne].
  - destruct (nth_error (m_streams m) si) as [s|] eqn:Es.
    + rewrite (nth_error_upd_same _ si f s Es) in Hs'. injection Hs' as <-.
      destruct (Hf s) as (A & B & C). destruct (H si s Es) as [R1 R2 R3].
      constructor; [rewrite A; exact R1|intros Hv p Hp; apply R2; auto|rewrite B; exact R3].
    + assert (Hn : nth_error (upd (m_streams m) si f) si = None)
        by (apply nth_error_None; rewrite upd_length; now apply nth_error_None).
      congruence.
  - rewrite nth_error_upd_other in Hs' by exact Hne. now apply H.
Qed.

(* ---- the easy operations ---- *)
Lemma RSV_frame m tracks pending sdurs adj freeze errs :
  RSV m -> RSV {| m_cfg := m_cfg m; m_tracks := tracks; m_streams := m_streams m; m_pending := pending;
                  m_sdurs := sdurs; m_adj := adj; m_freeze := freeze; m_paths := m_paths m; m_errs := errs |}.
Proof. intros H. exact H. Qed.

Lemma RSV_create m d ntp : (forall s, In s (m_streams m) -> st_open s = None) -> RSV m -> RSV (createFirstSegment m d ntp).
Proof.
  intros Hc H si s' Hs'. unfold createFirstSegment in *. cbn [set_stream m_streams m_paths m_cfg] in *.
  rewrite nth_error_map in Hs'. destruct (nth_error (m_streams m) si) as [s|] eqn:Es; [|discriminate].
  injection Hs' as <-. destruct (H si s Es) as [R1 R2 R3].
  constructor; cbn [stream_createFirst st_with st_segments st_init x_segments x_init st_mut]; auto.
  intros Hv p Hp. apply R2; auto. unfold listed_all in *.
  cbn [stream_createFirst st_with st_segments st_open x_segments x_open st_mut new_seg sg_parts] in Hp.
  rewrite app_nil_r in Hp. apply in_app_iff. now left.
Qed.

Lemma RSV_copy m i (l : stream) (both : bool) : RSV m -> RSV (upd_stream m i (copy_targets both l)).
Proof.
  apply RSV_upd_stream. intros s. unfold copy_targets. destruct (st_leading s); [auto|]. repeat split; auto.
Qed.

Lemma RSV_pws m ti si smp m' : RSV m -> part_writeSample m ti si smp = Ok m' -> RSV m'.
Proof.
  intros H. unfold part_writeSample.
  destruct (nth_error (m_streams m) si) as [s|] eqn:Es; [|now intros [= <-]].
  destruct (nth_error (m_tracks m) ti) as [t|]; [|now intros [= <-]].
  destruct (st_open s) as [seg|] eqn:Eo; [|now intros [= <-]].
  destruct (st_openpart s) as [p|]; [|now intros [= <-]].
  destruct (_ <? _); [discriminate|]. intros [= <-].
  intros sj s' Hs'. unfold upd_stream, upd_track in *. cbn [set_stream set_tracks m_streams m_paths m_cfg] in *.
  destruct (Nat.eq_dec si sj) as [->|Hne].
  - rewrite (nth_error_upd_same _ sj _ s Es) in Hs'. injection Hs' as <-. destruct (H sj s Es) as [R1 R2 R3].
    constructor; cbn [st_with st_segments st_init x_segments x_init st_mut]; auto.
    intros Hv q Hq. apply R2; auto. unfold listed_all in *.
    cbn [st_with st_segments st_open x_segments x_open st_mut sg_with_size sg_parts] in Hq. now rewrite Eo.
  - rewrite nth_error_upd_other in Hs' by exact Hne. now apply H.
Qed.

Lemma RSV_ts m si u size e inc : RSV m -> RSV (fst (ts_write m si u size e inc)).
Proof.
  intros H. unfold ts_write.
  destruct (nth_error (m_streams m) si) as [s|] eqn:Es; [|exact H].
  destruct (st_open s) as [seg|] eqn:Eo; [|exact H].
  destruct (_ <? _); [exact H|]. cbn [fst wok].
  intros sj s' Hs'. unfold upd_stream in *. cbn [set_stream m_streams m_paths m_cfg] in *.
  destruct (Nat.eq_dec si sj) as [->|Hne].
  - rewrite (nth_error_upd_same _ sj _ s Es) in Hs'. injection Hs' as <-. destruct (H sj s Es) as [R1 R2 R3].
    constructor; cbn [st_with st_segments st_init x_segments x_init st_mut]; auto.
    intros Hv q Hq. apply R2; auto. unfold listed_all in *.
    cbn [st_with st_segments st_open x_segments x_open st_mut sg_ts_write sg_parts] in Hq. now rewrite Eo.
  - rewrite nth_error_upd_other in Hs' by exact Hne. now apply H.
Qed.

(* ---- part rotation ---- *)
Lemma RSV_rotp m si d cn : GPI m -> RSV m -> RSV (stream_rotateParts m si d cn).
Proof.
  intros [_ HP] H. rewrite Forall_forall in HP.
  destruct (rotp_spec m si d cn) as [[E1 _]|(s & seg & p0 & Es & Eo & Ep & E1 & _)]; cbv zeta in E1.
  - destruct (rotp_paths m si d cn) as [[P1 _]|(s & seg & p0 & Es & Eo & Ep & _)].
    + intros sj s' Hs'. rewrite E1 in Hs'. rewrite P1, cfg_stream_rotateParts. now apply H.
    + (* streams unchanged although the stream is open with an open part: impossible *)
      exfalso. unfold stream_rotateParts in E1. rewrite Es, Ep, Eo in E1.
      destruct (part_finalize p0 (m_tracks m) (st_tracks s) d) as [p tracks'].
      destruct (srot_parts (c_variant (m_cfg m)) s seg p d cn) as [s' bump] eqn:Er.
      match type of E1 with m_streams (if ?b then add_err ?x else ?x) = _ => destruct (if_add_err b x) as (A & _ & _); rewrite A in E1 end.
      cbn [set_paths set_tracks set_stream m_streams] in E1.
      assert (Hn : nth_error (upd (m_streams m) si (fun _ => s')) si = Some s') by apply (nth_error_upd_same _ si (fun _ => s') s Es).
      rewrite E1, Es in Hn. injection Hn as <-.
      pose proof (srot_parts_frame (c_variant (m_cfg m)) s seg p d cn) as HF. cbv zeta in HF. rewrite Er in HF.
      cbn [fst] in HF. destruct HF as (_ & _ & _ & _ & _ & _ & F7 & _). lia.
  - destruct (rotp_paths m si d cn) as [[_ P2]|(s_ & seg_ & p0_ & Es_ & Eo_ & Ep_ & P1)].
    { (* the streams did change *) exfalso. rewrite E1 in P2.
      assert (Hn : nth_error (upd (m_streams m) si (fun _ => fst (srot_parts (c_variant (m_cfg m)) s seg
                     (fst (part_finalize p0 (m_tracks m) (st_tracks s) d)) d cn))) si = Some s) by (rewrite P2; exact Es).
      rewrite (nth_error_upd_same _ si _ s Es) in Hn. injection Hn as Hn.
      destruct (srot_parts_frame (c_variant (m_cfg m)) s seg (fst (part_finalize p0 (m_tracks m) (st_tracks s) d)) d cn)
        as (_ & _ & _ & _ & _ & _ & F7 & _). rewrite Hn in F7. lia. }
    rewrite Es in Es_. injection Es_ as <-. rewrite Eo in Eo_. injection Eo_ as <-. rewrite Ep in Ep_. injection Ep_ as <-.
    set (pf := part_finalize p0 (m_tracks m) (st_tracks s) d) in *.
    assert (Hpid : p_id (fst pf) = p_id p0) by (subst pf; now destruct (part_finalize_spec p0 (m_tracks m) (st_tracks s) d) as (A & _)).
    pose proof (HP s (nth_error_In _ _ Es)) as [PC PN PO].
    assert (Hp0 : p_id p0 = st_nextPart s) by now apply PO.
    intros sj s' Hs'. rewrite E1 in Hs'. rewrite P1, cfg_stream_rotateParts.
    destruct (Nat.eq_dec si sj) as [<-|Hne].
    + rewrite (nth_error_upd_same _ si _ s Es) in Hs'. injection Hs' as <-.
      destruct (H si s Es) as [R1 R2 R3].
      destruct (srot_parts_frame (c_variant (m_cfg m)) s seg (fst pf) d cn) as (F1 & _ & _ & _ & _ & F6 & _ & F8 & _).
      constructor.
      * intros g Hg Hgap. rewrite lookup_rot_parts_seg. rewrite F1 in Hg. now apply R1.
      * intros Hv q Hq. rewrite Hv, lookup_rot_parts_part, Nat.eqb_refl. cbn [andb].
        unfold listed_all in Hq. rewrite F1, F8 in Hq. cbn [sg_with_parts sg_parts] in Hq.
        rewrite app_assoc in Hq. apply in_app_iff in Hq. destruct Hq as [Hq|[<-|[]]].
        -- (* an older part: its number is below the counter *)
           assert (Hin : In q (listed_all s)) by (unfold listed_all; now rewrite Eo).
           pose proof (counted_bounds _ _ _ PC (in_map p_id _ _ (listed_all_in_all_parts s q Hin))) as Hb.
           rewrite map_length, <- PN in Hb.
           destruct (st_nextPart s + 1 =? p_id q) eqn:E1'; [apply Z.eqb_eq in E1'; lia|].
           destruct (p_id p0 =? p_id q) eqn:E2'; [apply Z.eqb_eq in E2'; lia|]. now apply R2.
        -- rewrite Hpid. destruct (st_nextPart s + 1 =? p_id p0) eqn:E1'; [apply Z.eqb_eq in E1'; lia|].
           now rewrite Z.eqb_refl.
      * intros Hi. rewrite lookup_rot_parts_init. rewrite F6 in Hi. now apply R3.
    + rewrite nth_error_upd_other in Hs' by exact Hne. destruct (H sj s' Hs') as [R1 R2 R3].
      constructor.
      * intros g Hg Hgap. rewrite lookup_rot_parts_seg. now apply R1.
      * intros Hv q Hq. rewrite Hv, lookup_rot_parts_part.
        assert (E : Nat.eqb si sj = false) by now apply Nat.eqb_neq. rewrite E. cbn [andb]. now apply R2.
      * intros Hi. rewrite lookup_rot_parts_init. now apply R3.
Qed.

(* ---- segment rotation ---- *)
Lemma counted_NoDup ids : forall from, counted from ids -> NoDup ids.
Proof.
  induction ids as [|x ids IH]; intros from Hc; [constructor|]. destruct Hc as [-> Hc].
  constructor; [|eapply IH; eauto]. intros Hin. pose proof (counted_bounds _ _ _ Hc Hin). lia.
Qed.

Lemma NoDup_app_disjoint {A} (l1 l2 : list A) x : NoDup (l1 ++ l2) -> In x l1 -> In x l2 -> False.
Proof.
  induction l1 as [|a l1 IH]; intros Hnd H1 H2; [destruct H1|]. simpl in Hnd. inversion Hnd; subst.
  destruct H1 as [->|H1]; [apply H3; apply in_app_iff; now right|eauto].
Qed.

Lemma in_window_append v sc segs seg g :
  In g (fst (window_append v sc segs seg)) -> g = seg \/ In g segs \/ g = mkgap (sg_dur seg).
Proof.
  intros Hin.
  assert (Hpre : In g (with_gaps v segs seg ++ [seg]) -> g = seg \/ In g segs \/ g = mkgap (sg_dur seg)).
  { intros H. apply in_app_iff in H. destruct H as [H|[<-|[]]]; [|now left].
    unfold with_gaps in H. destruct v; auto. destruct segs; auto.
    apply repeat_spec in H. subst g. right. right. reflexivity. }
  destruct (window_append_spec v sc segs seg) as [(_ & E & _)|(dd & rest & _ & E & E2 & _)]; cbv zeta in *.
  - apply Hpre. now rewrite <- E.
  - apply Hpre. rewrite E2. right. now rewrite <- E.
Qed.

Lemma RSV_rots m si d ntp f :
  cfg_wf (m_cfg m) -> G PW m -> GPI m -> RSV m -> RSV (stream_rotateSegments m si d ntp f).
Proof.
  intros Hwf HW HG H.
  pose proof (PW_rots m si d ntp f HW) as HW'. pose proof (GPI_rots m si d ntp f HG) as [_ HP'].
  rewrite Forall_forall in HW', HP'.
  pose proof (rots_full m si d ntp f) as HR. cbv zeta in HR.
  set (v := c_variant (m_cfg m)) in *.
  set (m1 := match v with MPEGTS => m | _ => stream_rotateParts m si d false end) in *.
  assert (H1 : RSV m1 /\ m_cfg m1 = m_cfg m).
  { subst m1. destruct v; auto using RSV_rotp, cfg_stream_rotateParts. }
  destruct H1 as [H1 Hc1].
  destruct HR as [->|(s & seg0 & cur & Es & Eo & ES & EP & EC)]; [exact H1|].
  set (r := srot_segments v (c_segcount (m_cfg m)) s seg0 d ntp f cur) in *.
  set (s2 := fst (fst r)) in *. set (regen := snd (fst r)) in *.
  set (seg := sg_with_end seg0 d) in *.
  destruct (srot_segments_frame v (c_segcount (m_cfg m)) s seg0 d ntp f cur) as (F1 & F2 & _ & _ & _ & F6 & _).
  fold r s2 seg in F1, F2, F6.
  assert (Fi : st_init s2 = if regen then Some cur else st_init s).
  { subst s2 regen r. unfold srot_segments. cbv zeta.
    destruct (window_append v (c_segcount (m_cfg m)) (x_segments (st_mut s)) (sg_with_end seg0 d)) as [segs2 dropped].
    destruct dropped; destruct (st_leading s); try destruct (x_target (st_mut s) =? 0); try destruct (x_target (st_mut s) <? _); reflexivity. }
  (* the rotated stream in the new state *)
  assert (Hin2 : In s2 (m_streams (stream_rotateSegments m si d ntp f))).
  { rewrite ES. apply nth_error_In with (n := si). exact (nth_error_upd_same (m_streams m1) si (fun _ => s2) s Es). }
  pose proof (HW' s2 Hin2 Hwf) as W2. pose proof (HP' s2 Hin2) as [PC2 _ _].
  intros sj s' Hs'. rewrite ES in Hs'. rewrite EP, EC. fold v.
  destruct (Nat.eq_dec si sj) as [<-|Hne].
  - rewrite (nth_error_upd_same _ si _ s Es) in Hs'. injection Hs' as <-.
    destruct (H1 si s Es) as [R1 R2 R3]. rewrite Hc1 in R2. fold v in R2.
    constructor.
    + (* listed segments *)
      intros g Hg Hgap. rewrite lookup_rot_segments_seg, Nat.eqb_refl. cbn [andb]. unfold dropped_of.
      rewrite F1 in Hg.
      assert (Hold : (sg_id seg =? sg_id g) = false -> lookup (m_paths m1) (KSeg si (sg_id g)) = Some HStatic).
      { intros Hne. destruct (in_window_append _ _ _ _ _ Hg) as [->|[Hi|Hx]]; [now rewrite Z.eqb_refl in Hne| |subst g; discriminate].
        now apply R1. }
      destruct (snd (window_append v (c_segcount (m_cfg m)) (st_segments s) seg)) as [dd|] eqn:Ed.
      * destruct (sg_gap dd) eqn:Egd; cbn [negb andb].
        -- destruct (sg_id seg =? sg_id g) eqn:E; [reflexivity|now apply Hold].
        -- (* dd is a real segment, now evicted: its number differs from every listed one's *)
           assert (Hdiff : sg_id dd <> sg_id g).
           { destruct (In_nth_error _ _ Hg) as [j Hj]. rewrite <- F1 in Hj.
             pose proof (wi_ids _ _ _ W2 (length (st_evicted s2) + j)%nat g) as Hg'.
             unfold published in Hg'. rewrite nth_error_app2 in Hg' by lia.
             replace (length (st_evicted s2) + j - length (st_evicted s2))%nat with j in Hg' by lia.
             specialize (Hg' Hj Hgap).
             pose proof (wi_ids _ _ _ W2 (length (st_evicted s)) dd) as Hd'.
             unfold published in Hd'. rewrite nth_error_app1 in Hd' by (rewrite F2, app_length; simpl; lia).
             rewrite F2, nth_error_app2, Nat.sub_diag in Hd' by lia. specialize (Hd' eq_refl Egd).
             rewrite F2, app_length in Hg'. simpl in Hg'. lia. }
           destruct (sg_id dd =? sg_id g) eqn:E0; [apply Z.eqb_eq in E0; congruence|].
           destruct (sg_id seg =? sg_id g) eqn:E; [reflexivity|now apply Hold].
      * destruct (sg_id seg =? sg_id g) eqn:E; [reflexivity|now apply Hold].
    + (* parts *)
      intros Hv q Hq. rewrite lookup_rot_segments_part. unfold dropped_of.
      unfold listed_all in Hq. rewrite F1, F6 in Hq. cbn [new_seg sg_parts] in Hq. rewrite app_nil_r in Hq.
      apply in_flat_map in Hq. destruct Hq as (g & Hg & Hqg).
      assert (Hold : lookup (m_paths m1) (KPart si (p_id q)) = Some HPart).
      { apply R2; auto. unfold listed_all. rewrite Eo.
        destruct (in_window_append _ _ _ _ _ Hg) as [->|[Hi|Hx]].
        - apply in_app_iff. right. exact Hqg.
        - apply in_app_iff. left. apply in_flat_map. eauto.
        - (* a generated gap has no parts *) subst g. destruct Hqg. }
      destruct (snd (window_append v (c_segcount (m_cfg m)) (st_segments s) seg)) as [dd|] eqn:Ed; [|exact Hold].
      assert (He : existsb (fun p => Nat.eqb si si && (p_id p =? p_id q)) (listed_parts v dd) = false).
      { apply not_true_is_false. intros Hex. apply existsb_exists in Hex. destruct Hex as (pd & Hpd & Heq).
        rewrite Nat.eqb_refl in Heq. cbn [andb] in Heq. apply Z.eqb_eq in Heq.
        rewrite Hv in Hpd. cbn [listed_parts] in Hpd.
        (* pd is a part of the evicted dd, q a part of a listed segment: different positions among all parts *)
        assert (Hnd : NoDup (map p_id (all_parts s2))) by (eapply counted_NoDup; eauto).
        unfold all_parts, published in Hnd. rewrite F6 in Hnd. cbn [new_seg sg_parts] in Hnd.
        rewrite app_nil_r, flat_map_app', map_app in Hnd.
        apply (NoDup_app_disjoint _ _ (p_id q) Hnd).
        - rewrite <- Heq. apply in_map. rewrite F2, flat_map_app'. apply in_app_iff. right. simpl. rewrite app_nil_r. exact Hpd.
        - apply in_map. apply in_flat_map. exists g. rewrite F1. auto. }
      rewrite He. exact Hold.
    + (* init *)
      intros Hi. rewrite lookup_rot_segments_init, Nat.eqb_refl, andb_true_r. fold regen.
      rewrite Fi in Hi. destruct regen; [reflexivity|now apply R3].
  - rewrite nth_error_upd_other in Hs' by exact Hne. destruct (H1 sj s' Hs') as [R1 R2 R3]. rewrite Hc1 in R2. fold v in R2.
    assert (E : Nat.eqb si sj = false) by now apply Nat.eqb_neq.
    constructor.
    + intros g Hg Hgap. rewrite lookup_rot_segments_seg.
      destruct (dropped_of v _ _ _); rewrite E, ?andb_false_r; cbn [andb]; now apply R1.
    + intros Hv q Hq. rewrite lookup_rot_segments_part.
      destruct (dropped_of v _ _ _) as [dd|]; [|now apply R2].
      assert (He : existsb (fun p => Nat.eqb si sj && (p_id p =? p_id q)) (listed_parts v dd) = false).
      { rewrite E. cbn [andb]. clear. induction (listed_parts v dd); simpl; auto. }
      rewrite He. now apply R2.
    + intros Hi. rewrite lookup_rot_segments_init, E, andb_false_r. now apply R3.
Qed.

(* ---- the combined invariant through a write ---- *)
Lemma CI_frame m tracks pending sdurs adj freeze errs :
  map tk_frame tracks = map tk_frame (m_tracks m) -> CI m ->
  CI {| m_cfg := m_cfg m; m_tracks := tracks; m_streams := m_streams m; m_pending := pending;
        m_sdurs := sdurs; m_adj := adj; m_freeze := freeze; m_paths := m_paths m; m_errs := errs |}.
Proof. intros Hf (A & B & C & D). split; [exact A|]. split; [exact B|]. split; [now apply GPI_frame|exact D]. Qed.

Theorem CI_mux_step m o : CI m -> CI (fst (mux_step m o)).
Proof.
  apply (T_mux_step CI); auto using CI_frame.
  - intros m0 d ntp ti t Ht Ho (A & B & C & D). split; [exact A|]. split; [|split].
    + apply (G_createFirst PW); auto. intros c s d0 ntp0. apply PW_create.
    + eapply GPI_create; eauto.
    + apply RSV_create; auto. destruct C as [HS _]. eapply SYNC_all_closed; eauto.
  - intros m0 si d (A & B & C & D). split; [now rewrite cfg_stream_rotateParts|]. split; [|split].
    + apply (G_rotp PW); auto. intros; now apply PW_rotp.
    + now apply GPI_rotp.
    + now apply RSV_rotp.
  - intros m0 si d ntp f (A & B & C & D). split; [now rewrite cfg_stream_rotateSegments|]. split; [|split].
    + apply (G_rots PW); auto. intros; now apply PW_rots.
    + now apply GPI_rots.
    + now apply RSV_rots.
  - intros m0 i l both (A & B & C & D). split; [exact A|]. split; [|split].
    + apply (G_copy_targets PW); auto. intros c s t pt. apply PW_targets.
    + now apply GPI_copy.
    + now apply RSV_copy.
  - intros m0 ti si smp m' (A & B & C & D) Hw. split; [now rewrite (cfg_part_writeSample _ _ _ _ _ Hw)|]. split; [|split].
    + eapply (G_part_writeSample PW); eauto. intros c s g p. apply PW_open.
    + eapply GPI_pws; eauto.
    + eapply RSV_pws; eauto.
  - intros m0 si u size e inc (A & B & C & D). split; [now rewrite cfg_ts_write|]. split; [|split].
    + apply (G_ts_write PW); auto. intros c s g p. apply PW_open.
    + now apply GPI_ts.
    + now apply RSV_ts.
Qed.

Theorem CI_mux_run ops : forall m, CI m -> CI (mux_run m ops).
Proof. induction ops as [|o ops IH]; intros m H; [exact H|]. cbn [mux_run]. apply IH. now apply CI_mux_step. Qed.

Theorem start_CI c m : start c = Ok m -> CI m.
Proof.
  intros Hs. destruct (start_cfg_wf c m Hs) as [Hwf _].
  split; [exact Hwf|]. split; [now apply (start_PW c)|]. split; [now apply (start_GPI c)|].
  intros si s Es.
  assert (Hs0 : st_segments s = [] /\ st_open s = None /\ st_init s = None).
  { pose proof (start_streams c m Hs) as ES. rewrite ES in Es. destruct (c_variant c).
    - destruct si as [|[|si]]; simpl in Es; try discriminate. injection Es as <-. auto.
    - apply nth_error_In in Es. clear - Es. revert Es. generalize 0%nat, false.
      induction (c_tracks c) as [|t ts IH]; intros i ch H; [destruct H|]. cbn [mk_streams] in H.
      match type of H with context [let '(a, b) := ?x in _] => destruct x as [dflt chosen'] end.
      destruct H as [<-|H]; [cbn; auto|eauto].
    - apply nth_error_In in Es. clear - Es. revert Es. generalize 0%nat, false.
      induction (c_tracks c) as [|t ts IH]; intros i ch H; [destruct H|]. cbn [mk_streams] in H.
      match type of H with context [let '(a, b) := ?x in _] => destruct x as [dflt chosen'] end.
      destruct H as [<-|H]; [cbn; auto|eauto]. }
  destruct Hs0 as (A & B & C). constructor.
  - intros g Hg. rewrite A in Hg. destruct Hg.
  - intros _ p Hp. unfold listed_all in Hp. rewrite A, B in Hp. destruct Hp.
  - intros Hi. congruence.
Qed.

(* every listed URI resolves, in every reachable state *)
Theorem listed_uris_resolve c m0 ops si s :
  start c = Ok m0 -> nth_error (m_streams (mux_run m0 ops)) si = Some s ->
  let m := mux_run m0 ops in
  (forall g, In g (st_segments s) -> sg_gap g = false -> lookup (m_paths m) (KSeg si (sg_id g)) = Some HStatic)
  /\ (c_variant (m_cfg m) = LL -> forall p, In p (listed_all s) -> lookup (m_paths m) (KPart si (p_id p)) = Some HPart)
  /\ (st_init s <> None -> lookup (m_paths m) (KInit si) = Some HStatic).
Proof.
  intros Hs Hn. cbv zeta. destruct (CI_mux_run ops m0 (start_CI c m0 Hs)) as (_ & _ & _ & HR).
  destruct (HR si s Hn) as [A B C]. auto.
Qed.
