(* The inductive invariant of the segment-queue transition system (Model/Queue.v) and its
   preservation by every step; hence by every schedule of any length. *)
From Coq Require Import List ZArith Bool Lia ZifyBool ZifyNat.
From GoHls Require Import Model.Queue.
Import ListNotations.
Local Open Scope Z_scope.

Definition p_locked (pc : ppc) : bool :=
  match pc with
  | PushLocked _ | PushClose | PushMake | PushUnlock
  | WLocked _ _ | WUnlockWait _ _ _ | WUnlockRet => true
  | _ => false
  end.

Definition c_locked (pc : cpc) : bool :=
  match pc with
  | CLocked | CUnlockWait _ | CClose _ | CMake _ | CUnlock _ => true
  | _ => false
  end.

(* mutual exclusion: the mutex is held exactly by the thread whose pc is inside a critical section *)
Definition inv_mutex (s : state) : Prop :=
  mutex s = (if p_locked (p_pc s) then Some TP else if c_locked (c_pc s) then Some TC else None)
  /\ (p_locked (p_pc s) && c_locked (c_pc s) = false).

(* generations: everything below the field's channel is closed; the field's channel itself is closed
   exactly between close() and the following make() *)
Definition inv_gen (s : state) : Prop :=
  0 <= didPush s
  /\ pushClosed s = didPush s + (match p_pc s with PushMake => 1 | _ => 0 end)
  /\ 0 <= didPull s
  /\ pullClosed s = didPull s + (match c_pc s with CMake _ => 1 | _ => 0 end).

(* the consumer's captured channel: closed, or still the field's channel with nothing queued
   (or a push is just about to close it) *)
Definition ccap_ok (s : state) (g : Z) : Prop :=
  g <= didPush s
  /\ (g < pushClosed s \/ (g = didPush s /\ (queue s = [] \/ p_pc s = PushClose))).

Definition inv_ccap (s : state) : Prop :=
  match c_pc s with
  | CUnlockWait g | CHook g | CSel g => ccap_ok s g
  | _ => True
  end.

(* the channel the field held when the producer saw len > n: closed, or still the field's channel
   with the queue still above n (or a pull is just about to close it) *)
Definition pcap_ok (s : state) (n g0 : Z) : Prop :=
  g0 <= didPull s
  /\ (g0 < pullClosed s \/ (g0 = didPull s /\ (qlen s > n \/ pull_in_progress s = true))).

Definition inv_pcap (s : state) : Prop :=
  match p_pc s with
  | WUnlockWait f n g0 | WRead f n g0 => pcap_ok s n g0
  | WSel f n g0 g =>
      pcap_ok s n g0 /\ g0 <= g /\ g <= didPull s /\ (f = true -> g = g0)
      /\ (g < pullClosed s \/ g = didPull s)
  | _ => True
  end.

Definition inflight (pc : cpc) : list Z :=
  match pc with
  | CClose seg | CMake seg | CUnlock seg => [seg]
  | _ => []
  end.

Definition inv_fifo (s : state) : Prop :=
  delivered s ++ queue s = pushed s /\ returned s ++ inflight (c_pc s) = delivered s.

Definition Inv (s : state) : Prop :=
  stat s = SOk /\ inv_mutex s /\ inv_gen s /\ inv_ccap s /\ inv_pcap s /\ inv_fifo s.

Lemma inv_init : forall prog k, Inv (init prog k).
Proof.
  intros. unfold Inv, inv_mutex, inv_gen, inv_ccap, inv_pcap, inv_fifo; cbn. intuition lia.
Qed.

Ltac unf :=
  unfold Inv, inv_mutex, inv_gen, inv_ccap, inv_pcap, inv_fifo, ccap_ok, pcap_ok,
         pull_in_progress, push_in_progress, qlen, chan_closed, close_chan in *.

Ltac break_step H :=
  repeat match type of H with
  | context [match ?x with _ => _ end] =>
      lazymatch x with
      | context [match _ with _ => _ end] => fail
      | _ => destruct x eqn:?; cbn in H; try discriminate H
      end
  | context [if ?x then _ else _] =>
      lazymatch x with
      | context [if _ then _ else _] => fail
      | _ => destruct x eqn:?; cbn in H; try discriminate H
      end
  end.

Lemma length_app1 : forall (q : list Z) x, Z.of_nat (length (q ++ [x])) = Z.of_nat (length q) + 1.
Proof. intros. rewrite app_length. cbn. lia. Qed.

Lemma close_ok : forall c cl c', close_chan c cl = CloseOk c' -> c = cl /\ c' = cl + 1.
Proof. unfold close_chan; intros c cl c' H. destruct (c <? cl) eqn:E1; [discriminate|].
  destruct (c =? cl) eqn:E2; [|discriminate]. inversion H. lia. Qed.
Lemma close_panic : forall c cl, close_chan c cl = ClosePanic -> c < cl.
Proof. unfold close_chan; intros c cl H. destruct (c <? cl) eqn:E1; [lia|].
  destruct (c =? cl) eqn:E2; discriminate. Qed.
Lemma close_gap : forall c cl, close_chan c cl = CloseGap -> c > cl.
Proof. unfold close_chan; intros c cl H. destruct (c <? cl) eqn:E1; [discriminate|].
  destruct (c =? cl) eqn:E2; [discriminate|lia]. Qed.

Ltac closes :=
  repeat match goal with
  | H : close_chan _ _ = CloseOk _ |- _ => apply close_ok in H; destruct H
  | H : close_chan _ _ = ClosePanic |- _ => apply close_panic in H
  | H : close_chan _ _ = CloseGap |- _ => apply close_gap in H
  end.

Ltac lists := subst; rewrite <- ?app_assoc; cbn; rewrite ?app_nil_r; solve [reflexivity | congruence].

Ltac fin :=
  closes; unf; cbn in *;
  rewrite ?length_app1 in *;
  repeat match goal with H : _ /\ _ |- _ => destruct H end;
  rewrite ?app_nil_r in *;
  try discriminate; try lia;
  repeat split;
  try solve [ lia | congruence | lists
            | intuition (try lia; try congruence; try lists)
            | subst; cbn in *; intuition (try lia; try congruence; try lists) ].

Lemma inv_step : forall s l s', Inv s -> step s l = Some s' -> Inv s'.
Proof.
  intros s [t b] s' HI H.
  destruct s as [q dpu cpu dpl cpl mu ca pp pr cp ck pu de re st].
  unfold step in H. cbn in H.
  unfold Inv in HI. cbn in HI. destruct HI as (Hst & HI). subst st.
  destruct t.
  - (* producer *)
    unfold step_p, lock, unlock in H; cbn in H.
    destruct pp; cbn in H.
    all: break_step H.
    all: inversion H; subst; clear H.
    all: destruct cp.
    all: fin.
  - (* consumer *)
    unfold step_c, lock, unlock in H; cbn in H.
    destruct cp; cbn in H.
    all: break_step H.
    all: inversion H; subst; clear H.
    all: destruct pp.
    all: fin.
  - (* cancel *)
    unfold step_x in H; cbn in H. destruct ca; [discriminate|].
    inversion H; subst; clear H.
    unf; cbn in *. exact (conj eq_refl HI).
Qed.
