(* M4 progress: a requester that is not asleep in cond.Wait() and finds the mutex free (or
   owns it) reaches its response, or cond.Wait(), by at most 6 of ITS OWN steps; Close, once
   it has the mutex, returns after its own remaining steps. *)
From Coq Require Import List ZArith Lia Bool String Arith.
From GoHls Require Import Lib.MuxSched Model.MuxConcSeq Model.MuxConcSpec Model.MuxConcPar
  Proofs.MuxConcSeqA Proofs.MuxConcInvA Proofs.MuxConcInvB Proofs.MuxConcInvD.
Import ListNotations.
Local Open Scope Z_scope.

Fixpoint literate (m : mux) (w : wpc) (n : Z) (i : nat) (k : nat) (r : rstate) (o : option tid)
  : rstate * option tid :=
  match k with
  | O => (r, o)
  | S k' => let '(r', o') := lstep m w n i r o in literate m w n i k' r' o'
  end.

Lemma literate_add : forall m w n i a b r o,
  literate m w n i (a + b) r o =
  literate m w n i b (fst (literate m w n i a r o)) (snd (literate m w n i a r o)).
Proof.
  intros m w n i a; induction a as [|a IH]; intros b r o; simpl; [reflexivity|].
  destruct (lstep m w n i r o) as [r' o']. apply IH.
Qed.

(* running only requester i *)
Lemma rrun_obs : forall i k c r,
  nth_error (c_reqs c) i = Some r -> c_wpc c <> WCrashed ->
  let c' := crun c (repeat (TR i) k) in
  let res := literate (c_mux c) (c_wpc c) (c_progress c) i k r (c_owner c) in
  nth_error (c_reqs c') i = Some (fst res) /\ c_owner c' = snd res /\
  c_mux c' = c_mux c /\ c_wpc c' = c_wpc c /\ c_progress c' = c_progress c /\ c_prog c' = c_prog c /\
  (forall j, j <> i -> nth_error (c_reqs c') j = nth_error (c_reqs c) j).
Proof.
  intros i k; induction k as [|k IH]; intros c r Hr Hw.
  - simpl. repeat split; auto.
  - cbn zeta. simpl repeat. unfold crun. rewrite run_cons. fold (crun (step c (TR i)) (repeat (TR i) k)).
    assert (Es : step c (TR i) = rstep c i) by (unfold step; destruct (c_wpc c); try reflexivity; congruence).
    rewrite Es. destruct (rstep_shape c i) as [[Hn _]|[r0 [Hr0 E]]]; [congruence|].
    rewrite Hr in Hr0. inversion Hr0; subst r0. rewrite E.
    simpl literate. destruct (lstep (c_mux c) (c_wpc c) (c_progress c) i r (c_owner c)) as [r1 o1] eqn:El.
    simpl fst; simpl snd.
    set (c1 := with_req c i r1 o1).
    assert (H1 : nth_error (c_reqs c1) i = Some r1) by (eapply with_req_nth_eq; eauto).
    assert (Hw1 : c_wpc c1 <> WCrashed) by exact Hw.
    destruct (IH c1 r1 H1 Hw1) as [A [B [C [D [E1 [E2 F]]]]]].
    repeat split; auto.
    intros j Hj. rewrite F by exact Hj. unfold c1. apply with_req_nth_neq. exact Hj.
Qed.

(* the requester's view of the mutex *)
Definition consistent (r : rstate) (o : option tid) (i : nat) : Prop :=
  (r_holds r = true /\ o = Some (TR i)) \/ (r_holds r = false /\ o = None).

Definition finished (r : rstate) : Prop :=
  (exists resp, r_pc r = PDone resp) \/ (exists f, r_pc r = PWaiting f).

Definition hint_prop (m : mux) : Prop :=
  forall q k id h, test m q (FHint k id) = TBreakHint h -> h = Some (HPart k id) \/ h = None.

Lemma test_break_only_hint : forall m q f h, test m q f = TBreakHint h -> exists k id, f = FHint k id.
Proof.
  intros m q f h H. destruct f as [|i msn p d|i d|i id]; unfold test in H; eauto.
  - destruct (m_closed m); [discriminate|]. destruct (nth_error (m_streams m) 0); [|discriminate].
    destruct (hasContent _ _); discriminate.
  - destruct (nth_error (m_streams m) i); [|discriminate]. destruct (s_closed s); [discriminate|].
    destruct (decide_core _ _ _ _); discriminate.
  - destruct (nth_error (m_streams m) i); [|discriminate]. destruct (s_closed s); [discriminate|].
    destruct (hasContent _ _); discriminate.
Qed.

(* the response the hint closure produces once it has left its loop with handler h *)
Definition hint_resp (h : option handler) : response :=
  match h with
  | None => R404
  | Some (HPart k id) => R200Part k id
  | Some (HSeg k id) => R200Seg k id
  | Some _ => RNone
  end.

Section Local.
  Variables (m : mux) (w : wpc) (n : Z) (i : nat).
  Hypothesis HP : hint_prop m.

  Notation it := (literate m w n i).

  (* from the loop test *)
  Lemma prog_test : forall r o f, r_pc r = PTest f ->
    exists k, (k <= 3)%nat /\
      let r' := fst (it k r o) in let o' := snd (it k r o) in
      match test m (req_query (r_req r)) f with
      | TExit resp => r_pc r' = PDone resp /\ o' = None /\ r_waits r' = r_waits r
      | TBreakHint h => r_pc r' = PDone (hint_resp h) /\ o' = None /\ r_waits r' = r_waits r
      | TWait => r_pc r' = PWaiting f /\ o' = None /\ r_waits r' = S (r_waits r)
      end.
  Proof.
    intros r o f H. destruct (test m (req_query (r_req r)) f) eqn:Et.
    - set (r1 := decided m n r (PUnlock r0)).
      assert (E1 : lstep m w n i r o = (r1, o)) by (unfold lstep; rewrite H, Et; reflexivity).
      assert (E2 : lstep m w n i r1 o = (set_pc r1 (PDone r0), None)) by reflexivity.
      exists 2%nat. split; [lia|]. simpl literate. rewrite E1, E2. simpl. auto.
    - set (r1 := decided m n r (PUnlockCall h)).
      assert (E1 : lstep m w n i r o = (r1, o)) by (unfold lstep; rewrite H, Et; reflexivity).
      assert (E2 : lstep m w n i r1 o = (set_pc r1 (hint_call h), None)) by reflexivity.
      destruct (test_break_only_hint _ _ _ _ Et) as [k [id ->]].
      destruct (HP _ _ _ _ Et) as [->| ->].
      + assert (E3 : lstep m w n i (set_pc r1 (hint_call (Some (HPart k id)))) None =
                     (set_pc (set_pc r1 (hint_call (Some (HPart k id)))) (PDone (R200Part k id)), None)) by reflexivity.
        exists 3%nat. split; [lia|]. simpl literate. rewrite E1, E2, E3. simpl. auto.
      + exists 2%nat. split; [lia|]. simpl literate. rewrite E1, E2. simpl. auto.
    - assert (E1 : lstep m w n i r o = (sleeping r f, None)) by (unfold lstep; rewrite H, Et; reflexivity).
      exists 1%nat. split; [lia|]. simpl literate. rewrite E1. simpl. auto.
  Qed.

  Lemma finished_of_test : forall r o f k, r_pc r = PTest f ->
    let r' := fst (it k r o) in let o' := snd (it k r o) in
    match test m (req_query (r_req r)) f with
    | TExit resp => r_pc r' = PDone resp /\ o' = None /\ r_waits r' = r_waits r
    | TBreakHint h => r_pc r' = PDone (hint_resp h) /\ o' = None /\ r_waits r' = r_waits r
    | TWait => r_pc r' = PWaiting f /\ o' = None /\ r_waits r' = S (r_waits r)
    end ->
    finished r' /\ consistent r' o' i.
  Proof.
    intros r o f k H r' o' Hm. unfold finished, consistent, r_holds.
    destruct (test m (req_query (r_req r)) f).
    - destruct Hm as [A [B _]]. rewrite A, B. split; [left; eauto|right; auto].
    - destruct Hm as [A [B _]]. rewrite A, B. split; [left; eauto|right; auto].
    - destruct Hm as [A [B _]]. rewrite A, B. split; [right; eauto|right; auto].
  Qed.

  (* main local progress *)
  Lemma own_progress_local : forall r o,
    consistent r o i ->
    exists k, (k <= 6)%nat /\ finished (fst (it k r o)) /\ consistent (fst (it k r o)) (snd (it k r o)) i.
  Proof.
    intros r o C.
    assert (FromTest : forall r0 f, r_pc r0 = PTest f ->
              exists k, (k <= 3)%nat /\ finished (fst (it k r0 (Some (TR i)))) /\
                        consistent (fst (it k r0 (Some (TR i)))) (snd (it k r0 (Some (TR i)))) i).
    { intros r0 f H0. destruct (prog_test r0 (Some (TR i)) f H0) as [k [Hk Hm]].
      exists k. split; [exact Hk|]. eapply finished_of_test; eauto. }
    assert (FromLock : forall r0 f, (r_pc r0 = PLock f \/ r_pc r0 = PWoken f) ->
              exists k, (k <= 4)%nat /\ finished (fst (it k r0 None)) /\
                        consistent (fst (it k r0 None)) (snd (it k r0 None)) i).
    { intros r0 f H0.
      assert (E1 : lstep m w n i r0 None = (set_pc r0 (PTest f), Some (TR i)))
        by (unfold lstep; destruct H0 as [H0|H0]; rewrite H0; reflexivity).
      destruct (FromTest (set_pc r0 (PTest f)) f eq_refl) as [k [Hk Hf]].
      exists (S k). split; [lia|]. simpl. rewrite E1. exact Hf. }
    assert (FromCall : forall r0 h, r_pc r0 = PCall h ->
              exists k, (k <= 5)%nat /\ finished (fst (it k r0 None)) /\
                        consistent (fst (it k r0 None)) (snd (it k r0 None)) i).
    { intros r0 h H0.
      assert (E1 : lstep m w n i r0 None = (set_pc r0 (call m (req_query (r_req r0)) h), None))
        by (unfold lstep; rewrite H0; reflexivity).
      destruct (call_pc m (req_query (r_req r0)) h) as [[resp Ec]|[f Ec]].
      - exists 1%nat. split; [lia|]. simpl. rewrite E1, Ec. simpl.
        split; [left; eexists; reflexivity|right; unfold r_holds; simpl; auto].
      - destruct (FromLock (set_pc r0 (PLock f)) f (or_introl eq_refl)) as [k [Hk Hf]].
        exists (S k). split; [lia|]. simpl. rewrite E1, Ec. exact Hf. }
    unfold consistent, r_holds in C.
    destruct (r_pc r) eqn:Ep.
    - destruct C as [[C _]|[_ ->]]; [discriminate|].
      assert (E1 : lstep m w n i r None = (set_pc r (PCall (lookup m (r_req r))), None))
        by (unfold lstep; rewrite Ep; reflexivity).
      destruct (FromCall (set_pc r (PCall (lookup m (r_req r)))) _ eq_refl) as [k [Hk Hf]].
      exists (S k). split; [lia|]. simpl. rewrite E1. exact Hf.
    - destruct C as [[C _]|[_ ->]]; [discriminate|].
      destruct (FromCall r h Ep) as [k [Hk Hf]]. exists k. split; [lia|exact Hf].
    - destruct C as [[C _]|[_ ->]]; [discriminate|].
      destruct (FromLock r f (or_introl Ep)) as [k [Hk Hf]]. exists k. split; [lia|exact Hf].
    - destruct C as [[_ ->]|[C _]]; [|discriminate].
      destruct (FromTest r f Ep) as [k [Hk Hf]]. exists k. split; [lia|exact Hf].
    - exists 0%nat. split; [lia|]. simpl. split; [right; eauto|].
      unfold consistent, r_holds. rewrite Ep. exact C.
    - destruct C as [[C _]|[_ ->]]; [discriminate|].
      destruct (FromLock r f (or_intror Ep)) as [k [Hk Hf]]. exists k. split; [lia|exact Hf].
    - exists 1%nat. split; [lia|]. simpl. unfold lstep. rewrite Ep. simpl.
      split; [left; eexists; reflexivity|right]. unfold r_holds. simpl. auto.
    - (* PUnlockCall h : unlock, then call h / answer 404 *)
      assert (E1 : lstep m w n i r o = (set_pc r (hint_call h), None)) by (unfold lstep; rewrite Ep; reflexivity).
      destruct h as [h|].
      + destruct (FromCall (set_pc r (PCall (Some h))) (Some h) eq_refl) as [k [Hk Hf]].
        exists (S k). split; [lia|]. simpl. rewrite E1. exact Hf.
      + exists 1%nat. split; [lia|]. simpl. rewrite E1. simpl.
        split; [left; eexists; reflexivity|right; unfold r_holds; simpl; auto].
    - exists 0%nat. split; [lia|]. simpl. split; [left; eauto|].
      unfold consistent, r_holds. rewrite Ep. exact C.
  Qed.

  (* if the loop test would not wait, the requester gets its response *)
  Definition resp_of_test (t : tres) (resp : response) : Prop :=
    match t with
    | TExit r' => resp = r'
    | TBreakHint h => resp = hint_resp h
    | TWait => False
    end.

  Lemma own_progress_ready : forall r f,
    (r_pc r = PLock f \/ r_pc r = PWoken f) ->
    test m (req_query (r_req r)) f <> TWait ->
    exists k, (k <= 4)%nat /\ exists resp, r_pc (fst (it k r None)) = PDone resp /\
      r_waits (fst (it k r None)) = r_waits r /\
      resp_of_test (test m (req_query (r_req r)) f) resp /\
      snd (it k r None) = None.
  Proof.
    intros r f H Hn.
    assert (E1 : lstep m w n i r None = (set_pc r (PTest f), Some (TR i)))
      by (unfold lstep; destruct H as [H|H]; rewrite H; reflexivity).
    destruct (prog_test (set_pc r (PTest f)) (Some (TR i)) f eq_refl) as [k [Hk Hm]].
    exists (S k). split; [lia|]. simpl. rewrite E1. simpl in Hm.
    change (r_req (set_pc r (PTest f))) with (r_req r) in Hm.
    change (r_waits (set_pc r (PTest f))) with (r_waits r) in Hm.
    unfold resp_of_test.
    destruct (test m (req_query (r_req r)) f) eqn:Et; try congruence.
    - destruct Hm as [A [O B]]. eauto 10.
    - destruct Hm as [A [O B]]. eauto 10.
  Qed.

  (* when no loop test can wait, a requester that is not asleep never falls asleep *)
  Lemma literate_no_wait : forall k r o,
    (forall q f, test m q f <> TWait) -> (forall f, r_pc r <> PWaiting f) ->
    (forall f, r_pc (fst (it k r o)) <> PWaiting f) /\ r_waits (fst (it k r o)) = r_waits r.
  Proof.
    induction k as [|k IH]; intros r o HT Hr; simpl; [auto|].
    destruct (lstep m w n i r o) as [r1 o1] eqn:El.
    assert (H1 : (forall f, r_pc r1 <> PWaiting f) /\ r_waits r1 = r_waits r).
    { assert (E : r1 = fst (lstep m w n i r o)) by (rewrite El; reflexivity).
      split.
      - intros f Hc. rewrite E in Hc. apply lstep_waiting in Hc. destruct Hc as [Hc|[_ Hc]];
          [eapply Hr; eauto|eapply HT; eauto].
      - rewrite E. unfold lstep. destruct (r_pc r) eqn:Ep; simpl; auto.
        + destruct o; reflexivity.
        + destruct (test m (req_query (r_req r)) f) eqn:Et; simpl; auto. exfalso. eapply HT; eauto.
        + destruct o; reflexivity. }
    destruct H1 as [A B]. destruct (IH r1 o1 HT A) as [C D]. split; [exact C|congruence].
  Qed.
End Local.
