(* M4 invariants, part D: the path table (which closure a part path resolves to) - the
   basis of "the preload-hint request returns exactly that part". *)
From Coq Require Import List ZArith Lia Bool String Arith ZifyBool ZifyNat.
From GoHls Require Import Lib.MuxSched Model.MuxConcSeq Model.MuxConcSpec Model.MuxConcPar
  Proofs.MuxConcSeqA Proofs.MuxConcInvA Proofs.MuxConcInvB.
Import ListNotations.
Local Open Scope Z_scope.

Lemma path_eqb_eq : forall a b, path_eqb a b = true <-> a = b.
Proof.
  intros [i x|i x] [j y|j y]; simpl; split; intros H; try discriminate.
  - apply andb_true_iff in H. destruct H as [H1 H2]. apply Nat.eqb_eq in H1. f_equal; lia.
  - inversion H; subst. rewrite Nat.eqb_refl, Z.eqb_refl. reflexivity.
  - apply andb_true_iff in H. destruct H as [H1 H2]. apply Nat.eqb_eq in H1. f_equal; lia.
  - inversion H; subst. rewrite Nat.eqb_refl, Z.eqb_refl. reflexivity.
Qed.

Lemma path_eqb_refl : forall a, path_eqb a a = true.
Proof. intros; apply path_eqb_eq; reflexivity. Qed.

Lemma path_eqb_neq : forall a b, a <> b -> path_eqb a b = false.
Proof. intros a b H. destruct (path_eqb a b) eqn:E; [apply path_eqb_eq in E; congruence|reflexivity]. Qed.

Lemma lookup_unregister : forall t p q,
  lookupPath (unregisterPath t p) q = if path_eqb p q then None else lookupPath t q.
Proof.
  intros t p q. unfold unregisterPath. induction t as [|[a h] r IH]; simpl.
  - destruct (path_eqb p q); reflexivity.
  - destruct (path_eqb a p) eqn:E1; simpl.
    + apply path_eqb_eq in E1. subst a. rewrite IH. destruct (path_eqb p q); reflexivity.
    + destruct (path_eqb a q) eqn:E2.
      * apply path_eqb_eq in E2. subst a. rewrite path_eqb_neq; [reflexivity|].
        intros ->. rewrite path_eqb_refl in E1. discriminate.
      * exact IH.
Qed.

Lemma lookup_register : forall t p h q,
  lookupPath (registerPath t p h) q = if path_eqb p q then Some h else lookupPath t q.
Proof.
  intros t p h q. unfold registerPath. simpl. destruct (path_eqb p q) eqn:E; [reflexivity|].
  rewrite lookup_unregister, E. reflexivity.
Qed.

Lemma lookup_unregisterParts : forall ps t i q h,
  lookupPath (unregisterParts t i ps) q = Some h -> lookupPath t q = Some h.
Proof.
  induction ps as [|p r IH]; intros t i q h H; simpl in H; [exact H|].
  apply IH in H. rewrite lookup_unregister in H. destruct (path_eqb (PPart i p) q); [discriminate|exact H].
Qed.

(* what a part path may resolve to, relative to the streams from index [off] on *)
Definition entry_ok (s : stream) (k : nat) (id : Z) (h : handler) : Prop :=
  (h = HPart k id /\ id < nextPartID s) \/ (h = HHint k id /\ id = nextPartID s).

Definition all_ok (off : nat) (ss : list stream) (t : ptable) : Prop :=
  forall k id h, lookupPath t (PPart k id) = Some h -> (off <= k)%nat ->
    exists s, nth_error ss (k - off) = Some s /\ entry_ok s k id h.

(* the non-LL variants never register part paths; to keep the invariant simple it is stated
   for the Low-Latency variant, where preload hints exist *)
Lemma rotateParts_table : forall i s t s' t',
  stream_rotateParts LL i s t = Some (s', t') ->
  (forall k id, k <> i -> lookupPath t' (PPart k id) = lookupPath t (PPart k id)) /\
  (forall q, (forall k id, q <> PPart k id) -> lookupPath t' q = lookupPath t q) /\
  (forall id h, lookupPath t' (PPart i id) = Some h ->
                (forall h0, lookupPath t (PPart i id) = Some h0 -> entry_ok s i id h0) ->
                entry_ok s' i id h) /\
  nextPartID s' = nextPartID s + 1.
Proof.
  intros i s t s' t' H. unfold stream_rotateParts in H. destruct (nextSegment s) as [ps|]; [|discriminate].
  inversion H; subst; clear H. repeat split.
  - intros k id Hk. rewrite !lookup_register.
    rewrite !path_eqb_neq by congruence. reflexivity.
  - intros q Hq. rewrite !lookup_register. rewrite !path_eqb_neq by (intro E; eapply Hq; eauto). reflexivity.
  - intros id h Hl Hold. rewrite !lookup_register in Hl. unfold entry_ok. cbn [nextPartID].
    destruct (path_eqb (PPart i (nextPartID s + 1)) (PPart i id)) eqn:E1.
    + apply path_eqb_eq in E1. inversion E1; subst. inversion Hl; subst. right; auto.
    + destruct (path_eqb (PPart i (nextPartID s)) (PPart i id)) eqn:E2.
      * apply path_eqb_eq in E2. inversion E2; subst. inversion Hl; subst. left. split; [reflexivity|lia].
      * destruct (Hold h Hl) as [[-> Hlt]|[-> ->]].
        -- left. split; [reflexivity|lia].
        -- rewrite path_eqb_refl in E2. discriminate.
Qed.

Lemma rotateParts_all_ok : forall ss i t ss' t',
  rotateParts_all LL i ss t = Some (ss', t') -> all_ok i ss t ->
  all_ok i ss' t' /\
  (forall k id, (k < i)%nat -> lookupPath t' (PPart k id) = lookupPath t (PPart k id)) /\
  (forall q, (forall k id, q <> PPart k id) -> lookupPath t' q = lookupPath t q).
Proof.
  induction ss as [|s r IH]; intros i t ss' t' H A; simpl in H.
  - inversion H; subst. repeat split; auto.
  - destruct (stream_rotateParts LL i s t) as [[s1 t1]|] eqn:E; [|discriminate].
    destruct (rotateParts_all LL (S i) r t1) as [[r' t2]|] eqn:E2; [|discriminate].
    inversion H; subst; clear H.
    destruct (rotateParts_table _ _ _ _ _ E) as [T1 [T2 [T3 T4]]].
    assert (A1 : all_ok (S i) r t1).
    { intros k id h Hl Hk. rewrite T1 in Hl by lia. destruct (A k id h Hl ltac:(lia)) as [s0 [Hs Ho]].
      replace (k - i)%nat with (S (k - S i)) in Hs by lia. simpl in Hs. eauto. }
    destruct (IH _ _ _ _ E2 A1) as [B1 [B2 B3]].
    repeat split.
    + intros k id h Hl Hk. destruct (Nat.eq_dec k i) as [->|Hn].
      * rewrite Nat.sub_diag. simpl. exists s1. split; [reflexivity|].
        rewrite B2 in Hl by lia. apply T3; [exact Hl|].
        intros h0 H0. destruct (A i id h0 H0 ltac:(lia)) as [s0 [Hs Ho]].
        rewrite Nat.sub_diag in Hs. simpl in Hs. inversion Hs; subst. exact Ho.
      * destruct (B1 k id h Hl ltac:(lia)) as [s0 [Hs Ho]]. exists s0. split; [|exact Ho].
        replace (k - i)%nat with (S (k - S i)) by lia. exact Hs.
    + intros k id Hk. rewrite B2 by lia. apply T1. lia.
    + intros q Hq. rewrite B3 by exact Hq. apply T2. exact Hq.
Qed.

(* rotateSegments: the embedded rotateParts, then only removals of part paths *)
Lemma rotateSegments_table : forall sc lead i dur s t fs s' t' fs',
  stream_rotateSegments LL sc lead i dur s t fs = Some (s', t', fs') ->
  exists s1 t1, stream_rotateParts LL i s t = Some (s1, t1) /\ nextPartID s' = nextPartID s1 /\
    (forall k id h, lookupPath t' (PPart k id) = Some h -> lookupPath t1 (PPart k id) = Some h).
Proof.
  intros sc lead i dur s t fs s' t' fs' H. unfold stream_rotateSegments in H.
  destruct (stream_rotateParts LL i s t) as [[s1 t1]|] eqn:E; [|discriminate].
  exists s1, t1. split; [reflexivity|].
  destruct (sc <? _) in H.
  - match type of H with context[match ?l with nil => _ | cons _ _ => _ end] => destruct l as [|[?|? ? ?] ?] end;
      inversion H; subst; (split; [reflexivity|]); intros kk pp hh Hl.
    + rewrite lookup_register in Hl. cbn [path_eqb] in Hl. exact Hl.
    + rewrite lookup_register in Hl. cbn [path_eqb] in Hl. exact Hl.
    + rewrite lookup_unregister in Hl. cbn [path_eqb] in Hl. apply lookup_unregisterParts in Hl.
      rewrite lookup_register in Hl. cbn [path_eqb] in Hl. exact Hl.
  - inversion H; subst. split; [reflexivity|]. intros kk pp hh Hl.
    rewrite lookup_register in Hl. cbn [path_eqb] in Hl. exact Hl.
Qed.

Lemma rotateSegments_all_ok : forall sc lead dur ss i t fs ss' t' fs',
  rotateSegments_all LL sc lead dur i ss t fs = Some (ss', t', fs') -> all_ok i ss t ->
  all_ok i ss' t' /\
  (forall k id h, (k < i)%nat -> lookupPath t' (PPart k id) = Some h -> lookupPath t (PPart k id) = Some h).
Proof.
  intros sc lead dur ss; induction ss as [|s r IH]; intros i t fs ss' t' fs' H A; simpl in H.
  - inversion H; subst. split; auto.
  - destruct (stream_rotateSegments LL sc (Nat.eqb i lead) i dur s t fs) as [[[s1 t1] fs1]|] eqn:E; [|discriminate].
    destruct (rotateSegments_all LL sc lead dur (S i) r t1 fs1) as [[[r' t2] fs2]|] eqn:E2; [|discriminate].
    inversion H; subst; clear H.
    destruct (rotateSegments_table _ _ _ _ _ _ _ _ _ _ E) as [sp [tp [Ep [Enp Tsub]]]].
    destruct (rotateParts_table _ _ _ _ _ Ep) as [T1 [T2 [T3 T4]]].
    assert (A1 : all_ok (S i) r t1).
    { intros k id h Hl Hk. apply Tsub in Hl. rewrite T1 in Hl by lia.
      destruct (A k id h Hl ltac:(lia)) as [s0 [Hs Ho]].
      replace (k - i)%nat with (S (k - S i)) in Hs by lia. simpl in Hs. eauto. }
    destruct (IH _ _ _ _ _ _ E2 A1) as [B1 B2].
    split.
    + intros k id h Hl Hk. destruct (Nat.eq_dec k i) as [->|Hn].
      * rewrite Nat.sub_diag. simpl. exists s1. split; [reflexivity|].
        apply B2 in Hl; [|lia]. apply Tsub in Hl.
        assert (Ho : entry_ok sp i id h).
        { apply T3; [exact Hl|]. intros h0 H0. destruct (A i id h0 H0 ltac:(lia)) as [s0 [Hs Ho]].
          rewrite Nat.sub_diag in Hs. simpl in Hs. inversion Hs; subst. exact Ho. }
        unfold entry_ok in *. rewrite Enp. exact Ho.
      * destruct (B1 k id h Hl ltac:(lia)) as [s0 [Hs Ho]]. exists s0. split; [|exact Ho].
        replace (k - i)%nat with (S (k - S i)) by lia. exact Hs.
    + intros k id h Hk Hl. apply B2 in Hl; [|lia]. apply Tsub in Hl. rewrite T1 in Hl by lia. exact Hl.
Qed.

Definition paths_ok (m : mux) : Prop := all_ok 0 (m_streams m) (m_paths m).

Lemma all_ok_ext : forall ss ss' t,
  (forall k, option_map nextPartID (nth_error ss' k) = option_map nextPartID (nth_error ss k)) ->
  all_ok 0 ss t -> all_ok 0 ss' t.
Proof.
  intros ss ss' t H A k id h Hl Hk. destruct (A k id h Hl Hk) as [s [Hs Ho]].
  specialize (H (k - 0)%nat). rewrite Hs in H. destruct (nth_error ss' (k - 0)) as [s'|]; [|discriminate].
  simpl in H. inversion H as [Hn]. exists s'. split; [reflexivity|]. unfold entry_ok in *. rewrite Hn. exact Ho.
Qed.

Lemma paths_ok_wop : forall m o m',
  m_variant m = LL -> apply_wop m o = Some m' -> paths_ok m -> paths_ok m'.
Proof.
  intros m o m' Hv H P. unfold paths_ok in *. destruct o; simpl in H.
  - inversion H; subst; simpl. eapply all_ok_ext; [|exact P]. intros k. rewrite nth_error_map.
    destruct (nth_error (m_streams m) k); reflexivity.
  - unfold mux_rotateParts in H. rewrite Hv in H.
    destruct (rotateParts_all LL 0 (m_streams m) (m_paths m)) as [[ss t]|] eqn:E; [|discriminate].
    inversion H; subst; simpl. eapply rotateParts_all_ok; eauto.
  - unfold mux_rotateSegments in H. rewrite Hv in H.
    destruct (rotateSegments_all LL _ _ _ 0 (m_streams m) (m_paths m) (m_files m)) as [[[ss t] fs]|] eqn:E; [|discriminate].
    inversion H; subst; simpl. destruct (rotateSegments_all_ok _ _ _ _ _ _ _ _ _ _ E P) as [B _].
    eapply all_ok_ext; [|exact B]. intros k. unfold copy_targetDuration.
    destruct (nth_error ss (m_leading m)); [|reflexivity]. rewrite nth_error_map.
    destruct (nth_error ss k); reflexivity.
  - inversion H; subst. clear H. unfold close_all.
    assert (G : forall l m0, all_ok 0 (m_streams m0) (m_paths m0) ->
                all_ok 0 (m_streams (fold_left mux_closeStream l m0)) (m_paths (fold_left mux_closeStream l m0))).
    { induction l as [|k l IH]; intros m0 A; simpl; [exact A|]. apply IH.
      destruct (closeStream_fields m0 k) as [_ [_ [Hp [_ Hn]]]]. rewrite Hp.
      eapply all_ok_ext; [|exact A]. intros j. rewrite Hn. destruct (Nat.eqb j k); [|reflexivity].
      destruct (nth_error (m_streams m0) j); reflexivity. }
    apply G. simpl. eapply all_ok_ext; [|exact P]. intros k. rewrite nth_error_map.
    destruct (nth_error (m_streams m) k); reflexivity.
Qed.

Lemma paths_ok_set_closed : forall m, paths_ok m -> paths_ok (set_closed m).
Proof.
  intros m P. unfold paths_ok in *. simpl. eapply all_ok_ext; [|exact P]. intros k. rewrite nth_error_map.
  destruct (nth_error (m_streams m) k); reflexivity.
Qed.

Lemma paths_ok_closeStream : forall m k, paths_ok m -> paths_ok (mux_closeStream m k).
Proof.
  intros m k P. unfold paths_ok in *. destruct (closeStream_fields m k) as [_ [_ [Hp [_ Hn]]]]. rewrite Hp.
  eapply all_ok_ext; [|exact P]. intros j. rewrite Hn. destruct (Nat.eqb j k); [|reflexivity].
  destruct (nth_error (m_streams m) j); reflexivity.
Qed.

Lemma paths_ok_createFirst : forall m, paths_ok m -> paths_ok (mux_createFirstSegment m).
Proof.
  intros m P. unfold paths_ok in *. simpl. eapply all_ok_ext; [|exact P]. intros k. rewrite nth_error_map.
  destruct (nth_error (m_streams m) k); reflexivity.
Qed.

Lemma apply_wop_variant : forall m o m', apply_wop m o = Some m' -> m_variant m' = m_variant m.
Proof.
  intros m o m' H. destruct o; simpl in H.
  - inversion H; reflexivity.
  - unfold mux_rotateParts in H. destruct (rotateParts_all _ _ _ _) as [[ss t]|]; inversion H; reflexivity.
  - unfold mux_rotateSegments in H. destruct (rotateSegments_all _ _ _ _ _ _ _ _) as [[[ss t] fs]|]; inversion H; reflexivity.
  - inversion H. unfold close_all. generalize (seq 0 (List.length (m_streams (set_closed m)))).
    intros l. change (m_variant m) with (m_variant (set_closed m)). generalize (set_closed m).
    induction l as [|k l IH]; intros m0; simpl; [reflexivity|]. rewrite IH.
    apply (closeStream_fields m0 k).
Qed.

(* the invariant over runs *)
Definition paths_inv (c : cstate) : Prop := m_variant (c_mux c) = LL /\ paths_ok (c_mux c).

Lemma paths_inv_step : forall c t, paths_inv c -> paths_inv (step c t).
Proof.
  intros c t [Hv P]. unfold step. destruct (c_wpc c) eqn:Ew; try (split; assumption); destruct t as [|i].
  all: try (destruct (rstep_shape c i) as [[_ E]|[r [Hr E]]]; rewrite E; split; assumption).
  all: unfold wstep; rewrite Ew.
  - destruct (c_prog c) as [|o rest]; [split; assumption|].
    destruct o; try (destruct (c_owner c); split; assumption).
    split; simpl; [exact Hv|apply paths_ok_createFirst; exact P].
  - destruct (apply_wop (c_mux c) o) as [m'|] eqn:Ea; [|split; assumption].
    split; simpl; [rewrite (apply_wop_variant _ _ _ Ea); exact Hv|eapply paths_ok_wop; eauto].
  - split; assumption.
  - split; assumption.
  - split; simpl; [exact Hv|apply paths_ok_set_closed; exact P].
  - split; assumption.
  - split; assumption.
  - destruct (Nat.ltb k (List.length (m_streams (c_mux c)))); [|split; assumption].
    split; simpl; [rewrite (proj1 (closeStream_fields (c_mux c) k)); exact Hv|apply paths_ok_closeStream; exact P].
  - split; assumption.
Qed.

(* the hint closure, once past its wait loop, finds the real part handler (or nothing, when
   the part has been evicted meanwhile) - never itself, never another part *)
Lemma hint_break_handler : forall m q k id h,
  paths_ok m -> test m q (FHint k id) = TBreakHint h ->
  h = Some (HPart k id) \/ h = None.
Proof.
  intros m q k id h P H. unfold test in H.
  destruct (nth_error (m_streams m) k) as [s|] eqn:Es; [|discriminate].
  destruct (s_closed s); [discriminate|]. destruct (id <? nextPartID s) eqn:El; [|discriminate].
  inversion H; subst. destruct (lookupPath (m_paths m) (PPart k id)) as [h|] eqn:E; [|right; reflexivity].
  left. destruct (P k id h E ltac:(lia)) as [s0 [Hs Ho]]. rewrite Nat.sub_0_r, Es in Hs. inversion Hs; subst.
  destruct Ho as [[-> _]|[_ Hc]]; [reflexivity|lia].
Qed.

Lemma hint_break_ready : forall m q k id h,
  test m q (FHint k id) = TBreakHint h ->
  exists s, nth_error (m_streams m) k = Some s /\ s_closed s = false /\ id < nextPartID s /\
            h = lookupPath (m_paths m) (PPart k id).
Proof.
  intros m q k id h H. unfold test in H.
  destruct (nth_error (m_streams m) k) as [s|] eqn:Es; [|discriminate].
  destruct (s_closed s) eqn:Ec; [discriminate|]. destruct (id <? nextPartID s) eqn:El; [|discriminate].
  inversion H; subst. exists s. repeat split; auto. lia.
Qed.
