(* C15, strict grammar, playlist level (Media): the strict recogniser accepts Marshal output of
   every media playlist value satisfying wf_media and strict_media. *)
From Coq Require Import List ZArith Bool String Ascii Lia.
From GoHls Require Import Model.PlaylistBase Model.Playlist Model.PlaylistSpec Model.PlaylistStrict
  Model.PlaylistStrictSpec Proofs.PlaylistStr Proofs.PlaylistNum Proofs.PlaylistAttrs Proofs.PlaylistTags
  Proofs.PlaylistMedia Proofs.PlaylistStrictLex Proofs.PlaylistStrictTags Proofs.PlaylistStrictLines.
Import ListNotations.
Local Open Scope string_scope.
Local Open Scope Z_scope.

Local Arguments fmt_int : simpl never.

(* the state invariant along a media playlist: the media flag is only known once EXTINF is pending *)
Definition MI (seen pend : list string) (e td : bool) (st : sstate) : Prop :=
  exists sm, st_inv seen pend e td false sm false st /\ (e = true -> sm = true).

Lemma MI_weaken seen pend seen' pend' e td st :
  incl seen seen' -> incl pend pend' -> MI seen pend e td st -> MI seen' pend' e td st.
Proof. intros H1 H2 (sm & I & E). exists sm. split; [eapply st_inv_weaken; eauto|exact E]. Qed.

Lemma MI_tag seen pend e td name v st :
  tag_spec name = Some (spec_of name) -> String.eqb name "EXTM3U" = false ->
  is_multi_class (t_class (spec_of name)) = false -> String.eqb name "EXT-X-STREAM-INF" = false ->
  (String.eqb name "EXTINF" = true -> is_media_class (t_class (spec_of name)) = true) ->
  (t_once (spec_of name) = true -> ~ In name seen) ->
  (t_perseg (spec_of name) = true -> ~ In name pend) ->
  value_ok name (spec_of name) v = (true, false) ->
  MI seen pend e td st ->
  exists st', tag_step st name v = Some st'
    /\ MI (if t_once (spec_of name) then name :: seen else seen)
          (if t_perseg (spec_of name) then name :: pend else pend)
          (if t_perseg (spec_of name) then String.eqb name "EXTINF" || e else e)
          (td || String.eqb name "EXT-X-TARGETDURATION") st'.
Proof.
  intros Hs Hn Hm Hsi Hext Ho Hp Hv (sm & I & E).
  destruct (inv_tag _ _ _ _ _ _ _ _ _ I Hs Hn Ho Hp Hv) as (st' & Et & I').
  exists st'. split; [exact Et|]. rewrite Hm, Hsi, orb_false_r in I'.
  eexists. split; [exact I'|]. intros He.
  destruct (t_perseg (spec_of name)).
  - apply orb_true_iff in He as [He|He]; [rewrite (Hext He); apply orb_true_r|rewrite (E He); reflexivity].
  - rewrite (E He). reflexivity.
Qed.

Lemma name_line_no_crlf name v : no_crlf name = true -> no_crlf v = true ->
  no_crlf (String "#" (name ++ String ":" v)) = true.
Proof.
  intros A B. rewrite no_crlf_string. change (Ascii.eqb "#" LF) with false. change (Ascii.eqb "#" CR) with false.
  cbn [negb andb]. rewrite no_crlf_app, A, no_crlf_string, B. reflexivity.
Qed.

Lemma Acc_tag_value seen pend e td name v rest :
  tag_spec name = Some (spec_of name) -> String.eqb name "EXTM3U" = false ->
  is_multi_class (t_class (spec_of name)) = false -> String.eqb name "EXT-X-STREAM-INF" = false ->
  (String.eqb name "EXTINF" = true -> is_media_class (t_class (spec_of name)) = true) ->
  has_prefix "EXT" name = true -> no_byte ":" name = true -> no_crlf name = true -> no_crlf v = true ->
  (t_once (spec_of name) = true -> ~ In name seen) ->
  (t_perseg (spec_of name) = true -> ~ In name pend) ->
  value_ok name (spec_of name) (Some v) = (true, false) ->
  Acc (MI (if t_once (spec_of name) then name :: seen else seen)
          (if t_perseg (spec_of name) then name :: pend else pend)
          (if t_perseg (spec_of name) then String.eqb name "EXTINF" || e else e)
          (td || String.eqb name "EXT-X-TARGETDURATION")) rest ->
  Acc (MI seen pend e td) (String "#" (name ++ String ":" v) ++ lf ++ rest).
Proof.
  intros Hs Hn Hm Hsi Hext Hpre Hcol Hcn Hcv Ho Hp Hv K.
  eapply Acc_line; [apply name_line_no_crlf; auto| |exact K].
  intros st HI. pose proof HI as (sm & I & _).
  rewrite sstep_tag_value; [|apply (i_si _ _ _ _ _ _ _ _ I)|exact Hpre|exact Hcol].
  eapply MI_tag; eauto.
Qed.

Lemma Acc_tag_plain seen pend e td name rest :
  tag_spec name = Some (spec_of name) -> String.eqb name "EXTM3U" = false ->
  is_multi_class (t_class (spec_of name)) = false -> String.eqb name "EXT-X-STREAM-INF" = false ->
  (String.eqb name "EXTINF" = true -> is_media_class (t_class (spec_of name)) = true) ->
  has_prefix "EXT" name = true -> no_byte ":" name = true -> no_crlf name = true ->
  (t_once (spec_of name) = true -> ~ In name seen) ->
  (t_perseg (spec_of name) = true -> ~ In name pend) ->
  value_ok name (spec_of name) None = (true, false) ->
  Acc (MI (if t_once (spec_of name) then name :: seen else seen)
          (if t_perseg (spec_of name) then name :: pend else pend)
          (if t_perseg (spec_of name) then String.eqb name "EXTINF" || e else e)
          (td || String.eqb name "EXT-X-TARGETDURATION")) rest ->
  Acc (MI seen pend e td) (String "#" name ++ lf ++ rest).
Proof.
  intros Hs Hn Hm Hsi Hext Hpre Hcol Hcn Ho Hp Hv K.
  eapply Acc_line; [| |exact K].
  - rewrite no_crlf_string, Hcn. reflexivity.
  - intros st HI. pose proof HI as (sm & I & _).
    rewrite sstep_tag_plain; [|apply (i_si _ _ _ _ _ _ _ _ I)|exact Hpre|exact Hcol].
    eapply MI_tag; eauto.
Qed.

Lemma Acc_uri seen pend td u rest :
  uri_line_ok u = true -> uri_strict u = true ->
  Acc (MI seen [] false td) rest -> Acc (MI seen pend true td) (u ++ lf ++ rest).
Proof.
  intros Hu Hs K. destruct (uri_line_facts _ Hu) as (Hn & _).
  eapply Acc_line; [exact Hn| |exact K].
  intros st (sm & I & E). exists (uri_update st). split; [apply sstep_uri; auto|].
  exists sm. split; [|discriminate].
  eapply inv_uri; [exact I|reflexivity|]. rewrite (E eq_refl). discriminate.
Qed.

Ltac notin := let H := fresh in intros _ H; cbn in H; intuition discriminate.
Ltac vacuous := let H := fresh in intros H; vm_compute in H; discriminate H.

(* solve the side conditions of Acc_tag_value / Acc_tag_plain for a literal tag name *)
Ltac tag_side :=
  first [ reflexivity | vacuous | notin ].

Ltac simp_params :=
  repeat match goal with
  | |- context [t_once (spec_of ?n)] =>
      let b := eval vm_compute in (t_once (spec_of n)) in change (t_once (spec_of n)) with b
  | |- context [t_perseg (spec_of ?n)] =>
      let b := eval vm_compute in (t_perseg (spec_of n)) in change (t_perseg (spec_of n)) with b
  end; cbv iota;
  repeat match goal with
  | |- context [String.eqb ?a ?b] =>
      let r := eval vm_compute in (String.eqb a b) in change (String.eqb a b) with r
  end; cbn [orb].

Section WithOracles.
Variable orc : oracles.
Hypothesis LEX : oracle_lex_ok orc.

Lemma fmt_dur_no_crlf d : no_crlf (fmt_dur orc d) = true.
Proof.
  pose proof (dur_unq orc LEX d) as H. unfold unq_ok in H. apply andb_true_iff in H as [_ H].
  apply negb_true_iff in H. unfold no_crlf. rewrite !no_byte_has_char.
  assert (G : forall c, is_ws c = true -> has_char (fun x => Ascii.eqb x c) (fmt_dur orc d) = false).
  { intros c Hc. induction (fmt_dur orc d) as [|a s IH]; [reflexivity|].
    cbn [has_char] in *. apply orb_false_iff in H as [Ha Hs]. apply orb_false_iff in Ha as [_ Ha].
    rewrite (IH Hs), orb_false_r. destruct (Ascii.eqb_spec a c); [subst; congruence|reflexivity]. }
  rewrite !G by reflexivity. reflexivity.
Qed.

(* ---------- trailing / in-segment EXT-X-PART lines ---------- *)
Lemma parts_acc seen pend e td : forall ps rest,
  forallb wf_part ps = true -> forallb strict_part ps = true ->
  Acc (MI seen pend e td) rest ->
  Acc (MI seen pend e td) (String.concat "" (map (part_marshal orc) ps) ++ rest).
Proof.
  induction ps as [|p ps IH]; intros rest Hwf Hs K; [exact K|].
  cbn [forallb] in Hwf, Hs. apply andb_true_iff in Hwf as [Hp Hps]. apply andb_true_iff in Hs as [Sp Sps].
  cbn [map]. rewrite concat_cons, app_assoc', part_marshal_render, !app_assoc'.
  change ("#EXT-X-PART:" ++ render_attrs (part_attrs orc p) ++ lf ++ String.concat "" (map (part_marshal orc) ps) ++ rest)
    with (String "#" ("EXT-X-PART" ++ String ":" (render_attrs (part_attrs orc p))) ++ lf
          ++ String.concat "" (map (part_marshal orc) ps) ++ rest).
  apply Acc_tag_value; try tag_side.
  - eapply (attrs_value_no_crlf "EXT-X-PART"); [|apply part_value_ok; eauto]. reflexivity.
  - apply part_value_ok; auto.
  - simp_params. rewrite orb_false_r. apply IH; auto.
Qed.

Ltac incl_tac := let x := fresh in let H := fresh in intros x H; cbn in H |- *; intuition.

(* ---------- the lines of one segment ---------- *)
Lemma segment_acc seen seg rest :
  wf_segment seg = true -> strict_segment seg = true ->
  Acc (MI seen [] false true) rest ->
  Acc (MI seen [] false true) (segment_marshal orc seg ++ rest).
Proof.
  unfold wf_segment, strict_segment. intros H Hs K. split_and H. split_and Hs.
  destruct seg as [d title uri disc gap dt br key brl brs parts];
    cbn [sg_duration sg_title sg_uri sg_discontinuity sg_gap sg_datetime sg_bitrate sg_key sg_brlen sg_brstart sg_parts] in *.
  assert (Hdur : dur_pos d = true) by assumption.
  assert (Htitle : title_ok title = true) by assumption.
  assert (Huri : uri_line_ok uri = true) by assumption.
  assert (Husr : uri_strict uri = true) by assumption.
  assert (Hdt : opt_ok time_ok dt = true) by assumption.
  assert (Hbr : opt_ok int31 br = true) by assumption.
  assert (Hrange : byterange_ok brl brs = true) by assumption.
  assert (Hparts : forallb wf_part parts = true) by assumption.
  assert (Hsparts : forallb strict_part parts = true) by assumption.
  destruct (title_ok_facts _ Htitle) as [Ht1 _].
  set (P4 := ["EXT-X-BITRATE"; "EXT-X-PROGRAM-DATE-TIME"; "EXT-X-GAP"; "EXT-X-DISCONTINUITY"]).
  (* backwards from the URI line *)
  assert (Kuri : forall pend, Acc (MI seen pend true true) (uri ++ lf ++ rest))
    by (intros pend; apply Acc_uri; auto).
  assert (Kbr : Acc (MI seen ("EXTINF" :: P4) true true)
                    (match brl with Some l => "#EXT-X-BYTERANGE:" ++ byterange_marshal l brs ++ lf | None => "" end
                     ++ uri ++ lf ++ rest)).
  { destruct brl as [l|]; [|apply Kuri]. rewrite !app_assoc'.
    apply (Acc_tag_value seen ("EXTINF" :: P4) true true "EXT-X-BYTERANGE" (byterange_marshal l brs)); try tag_side.
    - destruct (byterange_ok_some _ _ Hrange) as [Hl Hss]. unfold no_crlf.
      rewrite !byterange_chars by (auto; discriminate). reflexivity.
    - apply byterange_value_ok; auto.
    - simp_params. apply Kuri. }
  assert (Kinf : Acc (MI seen P4 false true)
                     ("#EXTINF:" ++ fmt_dur orc d ++ "," ++ title ++ lf ++
                      match brl with Some l => "#EXT-X-BYTERANGE:" ++ byterange_marshal l brs ++ lf | None => "" end
                      ++ uri ++ lf ++ rest)).
  { replace ("#EXTINF:" ++ fmt_dur orc d ++ "," ++ title ++ lf ++
             match brl with Some l => "#EXT-X-BYTERANGE:" ++ byterange_marshal l brs ++ lf | None => "" end
             ++ uri ++ lf ++ rest)
      with (String "#" ("EXTINF" ++ String ":" (fmt_dur orc d ++ "," ++ title)) ++ lf ++
            match brl with Some l => "#EXT-X-BYTERANGE:" ++ byterange_marshal l brs ++ lf | None => "" end
            ++ uri ++ lf ++ rest) by (cbn [append]; now rewrite !app_assoc').
    apply (Acc_tag_value seen P4 false true "EXTINF"); try tag_side.
    - rewrite no_crlf_app, (fmt_dur_no_crlf d). change ("," ++ title) with (String "," title).
      rewrite no_crlf_string, Ht1. reflexivity.
    - apply (extinf_value_ok orc LEX); auto.
    - simp_params. exact Kbr. }
  assert (Kparts : Acc (MI seen P4 false true)
                       (String.concat "" (map (part_marshal orc) parts) ++
                        "#EXTINF:" ++ fmt_dur orc d ++ "," ++ title ++ lf ++
                        match brl with Some l => "#EXT-X-BYTERANGE:" ++ byterange_marshal l brs ++ lf | None => "" end
                        ++ uri ++ lf ++ rest))
    by (apply parts_acc; auto).
  set (T4 := String.concat "" (map (part_marshal orc) parts) ++
             "#EXTINF:" ++ fmt_dur orc d ++ "," ++ title ++ lf ++
             match brl with Some l => "#EXT-X-BYTERANGE:" ++ byterange_marshal l brs ++ lf | None => "" end
             ++ uri ++ lf ++ rest) in *.
  assert (Kbit : Acc (MI seen ["EXT-X-PROGRAM-DATE-TIME"; "EXT-X-GAP"; "EXT-X-DISCONTINUITY"] false true)
                     (match br with Some b => "#EXT-X-BITRATE:" ++ fmt_int b ++ lf | None => "" end ++ T4)).
  { destruct br as [b|]; cbn [opt_ok] in Hbr.
    - rewrite !app_assoc'.
      apply (Acc_tag_value seen _ false true "EXT-X-BITRATE" (fmt_int b)); try tag_side.
      + apply fmt_int_no_crlf. apply int31_range in Hbr. lia.
      + apply int_value_ok; [reflexivity|apply int31_64; auto].
      + simp_params. exact Kparts.
    - eapply Acc_weaken; [|exact Kparts]. intros st. apply MI_weaken; incl_tac. }
  set (T3 := match br with Some b => "#EXT-X-BITRATE:" ++ fmt_int b ++ lf | None => "" end ++ T4) in *.
  assert (Kpdt : Acc (MI seen ["EXT-X-GAP"; "EXT-X-DISCONTINUITY"] false true)
                     (match dt with Some t => "#EXT-X-PROGRAM-DATE-TIME:" ++ fmt_time orc t ++ lf | None => "" end ++ T3)).
  { destruct dt as [t|]; cbn [opt_ok] in Hdt.
    - rewrite !app_assoc'.
      apply (Acc_tag_value seen _ false true "EXT-X-PROGRAM-DATE-TIME" (fmt_time orc t)); try tag_side.
      + apply (lex_time_line orc LEX).
      + apply (datetime_value_ok orc LEX); auto.
      + simp_params. exact Kbit.
    - eapply Acc_weaken; [|exact Kbit]. intros st. apply MI_weaken; incl_tac. }
  set (T2 := match dt with Some t => "#EXT-X-PROGRAM-DATE-TIME:" ++ fmt_time orc t ++ lf | None => "" end ++ T3) in *.
  assert (Kgap : Acc (MI seen ["EXT-X-DISCONTINUITY"] false true)
                     ((if gap then "#EXT-X-GAP" ++ lf else "") ++ T2)).
  { destruct gap.
    - rewrite !app_assoc'.
      apply (Acc_tag_plain seen _ false true "EXT-X-GAP"); try tag_side.
      simp_params. exact Kpdt.
    - eapply Acc_weaken; [|exact Kpdt]. intros st. apply MI_weaken; incl_tac. }
  unfold segment_marshal.
  cbn [sg_duration sg_title sg_uri sg_discontinuity sg_gap sg_datetime sg_bitrate sg_key sg_brlen sg_brstart sg_parts].
  rewrite !app_assoc'. fold T4. fold T3. fold T2.
  destruct disc.
  - rewrite !app_assoc'.
    apply (Acc_tag_plain seen [] false true "EXT-X-DISCONTINUITY"); try tag_side.
    simp_params. exact Kgap.
  - eapply Acc_weaken; [|exact Kgap]. intros st. apply MI_weaken; incl_tac.
Qed.

(* ---------- the segment list, with EXT-X-KEY lines ---------- *)
Lemma segments_acc seen rest : forall segs prev,
  forallb wf_segment segs = true -> forallb strict_segment segs = true ->
  Acc (MI seen [] false true) rest ->
  Acc (MI seen [] false true) (segments_marshal orc prev segs ++ rest).
Proof.
  induction segs as [|seg segs IH]; intros prev Hwf Hs K; [exact K|].
  cbn [forallb] in Hwf, Hs. apply andb_true_iff in Hwf as [Hw Hws]. apply andb_true_iff in Hs as [Hst Hss].
  assert (Hk : opt_ok wf_key (sg_key seg) = true) by (unfold wf_segment in Hw; split_and Hw; assumption).
  assert (Hsk : opt_ok strict_key (sg_key seg) = true) by (unfold strict_segment in Hst; split_and Hst; assumption).
  cbn [segments_marshal].
  destruct (sg_key seg) as [kk|]; cbn [opt_ok] in *.
  - destruct (match prev with None => true | Some pk => negb (key_equal kk pk) end).
    + rewrite !app_assoc', key_marshal_render, !app_assoc'.
      apply (Acc_tag_value seen [] false true "EXT-X-KEY" (render_attrs (PlaylistTags.key_attrs kk))); try tag_side.
      * eapply (attrs_value_no_crlf "EXT-X-KEY"); [|apply key_value_ok; eauto]. reflexivity.
      * apply key_value_ok; auto.
      * simp_params. apply segment_acc; auto.
    + rewrite app_assoc'. apply segment_acc; auto.
  - rewrite app_assoc'. apply segment_acc; auto.
Qed.

Lemma MI_final seen st : MI seen [] false true st -> sfinal st = true.
Proof.
  intros (sm & [A B C D E F G H I J] & _). unfold sfinal. rewrite E, D, G, H. cbn [negb andb orb].
  rewrite (I eq_refl), andb_false_r, orb_true_r. cbn [negb andb].
  assert (M : forall n, mem_str n (s_pending st) = false).
  { intros n. destruct (mem_str n (s_pending st)) eqn:Em; auto. destruct (B n Em). }
  cbn [forallb]. rewrite !M. reflexivity.
Qed.

Definition N1 := ["EXT-X-VERSION"].
Definition N2 := "EXT-X-INDEPENDENT-SEGMENTS" :: N1.
Definition N3 := "EXT-X-START" :: N2.
Definition N4 := "EXT-X-ALLOW-CACHE" :: N3.
Definition N5 := "EXT-X-TARGETDURATION" :: N4.
Definition N6 := "EXT-X-SERVER-CONTROL" :: N5.
Definition N7 := "EXT-X-PART-INF" :: N6.
Definition N8 := "EXT-X-MEDIA-SEQUENCE" :: N7.
Definition N9 := "EXT-X-DISCONTINUITY-SEQUENCE" :: N8.
Definition N10 := "EXT-X-PLAYLIST-TYPE" :: N9.
Definition N12 := "EXT-X-SKIP" :: N10.

Ltac weaken_to K := eapply Acc_weaken; [|exact K]; let st := fresh in intros st; apply MI_weaken; incl_tac.

Theorem marshal_media_strict p : wf_media p = true -> strict_media p = true ->
  strict_ok (media_marshal orc p) = true.
Proof.
  unfold wf_media, strict_media. intros H Hs. split_and H. split_and Hs.
  destruct p as [ver indep start ac td sc pi mseq ds pt mp sk segs parts hint endl].
  cbn [m_version m_independent m_start m_allowcache m_targetduration m_servercontrol m_partinf
       m_mediasequence m_discseq m_playlisttype m_map m_skip m_segments m_parts m_preloadhint m_endlist] in *.
  assert (Hver : 0 <= ver < 2 ^ 64).
  { assert (A : 0 <= ver) by (apply Z.leb_le; assumption).
    assert (B : ver <= maxSupportedVersion) by (apply Z.leb_le; assumption).
    unfold maxSupportedVersion in B. split; [lia|]. eapply Z.le_lt_trans; [exact B|reflexivity]. }
  assert (Hstart : opt_ok (fun t => dur_signed (st_timeoffset t)) start = true) by assumption.
  assert (Htd : 0 <= td < 2 ^ 64).
  { assert (A : 0 < td) by (apply Z.ltb_lt; assumption).
    assert (B : td < 2 ^ 31) by (apply Z.ltb_lt; assumption).
    split; [lia|]. eapply Z.lt_trans; [exact B|reflexivity]. }
  assert (Hsc : opt_ok wf_server_control sc = true) by assumption.
  assert (Hssc : opt_ok strict_server_control sc = true) by assumption.
  assert (Hpi : opt_ok (fun t => dur_pos (pi_parttarget t)) pi = true) by assumption.
  assert (Hms : 0 <= mseq < 2 ^ 64) by (apply int31_64; assumption).
  assert (Hds : opt_ok int31 ds = true) by assumption.
  assert (Hpt : opt_ok (fun t => String.eqb t "EVENT" || String.eqb t "VOD") pt = true) by assumption.
  assert (Hmp : opt_ok wf_map mp = true) by assumption.
  assert (Hsmp : opt_ok (fun t => is_none (map_brlen t)) mp = true) by assumption.
  assert (Hsk : opt_ok (fun t => int31 (sk_skipped t)) sk = true) by assumption.
  assert (Hsegs : forallb wf_segment segs = true) by assumption.
  assert (Hssegs : forallb strict_segment segs = true) by assumption.
  assert (Hparts : forallb wf_part parts = true) by assumption.
  assert (Hsparts : forallb strict_part parts = true) by assumption.
  assert (Hhint : opt_ok wf_hint hint = true) by assumption.
  (* backwards from the end of the playlist *)
  assert (Kend : Acc (MI ("EXT-X-ENDLIST" :: N12) [] false true) "") by (apply Acc_nil; intros st; apply MI_final).
  assert (Kendl : Acc (MI N12 [] false true) (if endl then "#EXT-X-ENDLIST" ++ lf else "")).
  { destruct endl; [|weaken_to Kend].
    apply (Acc_tag_plain N12 [] false true "EXT-X-ENDLIST" ""); try tag_side.
    simp_params. exact Kend. }
  set (T15 := if endl then "#EXT-X-ENDLIST" ++ lf else "") in *.
  assert (Khint : Acc (MI N12 [] false true)
                      (match hint with Some t => preload_hint_marshal t | None => "" end ++ T15)).
  { destruct hint as [t|]; cbn [opt_ok] in Hhint; [|exact Kendl].
    rewrite hint_marshal_render, !app_assoc'.
    apply (Acc_tag_value N12 [] false true "EXT-X-PRELOAD-HINT" (render_attrs (hint_attrs t))); try tag_side.
    - eapply (attrs_value_no_crlf "EXT-X-PRELOAD-HINT"); [|apply hint_value_ok; eauto]. reflexivity.
    - apply hint_value_ok; auto.
    - simp_params. exact Kendl. }
  set (T14 := match hint with Some t => preload_hint_marshal t | None => "" end ++ T15) in *.
  assert (Kparts : Acc (MI N12 [] false true) (String.concat "" (map (part_marshal orc) parts) ++ T14))
    by (apply parts_acc; auto).
  set (T13 := String.concat "" (map (part_marshal orc) parts) ++ T14) in *.
  assert (Ksegs : Acc (MI N12 [] false true) (segments_marshal orc None segs ++ T13))
    by (apply segments_acc; auto).
  set (T12 := segments_marshal orc None segs ++ T13) in *.
  assert (Kskip : Acc (MI N10 [] false true) (match sk with Some t => skip_marshal t | None => "" end ++ T12)).
  { destruct sk as [t|]; cbn [opt_ok] in Hsk; [|weaken_to Ksegs].
    rewrite skip_marshal_render, !app_assoc'.
    apply (Acc_tag_value N10 [] false true "EXT-X-SKIP" (render_attrs (skip_attrs t))); try tag_side.
    - eapply (attrs_value_no_crlf "EXT-X-SKIP"); [|apply skip_value_ok; eauto]. reflexivity.
    - apply skip_value_ok; auto.
    - simp_params. exact Ksegs. }
  set (T11 := match sk with Some t => skip_marshal t | None => "" end ++ T12) in *.
  assert (Kmap : Acc (MI N10 [] false true) (match mp with Some t => map_marshal t | None => "" end ++ T11)).
  { destruct mp as [t|]; cbn [opt_ok] in Hmp, Hsmp; [|exact Kskip].
    assert (Hnb : map_brlen t = None) by (destruct (map_brlen t); [discriminate|reflexivity]).
    rewrite map_marshal_render, !app_assoc'.
    apply (Acc_tag_value N10 [] false true "EXT-X-MAP" (render_attrs (map_attrs t))); try tag_side.
    - eapply (attrs_value_no_crlf "EXT-X-MAP"); [|apply map_value_ok; eauto]. reflexivity.
    - apply map_value_ok; auto.
    - simp_params. exact Kskip. }
  set (T10 := match mp with Some t => map_marshal t | None => "" end ++ T11) in *.
  assert (Kpt : Acc (MI N9 [] false true)
                    (match pt with Some t => "#EXT-X-PLAYLIST-TYPE:" ++ t ++ lf | None => "" end ++ T10)).
  { destruct pt as [t|]; cbn [opt_ok] in Hpt; [|weaken_to Kmap].
    assert (Ht : t = "EVENT" \/ t = "VOD") by
      (apply orb_true_iff in Hpt as [E|E]; apply String.eqb_eq in E; auto).
    rewrite !app_assoc'.
    apply (Acc_tag_value N9 [] false true "EXT-X-PLAYLIST-TYPE" t); try tag_side.
    - destruct Ht; subst; reflexivity.
    - destruct Ht; subst; reflexivity.
    - simp_params. exact Kmap. }
  set (T9 := match pt with Some t => "#EXT-X-PLAYLIST-TYPE:" ++ t ++ lf | None => "" end ++ T10) in *.
  assert (Kds : Acc (MI N8 [] false true)
                    (match ds with Some x => "#EXT-X-DISCONTINUITY-SEQUENCE:" ++ fmt_int x ++ lf | None => "" end ++ T9)).
  { destruct ds as [x|]; cbn [opt_ok] in Hds; [|weaken_to Kpt].
    pose proof (int31_64 _ Hds) as Hx. rewrite !app_assoc'.
    apply (Acc_tag_value N8 [] false true "EXT-X-DISCONTINUITY-SEQUENCE" (fmt_int x)); try tag_side.
    - apply fmt_int_no_crlf. lia.
    - apply int_value_ok; [reflexivity|exact Hx].
    - simp_params. exact Kpt. }
  set (T8 := match ds with Some x => "#EXT-X-DISCONTINUITY-SEQUENCE:" ++ fmt_int x ++ lf | None => "" end ++ T9) in *.
  assert (Kms : Acc (MI N7 [] false true) ("#EXT-X-MEDIA-SEQUENCE:" ++ fmt_int mseq ++ lf ++ T8)).
  { apply (Acc_tag_value N7 [] false true "EXT-X-MEDIA-SEQUENCE" (fmt_int mseq)); try tag_side.
    - apply fmt_int_no_crlf. lia.
    - apply int_value_ok; [reflexivity|exact Hms].
    - simp_params. exact Kds. }
  set (T7 := "#EXT-X-MEDIA-SEQUENCE:" ++ fmt_int mseq ++ lf ++ T8) in *.
  assert (Kpi : Acc (MI N6 [] false true) (match pi with Some t => part_inf_marshal orc t | None => "" end ++ T7)).
  { destruct pi as [t|]; cbn [opt_ok] in Hpi; [|weaken_to Kms].
    rewrite part_inf_marshal_render, !app_assoc'.
    apply (Acc_tag_value N6 [] false true "EXT-X-PART-INF" (render_attrs (part_inf_attrs orc t))); try tag_side.
    - eapply (attrs_value_no_crlf "EXT-X-PART-INF"); [|apply part_inf_value_ok; eauto]. reflexivity.
    - apply part_inf_value_ok; auto.
    - simp_params. exact Kms. }
  set (T6 := match pi with Some t => part_inf_marshal orc t | None => "" end ++ T7) in *.
  assert (Ksc : Acc (MI N5 [] false true) (match sc with Some t => server_control_marshal orc t | None => "" end ++ T6)).
  { destruct sc as [t|]; cbn [opt_ok] in Hsc, Hssc; [|weaken_to Kpi].
    rewrite server_control_marshal_render, !app_assoc'.
    apply (Acc_tag_value N5 [] false true "EXT-X-SERVER-CONTROL" (render_attrs (sc_attrs orc t))); try tag_side.
    - eapply (attrs_value_no_crlf "EXT-X-SERVER-CONTROL"); [|apply server_control_value_ok; eauto]. reflexivity.
    - apply server_control_value_ok; auto.
    - simp_params. exact Kpi. }
  set (T5 := match sc with Some t => server_control_marshal orc t | None => "" end ++ T6) in *.
  assert (Ktd : Acc (MI N4 [] false false) ("#EXT-X-TARGETDURATION:" ++ fmt_int td ++ lf ++ T5)).
  { apply (Acc_tag_value N4 [] false false "EXT-X-TARGETDURATION" (fmt_int td)); try tag_side.
    - apply fmt_int_no_crlf. lia.
    - apply int_value_ok; [reflexivity|exact Htd].
    - simp_params. exact Ksc. }
  set (T4 := "#EXT-X-TARGETDURATION:" ++ fmt_int td ++ lf ++ T5) in *.
  assert (Kac : Acc (MI N3 [] false false)
                    (match ac with Some b => "#EXT-X-ALLOW-CACHE:" ++ (if b then "YES" else "NO") ++ lf | None => "" end ++ T4)).
  { destruct ac as [b|]; [|weaken_to Ktd]. rewrite !app_assoc'.
    apply (Acc_tag_value N3 [] false false "EXT-X-ALLOW-CACHE" (if b then "YES" else "NO")); try tag_side.
    - destruct b; reflexivity.
    - destruct b; reflexivity.
    - simp_params. exact Ktd. }
  set (T3 := match ac with Some b => "#EXT-X-ALLOW-CACHE:" ++ (if b then "YES" else "NO") ++ lf | None => "" end ++ T4) in *.
  assert (Kst : Acc (MI N2 [] false false) (match start with Some t => start_marshal orc t | None => "" end ++ T3)).
  { destruct start as [t|]; [|weaken_to Kac].
    rewrite start_marshal_render, !app_assoc'.
    apply (Acc_tag_value N2 [] false false "EXT-X-START" (render_attrs (start_attrs orc t))); try tag_side.
    - eapply (attrs_value_no_crlf "EXT-X-START"); [|apply start_value_ok; eauto]. reflexivity.
    - apply start_value_ok; auto.
    - simp_params. exact Kac. }
  set (T2 := match start with Some t => start_marshal orc t | None => "" end ++ T3) in *.
  assert (Kind : Acc (MI N1 [] false false) ((if indep then "#EXT-X-INDEPENDENT-SEGMENTS" ++ lf else "") ++ T2)).
  { destruct indep; [|weaken_to Kst]. rewrite !app_assoc'.
    apply (Acc_tag_plain N1 [] false false "EXT-X-INDEPENDENT-SEGMENTS"); try tag_side.
    simp_params. exact Kst. }
  set (T1 := (if indep then "#EXT-X-INDEPENDENT-SEGMENTS" ++ lf else "") ++ T2) in *.
  assert (Kver : Acc (MI [] [] false false) ("#EXT-X-VERSION:" ++ fmt_int ver ++ lf ++ T1)).
  { apply (Acc_tag_value [] [] false false "EXT-X-VERSION" (fmt_int ver)); try tag_side.
    - apply fmt_int_no_crlf. lia.
    - apply int_value_ok; [reflexivity|exact Hver].
    - simp_params. exact Kind. }
  (* the header line and the run from the initial state *)
  unfold strict_ok, media_marshal.
  cbn [m_version m_independent m_start m_allowcache m_targetduration m_servercontrol m_partinf
       m_mediasequence m_discseq m_playlisttype m_map m_skip m_segments m_parts m_preloadhint m_endlist].
  rewrite lines_of_line by reflexivity.
  fold T15. fold T14. fold T13. fold T12. fold T11. fold T10. fold T9. fold T8. fold T7. fold T6. fold T5.
  fold T4. fold T3. fold T2. fold T1.
  destruct (Kver sstate0) as (r & Er & Fr).
  { exists false. split; [apply st_inv_0|discriminate]. }
  rewrite Er, Fr. reflexivity.
Qed.

End WithOracles.
