(* C03, fMP4 variants (continued from MuxSpanInv.v): the span invariant along histories, and what it says about
   segment records and about the playlists served:
     segment_times_are_first_units   every non-gap evicted or listed segment of the leading stream has samples;
                                     its start and wall clock are those of its first sample, its end is the
                                     timestamp of the unit that follows its last sample in the stream's log
                                     (the first sample of the next segment, or the look-ahead unit)
     extinf_is_media_span            EXTINF of a listed non-gap segment = timestamp of the unit after its last
                                     sample - timestamp of its first sample (leading track's clock)
     date_time_is_first_unit_ntp     PROGRAM-DATE-TIME, where printed, is the wall clock written with its first sample
   in every state reachable from Start by writes that return nil. *)
From Coq Require Import List ZArith Bool Lia Arith.
From GoHls Require Import Model.Mux Proofs.MuxStream Proofs.MuxLift Proofs.MuxWindow Proofs.MuxHistory Proofs.MuxTimes
  Proofs.MuxMulti Proofs.MuxCut Proofs.MuxLog Proofs.MuxLogStep Proofs.MuxLogTS Proofs.MuxPartIds Proofs.MuxAgree
  Proofs.MuxGroups Proofs.MuxRAStart Proofs.MuxRAHist Proofs.MuxChain Proofs.MuxPlaylist Proofs.MuxSpan Proofs.MuxSpanInv.
Import ListNotations.
Local Open Scope Z_scope.

Lemma SP_ext m m' ti r :
  m_streams m' = m_streams m -> map tk_samples (m_tracks m') = map tk_samples (m_tracks m) ->
  pending m' ti = pending m ti -> SP m ti r -> SP m' ti r.
Proof.
  intros Es Et Hp [P1 P2 P3].
  assert (Hg : glog m' ti = glog m ti) by (apply glog_ext; auto).
  assert (Hk : klog m' ti = klog m ti) by (apply klog_ext; auto).
  assert (Hs : slog m' ti = slog m ti) by (apply slog_ext; auto).
  assert (Ho : opened_at m' ti = opened_at m ti) by (unfold opened_at; now rewrite Es).
  constructor; unfold pend_list in *; rewrite ?Hg, ?Hk, ?Hs, ?Hp, ?Ho; auto.
Qed.

Section SpanHist.
  Variable F0 : list bool.
  Variable T0 : list (tcfg * bool * nat).
  Hypothesis HOL : OneLead F0.
  Hypothesis HLEN : length F0 = length T0.
  Hypothesis HTL : forall i b x, nth_error F0 i = Some b -> nth_error T0 i = Some x -> snd (fst x) = b.
  (* the clock rate of the leading track *)
  Variable rate : Z.
  Hypothesis HRATE : forall x, nth_error T0 (li F0) = Some x -> t_rate (fst (fst x)) = rate.

  Record SPI (m : mstate) : Prop := { spi_st : ST F0 T0 m; spi_sp : SP m (li F0) rate }.

  Lemma SPI_fmp4 m tj t ra pc smp0 m' :
    SPI m -> nth_error (m_tracks m) tj = Some t -> fmp4WriteSample m tj ra pc smp0 = (m', Ok tt) -> SPI m'.
  Proof.
    intros [HS HP] Ht Hw.
    assert (HS' : ST F0 T0 m') by (pose proof (ST_fmp4WriteSample F0 T0 m tj ra pc smp0 HS) as H; now rewrite Hw in H).
    constructor; [exact HS'|].
    pose proof (track_leading_flag F0 T0 HOL HLEN HTL m tj t HS Ht) as Hl.
    destruct (Nat.eqb_spec tj (li F0)) as [E|Hne].
    - subst tj.
      assert (Hr : t_rate (tk_cfg t) = rate).
      { apply (HRATE (tk_static t)). destruct HS as (_ & _ & _ & D). rewrite <- D. erewrite map_nth_error by exact Ht. reflexivity. }
      rewrite <- Hr in HP |- *. exact (SP_leading_write F0 T0 HOL m t ra pc smp0 m' HS Ht Hl Hw HP).
    - destruct HS as ((L & _) & _). exact (SP_other_write F0 m tj t ra pc smp0 m' rate L Ht Hl Hne Hw HP).
  Qed.

  Lemma SPI_write_video m tj t a m' :
    SPI m -> nth_error (m_tracks m) tj = Some t -> write_video m tj t a = (m', Ok tt) -> SPI m'.
  Proof.
    intros [HS HP] Ht. unfold write_video. cbv zeta.
    pose proof HS as ((HL & _) & _).
    set (ex := match t_kind (tk_cfg t) with H264 | H265 => true | _ => a_ra a end).
    pose proof (heads_video_params m tj t a ex) as Hh1.
    destruct (video_params_streams' m tj t a ex) as [Es1 Ef1].
    pose proof (TC_video_params (ST F0 T0) (ST_frame F0 T0) m tj t a ex HS) as S1.
    destruct (video_params m tj t a ex) as [m1 pc0]. cbn [fst] in *.
    assert (I1 : SPI m1).
    { constructor; [exact S1|]. apply (SP_ext m); auto; [now apply samples_of_frame|now apply pending_of_heads]. }
    assert (Hskip : forall mr, wok m1 = (mr, Ok tt) -> SPI mr) by (intros mr [= <-]; exact I1).
    set (m2 := set_firstRA m1 tj).
    assert (I2 : SPI m2 /\ exists t2, nth_error (m_tracks m2) tj = Some t2).
    { assert (Ef2 : map tk_frame (m_tracks m2) = map tk_frame (m_tracks m1)).
      { subst m2. unfold set_firstRA, upd_track. cbn [set_tracks m_tracks]. apply map_upd_static. intros x. reflexivity. }
      split; [constructor|].
      - subst m2. unfold set_firstRA, upd_track, set_tracks. apply ST_frame; [|exact S1].
        apply map_upd_static. intros x. reflexivity.
      - apply (SP_ext m1); [reflexivity|now apply samples_of_frame| |exact (spi_sp _ I1)].
        apply pending_of_nexts. subst m2. unfold tk_nexts, set_firstRA, upd_track. cbn [set_tracks m_tracks].
        apply map_upd_static. intros x. reflexivity.
      - assert (A : option_map tk_frame (nth_error (m_tracks m2) tj) = option_map tk_frame (nth_error (m_tracks m) tj))
          by (rewrite <- !nth_error_map, Ef2, Ef1; reflexivity).
        rewrite Ht in A. destruct (nth_error (m_tracks m2) tj) as [t2|]; simpl in A; [eauto|discriminate]. }
    destruct I2 as (I2 & t2 & Ht2).
    assert (Hgo : forall mr, fmp4WriteSample m2 tj (a_ra a) pc0 (video_sample a) = (mr, Ok tt) -> SPI mr)
      by (intros mr Hw; eapply SPI_fmp4; eauto).
    destruct (t_kind (tk_cfg t)).
    - destruct (negb (a_ra a) && negb (a_nonidr a)); [apply Hskip|].
      destruct (negb (tk_firstRA t) && negb (a_ra a)); [apply Hskip|].
      destruct (c_variant (m_cfg m)) eqn:Ev; [exfalso; exact (li_variant m HL Ev)|apply Hgo|apply Hgo].
    - destruct (negb (tk_firstRA t) && negb (a_ra a)); [apply Hskip|apply Hgo].
    - destruct (negb (tk_firstRA t) && negb (a_ra a)); [apply Hskip|apply Hgo].
    - destruct (negb (tk_firstRA t) && negb (a_ra a)); [apply Hskip|apply Hgo].
    - destruct (negb (tk_firstRA t) && negb (a_ra a)); [apply Hskip|apply Hgo].
    - destruct (negb (tk_firstRA t) && negb (a_ra a)); [apply Hskip|apply Hgo].
  Qed.

  Lemma SPI_audio_units units : forall m tj k r srate i pts ntp m',
    SPI m -> write_audio_units m tj k r srate i pts ntp units = (m', Ok tt) -> SPI m'.
  Proof.
    induction units as [|x units IH]; intros m tj k r srate i pts ntp m' HI; cbn [write_audio_units].
    - intros [= <-]. exact HI.
    - destruct (match k with OPUS => (pts, ntp) | _ => _ end) as [upts untp].
      match goal with |- context [fmp4WriteSample m tj true false ?s] =>
        set (smp := s); destruct (fmp4WriteSample m tj true false smp) as [m1 res] eqn:Ew end.
      destruct res as [[]|e|p]; [|discriminate|discriminate].
      assert (I1 : SPI m1).
      { destruct (nth_error (m_tracks m) tj) as [t|] eqn:Ht.
        - eapply SPI_fmp4; eauto.
        - unfold fmp4WriteSample in Ew. rewrite Ht in Ew. injection Ew as <-. exact HI. }
      intros Hr. destruct k; eapply IH; eauto.
  Qed.

  Theorem SPI_mux_step m o m' : SPI m -> mux_step m o = (m', Ok tt) -> SPI m'.
  Proof.
    intros HI. destruct o as [tj a]. unfold mux_step, mux_write.
    destruct (nth_error (m_tracks m) tj) as [t|] eqn:Ht; [|intros [= <-]; exact HI].
    destruct (isVideo (t_kind (tk_cfg t))).
    - intros Hw. eapply SPI_write_video; eauto.
    - unfold write_audio. pose proof (spi_st _ HI) as ((HL & _) & _).
      destruct (c_variant (m_cfg m)) eqn:Ev; [exfalso; exact (li_variant m HL Ev)| |];
        intros Hw; eapply SPI_audio_units; eauto.
  Qed.

  Theorem SPI_mux_run ops : forall m, SPI m -> all_ok m ops -> SPI (mux_run m ops).
  Proof.
    induction ops as [|o ops IH]; intros m HI Hok; [exact HI|]. cbn [mux_run]. destruct Hok as [Hr Hok].
    apply IH; auto. eapply SPI_mux_step; eauto. rewrite <- Hr. apply surjective_pairing.
  Qed.
End SpanHist.

(* ---- the initial state ---- *)
Definition lead_rate (F0 : list bool) (T0 : list (tcfg * bool * nat)) : Z :=
  match nth_error T0 (li F0) with Some x => t_rate (fst (fst x)) | None => 0 end.

Theorem start_SPI c m :
  start c = Ok m -> c_variant c <> MPEGTS ->
  let F0 := map st_leading (m_streams m) in
  let T0 := map tk_static (m_tracks m) in
  OneLead F0 /\ length F0 = length T0
  /\ (forall i b x, nth_error F0 i = Some b -> nth_error T0 i = Some x -> snd (fst x) = b)
  /\ SPI F0 T0 (lead_rate F0 T0) m.
Proof.
  intros Hs Hv. cbv zeta.
  destruct (start_INV c m Hs Hv) as (HOL & HLEN & HTL & [HST _ _]). cbv zeta in *.
  split; [exact HOL|]. split; [exact HLEN|]. split; [exact HTL|].
  constructor; [exact HST|].
  destruct (start_LI c m Hs Hv) as [HL H0].
  pose proof (start_streams c m Hs) as ES.
  assert (EM : exists n, m_streams m = mk_streams (norm_cfg c) 0 (c_tracks c) false n).
  { rewrite ES. destruct (c_variant c); [congruence|eauto|eauto]. }
  destruct EM as (n & EM).
  assert (Hempty : forall j, klog m j = [] /\ glog m j = []).
  { intros j. unfold klog, glog. destruct (nth_error (m_streams m) j) as [s|] eqn:Es; [|auto].
    pose proof (nth_error_In _ _ Es) as Hin. rewrite EM in Hin.
    destruct (mk_streams_open _ _ _ _ _ _ Hin) as (A & B & C).
    unfold skeys, published. rewrite A, B, C. auto. }
  set (j := li (map st_leading (m_streams m))). destruct (Hempty j) as [EK EG].
  constructor.
  - left. auto.
  - intros _. exact EK.
  - rewrite H0, EG. reflexivity.
Qed.

(* ---- the invariant in every reachable state, at the clock rate of the track found at the leading index ---- *)
Theorem span_reachable c m0 ops :
  start c = Ok m0 -> c_variant c <> MPEGTS -> all_ok m0 ops ->
  let m := mux_run m0 ops in
  forall t, nth_error (m_tracks m) (leading_index m) = Some t ->
  LI m /\ tk_leading t = true /\ SP m (leading_index m) (t_rate (tk_cfg t)).
Proof.
  intros Hs Hv Hok. cbv zeta. intros t Ht.
  destruct (start_SPI c m0 Hs Hv) as (HOL & HLEN & HTL & HI). cbv zeta in *.
  set (F0 := map st_leading (m_streams m0)) in *. set (T0 := map tk_static (m_tracks m0)) in *.
  assert (HRATE : forall x, nth_error T0 (li F0) = Some x -> t_rate (fst (fst x)) = lead_rate F0 T0)
    by (intros x Hx; unfold lead_rate; now rewrite Hx).
  pose proof (SPI_mux_run F0 T0 HOL HLEN HTL (lead_rate F0 T0) HRATE ops m0 HI Hok) as [HS HP].
  destruct (ST_lead F0 T0 HOL _ HS) as [Eli _]. rewrite Eli in *.
  pose proof HS as ((HL & _) & _ & _ & D).
  split; [exact HL|]. split.
  - rewrite (track_leading_flag F0 T0 HOL HLEN HTL _ _ t HS Ht). apply Nat.eqb_refl.
  - assert (Hr : t_rate (tk_cfg t) = lead_rate F0 T0).
    { apply (HRATE (tk_static t)). rewrite <- D. erewrite map_nth_error by exact Ht. reflexivity. }
    rewrite Hr. exact HP.
Qed.

(* ================================================================================================
   What the invariant says about segment records.
   ================================================================================================ *)
Lemma real_segs_mid P g Q : sg_gap g = false -> real_segs (P ++ g :: Q) = real_segs P ++ g :: real_segs Q.
Proof. intros Hg. rewrite real_segs_app. unfold real_segs at 2. cbn [filter]. now rewrite Hg. Qed.

Lemma SP_segments m j s rate :
  SP m j rate -> nth_error (m_streams m) j = Some s ->
  forall P g Q, published s = P ++ g :: Q -> sg_gap g = false ->
  exists x rest y after,
    seg_samples g = x :: rest
    /\ slog m j ++ pend_list m j = flat_map seg_samples (real_segs P) ++ (x :: rest) ++ y :: after
    /\ sg_start g = timestampToDuration (s_dts x) rate
    /\ sg_ntp g = s_ntp x
    /\ sg_end g = timestampToDuration (s_dts y) rate.
Proof.
  intros [P1 P2 P3] Es P g Q Hpub Hgap.
  assert (Hreal : real_segs (published s) = real_segs P ++ g :: real_segs Q) by (rewrite Hpub; now apply real_segs_mid).
  assert (EK : klog m j = map seg_key (real_segs (published s)) ++ match st_open s with Some o => [seg_key o] | None => [] end)
    by (unfold klog; now rewrite Es).
  assert (EG : glog m j = map seg_samples (real_segs (published s))
                          ++ match st_open s with Some o => [seg_samples o ++ buffered (m_tracks m) s] | None => [] end)
    by (unfold glog; now rewrite Es).
  destruct (st_open s) as [o|] eqn:Eo.
  2:{ exfalso. assert (Hcl : opened_at m j = false) by (unfold opened_at; now rewrite Es, Eo).
      rewrite (P2 Hcl), Hreal, map_app in EK. destruct (map seg_key (real_segs P)); discriminate. }
  destruct P1 as [[E _]|(KC & GC & ko & lo & a & x0 & rest0 & A & B & C & D & [E1 E2])].
  { rewrite E in EK. destruct (map seg_key (real_segs (published s))); discriminate. }
  rewrite A in EK. apply app_inj_tail in EK. destruct EK as [-> ->].
  rewrite B in EG. apply app_inj_tail in EG. destruct EG as [-> ->].
  rewrite Hreal, !map_app in C. cbn [map] in C.
  assert (Hlen : length (map seg_key (real_segs P)) = length (map seg_samples (real_segs P))) by now rewrite !map_length.
  destruct (chain_split rate _ _ _ _ _ _ _ _ Hlen C) as ((x & rest & Ex & H1 & H2) & C2).
  destruct (chain_next rate _ _ _ _ _ _ _ C2 D E1) as (y & after & Ey & Hy).
  exists x, rest, y, after. split; [exact Ex|]. split; [|split; [exact H1|split; [exact H2|exact Hy]]].
  rewrite P3, B, Hreal, concat_app, !map_app, concat_app. cbn [map concat app].
  rewrite app_nil_r, flat_map_concat_map, Ex, <- !app_assoc. cbn [app]. rewrite <- !app_assoc in Ey.
  rewrite <- Ey. reflexivity.
Qed.

(* (a) and (b) on segment records: every non-gap evicted or listed segment g of the leading stream has samples
   x :: rest; in the stream's log followed by the look-ahead unit they are followed by a unit y - the first sample
   of the next segment, or the look-ahead unit - and
     sg_start g = time of x,  sg_ntp g = wall clock of x,  sg_end g = time of y
   (times as durations at the leading track's clock rate; s_dts includes the muxer's +10 s). *)
Theorem segment_times_are_first_units c m0 ops :
  start c = Ok m0 -> c_variant c <> MPEGTS -> all_ok m0 ops ->
  let m := mux_run m0 ops in
  let li := leading_index m in
  forall s t P g Q,
    nth_error (m_streams m) li = Some s -> nth_error (m_tracks m) li = Some t ->
    published s = P ++ g :: Q -> sg_gap g = false ->
    tk_leading t = true /\ st_tracks s = [li] /\
    exists x rest y after,
      seg_samples g = x :: rest
      /\ slog m li ++ pend_list m li = flat_map seg_samples (real_segs P) ++ (x :: rest) ++ y :: after
      /\ sg_start g = timestampToDuration (s_dts x) (t_rate (tk_cfg t))
      /\ sg_ntp g = s_ntp x
      /\ sg_end g = timestampToDuration (s_dts y) (t_rate (tk_cfg t)).
Proof.
  intros Hs Hv Hok. cbv zeta. intros s t P g Q Es Et Hpub Hgap.
  destruct (span_reachable c m0 ops Hs Hv Hok t Et) as (HL & Hlead & HP).
  split; [exact Hlead|]. split; [exact (li_streams _ HL _ _ Es)|].
  eapply SP_segments; eauto.
Qed.

(* ================================================================================================
   ... and about the playlists served.
   ================================================================================================ *)
Lemma gen_segs_dt v n segs : forall i e g ntp,
  nth_error (gen_segs v n segs) i = Some e -> nth_error segs i = Some g -> ps_dt e = Some ntp -> ntp = sg_ntp g.
Proof.
  induction segs as [|s segs IH]; intros i e g ntp He Hg Hd; [destruct i; discriminate|].
  destruct i as [|i]; cbn [gen_segs nth_error] in He, Hg.
  - injection He as <-. injection Hg as <-.
    destruct (sg_gap s); cbn [ps_dt] in Hd; [discriminate|].
    destruct v; [|destruct (Nat.leb _ _)|destruct (Nat.leb _ _)]; congruence.
  - eapply IH; eauto.
Qed.

Lemma listed_segment m j s pl i e :
  nth_error (m_streams m) j = Some s -> gen_media_playlist m j = Some pl ->
  nth_error (pl_segs pl) i = Some e -> ps_gap e = false ->
  exists g, nth_error (st_segments s) i = Some g /\ sg_gap g = false /\ ps_id e = sg_id g /\ ps_dur e = sg_dur g
            /\ (forall ntp, ps_dt e = Some ntp -> ntp = sg_ntp g)
            /\ published s = (st_evicted s ++ firstn i (st_segments s)) ++ g :: skipn (S i) (st_segments s).
Proof.
  intros Es Hpl He Hgap. unfold gen_media_playlist in Hpl. rewrite Es in Hpl.
  destruct (negb (hasContent _ s)); [discriminate|]. injection Hpl as <-. cbn [pl_segs] in He.
  destruct (gen_segs_nth _ _ _ _ _ He) as (g & Hg & H1 & H2 & H3 & _).
  exists g. rewrite Hgap in H1. symmetry in H1.
  split; [exact Hg|]. split; [exact H1|]. split; [now apply H3|]. split; [exact H2|]. split.
  - intros ntp Hd. eapply gen_segs_dt; eauto.
  - unfold published. rewrite <- app_assoc. f_equal.
    rewrite <- (firstn_skipn i (st_segments s)) at 1. f_equal.
    clear - Hg. revert i Hg. induction (st_segments s) as [|a l IH]; intros [|i] Hg; try discriminate.
    + now injection Hg as ->.
    + cbn [skipn]. now apply IH.
Qed.

(* (a): the EXTINF duration of the i-th listed segment of the leading stream's playlist, when it is not a gap, is
   the media time it spans on the leading track: from the timestamp of its first sample x to the timestamp of the
   unit y that follows its last sample in the track's log (the first sample of the next segment or, for the newest
   segment, the look-ahead unit that will open the next one) *)
Theorem extinf_is_media_span c m0 ops :
  start c = Ok m0 -> c_variant c <> MPEGTS -> all_ok m0 ops ->
  let m := mux_run m0 ops in
  let li := leading_index m in
  forall t pl i e,
    nth_error (m_tracks m) li = Some t -> gen_media_playlist m li = Some pl ->
    nth_error (pl_segs pl) i = Some e -> ps_gap e = false ->
    exists s g x rest y after,
      nth_error (m_streams m) li = Some s /\ nth_error (st_segments s) i = Some g /\ ps_id e = sg_id g
      /\ seg_samples g = x :: rest
      /\ slog m li ++ pend_list m li
         = flat_map seg_samples (real_segs (st_evicted s ++ firstn i (st_segments s))) ++ (x :: rest) ++ y :: after
      /\ ps_dur e = timestampToDuration (s_dts y) (t_rate (tk_cfg t)) - timestampToDuration (s_dts x) (t_rate (tk_cfg t)).
Proof.
  intros Hs Hv Hok. cbv zeta. intros t pl i e Et Hpl He Hgap.
  destruct (nth_error (m_streams (mux_run m0 ops)) (leading_index (mux_run m0 ops))) as [s|] eqn:Es.
  2:{ unfold gen_media_playlist in Hpl. rewrite Es in Hpl. discriminate. }
  destruct (listed_segment _ _ s pl i e Es Hpl He Hgap) as (g & Hg & Hgg & Hid & Hdur & _ & Hpub).
  destruct (segment_times_are_first_units c m0 ops Hs Hv Hok s t _ g _ Es Et Hpub Hgg)
    as (_ & _ & x & rest & y & after & A & B & C & _ & E).
  exists s, g, x, rest, y, after. split; [reflexivity|]. split; [exact Hg|]. split; [exact Hid|]. split; [exact A|].
  split; [exact B|]. rewrite Hdur. unfold sg_dur. now rewrite C, E.
Qed.

(* (b): where the playlist prints EXT-X-PROGRAM-DATE-TIME for a non-gap segment, it is the wall clock supplied with
   the unit that became the segment's first sample *)
Theorem date_time_is_first_unit_ntp c m0 ops :
  start c = Ok m0 -> c_variant c <> MPEGTS -> all_ok m0 ops ->
  let m := mux_run m0 ops in
  let li := leading_index m in
  forall pl i e,
    gen_media_playlist m li = Some pl -> nth_error (pl_segs pl) i = Some e -> ps_gap e = false ->
    exists s g x rest,
      nth_error (m_streams m) li = Some s /\ nth_error (st_segments s) i = Some g /\ ps_id e = sg_id g
      /\ seg_samples g = x :: rest
      /\ forall ntp, ps_dt e = Some ntp -> ntp = s_ntp x.
Proof.
  intros Hs Hv Hok. cbv zeta. intros pl i e Hpl He Hgap.
  destruct (nth_error (m_streams (mux_run m0 ops)) (leading_index (mux_run m0 ops))) as [s|] eqn:Es.
  2:{ unfold gen_media_playlist in Hpl. rewrite Es in Hpl. discriminate. }
  destruct (listed_segment _ _ s pl i e Es Hpl He Hgap) as (g & Hg & Hgg & Hid & _ & Hdt & Hpub).
  destruct (start_LI c m0 Hs Hv) as [HL0 _].
  pose proof (LI_mux_run ops m0 HL0) as HL.
  assert (Et : exists t, nth_error (m_tracks (mux_run m0 ops)) (leading_index (mux_run m0 ops)) = Some t).
  { destruct (nth_error (m_tracks (mux_run m0 ops)) (leading_index (mux_run m0 ops))) as [t|] eqn:E; [eauto|].
    apply nth_error_None in E. rewrite <- (li_len _ HL) in E.
    assert (leading_index (mux_run m0 ops) < length (m_streams (mux_run m0 ops)))%nat by (apply nth_error_Some; congruence). lia. }
  destruct Et as (t & Et).
  destruct (segment_times_are_first_units c m0 ops Hs Hv Hok s t _ g _ Es Et Hpub Hgg)
    as (_ & _ & x & rest & y & after & A & _ & _ & D & _).
  exists s, g, x, rest. split; [reflexivity|]. split; [exact Hg|]. split; [exact Hid|]. split; [exact A|].
  intros ntp Hd. rewrite <- D. now apply Hdt.
Qed.

(* ---- non-vacuity: a Low-Latency history with two complete segments (333 ms frames at 90 kHz, a random-access unit
   every third frame, SegmentMinDuration 1 s).  The playlist lists five gaps and the segments 7 and 8; their first
   samples have decode times 900000 and 990000 (10 s and 11 s with the muxer's offset), the third (open) segment
   starts with decode time 1080000 (12 s): both EXTINF are 1 s, and the date-times are the wall clocks written
   with the units 10 and 13. *)
Definition sp_ops : list wop :=
  map (fun k => WWrite 0 (ex_au (k * 30000) (Z.rem k 3 =? 0) (10 + k))) [0;1;2;3;4;5;6;7].

Lemma span_example : exists m0 t pl e1 e2,
  start ex_cfg = Ok m0 /\ c_variant ex_cfg <> MPEGTS /\ all_ok m0 sp_ops
  /\ let m := mux_run m0 sp_ops in
     let li := leading_index m in
     nth_error (m_tracks m) li = Some t /\ t_rate (tk_cfg t) = 90000
     /\ gen_media_playlist m li = Some pl
     /\ nth_error (pl_segs pl) 5 = Some e1 /\ ps_gap e1 = false
     /\ nth_error (pl_segs pl) 6 = Some e2 /\ ps_gap e2 = false
     /\ (ps_id e1, ps_dur e1, ps_dt e1) = (7, 1000000000, Some 1700000000000000000)
     /\ (ps_id e2, ps_dur e2, ps_dt e2) = (8, 1000000000, Some 1700000000999990000)
     /\ map (map (fun x => (s_pay x, s_dts x, s_ntp x))) (glog m li)
        = [[(10, 900000, 1700000000000000000); (11, 930000, 1700000000333330000); (12, 960000, 1700000000666660000)];
           [(13, 990000, 1700000000999990000); (14, 1020000, 1700000001333320000); (15, 1050000, 1700000001666650000)];
           [(16, 1080000, 1700000001999980000)]]
     /\ (timestampToDuration 900000 90000, timestampToDuration 990000 90000, timestampToDuration 1080000 90000)
        = (10000000000, 11000000000, 12000000000).
Proof.
  destruct (start ex_cfg) as [m0| |] eqn:E; [|vm_compute in E; discriminate|vm_compute in E; discriminate].
  vm_compute in E. injection E as <-.
  eexists. eexists. eexists. eexists. eexists.
  split; [reflexivity|]. split; [discriminate|]. split; [vm_compute; tauto|]. cbv zeta.
  split; [vm_compute; reflexivity|]. split; [vm_compute; reflexivity|]. split; [vm_compute; reflexivity|].
  split; [vm_compute; reflexivity|]. split; [vm_compute; reflexivity|].
  split; [vm_compute; reflexivity|]. split; [vm_compute; reflexivity|].
  split; [vm_compute; reflexivity|]. split; [vm_compute; reflexivity|].
  split; vm_compute; reflexivity.
Qed.
