(* C03: the parts of a segment tile it (so part durations add up exactly, in ns, to the segment
   duration); the leading stream's TARGETDURATION dominates the rounded duration of every listed
   segment and its PART-TARGET dominates every listed part; hold-back and skip-until arithmetic. *)
From Coq Require Import List ZArith Bool Lia Arith.
From GoHls Require Import Model.Mux Proofs.MuxStream Proofs.MuxLift Proofs.MuxWindow Proofs.MuxHistory Proofs.MuxPlaylist.
Import ListNotations.
Local Open Scope Z_scope.

Fixpoint parts_chain (a : Z) (ps : list part) (b : Z) : Prop :=
  match ps with
  | [] => a = b
  | p :: ps' => p_start p = a /\ parts_chain (p_end p) ps' b
  end.

Lemma parts_chain_snoc ps : forall a p b,
  parts_chain a (ps ++ [p]) b <-> exists mid, parts_chain a ps mid /\ p_start p = mid /\ p_end p = b.
Proof.
  induction ps as [|q ps IH]; intros a p b; simpl.
  - split.
    + intros [H1 H2]. exists a. auto.
    + intros (mid & <- & H2 & H3). auto.
  - rewrite IH. split.
    + intros (H1 & mid & H2 & H3 & H4). exists mid. auto.
    + intros (mid & (H1 & H2) & H3 & H4). split; auto. exists mid. auto.
Qed.

Definition sumZ (l : list Z) : Z := fold_right Z.add 0 l.

Lemma parts_chain_sum ps : forall a b, parts_chain a ps b -> sumZ (map p_dur ps) = b - a.
Proof.
  induction ps as [|p ps IH]; intros a b H; simpl in *.
  - lia.
  - destruct H as [H1 H2]. rewrite (IH _ _ H2). unfold p_dur. lia.
Qed.

(* ---- folds of max ---- *)
Lemma fold_max_ge {A} (f : A -> Z) l : forall acc, acc <= fold_left (fun a x => Z.max a (f x)) l acc.
Proof. induction l as [|x l IH]; intros acc; simpl; [lia|]. specialize (IH (Z.max acc (f x))). lia. Qed.

Lemma fold_max_in {A} (f : A -> Z) l : forall acc x, In x l -> f x <= fold_left (fun a x => Z.max a (f x)) l acc.
Proof.
  induction l as [|y l IH]; intros acc x Hin; [destruct Hin|]. simpl. destruct Hin as [->|Hin].
  - pose proof (fold_max_ge f l (Z.max acc (f x))). lia.
  - apply IH. exact Hin.
Qed.

Lemma targetDuration_ge segs g : In g segs -> roundSeconds (round10us (sg_dur g)) <= targetDuration segs.
Proof.
  intros H. unfold targetDuration.
  eapply Z.le_trans; [apply (fold_max_in (fun s => roundSeconds (round10us (sg_dur s))) segs 0 g H)|apply Z.le_max_r].
Qed.

Lemma targetDuration_nonneg segs : 0 <= targetDuration segs.
Proof. unfold targetDuration. lia. Qed.

Lemma ceilMs_ge d : d <= ceilMs d.
Proof.
  unfold ceilMs, millisecond.
  pose proof (Z.div_mod (d + 999999) 1000000 ltac:(lia)).
  pose proof (Z.mod_pos_bound (d + 999999) 1000000 ltac:(lia)). lia.
Qed.

Lemma ceilMs_nonneg d : 0 <= d -> 0 <= ceilMs d.
Proof. intros H. pose proof (ceilMs_ge d). lia. Qed.

Definition pmax (v : variant) (segs : list segrec) (openparts : list part) : Z :=
  fold_left (fun a p => Z.max a (p_dur p)) openparts
    (fold_left (fun acc s => fold_left (fun a p => Z.max a (p_dur p)) (listed_parts v s) acc) segs 0).

Lemma partTargetDuration_eq v segs ops : partTargetDuration v segs ops = ceilMs (pmax v segs ops).
Proof. reflexivity. Qed.

Lemma inner_ge v segs : forall acc,
  acc <= fold_left (fun acc s => fold_left (fun a p => Z.max a (p_dur p)) (listed_parts v s) acc) segs acc.
Proof.
  induction segs as [|s segs IH]; intros acc; simpl; [lia|].
  pose proof (fold_max_ge p_dur (listed_parts v s) acc).
  specialize (IH (fold_left (fun a p => Z.max a (p_dur p)) (listed_parts v s) acc)). lia.
Qed.

Lemma inner_in v segs : forall acc g p, In g segs -> In p (listed_parts v g) ->
  p_dur p <= fold_left (fun acc s => fold_left (fun a p => Z.max a (p_dur p)) (listed_parts v s) acc) segs acc.
Proof.
  induction segs as [|s segs IH]; intros acc g p Hg Hp; [destruct Hg|]. simpl. destruct Hg as [->|Hg].
  - pose proof (fold_max_in p_dur (listed_parts v g) acc p Hp).
    pose proof (inner_ge v segs (fold_left (fun a p => Z.max a (p_dur p)) (listed_parts v g) acc)). lia.
  - eapply IH; eauto.
Qed.

Lemma pmax_nonneg v segs ops : 0 <= pmax v segs ops.
Proof.
  unfold pmax. pose proof (inner_ge v segs 0).
  pose proof (fold_max_ge p_dur ops (fold_left (fun acc s => fold_left (fun a p => Z.max a (p_dur p)) (listed_parts v s) acc) segs 0)).
  lia.
Qed.

Lemma pmax_seg v segs ops g p : In g segs -> In p (listed_parts v g) -> p_dur p <= pmax v segs ops.
Proof.
  intros Hg Hp. unfold pmax. pose proof (inner_in v segs 0 g p Hg Hp).
  pose proof (fold_max_ge p_dur ops (fold_left (fun acc s => fold_left (fun a p => Z.max a (p_dur p)) (listed_parts v s) acc) segs 0)).
  lia.
Qed.

Lemma pmax_open v segs ops p : In p ops -> p_dur p <= pmax v segs ops.
Proof. intros Hp. unfold pmax. now apply (fold_max_in p_dur). Qed.

(* ---- the per-stream invariant ---- *)
Record TI (v : variant) (s : stream) : Prop := {
  ti_parts : v <> MPEGTS -> forall g, In g (published s) -> sg_gap g = false ->
             parts_chain (sg_start g) (sg_parts g) (sg_end g);
  ti_open : v <> MPEGTS -> forall g, st_open s = Some g ->
            forall p, st_openpart s = Some p -> parts_chain (sg_start g) (sg_parts g) (p_start p);
  ti_target : st_leading s = true ->
              0 <= st_target s /\
              forall g, In g (st_segments s) -> roundSeconds (round10us (sg_dur g)) <= st_target s;
  ti_ptarget : st_leading s = true ->
               0 <= st_parttarget s /\
               (forall g p, In g (st_segments s) -> In p (listed_parts v g) -> p_dur p <= st_parttarget s) /\
               (forall g p, st_open s = Some g -> In p (listed_parts v g) -> p_dur p <= st_parttarget s)
}.

Definition PT (c : cfg) (s : stream) : Prop := TI (c_variant c) s.

Lemma PT_init c tracks isv num lead rend dflt name lang n :
  PT c (mk_stream tracks isv num lead rend dflt name lang n).
Proof.
  constructor; unfold published; simpl; try discriminate.
  - intros _ g [].
  - intros _. split; [lia|]. intros g [].
  - intros _. split; [lia|]. split; [intros g p []|discriminate].
Qed.

Lemma PT_create c s d ntp : PT c s -> PT c (stream_createFirst (c_variant c) s d ntp).
Proof.
  intros [H1 H2 H3 H4].
  constructor; unfold published in *; unfold stream_createFirst;
    cbn [st_with st_mut st_segments st_evicted st_open st_openpart st_leading st_target st_parttarget
         x_segments x_evicted x_open x_openpart x_target x_parttarget]; auto.
  - intros Hv g [= <-] p Hp. destruct (c_variant c); try congruence; injection Hp as <-; reflexivity.
  - intros Hl. destruct (H4 Hl) as (Ha & Hb & Hc). repeat split; auto.
    intros g p [= <-]. unfold listed_parts. simpl. destruct (c_variant c); intros [].
Qed.

Lemma PT_rotp m si d cn :
  Forall (PT (m_cfg m)) (m_streams m) -> Forall (PT (m_cfg m)) (m_streams (stream_rotateParts m si d cn)).
Proof.
  intros H. destruct (stream_rotateParts_streams m si d cn) as [->|(s & seg & p0 & Es & Eo & Ep & ->)]; [exact H|].
  apply Forall_upd; [exact H|]. intros x Hx [H1 H2 H3 H4]. rewrite Es in Hx. injection Hx as <-.
  set (v := c_variant (m_cfg m)) in *.
  set (p := fst (part_finalize p0 (m_tracks m) (st_tracks s) d)).
  destruct (srot_parts_frame v s seg p d cn) as (F1 & F2 & _ & _ & F5 & _ & _ & F8 & F9).
  assert (Hp : p_id p = p_id p0 /\ p_start p = p_start p0 /\ p_end p = d /\ p_indep p = p_indep p0)
    by apply part_finalize_spec.
  assert (FL : st_leading (fst (srot_parts v s seg p d cn)) = st_leading s).
  { destruct (srot_parts_static v s seg p d cn) as [x ->]. reflexivity. }
  constructor; unfold published in *; rewrite ?F1, ?F2, ?F5, ?FL.
  - exact H1.
  - intros Hv g Hg q Hq. rewrite F8 in Hg. injection Hg as <-. rewrite F9 in Hq.
    destruct cn; [|discriminate]. injection Hq as <-.
    cbn [sg_with_parts sg_start sg_parts new_part p_start].
    apply parts_chain_snoc. exists (p_start p0). split; [exact (H2 Hv seg Eo p0 Ep)|].
    destruct Hp as (_ & Hs & He & _). auto.
  - exact H3.
  - intros Hl. destruct (H4 Hl) as (Ha & Hb & Hc).
    assert (Hpt : st_parttarget (fst (srot_parts v s seg p d cn)) =
                  partTargetDuration v (st_segments s) (listed_parts v (sg_with_parts seg (sg_parts seg ++ [p])))).
    { unfold srot_parts. cbv zeta. rewrite Hl.
      destruct (x_parttarget (st_mut s) =? 0); [reflexivity|].
      destruct (_ =? _) eqn:E; [apply Z.eqb_eq in E; simpl; simpl in E; congruence|reflexivity]. }
    rewrite Hpt, partTargetDuration_eq. split; [apply ceilMs_nonneg, pmax_nonneg|]. split.
    + intros g q Hg Hq. eapply Z.le_trans; [|apply ceilMs_ge]. eapply pmax_seg; eauto.
    + intros g q Hg Hq. rewrite F8 in Hg. injection Hg as <-.
      eapply Z.le_trans; [|apply ceilMs_ge]. apply pmax_open. exact Hq.
Qed.

Lemma upd_upd_const {A} (l : list A) i a b : upd (upd l i (fun _ => a)) i (fun _ => b) = upd l i (fun _ => b).
Proof. revert i; induction l as [|x l IH]; intros [|i]; simpl; auto. now rewrite IH. Qed.

Lemma nth_error_upd_const {A} (l : list A) i a x : nth_error l i = Some x -> nth_error (upd l i (fun _ => a)) i = Some a.
Proof. intros H. now rewrite (nth_error_upd_same l i (fun _ => a) x H). Qed.

(* fMP4 streams always have an open part while a segment is open: stated separately because the
   intermediate state inside rotateSegments breaks it *)
Definition HasPart (c : cfg) (s : stream) : Prop :=
  c_variant c <> MPEGTS -> st_open s <> None -> st_openpart s <> None.

Definition PTH (c : cfg) (s : stream) : Prop := PT c s /\ HasPart c s.

Lemma srot_segments_leading v sc s seg0 d ntp f cur :
  st_leading (fst (fst (srot_segments v sc s seg0 d ntp f cur))) = st_leading s.
Proof. destruct (srot_segments_static v sc s seg0 d ntp f cur) as [x ->]. reflexivity. Qed.

Lemma srot_segments_target v sc s seg0 d ntp f cur :
  st_leading s = true -> 0 <= st_target s ->
  let s' := fst (fst (srot_segments v sc s seg0 d ntp f cur)) in
  0 <= st_target s' /\ st_target s <= st_target s' /\ targetDuration (st_segments s') <= st_target s'.
Proof.
  intros Hl H0. cbv zeta.
  destruct (srot_segments_frame v sc s seg0 d ntp f cur) as (F1 & _).
  rewrite F1. unfold srot_segments. cbv zeta.
  destruct (window_append v sc (x_segments (st_mut s)) (sg_with_end seg0 d)) as [segs2 dropped] eqn:Ew.
  cbn [st_mut x_segments] in Ew. rewrite Ew. cbn [fst].
  pose proof (targetDuration_nonneg segs2) as Htd. rewrite Hl.
  destruct dropped; cbn [x_target st_mut];
    destruct (st_target s =? 0) eqn:E0; [apply Z.eqb_eq in E0| |apply Z.eqb_eq in E0|];
    try (destruct (st_target s <? targetDuration segs2) eqn:E1; [apply Z.ltb_lt in E1|apply Z.ltb_ge in E1]);
    cbn [fst st_with st_target x_target]; lia.
Qed.

Lemma window_append_subset v sc segs seg g :
  In g (fst (window_append v sc segs seg)) -> In g segs \/ g = seg \/ (sg_gap g = true /\ sg_parts g = []).
Proof.
  intros Hin.
  assert (Hpre : In g (with_gaps v segs seg ++ [seg])).
  { destruct (window_append_spec v sc segs seg) as [(_ & E2 & _)|(x & rest & _ & E2 & E3 & _)].
    - now rewrite <- E2.
    - rewrite E3. right. now rewrite <- E2. }
  apply in_app_iff in Hpre. destruct Hpre as [Hp|[<-|[]]]; [|auto].
  unfold with_gaps in Hp. destruct v; auto. destruct segs; auto.
  apply repeat_spec in Hp. subst g. right. right. split; reflexivity.
Qed.

(* sharper forms of the stream-list lemmas *)
Lemma rotp_some m si d cn s seg p0 :
  nth_error (m_streams m) si = Some s -> st_open s = Some seg -> st_openpart s = Some p0 ->
  m_streams (stream_rotateParts m si d cn) =
  upd (m_streams m) si
      (fun _ => fst (srot_parts (c_variant (m_cfg m)) s seg
                                (fst (part_finalize p0 (m_tracks m) (st_tracks s) d)) d cn)).
Proof.
  intros Es Eo Ep. unfold stream_rotateParts. rewrite Es, Ep, Eo.
  destruct (part_finalize p0 (m_tracks m) (st_tracks s) d) as [p tracks'] eqn:Ef. cbn [fst].
  destruct (srot_parts (c_variant (m_cfg m)) s seg p d cn) as [s' bump] eqn:Er. cbn [fst].
  destruct bump; reflexivity.
Qed.

Lemma rotp_none m si d cn :
  (forall s, nth_error (m_streams m) si = Some s -> st_open s = None \/ st_openpart s = None) ->
  stream_rotateParts m si d cn = m.
Proof.
  intros H. unfold stream_rotateParts. destruct (nth_error (m_streams m) si) as [s|]; [|reflexivity].
  destruct (H s eq_refl) as [E|E]; rewrite E; [destruct (st_openpart s)|]; reflexivity.
Qed.

Definition cur_params (m : mstate) (s : stream) : list Z :=
  map (fun ti => match nth_error (m_tracks m) ti with Some t => tk_params t | None => 0 end) (st_tracks s).

Lemma rots_some m0 si d ntp f s seg0 :
  let v := c_variant (m_cfg m0) in
  let m := match v with MPEGTS => m0 | _ => stream_rotateParts m0 si d false end in
  nth_error (m_streams m) si = Some s -> st_open s = Some seg0 ->
  m_streams (stream_rotateSegments m0 si d ntp f) =
  upd (m_streams m) si
      (fun _ => fst (fst (srot_segments v (c_segcount (m_cfg m0)) s seg0 d ntp f (cur_params m s)))).
Proof.
  cbv zeta. intros Es Eo. unfold stream_rotateSegments.
  set (m := match c_variant (m_cfg m0) with MPEGTS => m0 | _ => stream_rotateParts m0 si d false end) in *.
  assert (Hc : m_cfg m = m_cfg m0).
  { subst m. destruct (c_variant (m_cfg m0)); auto using cfg_stream_rotateParts. }
  rewrite Es, Eo, Hc. fold (cur_params m s).
  destruct (srot_segments _ _ s seg0 d ntp f (cur_params m s)) as [[s' regen] bump].
  cbn [fst]. destruct bump; reflexivity.
Qed.

Lemma rots_none m0 si d ntp f :
  let v := c_variant (m_cfg m0) in
  let m := match v with MPEGTS => m0 | _ => stream_rotateParts m0 si d false end in
  (forall s, nth_error (m_streams m) si = Some s -> st_open s = None) ->
  stream_rotateSegments m0 si d ntp f = m.
Proof.
  cbv zeta. intros H. unfold stream_rotateSegments.
  destruct (nth_error _ si) as [s|]; [|reflexivity]. now rewrite (H s eq_refl).
Qed.

(* the segment rotation of one stream, for the fMP4 variants: given the stream before the inner
   parts rotation *)
Lemma PTH_rot_full c s seg p0 p d ntp f cur :
  let v := c_variant c in
  v <> MPEGTS ->
  st_open s = Some seg -> st_openpart s = Some p0 ->
  p_start p = p_start p0 -> p_end p = d ->
  PTH c s ->
  PTH c (fst (fst (srot_segments v (c_segcount c) (fst (srot_parts v s seg p d false))
                                 (sg_with_parts seg (sg_parts seg ++ [p])) d ntp f cur))).
Proof.
  cbv zeta. intros Hv Eo Ep Hs He [[H1 H2 H3 H4] HP].
  set (v := c_variant c) in *. set (sc := c_segcount c).
  set (s1 := fst (srot_parts v s seg p d false)).
  set (seg1 := sg_with_parts seg (sg_parts seg ++ [p])).
  destruct (srot_parts_frame v s seg p d false) as (A1 & A2 & _ & _ & A5 & _ & _ & A8 & A9).
  fold s1 in A1, A2, A5, A8, A9.
  assert (AL : st_leading s1 = st_leading s) by (subst s1; destruct (srot_parts_static v s seg p d false) as [x ->]; reflexivity).
  destruct (srot_segments_frame v sc s1 seg1 d ntp f cur) as (F1 & F2 & _ & _ & _ & F6 & F7 & F8).
  pose proof (published_srot_segments v sc s1 seg1 d ntp f cur) as HPub. cbv zeta in HPub.
  set (s2 := fst (fst (srot_segments v sc s1 seg1 d ntp f cur))) in *.
  assert (FL : st_leading s2 = st_leading s) by (subst s2; rewrite srot_segments_leading; exact AL).
  assert (Hchain : parts_chain (sg_start seg) (sg_parts seg ++ [p]) d).
  { apply parts_chain_snoc. exists (p_start p0). split; [exact (H2 Hv seg Eo p0 Ep)|]. auto. }
  (* the parts-target facts of the intermediate stream *)
  assert (Hpt1 : st_leading s = true ->
                 0 <= st_parttarget s1 /\
                 (forall g q, In g (st_segments s) -> In q (listed_parts v g) -> p_dur q <= st_parttarget s1) /\
                 (forall q, In q (listed_parts v seg1) -> p_dur q <= st_parttarget s1)).
  { intros Hl.
    assert (Hpt : st_parttarget s1 = partTargetDuration v (st_segments s) (listed_parts v seg1)).
    { subst s1 seg1. unfold srot_parts. cbv zeta. rewrite Hl.
      destruct (x_parttarget (st_mut s) =? 0); [reflexivity|].
      destruct (_ =? _) eqn:E; [apply Z.eqb_eq in E; simpl; simpl in E; congruence|reflexivity]. }
    rewrite Hpt, partTargetDuration_eq. split; [apply ceilMs_nonneg, pmax_nonneg|]. split.
    - intros g q Hg Hq. eapply Z.le_trans; [|apply ceilMs_ge]. eapply pmax_seg; eauto.
    - intros q Hq. eapply Z.le_trans; [|apply ceilMs_ge]. now apply pmax_open. }
  split.
  - constructor.
    + (* published segments are tiled *)
      intros _ g Hg Hgap. rewrite HPub in Hg. unfold published in Hg. rewrite A1, A2 in Hg.
      rewrite !in_app_iff in Hg. destruct Hg as [Hg|[Hg|Hg]].
      * apply H1; [exact Hv| |exact Hgap]. unfold published. apply in_app_iff. auto.
      * unfold with_gaps in Hg.
        destruct v; try solve [apply H1; [exact Hv| |exact Hgap]; unfold published; apply in_app_iff; auto].
        destruct (st_segments s) eqn:Ess.
        -- apply repeat_spec in Hg. subst g. discriminate.
        -- apply H1; [exact Hv| |exact Hgap]. unfold published. apply in_app_iff. right. rewrite Ess. exact Hg.
      * destruct Hg as [<-|[]]. exact Hchain.
    + (* the new open segment has no parts; its open part starts where it starts *)
      intros _ g Hg q Hq. rewrite F6 in Hg. injection Hg as <-. rewrite F7 in Hq.
      destruct v; try congruence; injection Hq as <-; reflexivity.
    + rewrite FL. intros Hl. destruct (H3 Hl) as [Ha Hb].
      assert (Ha1 : 0 <= st_target s1) by (rewrite A5; exact Ha).
      assert (Hl1 : st_leading s1 = true) by (rewrite AL; exact Hl).
      destruct (srot_segments_target v sc s1 seg1 d ntp f cur Hl1 Ha1) as (T1 & T2 & T3).
      split; [exact T1|]. intros g Hg. eapply Z.le_trans; [apply targetDuration_ge; exact Hg|exact T3].
    + rewrite FL. intros Hl. destruct (Hpt1 Hl) as (Ha & Hb & Hc). rewrite F8. split; [exact Ha|]. split.
      * intros g q Hg Hq. rewrite F1 in Hg.
        destruct (window_append_subset v sc (st_segments s1) (sg_with_end seg1 d) g Hg) as [Hi|[->|[Hgap Hnp]]].
        -- rewrite A1 in Hi. eapply Hb; eauto.
        -- apply Hc. replace (listed_parts v seg1) with (listed_parts v (sg_with_end seg1 d)); [exact Hq|].
           unfold listed_parts. destruct v; reflexivity.
        -- assert (Hnil : listed_parts v g = []) by (unfold listed_parts; rewrite Hnp; destruct v; reflexivity).
           fold v in Hq. rewrite Hnil in Hq. destruct Hq.
      * intros g q Hg Hq. rewrite F6 in Hg. injection Hg as <-.
        assert (Hnil : listed_parts v (new_seg (st_nextSeg s1 + 1) ntp d
                         match v with MPEGTS => false | _ => f end) = [])
          by (unfold listed_parts; destruct v; reflexivity).
        fold v in Hq. rewrite Hnil in Hq. destruct Hq.
  - intros _ _. rewrite F7. destruct v; congruence.
Qed.

Lemma PTH_rots m si d ntp f :
  Forall (PTH (m_cfg m)) (m_streams m) -> Forall (PTH (m_cfg m)) (m_streams (stream_rotateSegments m si d ntp f)).
Proof.
  intros H.
  destruct (variant_eqb (c_variant (m_cfg m)) MPEGTS) eqn:Ev.
  - (* MPEG-TS: no parts *)
    assert (Hv : c_variant (m_cfg m) = MPEGTS) by (destruct (c_variant (m_cfg m)); auto; discriminate).
    destruct (nth_error (m_streams m) si) as [s|] eqn:Es.
    2:{ rewrite (rots_none m si d ntp f); rewrite Hv; [exact H|]. intros s Hs. congruence. }
    destruct (st_open s) as [seg0|] eqn:Eo.
    2:{ rewrite (rots_none m si d ntp f); rewrite Hv; [exact H|]. intros s' Hs. congruence. }
    pose proof (rots_some m si d ntp f s seg0) as HR. cbv zeta in HR. rewrite Hv in HR.
    rewrite (HR Es Eo). apply Forall_upd; [exact H|]. intros x Hx [[H1 H2 H3 H4] HP].
    rewrite Es in Hx. injection Hx as <-.
    destruct (srot_segments_frame MPEGTS (c_segcount (m_cfg m)) s seg0 d ntp f (cur_params m s))
      as (F1 & _ & _ & _ & _ & F6 & F7 & F8).
    split; [|intros Hv'; congruence].
    unfold PT. rewrite Hv.
    constructor; try (intros Hv'; congruence); rewrite srot_segments_leading.
    + intros Hl. destruct (H3 Hl) as [Ha Hb].
      destruct (srot_segments_target MPEGTS (c_segcount (m_cfg m)) s seg0 d ntp f (cur_params m s) Hl Ha) as (T1 & T2 & T3).
      split; [exact T1|]. intros g Hg. eapply Z.le_trans; [apply targetDuration_ge; exact Hg|exact T3].
    + intros Hl. destruct (H4 Hl) as (Ha & Hb & Hc). rewrite F8. split; [exact Ha|].
      split; [intros g p _ []|intros g p _ []].
  - assert (Hv : c_variant (m_cfg m) <> MPEGTS) by (intros E; rewrite E in Ev; discriminate).
    set (m1 := stream_rotateParts m si d false).
    assert (Hm1 : match c_variant (m_cfg m) with MPEGTS => m | _ => stream_rotateParts m si d false end = m1).
    { destruct (c_variant (m_cfg m)); [congruence| |]; reflexivity. }
    destruct (nth_error (m_streams m) si) as [s|] eqn:Es.
    2:{ assert (Hrp : m1 = m) by (apply rotp_none; intros s Hs; congruence).
        rewrite (rots_none m si d ntp f); rewrite Hm1, Hrp; [exact H|]. intros s Hs. congruence. }
    assert (HPs : PTH (m_cfg m) s).
    { rewrite Forall_forall in H. apply H. eapply nth_error_In; eauto. }
    destruct (st_open s) as [seg|] eqn:Eo.
    2:{ assert (Hrp : m1 = m) by (apply rotp_none; intros s' Hs; rewrite Es in Hs; injection Hs as <-; auto).
        rewrite (rots_none m si d ntp f); rewrite Hm1, Hrp; [exact H|].
        intros s' Hs. rewrite Es in Hs. now injection Hs as <-. }
    destruct (st_openpart s) as [p0|] eqn:Ep.
    2:{ exfalso. destruct HPs as [_ HP]. apply (HP Hv); congruence. }
    (* both rotations happen *)
    pose proof (rotp_some m si d false s seg p0 Es Eo Ep) as Hr1. fold m1 in Hr1.
    set (p := fst (part_finalize p0 (m_tracks m) (st_tracks s) d)) in *.
    set (s1 := fst (srot_parts (c_variant (m_cfg m)) s seg p d false)) in *.
    assert (Es1 : nth_error (m_streams m1) si = Some s1).
    { rewrite Hr1. eapply nth_error_upd_const; eauto. }
    assert (Eo1 : st_open s1 = Some (sg_with_parts seg (sg_parts seg ++ [p]))).
    { subst s1. apply (srot_parts_frame (c_variant (m_cfg m)) s seg p d false). }
    pose proof (rots_some m si d ntp f s1 (sg_with_parts seg (sg_parts seg ++ [p]))) as HR.
    cbv zeta in HR. rewrite Hm1 in HR.
    rewrite (HR Es1 Eo1), Hr1, upd_upd_const.
    apply Forall_upd; [exact H|]. intros x Hx HPx. rewrite Es in Hx. injection Hx as <-.
    destruct (part_finalize_spec p0 (m_tracks m) (st_tracks s) d) as (_ & Hps & Hpe & _). fold p in Hps, Hpe.
    apply (PTH_rot_full (m_cfg m) s seg p0 p d ntp f); auto.
Qed.

Lemma PTH_rotp m si d cn :
  cn = true ->
  Forall (PTH (m_cfg m)) (m_streams m) -> Forall (PTH (m_cfg m)) (m_streams (stream_rotateParts m si d cn)).
Proof.
  intros -> H.
  assert (H1 : Forall (PT (m_cfg m)) (m_streams (stream_rotateParts m si d true))).
  { apply PT_rotp. eapply Forall_impl; [|exact H]. intros s [Hs _]. exact Hs. }
  destruct (stream_rotateParts_streams m si d true) as [E|(s & seg & p0 & Es & Eo & Ep & E)].
  - rewrite E. exact H.
  - rewrite E in *. clear E.
    revert Es H H1. generalize (m_streams m) as l. intros l. revert si.
    induction l as [|x l IH]; intros si Es H H1; [constructor|].
    destruct si; simpl in *.
    + injection Es as Es. subst x. inversion H; inversion H1; subst. constructor; auto. split; auto.
      intros _ _. destruct (srot_parts_frame (c_variant (m_cfg m)) s seg
        (fst (part_finalize p0 (m_tracks m) (st_tracks s) d)) d true) as (_ & _ & _ & _ & _ & _ & _ & _ & F9).
      rewrite F9. discriminate.
    + inversion H; inversion H1; subst. constructor; auto.
Qed.

Lemma PTH_create c s d ntp : PTH c s -> PTH c (stream_createFirst (c_variant c) s d ntp).
Proof.
  intros [HP HH]. split; [now apply PT_create|].
  intros Hv _. unfold stream_createFirst. cbn [st_with st_openpart st_mut x_openpart].
  destruct (c_variant c); congruence.
Qed.

Lemma PTH_open c s g p :
  PTH c s ->
  (forall g0, st_open s = Some g0 ->
     sg_gap g = sg_gap g0 /\ sg_id g = sg_id g0 /\ sg_ntp g = sg_ntp g0 /\ sg_start g = sg_start g0
     /\ sg_forced g = sg_forced g0 /\ sg_parts g = sg_parts g0) ->
  (forall p0, st_openpart s = Some p0 -> exists p1, p = Some p1 /\ p_id p1 = p_id p0 /\ p_start p1 = p_start p0) ->
  (st_openpart s = None -> p = None) ->
  st_open s <> None ->
  PTH c (st_with s {| x_nextSeg := st_nextSeg s; x_nextPart := st_nextPart s; x_segments := st_segments s;
                      x_open := Some g; x_openpart := p; x_init := st_init s;
                      x_delcount := st_delcount s; x_target := st_target s;
                      x_parttarget := st_parttarget s; x_evicted := st_evicted s |}).
Proof.
  intros [[H1 H2 H3 H4] HH] Hg Hp Hn Hne.
  destruct (st_open s) as [g0|] eqn:Eo; [|congruence].
  destruct (Hg g0 eq_refl) as (_ & _ & _ & Hst & _ & Hparts).
  split.
  - constructor; unfold published in *;
      cbn [st_with st_segments st_evicted st_open st_openpart st_leading st_target st_parttarget]; auto.
    + intros Hv g' [= <-] q Hq. rewrite Hst, Hparts.
      destruct (st_openpart s) as [p0|] eqn:Ep.
      * destruct (Hp p0 eq_refl) as (p1 & -> & _ & Hs1). injection Hq as <-. rewrite Hs1.
        exact (H2 Hv g0 eq_refl p0 eq_refl).
      * rewrite (Hn eq_refl) in Hq. discriminate.
    + intros Hl. destruct (H4 Hl) as (Ha & Hb & Hc). repeat split; auto.
      intros g' q [= <-] Hq. apply (Hc g0 q eq_refl).
      unfold listed_parts in *. rewrite Hparts in Hq. exact Hq.
  - intros Hv _. cbn [st_with st_openpart].
    destruct (st_openpart s) as [p0|] eqn:Ep.
    + destruct (Hp p0 eq_refl) as (p1 & -> & _). discriminate.
    + exfalso. apply (HH Hv); congruence.
Qed.

Lemma PTH_targets c s t pt :
  st_leading s = false ->
  PTH c s ->
  PTH c (st_with s {| x_nextSeg := st_nextSeg s; x_nextPart := st_nextPart s; x_segments := st_segments s;
                      x_open := st_open s; x_openpart := st_openpart s; x_init := st_init s;
                      x_delcount := st_delcount s; x_target := t;
                      x_parttarget := pt; x_evicted := st_evicted s |}).
Proof.
  intros Hl [[H1 H2 H3 H4] HH]. split; [|exact HH].
  constructor; unfold published in *;
    cbn [st_with st_segments st_evicted st_open st_openpart st_leading st_target st_parttarget]; auto;
    intros Hl'; congruence.
Qed.

Theorem times_inv_run ops m : G PTH m -> G PTH (mux_run m ops).
Proof.
  apply G_mux_run; auto using PTH_create, PTH_rots, PTH_open, PTH_targets.
  intros; now apply PTH_rotp.
Qed.

Lemma start_PTH c m : start c = Ok m -> G PTH m.
Proof.
  intros H. unfold start in H. destruct (negb (start_ok (norm_cfg c))); [discriminate|].
  injection H as <-. unfold G. cbn [m_cfg m_streams].
  assert (Hall : forall c0 c1 i ts ch n, Forall (PTH c1) (mk_streams c0 i ts ch n)).
  { intros c0 c1 i ts. revert i. induction ts as [|t ts IH]; intros i ch n; [constructor|].
    cbn [mk_streams].
    match goal with |- context [let '(a, b) := ?x in _] => destruct x as [dflt chosen'] end.
    constructor; [|apply IH]. split; [apply PT_init|]. intros _ Hn. simpl in Hn. congruence. }
  change (c_variant (norm_cfg c)) with (c_variant c).
  destruct (c_variant c); [|apply Hall|apply Hall].
  constructor; [|constructor]. split; [apply PT_init|]. intros _ Hn. simpl in Hn. congruence.
Qed.

Lemma reach_TI c ops m si s :
  reach c ops m -> nth_error (m_streams m) si = Some s -> TI (c_variant (norm_cfg c)) s.
Proof.
  intros (m0 & Hs & ->) Hn.
  pose proof (times_inv_run ops m0 (start_PTH c m0 Hs)) as HG. unfold G in HG.
  rewrite cfg_mux_run in HG. destruct (start_cfg_wf c m0 Hs) as [_ Hc]. rewrite Hc in HG.
  rewrite Forall_forall in HG. apply (HG s). eapply nth_error_In; eauto.
Qed.

(* ---- consequences for the playlists served (C03) ---- *)

(* the parts listed under a segment add up, in ns, exactly to its duration *)
Theorem parts_sum_to_extinf c ops m si pl i e :
  reach c ops m -> gen_media_playlist m si = Some pl ->
  nth_error (pl_segs pl) i = Some e -> ps_parts e <> [] ->
  sumZ (map pp_dur (ps_parts e)) = ps_dur e.
Proof.
  intros Hr Hpl He Hp.
  unfold gen_media_playlist in Hpl.
  destruct (nth_error (m_streams m) si) as [s|] eqn:Es; [|discriminate].
  destruct (negb (hasContent _ s)); [discriminate|]. injection Hpl as <-. cbn [pl_segs] in He.
  destruct (gen_segs_nth _ _ _ _ _ He) as (g & Hg & _ & Hd & _ & H4).
  destruct (H4 Hp) as (_ & Hv & Hgap & Hparts).
  pose proof (reach_TI c ops m si s Hr Es) as T.
  rewrite (reach_cfg c ops m Hr) in Hv.
  assert (Hin : In g (published s)).
  { unfold published. apply in_app_iff. right. eapply nth_error_In; eauto. }
  pose proof (ti_parts _ _ T ltac:(rewrite Hv; discriminate) g Hin Hgap) as Hc.
  rewrite Hparts, map_map. cbn [mkplpart pp_dur]. rewrite Hd.
  change (fun x : part => p_dur x) with p_dur. rewrite (parts_chain_sum _ _ _ Hc). reflexivity.
Qed.

(* TARGETDURATION of the leading stream dominates the rounded duration of every listed segment *)
Theorem target_dominates c ops m si s pl i e :
  reach c ops m -> nth_error (m_streams m) si = Some s -> st_leading s = true ->
  gen_media_playlist m si = Some pl -> nth_error (pl_segs pl) i = Some e ->
  roundSeconds (round10us (ps_dur e)) <= pl_target pl.
Proof.
  intros Hr Es Hl Hpl He. unfold gen_media_playlist in Hpl. rewrite Es in Hpl.
  destruct (negb (hasContent _ s)); [discriminate|]. injection Hpl as <-. cbn [pl_segs pl_target] in *.
  destruct (gen_segs_nth _ _ _ _ _ He) as (g & Hg & _ & Hd & _).
  destruct (ti_target _ _ (reach_TI c ops m si s Hr Es) Hl) as [_ Hb].
  rewrite Hd. apply Hb. eapply nth_error_In; eauto.
Qed.

(* the same against the 5-decimal text: any value e (in 10 us units) that EXTINF may print for a
   duration d satisfies e * 10000 <= d + 5000; its rounding to whole seconds is dominated too *)
Lemma round_text_dominated d e :
  0 <= d -> 0 <= e -> e * 10000 - d <= 5000 -> roundSeconds (e * 10000) <= roundSeconds (round10us d).
Proof.
  intros Hd He H. unfold roundSeconds, round10us, second.
  apply Z.div_le_mono; [lia|].
  assert (e <= (d + 5000) / 10000) by (apply Z.div_le_lower_bound; lia). nia.
Qed.

(* PART-TARGET of the leading stream dominates every listed part *)
Theorem part_target_dominates c ops m si s pl :
  reach c ops m -> nth_error (m_streams m) si = Some s -> st_leading s = true ->
  gen_media_playlist m si = Some pl ->
  (forall i e q, nth_error (pl_segs pl) i = Some e -> In q (ps_parts e) -> pp_dur q <= pl_parttarget pl)
  /\ (forall q, In q (pl_trailing pl) -> pp_dur q <= pl_parttarget pl).
Proof.
  intros Hr Es Hl Hpl. unfold gen_media_playlist in Hpl. rewrite Es in Hpl.
  destruct (negb (hasContent _ s)); [discriminate|]. injection Hpl as <-.
  cbn [pl_segs pl_parttarget pl_trailing].
  pose proof (reach_TI c ops m si s Hr Es) as T.
  destruct (ti_ptarget _ _ T Hl) as (_ & Hb & Hc).
  rewrite (reach_cfg c ops m Hr) in *. set (v := c_variant (norm_cfg c)) in *.
  split.
  - intros i e q He Hq.
    destruct (gen_segs_nth _ _ _ _ _ He) as (g & Hg & _ & _ & _ & H4).
    assert (Hne : ps_parts e <> []) by (intros E; rewrite E in Hq; destruct Hq).
    destruct (H4 Hne) as (_ & Hv & _ & Hparts). rewrite Hparts in Hq.
    apply in_map_iff in Hq. destruct Hq as (p & <- & Hp). cbn [mkplpart pp_dur].
    apply (Hb g p); [eapply nth_error_In; eauto|]. unfold listed_parts. rewrite Hv. exact Hp.
  - intros q Hq. destruct v eqn:Ev; try destruct Hq.
    destruct (st_open s) as [g|] eqn:Eo; [|destruct Hq].
    apply in_map_iff in Hq. destruct Hq as (p & <- & Hp). cbn [mkplpart pp_dur].
    apply (Hc g p eq_refl). exact Hp.
Qed.

(* PART-HOLD-BACK >= 2 x PART-TARGET, CAN-SKIP-UNTIL = 6 x TARGETDURATION seconds *)
Theorem holdback_skipuntil m si pl :
  gen_media_playlist m si = Some pl -> 0 <= pl_parttarget pl ->
  2 * pl_parttarget pl <= pl_holdback pl /\ pl_skipuntil pl = 6 * pl_target pl * second.
Proof.
  unfold gen_media_playlist. destruct (nth_error (m_streams m) si) as [s|]; [|discriminate].
  destruct (negb (hasContent _ s)); [discriminate|]. intros [= <-]. cbn [pl_parttarget pl_holdback pl_skipuntil pl_target].
  intros H0. split; [|lia].
  rewrite Z.quot_div_nonneg by lia. apply Z.div_le_lower_bound; lia.
Qed.
