(* C03, MPEG-TS variant (continued from MuxSpanTS.v): a ghost log of the WRITTEN units beside the state.
   ts_wlog m0 ops lists the writes (track, unit) that the segment writer accepted, grouped like the segments:
   a write that makes the number of segments grow opens a group, one that only makes the unit log grow joins the
   last group, any other write is dropped.  Invariant (TSW): group by group the written units map to the units
   the segments hold (wunit), every segment record starts at timestampToDuration of the written decode time of the
   first write of its group (video: a_dts, audio: a_pts, at the track's clock rate) and carries its wall clock,
   and every segment but the last ends where the next one starts.
     ts_segment_times_are_first_units, ts_extinf_is_media_span, ts_date_time_is_first_unit_ntp
   in every state reached from Start by writes that return nil; no other hypothesis. *)
From Coq Require Import List ZArith Bool Lia Arith.
From GoHls Require Import Model.Mux Proofs.MuxStream Proofs.MuxLift Proofs.MuxWindow Proofs.MuxHistory
  Proofs.MuxTimes Proofs.MuxMulti Proofs.MuxCut Proofs.MuxLog Proofs.MuxLogStep Proofs.MuxLogTS Proofs.MuxRAHist
  Proofs.MuxTSStart Proofs.MuxPlaylist Proofs.MuxSpan Proofs.MuxSpanTS.
Import ListNotations.
Local Open Scope Z_scope.

Definition wx : Type := (nat * au)%type.   (* a write: track index, unit *)

(* the unit the segment writer is handed for a write, and the written decode time as a duration *)
Definition wunit (m : mstate) (x : wx) : tsunit :=
  match nth_error (m_tracks m) (fst x) with
  | Some t => if isVideo (t_kind (tk_cfg t)) then ts_video_unit (fst x) t (snd x) else ts_audio_unit (fst x) t (snd x)
  | None => {| u_track := fst x; u_pts := 0; u_dts := 0; u_ra := false; u_pays := [] |}
  end.

Definition wtime (m : mstate) (x : wx) : Z :=
  match nth_error (m_tracks m) (fst x) with
  | Some t => if isVideo (t_kind (tk_cfg t)) then wtime_v t (snd x) else wtime_a t (snd x)
  | None => 0
  end.

Lemma w_static m m' x :
  map tk_static (m_tracks m') = map tk_static (m_tracks m) -> wunit m' x = wunit m x /\ wtime m' x = wtime m x.
Proof.
  intros E. unfold wunit, wtime.
  assert (H : option_map tk_static (nth_error (m_tracks m') (fst x)) = option_map tk_static (nth_error (m_tracks m) (fst x)))
    by (rewrite <- !nth_error_map, E; reflexivity).
  destruct (nth_error (m_tracks m') (fst x)) as [t'|], (nth_error (m_tracks m) (fst x)) as [t|]; simpl in H; try discriminate; auto.
  injection H as Hc _ _. unfold ts_video_unit, ts_audio_unit, wtime_v, wtime_a. rewrite Hc. auto.
Qed.

(* ---- the ghost log ---- *)
Definition snoc_last {A} (G : list (list A)) (x : A) : list (list A) := removelast G ++ [last G [] ++ [x]].

Lemma snoc_last_snoc {A} (G : list (list A)) l x : snoc_last (G ++ [l]) x = G ++ [l ++ [x]].
Proof. unfold snoc_last. now rewrite removelast_last, last_last. Qed.

Definition wstep (m : mstate) (o : wop) (W : list (list wx)) : list (list wx) :=
  match o with
  | WWrite ti a =>
      let m' := fst (mux_step m o) in
      if (length (tsg m) <? length (tsg m'))%nat then W ++ [[(ti, a)]]
      else if (length (concat (tsg m)) <? length (concat (tsg m')))%nat then snoc_last W (ti, a)
      else W
  end.

Fixpoint wrun (m : mstate) (ops : list wop) (W : list (list wx)) : list (list wx) :=
  match ops with
  | [] => W
  | o :: ops' => wrun (fst (mux_step m o)) ops' (wstep m o W)
  end.

Definition ts_wlog (m0 : mstate) (ops : list wop) : list (list wx) := wrun m0 ops [].

(* ---- the invariant ---- *)
Definition ent_ok (m : mstate) (e : skey * list tsunit) (ws : list wx) : Prop :=
  snd e = map (wunit m) ws
  /\ exists x rest, ws = x :: rest /\ kstart (fst e) = wtime m x /\ kntp (fst e) = a_ntp (snd x).

Fixpoint tiled (K : list skey) : Prop :=
  match K with
  | k :: ((k' :: _) as K') => kend k = kstart k' /\ tiled K'
  | _ => True
  end.

Lemma tiled_replace K : forall k k', kstart k' = kstart k -> tiled (K ++ [k]) -> tiled (K ++ [k']).
Proof.
  induction K as [|a K IH]; intros k k' E H; [exact I|].
  destruct K as [|b K]; cbn [app tiled] in *.
  - destruct H as [H _]. split; [congruence|exact I].
  - destruct H as [H1 H2]. split; [exact H1|]. eapply IH; eauto.
Qed.

Lemma tiled_cut K : forall k k1 k2, kstart k1 = kstart k -> kend k1 = kstart k2 -> tiled (K ++ [k]) -> tiled (K ++ [k1; k2]).
Proof.
  induction K as [|a K IH]; intros k k1 k2 E1 E2 H; [cbn; auto|].
  destruct K as [|b K]; cbn [app tiled] in *.
  - destruct H as [H _]. split; [congruence|]. split; [exact E2|exact I].
  - destruct H as [H1 H2]. split; [exact H1|]. eapply IH; eauto.
Qed.

Lemma tiled_snoc K : forall k k2, kend k = kstart k2 -> tiled (K ++ [k]) -> tiled (K ++ [k; k2]).
Proof. intros k k2 E H. now apply (tiled_cut K k k k2). Qed.

Lemma tiled_mid K1 : forall k k2 K2, tiled (K1 ++ k :: k2 :: K2) -> kend k = kstart k2.
Proof.
  induction K1 as [|a K1 IH]; intros k k2 K2 H; cbn [app tiled] in H; [tauto|].
  destruct K1 as [|b K1]; cbn [app] in *; destruct H as [_ H]; eapply IH; exact H.
Qed.

Record TSW (m : mstate) (W : list (list wx)) : Prop := {
  tw_ent : Forall2 (ent_ok m) (tskg m) W;
  tw_tiled : tiled (map fst (tskg m));
  tw_closed : ts_opened m = false -> tskg m = []
}.

Lemma Forall2_snoc_inv {A B} (R : A -> B -> Prop) X e W :
  Forall2 R (X ++ [e]) W -> exists W1 w, W = W1 ++ [w] /\ Forall2 R X W1 /\ R e w.
Proof.
  intros H. apply Forall2_app_inv_l in H. destruct H as (W1 & W2 & H1 & H2 & ->).
  inversion H2 as [|? w ? W3 Hr H3]; subst. inversion H3; subst. eauto.
Qed.

Lemma Forall2_weaken {A B} (R R' : A -> B -> Prop) l l' :
  (forall a b, R a b -> R' a b) -> Forall2 R l l' -> Forall2 R' l l'.
Proof. intros H. induction 1; constructor; auto. Qed.

Lemma Forall2_len2 {A B} (R : A -> B -> Prop) l l' : Forall2 R l l' -> length l = length l'.
Proof. induction 1; simpl; auto. Qed.

Lemma ent_ok_static m m' : map tk_static (m_tracks m') = map tk_static (m_tracks m) ->
  forall e ws, ent_ok m e ws -> ent_ok m' e ws.
Proof.
  intros E e ws [H1 (x & rest & -> & H2 & H3)]. split.
  - rewrite H1. apply map_ext. intros y. symmetry. apply (w_static m m' y E).
  - exists x, rest. split; [reflexivity|]. destruct (w_static m m' x E) as [_ ->]. auto.
Qed.

Lemma len_concat_snoc {A} (G : list (list A)) l : length (concat (G ++ [l])) = (length (concat G) + length l)%nat.
Proof. rewrite concat_app, app_length. cbn [concat]. now rewrite app_nil_r. Qed.

(* one write that returns nil *)
Lemma TSW_step m m' ti a W :
  TSW m W ->
  TsStep m m' (wunit m (ti, a)) (wtime m (ti, a)) (a_ntp a) ->
  map tk_static (m_tracks m') = map tk_static (m_tracks m) ->
  fst (mux_step m (WWrite ti a)) = m' ->
  TSW m' (wstep m (WWrite ti a) W).
Proof.
  intros [P1 P2 P3] Hstep Est Hm'. unfold wstep. rewrite Hm'. rewrite <- !tskg_tsg.
  pose proof (ent_ok_static m m' Est) as Hst.
  destruct Hstep as [[Eg Eo]|[(Ho & X & k & g & e' & Eg & Eg')|[(Ho & Hc & e' & Eg')|(Ho & X & k & g & e' & Eg & Eg')]]].
  - (* dropped *)
    rewrite Eg, !Nat.ltb_irrefl. constructor; rewrite ?Eg, ?Eo; auto.
    exact (Forall2_weaken _ _ _ _ Hst P1).
  - (* the unit joins the open segment *)
    rewrite Eg, Eg', !map_app, !app_length. cbn [map length]. rewrite Nat.ltb_irrefl.
    rewrite !len_concat_snoc. cbn [snd]. rewrite app_length. cbn [length].
    destruct (Nat.ltb_spec (length (concat (map snd X)) + length g) (length (concat (map snd X)) + (length g + 1))) as [_|Hn]; [|lia].
    rewrite Eg in P1, P2. destruct (Forall2_snoc_inv _ _ _ _ P1) as (W1 & w & -> & F1 & [E1 (x & rest & -> & E2 & E3)]).
    rewrite snoc_last_snoc. constructor; rewrite ?Eg'.
    + apply Forall2_app; [exact (Forall2_weaken _ _ _ _ Hst F1)|]. constructor; [|constructor].
      apply Hst. split.
      * cbn [snd] in *. rewrite E1, map_app. reflexivity.
      * exists x, (rest ++ [(ti, a)]). split; [reflexivity|]. cbn [fst kstart kntp] in *. auto.
    + rewrite map_app in *. cbn [map fst] in *. eapply tiled_replace; [|exact P2]. reflexivity.
    + intros Hno. congruence.
  - (* the first segment is opened with the unit *)
    rewrite (P3 Hc) in *. rewrite Eg'. cbn [app map length concat].
    assert (EW : W = []) by (inversion P1; reflexivity). subst W. cbn [Nat.ltb Nat.leb app].
    constructor; rewrite ?Eg'; cbn [app].
    + constructor; [|constructor]. apply Hst. split; [reflexivity|]. exists (ti, a), []. split; [reflexivity|]. split; reflexivity.
    + exact I.
    + intros Hno. congruence.
  - (* the open segment is closed and a new one opened with the unit *)
    rewrite Eg, Eg', !map_app, !app_length. cbn [map length]. rewrite !map_length.
    destruct (Nat.ltb_spec (length X + 1) (length X + 2)) as [_|Hn]; [|lia].
    rewrite Eg in P1, P2. destruct (Forall2_snoc_inv _ _ _ _ P1) as (W1 & w & -> & F1 & [E1 (x & rest & -> & E2 & E3)]).
    constructor; rewrite ?Eg'.
    + change (X ++ [((kstart k, kntp k, wtime m (ti, a)), g); ((wtime m (ti, a), a_ntp a, e'), [wunit m (ti, a)])])
        with (X ++ [((kstart k, kntp k, wtime m (ti, a)), g)] ++ [((wtime m (ti, a), a_ntp a, e'), [wunit m (ti, a)])]).
      rewrite app_assoc. apply Forall2_app; [apply Forall2_app|].
      * exact (Forall2_weaken _ _ _ _ Hst F1).
      * constructor; [|constructor]. apply Hst. split; [exact E1|]. exists x, rest. auto.
      * constructor; [|constructor]. apply Hst. split; [reflexivity|]. exists (ti, a), []. split; [reflexivity|]. split; reflexivity.
    + rewrite map_app in *. cbn [map fst] in *. eapply tiled_cut; [| |exact P2]; reflexivity.
    + intros Hno. congruence.
Qed.

(* ---- histories ---- *)
Record TSWI (m : mstate) (W : list (list wx)) : Prop := { twi_r : TSR m; twi_w : TSW m W }.

Theorem TSWI_mux_step m ti a m' W :
  TSWI m W -> mux_step m (WWrite ti a) = (m', Ok tt) -> TSWI m' (wstep m (WWrite ti a) W).
Proof.
  intros [HR HW] Hs. constructor; [exact (TSR_mux_step m ti a m' HR Hs)|].
  pose proof HR as [HL _ _ _]. pose proof HL as [HT _].
  assert (Hm' : fst (mux_step m (WWrite ti a)) = m') by now rewrite Hs.
  unfold mux_step, mux_write in Hs.
  destruct (nth_error (m_tracks m) ti) as [t|] eqn:Ht.
  2:{ injection Hs as <-. apply TSW_step; auto. left. split; reflexivity. }
  destruct (isVideo (t_kind (tk_cfg t))) eqn:Ev.
  - destruct (tsi_tracks m HT ti t Ht) as [_ Hk].
    destruct (ts_video_step m ti t a m' HL Ht (Hk Ev) Hs) as [A B].
    apply TSW_step; auto. unfold wunit, wtime. cbn [fst snd]. rewrite Ht, Ev. exact A.
  - destruct (ts_audio_step m ti t a m' HL Ht Hs) as (A & B & _).
    apply TSW_step; auto. unfold wunit, wtime. cbn [fst snd]. rewrite Ht, Ev. exact A.
Qed.

Theorem TSWI_mux_run ops : forall m W, TSWI m W -> all_ok m ops -> TSWI (mux_run m ops) (wrun m ops W).
Proof.
  induction ops as [|[ti a] ops IH]; intros m W HI Hok; cbn [mux_run wrun]; [exact HI|].
  destruct Hok as [Hr Hok]. apply IH; [|exact Hok].
  apply (TSWI_mux_step m ti a); [exact HI|]. rewrite <- Hr. apply surjective_pairing.
Qed.

Theorem start_TSWI c m : start c = Ok m -> c_variant c = MPEGTS -> TSWI m [].
Proof.
  intros Hs Hv. constructor; [now apply (start_TSR c)|].
  pose proof (start_streams c m Hs) as ES. rewrite Hv in ES.
  assert (E : tskg m = []) by (unfold tskg; rewrite ES; reflexivity).
  constructor; rewrite ?E; auto. constructor.
Qed.

(* ================================================================================================
   What the invariant says about segment records and playlists.
   ================================================================================================ *)
Theorem ts_segment_times_are_first_units c m0 ops :
  start c = Ok m0 -> c_variant c = MPEGTS -> all_ok m0 ops ->
  let m := mux_run m0 ops in
  let W := ts_wlog m0 ops in
  map (map (wunit m)) W = tsg m
  /\ forall s P g Q,
       nth_error (m_streams m) 0 = Some s -> published s = P ++ g :: Q ->
       exists x rest y rest',
         nth_error W (length P) = Some (x :: rest) /\ nth_error W (S (length P)) = Some (y :: rest')
         /\ sg_units g = map (wunit m) (x :: rest)
         /\ sg_start g = wtime m x
         /\ sg_ntp g = a_ntp (snd x)
         /\ sg_end g = wtime m y.
Proof.
  intros Hs Hv Hok. cbv zeta.
  destruct (TSWI_mux_run ops m0 [] (start_TSWI c m0 Hs Hv) Hok) as [HR [P1 P2 P3]].
  fold (ts_wlog m0 ops) in P1. set (m := mux_run m0 ops) in *. set (W := ts_wlog m0 ops) in *.
  split.
  { rewrite <- tskg_tsg. clear - P1. induction P1 as [|e ws K W' H HF IH]; [reflexivity|].
    cbn [map]. rewrite IH. destruct H as [-> _]. reflexivity. }
  intros s P g Q Es Hpub.
  pose proof HR as [[_ (s0 & S0 & _)] _ _ _]. rewrite S0 in Es. cbn [nth_error] in Es. injection Es as <-.
  assert (EK : tskg m = map kg (published s0) ++ match st_open s0 with Some o => [kg o] | None => [] end)
    by (unfold tskg; now rewrite S0).
  destruct (st_open s0) as [o|] eqn:Eo.
  2:{ exfalso. assert (Hcl : ts_opened m = false) by (unfold ts_opened; now rewrite S0, Eo).
      rewrite (P3 Hcl), Hpub, map_app in EK. destruct (map kg P); discriminate. }
  rewrite Hpub, map_app in EK. cbn [map] in EK. rewrite <- app_assoc in EK. cbn [app] in EK.
  (* the entry after g *)
  assert (Hnext : exists e2 R2, map kg Q ++ [kg o] = e2 :: R2) by (destruct (map kg Q); cbn; eauto).
  destruct Hnext as (e2 & R2 & Hnext). rewrite Hnext in EK.
  rewrite EK in P1, P2.
  apply Forall2_app_inv_l in P1. destruct P1 as (W1 & W2 & F1 & F2 & EW).
  inversion F2 as [|? ws ? W3 [G1 (x & rest & -> & G2 & G3)] F3]; subst.
  inversion F3 as [|? ws2 ? W4 [_ (y & rest' & -> & G4 & _)] _]; subst.
  assert (Hlen : length W1 = length P) by (rewrite <- (Forall2_len2 _ _ _ F1), map_length; reflexivity).
  exists x, rest, y, rest'.
  split; [rewrite EW, nth_error_app2 by lia; rewrite Hlen, Nat.sub_diag; reflexivity|].
  split; [rewrite EW, nth_error_app2 by lia; replace (S (length P) - length W1)%nat with 1%nat by lia; reflexivity|].
  split; [exact G1|]. split; [exact G2|]. split; [exact G3|].
  rewrite map_app in P2. cbn [map] in P2. rewrite <- G4. exact (tiled_mid _ _ _ _ P2).
Qed.

Lemma ts_listed_segment m s pl i e :
  c_variant (m_cfg m) = MPEGTS -> nth_error (m_streams m) 0 = Some s -> gen_media_playlist m 0 = Some pl ->
  nth_error (pl_segs pl) i = Some e ->
  exists g, nth_error (st_segments s) i = Some g /\ ps_dur e = sg_dur g /\ ps_gap e = sg_gap g
            /\ (sg_gap g = false -> ps_id e = sg_id g /\ ps_dt e = Some (sg_ntp g))
            /\ published s = (st_evicted s ++ firstn i (st_segments s)) ++ g :: skipn (S i) (st_segments s).
Proof.
  intros Hv Es Hpl He. unfold gen_media_playlist in Hpl. rewrite Es, Hv in Hpl.
  destruct (negb (hasContent _ s)); [discriminate|]. injection Hpl as <-. cbn [pl_segs] in He.
  destruct (gen_segs_nth _ _ _ _ _ He) as (g & Hg & H1 & H2 & H3 & _).
  exists g. split; [exact Hg|]. split; [exact H2|]. split; [exact H1|]. split.
  - intros Hgap. split; [now apply H3|].
    clear - Hg He Hgap. revert i Hg He. generalize 0%nat. induction (st_segments s) as [|x l IH]; intros n i Hg He; [destruct i; discriminate|].
    destruct i as [|i]; cbn [gen_segs nth_error] in *.
    + injection Hg as ->. injection He as <-. rewrite Hgap. reflexivity.
    + eapply IH; eauto.
  - unfold published. rewrite <- app_assoc. f_equal.
    rewrite <- (firstn_skipn i (st_segments s)) at 1. f_equal.
    clear - Hg. revert i Hg. induction (st_segments s) as [|x l IH]; intros [|i] Hg; try discriminate.
    + now injection Hg as ->.
    + cbn [skipn]. now apply IH.
Qed.

(* EXTINF of the i-th listed segment = written decode time (as a duration) of the write that opened the next
   segment - that of the write that opened this one; PROGRAM-DATE-TIME (always printed in this variant) = the
   wall clock of the write that opened it *)
Theorem ts_extinf_is_media_span c m0 ops :
  start c = Ok m0 -> c_variant c = MPEGTS -> all_ok m0 ops ->
  let m := mux_run m0 ops in
  let W := ts_wlog m0 ops in
  forall pl i e,
    gen_media_playlist m 0 = Some pl -> nth_error (pl_segs pl) i = Some e ->
    exists s g x rest y rest',
      nth_error (m_streams m) 0 = Some s /\ nth_error (st_segments s) i = Some g
      /\ nth_error W (length (st_evicted s) + i) = Some (x :: rest)
      /\ nth_error W (S (length (st_evicted s) + i)) = Some (y :: rest')
      /\ sg_units g = map (wunit m) (x :: rest)
      /\ ps_dur e = wtime m y - wtime m x
      /\ (sg_gap g = false -> ps_id e = sg_id g /\ ps_dt e = Some (a_ntp (snd x))).
Proof.
  intros Hs Hv Hok. cbv zeta. intros pl i e Hpl He.
  destruct (nth_error (m_streams (mux_run m0 ops)) 0) as [s|] eqn:Es.
  2:{ unfold gen_media_playlist in Hpl. rewrite Es in Hpl. discriminate. }
  assert (Hvm : c_variant (m_cfg (mux_run m0 ops)) = MPEGTS).
  { rewrite cfg_mux_run. destruct (start_cfg_wf c m0 Hs) as [_ ->]. exact Hv. }
  destruct (ts_listed_segment _ s pl i e Hvm Es Hpl He) as (g & Hg & Hdur & _ & Hid & Hpub).
  destruct (ts_segment_times_are_first_units c m0 ops Hs Hv Hok) as [_ H]. cbv zeta in H.
  destruct (H s _ g _ Es Hpub) as (x & rest & y & rest' & A & B & C & D & E & F).
  assert (Hlen : length (st_evicted s ++ firstn i (st_segments s)) = (length (st_evicted s) + i)%nat).
  { rewrite app_length, firstn_length_le; [reflexivity|]. apply Nat.lt_le_incl. apply nth_error_Some. congruence. }
  rewrite Hlen in A, B.
  exists s, g, x, rest, y, rest'. split; [reflexivity|]. split; [exact Hg|]. split; [exact A|]. split; [exact B|].
  split; [exact C|]. split; [rewrite Hdur; unfold sg_dur; now rewrite D, F|].
  intros Hgap. destruct (Hid Hgap) as [I1 I2]. split; [exact I1|]. now rewrite I2, E.
Qed.

Theorem ts_date_time_is_first_unit_ntp c m0 ops :
  start c = Ok m0 -> c_variant c = MPEGTS -> all_ok m0 ops ->
  let m := mux_run m0 ops in
  let W := ts_wlog m0 ops in
  forall pl i e,
    gen_media_playlist m 0 = Some pl -> nth_error (pl_segs pl) i = Some e -> ps_gap e = false ->
    exists s g x rest,
      nth_error (m_streams m) 0 = Some s /\ nth_error (st_segments s) i = Some g /\ ps_id e = sg_id g
      /\ nth_error W (length (st_evicted s) + i) = Some (x :: rest)
      /\ sg_units g = map (wunit m) (x :: rest)
      /\ ps_dt e = Some (a_ntp (snd x)).
Proof.
  intros Hs Hv Hok. cbv zeta. intros pl i e Hpl He Hgap.
  destruct (ts_extinf_is_media_span c m0 ops Hs Hv Hok pl i e Hpl He) as (s & g & x & rest & y & rest' & A & B & C & _ & D & _ & F).
  assert (Hvm : c_variant (m_cfg (mux_run m0 ops)) = MPEGTS).
  { rewrite cfg_mux_run. destruct (start_cfg_wf c m0 Hs) as [_ ->]. exact Hv. }
  destruct (ts_listed_segment _ s pl i e Hvm A Hpl He) as (g' & Hg' & _ & Hgg & _).
  rewrite B in Hg'. injection Hg' as <-. rewrite Hgap in Hgg. destruct (F (eq_sym Hgg)) as [F1 F2].
  exists s, g, x, rest. auto 10.
Qed.

(* ---- non-vacuity: the H264 + AAC history of MuxTSStart.v extended by a third random-access unit, so that two
   segments are complete: the IDR units written at decode times 45000, 135000, 225000 (90 kHz) open the segments,
   which start at 0.5 s, 1.5 s (and 2.5 s): both EXTINF are 1 s, the date-times are the wall clocks of those writes *)
Definition ts_ops2 : list wop :=
  ts_ops ++ [WWrite 0 (ex_au 225000 true 15); WWrite 1 (ex_au 72000 true 23)].

Lemma ts_span_example : exists m0 pl e1 e2,
  start ts_cfg = Ok m0 /\ c_variant ts_cfg = MPEGTS /\ all_ok m0 ts_ops2
  /\ let m := mux_run m0 ts_ops2 in
     gen_media_playlist m 0 = Some pl
     /\ nth_error (pl_segs pl) 0 = Some e1 /\ nth_error (pl_segs pl) 1 = Some e2
     /\ (ps_gap e1, ps_id e1, ps_dur e1, ps_dt e1) = (false, 0, 1000000000, Some (1700000000000000000 + 45000 * 11111))
     /\ (ps_gap e2, ps_id e2, ps_dur e2, ps_dt e2) = (false, 1, 1000000000, Some (1700000000000000000 + 135000 * 11111))
     /\ map (map (fun x => (fst x, a_dts (snd x), a_ntp (snd x)))) (ts_wlog m0 ts_ops2)
        = [[(0%nat, 45000, 1700000000000000000 + 45000 * 11111); (1%nat, 24000, 1700000000000000000 + 24000 * 11111);
            (0%nat, 90000, 1700000000000000000 + 90000 * 11111)];
           [(0%nat, 135000, 1700000000000000000 + 135000 * 11111); (1%nat, 48000, 1700000000000000000 + 48000 * 11111);
            (0%nat, 180000, 1700000000000000000 + 180000 * 11111)];
           [(0%nat, 225000, 1700000000000000000 + 225000 * 11111); (1%nat, 72000, 1700000000000000000 + 72000 * 11111)]]
     /\ map (fun w => match w with x :: _ => wtime m x | [] => 0 end) (ts_wlog m0 ts_ops2)
        = [500000000; 1500000000; 2500000000].
Proof.
  destruct (start ts_cfg) as [m0| |] eqn:E; [|vm_compute in E; discriminate|vm_compute in E; discriminate].
  vm_compute in E. injection E as <-.
  eexists. eexists. eexists. eexists.
  split; [reflexivity|]. split; [reflexivity|]. split; [vm_compute; tauto|]. cbv zeta.
  split; [vm_compute; reflexivity|]. split; [vm_compute; reflexivity|]. split; [vm_compute; reflexivity|].
  split; [vm_compute; reflexivity|]. split; [vm_compute; reflexivity|].
  split; vm_compute; reflexivity.
Qed.
