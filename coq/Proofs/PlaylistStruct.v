(* C15 structural guarantees: what a successful Unmarshal returns has the structure callers
   index into without checking. For every byte string and every instance of the oracles. *)
From Coq Require Import List ZArith Bool String Ascii Lia.
From GoHls Require Import Model.PlaylistBase Model.Playlist Model.PlaylistSpec Proofs.PlaylistStr.
Import ListNotations.
Local Open Scope string_scope.
Local Open Scope Z_scope.

Definition part_okb (p : MediaPart) : bool :=
  negb (pt_duration p =? 0) && nonempty (pt_uri p).

Definition seg_okb (s : MediaSegment) : bool :=
  nonempty (sg_uri s) && negb (sg_duration s =? 0) && forallb part_okb (sg_parts s).

(* at least one segment, each with a URI and a non-zero duration; non-zero target duration;
   every part (in segments and trailing) with a non-zero duration and a URI; PART-INF with a
   non-zero part target; MAP and PRELOAD-HINT with a URI *)
Definition media_structb (m : Media) : bool :=
  negb (Nat.eqb (List.length (m_segments m)) 0) && negb (m_targetduration m =? 0)
  && forallb seg_okb (m_segments m) && forallb part_okb (m_parts m)
  && opt_ok (fun t => negb (pi_parttarget t =? 0)) (m_partinf m)
  && opt_ok (fun t => nonempty (map_uri t)) (m_map m)
  && opt_ok (fun t => nonempty (ph_uri t)) (m_preloadhint m).

Definition known_type (s : string) : bool :=
  String.eqb s "AUDIO" || String.eqb s "VIDEO" || String.eqb s "SUBTITLES" || String.eqb s "CLOSED-CAPTIONS".

(* at least one variant, each with a URI; renditions with a known type and a group id *)
Definition multivariant_structb (m : Multivariant) : bool :=
  negb (Nat.eqb (List.length (mv_variants m)) 0)
  && forallb (fun v => nonempty (v_uri v)) (mv_variants m)
  && forallb (fun r => known_type (r_type r) && nonempty (r_groupid r)) (mv_renditions m).

Definition playlist_structb (p : playlist) : bool :=
  match p with
  | PMedia m => media_structb m
  | PMultivariant m => multivariant_structb m
  end.

(* inversion of monadic code *)
Ltac inv_res H :=
  repeat match type of H with
  | bind ?m _ = Ok _ =>
      let E := fresh "E" in destruct m eqn:E; cbn [bind] in H; try discriminate H
  | (if ?b then _ else _) = Ok _ =>
      let E := fresh "Eb" in destruct b eqn:E; try discriminate H
  | (let '(_, _) := ?p in _) = Ok _ => destruct p
  | Err = Ok _ => discriminate H
  end.

Lemma attrs_fold_inv {T} (step : T -> string -> string -> res T) (P : T -> Prop) :
  (forall t k v t', P t -> step t k v = Ok t' -> P t') ->
  forall a t t', P t -> attrs_fold step a t = Ok t' -> P t'.
Proof.
  intros Hs a. induction a as [|[k v] a IH]; intros t t' Ht H; simpl in H.
  - inversion H; subst; auto.
  - destruct (step t k v) eqn:E; cbn [bind] in H; try discriminate. eauto.
Qed.

Lemma nonempty_len s : negb (Nat.eqb (slen s) 0) = true -> nonempty s = true.
Proof. destruct s; simpl; auto. Qed.

Section WithOracles.
Variable orc : oracles.

Lemma part_unmarshal_ok v p : part_unmarshal orc v = Ok p -> part_okb p = true.
Proof.
  unfold part_unmarshal. intros H. inv_res H. inversion H; subst.
  unfold part_okb, nonempty. rewrite Eb, Eb0. reflexivity.
Qed.

Lemma part_inf_unmarshal_ok v t : part_inf_unmarshal orc v = Ok t -> negb (pi_parttarget t =? 0) = true.
Proof. unfold part_inf_unmarshal. intros H. inv_res H. inversion H; subst. now rewrite Eb. Qed.

Lemma map_unmarshal_ok v t : map_unmarshal v = Ok t -> nonempty (map_uri t) = true.
Proof. unfold map_unmarshal. intros H. inv_res H. inversion H; subst. unfold nonempty. now rewrite Eb. Qed.

Lemma preload_hint_unmarshal_ok v t : preload_hint_unmarshal v = Ok t -> nonempty (ph_uri t) = true.
Proof.
  unfold preload_hint_unmarshal. intros H. inv_res H. inversion H; subst.
  unfold nonempty. now rewrite Eb0.
Qed.

Lemma segment_validate_ok s : segment_validate s = Ok tt ->
  negb (sg_duration s =? 0) = true /\ nonempty (sg_uri s) = true.
Proof.
  unfold segment_validate. intros H. inv_res H. unfold nonempty. rewrite ?Eb, ?Eb0. auto.
Qed.

(* ---------- Media ---------- *)
Definition minv (st : mstate) : Prop :=
  forallb seg_okb (m_segments (ms_m st)) = true
  /\ forallb part_okb (sg_parts (ms_curSegment st)) = true
  /\ opt_ok (fun t => negb (pi_parttarget t =? 0)) (m_partinf (ms_m st)) = true
  /\ opt_ok (fun t => nonempty (map_uri t)) (m_map (ms_m st)) = true
  /\ opt_ok (fun t => nonempty (ph_uri t)) (m_preloadhint (ms_m st)) = true.

Lemma media_line_inv st line st' :
  minv st -> media_line orc st line = Ok st' -> minv st'.
Proof.
  intros (I1 & I2 & I3 & I4 & I5) H. unfold media_line in H.
  repeat match type of H with
  | (if has_prefix ?p line then _ else _) = Ok _ =>
      destruct (has_prefix p line);
      [ inv_res H; inversion H; subst; clear H; unfold minv; simpl;
        repeat split; eauto using part_inf_unmarshal_ok, map_unmarshal_ok | ]
  | (if String.eqb line ?x then _ else _) = Ok _ =>
      destruct (String.eqb line x);
      [ inversion H; subst; clear H; unfold minv; simpl; repeat split; auto | ]
  end.
  - (* EXT-X-PART *)
    rewrite forallb_app, I2. simpl. erewrite part_unmarshal_ok; eauto.
  - inv_res H.
    + (* URI line *)
      destruct a0. apply segment_validate_ok in E0 as [Hd Hu]. simpl in Hd, Hu.
      inversion H; subst; clear H. unfold minv; simpl. repeat split; auto.
      rewrite forallb_app, I1. simpl. unfold seg_okb; simpl. now rewrite Hu, Hd, I2.
    + inversion H; subst; clear H. unfold minv; simpl; repeat split; eauto using preload_hint_unmarshal_ok.
    + inversion H; subst; clear H. unfold minv; simpl; repeat split; auto.
    + inversion H; subst; clear H. unfold minv; simpl; repeat split; auto.
Qed.

Lemma media_loop_inv fuel : forall st s st',
  minv st -> media_loop orc fuel st s = Ok st' -> minv st'.
Proof.
  induction fuel as [|f IH]; intros st s st' Hi H; simpl in H; [discriminate|].
  destruct (read_line s) as [[line r]| | |] eqn:E; cbn [bind] in H; try discriminate.
  destruct (String.eqb line "" && String.eqb r "").
  - inversion H; subst; auto.
  - destruct (media_line orc st line) eqn:E2; cbn [bind] in H; try discriminate.
    eapply IH; [|eauto]. eapply media_line_inv; eauto.
Qed.

Theorem media_unmarshal_struct b m : media_unmarshal orc b = Ok m -> media_structb m = true.
Proof.
  unfold media_unmarshal. intros H.
  destruct (skip_header b) eqn:E1; cbn [bind] in H; try discriminate.
  match type of H with bind (media_loop _ _ ?st0 _) _ = _ =>
    destruct (media_loop orc (S (slen b)) st0 a) as [st| | |] eqn:E2; cbn [bind] in H; try discriminate;
    assert (Hi : minv st) by (eapply media_loop_inv; [|exact E2]; unfold minv; simpl; auto)
  end.
  destruct Hi as (I1 & I2 & I3 & I4 & I5).
  inv_res H. inversion H; subst; clear H. simpl in Eb, Eb0.
  unfold media_structb; simpl. rewrite Eb, Eb0, I1, I2, I3, I4, I5. reflexivity.
Qed.

(* ---------- Multivariant ---------- *)
Lemma variant_unmarshal_ok va v : variant_unmarshal orc va = Ok v -> nonempty (v_uri v) = true.
Proof.
  unfold variant_unmarshal. intros H. inv_res H. inversion H; subst; clear H. simpl.
  destruct (Nat.eqb (slen a2) 0) eqn:E5; [inversion E3|].
  apply nonempty_len. now rewrite E5.
Qed.

Lemma rendition_step_type t k v t' :
  (r_type t = "" \/ known_type (r_type t) = true) -> rendition_step t k v = Ok t' ->
  (r_type t' = "" \/ known_type (r_type t') = true).
Proof.
  intros Ht H. unfold rendition_step in H.
  repeat match type of H with
  | (if String.eqb k ?x then _ else _) = Ok _ => destruct (String.eqb k x)
  end; inv_res H; inversion H; subst; clear H; simpl; auto.
  right. unfold known_type.
  repeat match goal with
  | H : context [String.eqb v ?x] |- context [String.eqb v ?x] => destruct (String.eqb v x)
  end; simpl in *; auto; discriminate.
Qed.

Lemma rendition_unmarshal_ok v t : rendition_unmarshal v = Ok t ->
  known_type (r_type t) && nonempty (r_groupid t) = true.
Proof.
  unfold rendition_unmarshal. intros H.
  destruct (attrs_unmarshal v) eqn:E; cbn [bind] in H; try discriminate.
  destruct (attrs_fold rendition_step a rendition0) eqn:E2; cbn [bind] in H; try discriminate.
  assert (Ht : r_type a0 = "" \/ known_type (r_type a0) = true).
  { eapply (attrs_fold_inv rendition_step (fun t => r_type t = "" \/ known_type (r_type t) = true));
      [intros; eapply rendition_step_type; eauto| |exact E2]. left; reflexivity. }
  inv_res H. inversion H; subst; clear H.
  destruct Ht as [Ht|Ht]; [rewrite Ht in Eb; discriminate|].
  unfold nonempty. now rewrite Ht, Eb0.
Qed.

Definition mvinv (m : Multivariant) : Prop :=
  forallb (fun v => nonempty (v_uri v)) (mv_variants m) = true
  /\ forallb (fun r => known_type (r_type r) && nonempty (r_groupid r)) (mv_renditions m) = true.

Lemma multi_line_inv m line s m' s' :
  mvinv m -> multi_line orc m line s = Ok (m', s') -> mvinv m'.
Proof.
  intros (I1 & I2) H. unfold multi_line in H.
  repeat match type of H with
  | (if has_prefix ?p line then _ else _) = Ok _ =>
      destruct (has_prefix p line);
      [ inv_res H; inversion H; subst; clear H; unfold mvinv; simpl; try (split; assumption) | ]
  end.
  - split; auto. rewrite forallb_app, I1. simpl. erewrite variant_unmarshal_ok; eauto.
  - split; auto. rewrite forallb_app, I2. simpl. erewrite rendition_unmarshal_ok; eauto.
  - inversion H; subst. split; auto.
Qed.

Lemma multi_loop_inv fuel : forall m s m', mvinv m -> multi_loop orc fuel m s = Ok m' -> mvinv m'.
Proof.
  induction fuel as [|f IH]; intros m s m' Hi H; simpl in H; [discriminate|].
  destruct (read_line s) as [[line r]| | |] eqn:E; cbn [bind] in H; try discriminate.
  destruct (String.eqb line "" && String.eqb r "").
  - inversion H; subst; auto.
  - destruct (multi_line orc m line r) as [[m1 s1]| | |] eqn:E2; cbn [bind] in H; try discriminate.
    eapply IH; [|eauto]. eapply multi_line_inv; eauto.
Qed.

Theorem multivariant_unmarshal_struct b m :
  multivariant_unmarshal orc b = Ok m -> multivariant_structb m = true.
Proof.
  unfold multivariant_unmarshal. intros H.
  destruct (skip_header b) eqn:E1; cbn [bind] in H; try discriminate.
  destruct (multi_loop orc (S (slen b)) multivariant0 a) as [m1| | |] eqn:E2; cbn [bind] in H; try discriminate.
  assert (Hi : mvinv m1) by (eapply multi_loop_inv; [|exact E2]; split; reflexivity).
  destruct Hi as (I1 & I2). inv_res H. inversion H; subst; clear H.
  unfold multivariant_structb. now rewrite Eb, I1, I2.
Qed.

Theorem unmarshal_struct b p : unmarshal orc b = Ok p -> playlist_structb p = true.
Proof.
  unfold unmarshal. intros H.
  destruct (find_type (S (slen b)) b) as [k| | |]; cbn [bind] in H; try discriminate.
  destruct k; inv_res H; inversion H; subst; simpl;
    eauto using media_unmarshal_struct, multivariant_unmarshal_struct.
Qed.

End WithOracles.
