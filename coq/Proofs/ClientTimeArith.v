(* Arithmetic of the client's time conversion: multiplyAndDivide, timestampToDuration,
   clientTimeConvFMP4.convert, cross-track synchronisation, NTP envelope. *)
From Coq Require Import List ZArith Bool Lia.
From GoHls Require Import Model.ClientTime.
Import ListNotations.
Local Open Scope Z_scope.

(* ---------- multiplyAndDivide ---------- *)

(* for non-negative values it is the exact floor of v*m/d (no intermediate rounding loss) *)
Lemma mulDiv_floor : forall v m d,
  0 <= v -> 0 <= m -> 0 < d -> multiplyAndDivide v m d = Ok (v * m / d).
Proof.
  intros v m d Hv Hm Hd. unfold multiplyAndDivide.
  destruct (d =? 0) eqn:E; [apply Z.eqb_eq in E; lia|]. f_equal.
  rewrite Z.quot_div_nonneg by lia. rewrite Z.rem_mod_nonneg by lia.
  assert (Hr : 0 <= v mod d < d) by (apply Z.mod_pos_bound; lia).
  rewrite Z.quot_div_nonneg by nia.
  rewrite (Z.div_mod v d) at 3 by lia.
  replace ((d * (v / d) + v mod d) * m) with ((v / d * m) * d + v mod d * m) by ring.
  rewrite Z.div_add_l by lia. reflexivity.
Qed.

(* in general (any sign of v) it truncates towards zero like Go's / *)
Lemma mulDiv_quot : forall v m d,
  0 <= m -> 0 < d -> multiplyAndDivide v m d = Ok (Z.quot (v * m) d).
Proof.
  intros v m d Hm Hd.
  destruct (Z_le_gt_dec 0 v) as [Hv|Hv].
  - rewrite mulDiv_floor by lia. rewrite Z.quot_div_nonneg by nia. reflexivity.
  - pose proof (mulDiv_floor (- v) m d ltac:(lia) Hm Hd) as H.
    unfold multiplyAndDivide in *.
    destruct (d =? 0) eqn:E; [apply Z.eqb_eq in E; lia|]. f_equal.
    injection H as H.
    rewrite <- (Z.quot_div_nonneg (- v * m) d) in H by nia.
    remember (- v) as w eqn:Ew. assert (Ev : v = - w) by lia. subst v. clear Ew.
    rewrite Z.quot_opp_l, Z.rem_opp_l by lia.
    replace (- w * m) with (- (w * m)) by ring.
    replace (- Z.rem w d * m) with (- (Z.rem w d * m)) by ring.
    rewrite !Z.quot_opp_l by lia.
    lia.
Qed.

Lemma mulDiv_same : forall v d, d <> 0 -> multiplyAndDivide v d d = Ok v.
Proof.
  intros v d Hd. unfold multiplyAndDivide.
  destruct (d =? 0) eqn:E; [apply Z.eqb_eq in E; lia|]. f_equal.
  rewrite Z.quot_mul by lia.
  pose proof (Z.quot_rem' v d). lia.
Qed.

Lemma mulDiv_panic_iff : forall v m d, multiplyAndDivide v m d = Panic <-> d = 0.
Proof.
  intros. unfold multiplyAndDivide. destruct (d =? 0) eqn:E.
  - apply Z.eqb_eq in E. tauto.
  - apply Z.eqb_neq in E. split; [discriminate|tauto].
Qed.

Lemma mulDiv_ok : forall v m d, d <> 0 -> exists x, multiplyAndDivide v m d = Ok x.
Proof.
  intros. unfold multiplyAndDivide. destruct (d =? 0) eqn:E; [apply Z.eqb_eq in E; lia|]. eauto.
Qed.

Lemma t2d_floor : forall d r, 0 <= d -> 0 < r -> timestampToDuration d r = Ok (d * second / r).
Proof. intros. unfold timestampToDuration. apply mulDiv_floor; unfold second; lia. Qed.

Lemma t2d_quot : forall d r, 0 < r -> timestampToDuration d r = Ok (Z.quot (d * second) r).
Proof. intros. unfold timestampToDuration. apply mulDiv_quot; unfold second; lia. Qed.

Lemma t2d_zero : forall r, r <> 0 -> timestampToDuration 0 r = Ok 0.
Proof.
  intros. unfold timestampToDuration, multiplyAndDivide.
  destruct (r =? 0) eqn:E; [apply Z.eqb_eq in E; lia|].
  rewrite Z.rem_0_l by lia. rewrite Z.mul_0_l. rewrite !Z.quot_0_l by lia. reflexivity.
Qed.

(* truncation loses less than one unit *)
Lemma quot_bounds : forall a d, 0 < d -> a - d < d * Z.quot a d < a + d.
Proof.
  intros a d Hd. pose proof (Z.quot_rem' a d) as E.
  pose proof (Z.rem_bound_abs a d ltac:(lia)) as B. lia.
Qed.

(* ---------- clientTimeConvFMP4.convert ---------- *)
Lemma fmp4_convert_floor : forall B rl v r,
  0 <= B -> 0 < rl -> 0 <= r ->
  fmp4_convert {| leadingTimeScale := rl; leadingBaseTime := B |} v r = Ok (v - B * r / rl).
Proof.
  intros. unfold fmp4_convert. cbn [leadingBaseTime leadingTimeScale].
  rewrite mulDiv_floor by lia. reflexivity.
Qed.

(* on the leading track's own clock the origin is subtracted exactly *)
Lemma fmp4_convert_leading : forall B rl v,
  rl <> 0 ->
  fmp4_convert {| leadingTimeScale := rl; leadingBaseTime := B |} v rl = Ok (v - B).
Proof.
  intros. unfold fmp4_convert. cbn [leadingBaseTime leadingTimeScale].
  rewrite mulDiv_same by lia. reflexivity.
Qed.

(* delivered time = container time minus the origin, rounded UP by less than one tick:
   0 <= d/r - (c/r - B/rl) < 1/r, with denominators cleared *)
Lemma convert_origin_error : forall B rl c r,
  0 <= B -> 0 < rl -> 0 < r ->
  let d := c - B * r / rl in
  0 <= d * rl - (c * rl - B * r) < rl.
Proof.
  intros B rl c r HB Hrl Hr d. subst d.
  pose proof (Z.mul_div_le (B * r) rl Hrl).
  pose proof (Z.mul_succ_div_gt (B * r) rl Hrl). nia.
Qed.

(* cross-track synchronisation: for units of two tracks with clock rates r1, r2, container
   times c1, c2 and delivered times d1, d2, the delivered offset d1/r1 - d2/r2 differs from
   the container offset c1/r1 - c2/r2 by less than one tick of the coarser clock *)
Lemma convert_sync : forall B rl r1 r2 c1 c2,
  0 <= B -> 0 < rl -> 0 < r1 -> 0 < r2 ->
  let d1 := c1 - B * r1 / rl in
  let d2 := c2 - B * r2 / rl in
  - r1 < (d1 - c1) * r2 - (d2 - c2) * r1 < r2.
Proof.
  intros B rl r1 r2 c1 c2 HB Hrl H1 H2 d1 d2. subst d1 d2.
  pose proof (Z.mul_div_le (B * r1) rl Hrl).
  pose proof (Z.mul_succ_div_gt (B * r1) rl Hrl).
  pose proof (Z.mul_div_le (B * r2) rl Hrl).
  pose proof (Z.mul_succ_div_gt (B * r2) rl Hrl).
  set (q1 := B * r1 / rl) in *. set (q2 := B * r2 / rl) in *.
  assert (rl * (q2 * r1 - q1 * r2) < rl * r2) by nia.
  assert (rl * (- r1) < rl * (q2 * r1 - q1 * r2)) by nia.
  nia.
Qed.

(* equal container instants (c1/r1 = c2/r2) are delivered less than one coarser tick apart *)
Lemma convert_sync_equal : forall B rl r1 r2 c1 c2,
  0 <= B -> 0 < rl -> 0 < r1 -> 0 < r2 ->
  c1 * r2 = c2 * r1 ->
  let d1 := c1 - B * r1 / rl in
  let d2 := c2 - B * r2 / rl in
  Z.abs (d1 * r2 - d2 * r1) < Z.max r1 r2.
Proof.
  intros B rl r1 r2 c1 c2 HB Hrl H1 H2 E d1 d2.
  pose proof (convert_sync B rl r1 r2 c1 c2 HB Hrl H1 H2) as S. cbv zeta in S.
  subst d1 d2. lia.
Qed.

(* ---------- NTP extrapolation: the exact formula and its distance from the ideal ---------- *)
(* fMP4: for a unit [cum] ticks into a part track whose converted base is [pd], with the anchor
   (value V, timestamp T in clock R) :  ntp = V + t2d(pd - mulDiv(T, r, R)) + t2d(cum) *)
Lemma fmp4_ntp_formula : forall V T R pd cum r,
  0 < r -> 0 < R ->
  exists x a b,
    multiplyAndDivide T r R = Ok x /\
    timestampToDuration (pd - x) r = Ok a /\
    timestampToDuration cum r = Ok b /\
    fmp4_getNTP (fmp4_setNTP V T R) pd r = Ok (Some (V + a)) /\
    (* the value process() attaches to the unit *)
    bind (timestampToDuration ((pd + cum) - pd) r) (fun d => Ok (Some (V + a + d))) = Ok (Some (V + a + b)).
Proof.
  intros V T R pd cum r Hr HR.
  destruct (mulDiv_ok T r R ltac:(lia)) as [x Hx].
  destruct (mulDiv_ok (pd - x) second r ltac:(lia)) as [a Ha].
  destruct (mulDiv_ok cum second r ltac:(lia)) as [b Hb].
  exists x, a, b. unfold timestampToDuration. repeat split; auto.
  - unfold fmp4_getNTP, fmp4_setNTP. cbn [ntpAvailable negb ntpTimestamp ntpClockRate ntpValue].
    rewrite Hx. cbn [bind]. unfold timestampToDuration. rewrite Ha. reflexivity.
  - replace (pd + cum - pd) with cum by ring. rewrite Hb. reflexivity.
Qed.

(* Envelope. L = container base time of the anchor segment's first leading part track,
   B = origin, both in the leading clock rl; the anchor timestamp is T = L - B (clock rl).
   A unit of a track with clock r at container time c = base + cum is stamped
       ntp = DT + quot((base - floor(B r/rl) - floor((L-B) r/rl)) * 1e9, r) + quot(cum * 1e9, r)
   and the ideal value is DT + (c/r - L/rl) s. With denominators cleared (multiply by r*rl):
       -2 ns < ntp - ideal < 2 ticks of r + 2 ns *)
Lemma fmp4_ntp_envelope : forall B L rl r base cum,
  0 <= B -> B <= L -> 0 < rl -> 0 < r ->
  let pd := base - B * r / rl in
  let x := (L - B) * r / rl in
  let off := Z.quot ((pd - x) * second) r + Z.quot (cum * second) r in
  let ideal_num := second * ((base + cum) * rl - L * r) in     (* ideal offset * r * rl, in ns *)
  - 2 * r * rl < off * r * rl - ideal_num < 2 * second * rl + 2 * r * rl.
Proof.
  intros B L rl r base cum HB HL Hrl Hr pd x off ideal_num.
  pose proof (Z.mul_div_le (B * r) rl Hrl) as A1.
  pose proof (Z.mul_succ_div_gt (B * r) rl Hrl) as A2.
  pose proof (Z.mul_div_le ((L - B) * r) rl Hrl) as A3.
  pose proof (Z.mul_succ_div_gt ((L - B) * r) rl Hrl) as A4.
  pose proof (quot_bounds ((pd - x) * second) r Hr) as Q1.
  pose proof (quot_bounds (cum * second) r Hr) as Q2.
  set (qa := Z.quot ((pd - x) * second) r) in *.
  set (qb := Z.quot (cum * second) r) in *.
  set (fb := B * r / rl) in *. set (fl := (L - B) * r / rl) in *.
  subst off ideal_num pd x.
  assert (S0 : 0 < second) by (unfold second; lia).
  (* N := base - fb - fl ; rl*N within [rl*base - L*r, rl*base - L*r + 2 rl) *)
  assert (N1 : base * rl - L * r <= (base - fb - fl) * rl) by nia.
  assert (N2 : (base - fb - fl) * rl < base * rl - L * r + 2 * rl) by nia.
  (* r*(qa+qb) within ((N+cum)*second - 2r, (N+cum)*second + 2r) *)
  assert (R1 : ((base - fb - fl) + cum) * second - 2 * r < r * (qa + qb)) by nia.
  assert (R2 : r * (qa + qb) < ((base - fb - fl) + cum) * second + 2 * r) by nia.
  split; nia.
Qed.
