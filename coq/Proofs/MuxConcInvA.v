(* M4 invariants, part A: framing lemmas for the step function, per-requester (local)
   invariants, the mutex-ownership invariant. *)
From Coq Require Import List ZArith Lia Bool String Arith.
From GoHls Require Import Lib.MuxSched Model.MuxConcSeq Model.MuxConcSpec Model.MuxConcPar
  Proofs.MuxConcSeqA Proofs.MuxConcSeqB.
Import ListNotations.
Local Open Scope Z_scope.

Definition reqs_all (P : rstate -> Prop) (c : cstate) : Prop :=
  forall i r, nth_error (c_reqs c) i = Some r -> P r.

(* ---- shape of a requester step ---- *)
Lemma rstep_shape : forall c i,
  (nth_error (c_reqs c) i = None /\ rstep c i = c) \/
  (exists r, nth_error (c_reqs c) i = Some r /\
             rstep c i = with_req c i (fst (lstep (c_mux c) (c_wpc c) (c_progress c) i r (c_owner c)))
                                      (snd (lstep (c_mux c) (c_wpc c) (c_progress c) i r (c_owner c)))).
Proof.
  intros c i. unfold rstep. destruct (nth_error (c_reqs c) i) as [r|] eqn:E; [right|left; auto].
  exists r. split; [reflexivity|]. destruct (lstep _ _ _ _ _ _); reflexivity.
Qed.

Lemma with_req_nth : forall c i r o j x,
  nth_error (c_reqs (with_req c i r o)) j = Some x ->
  (j = i /\ x = r /\ (i < List.length (c_reqs c))%nat) \/ (j <> i /\ nth_error (c_reqs c) j = Some x).
Proof.
  intros c i r o j x H. simpl in H. apply nth_error_upd_nth in H.
  destruct H as [[-> [-> Hl]]|[Hn H]]; [left; auto|right; auto].
Qed.

Lemma with_req_nth_eq : forall c i r o r0,
  nth_error (c_reqs c) i = Some r0 -> nth_error (c_reqs (with_req c i r o)) i = Some r.
Proof.
  intros c i r o r0 H. simpl. apply nth_error_upd_nth_eq. apply nth_error_Some. congruence.
Qed.

Lemma with_req_nth_neq : forall c i r o j,
  j <> i -> nth_error (c_reqs (with_req c i r o)) j = nth_error (c_reqs c) j.
Proof. intros; simpl. apply nth_error_upd_nth_neq. congruence. Qed.

Lemma broadcast_nth : forall rs j x,
  nth_error (broadcast rs) j = Some x -> exists r, nth_error rs j = Some r /\ x = wake r.
Proof. intros rs j x H. unfold broadcast in H. apply nth_error_map_some in H. exact H. Qed.

Lemma broadcast_nth_fwd : forall rs j r,
  nth_error rs j = Some r -> nth_error (broadcast rs) j = Some (wake r).
Proof. intros rs j r H. unfold broadcast. apply map_nth_error. exact H. Qed.

(* the writer's step either keeps the requesters or wakes them *)
Lemma wstep_reqs : forall c, c_reqs (wstep c) = c_reqs c \/ c_reqs (wstep c) = broadcast (c_reqs c).
Proof.
  intros c. unfold wstep. destruct (c_wpc c); simpl; auto.
  - destruct (c_prog c) as [|[| | |] rest]; simpl; auto; destruct (c_owner c); simpl; auto.
  - destruct (apply_wop (c_mux c) o); simpl; auto.
  - destruct (Nat.ltb k (List.length (m_streams (c_mux c)))); simpl; auto.
Qed.

Lemma wake_pc : forall r,
  (exists f, r_pc r = PWaiting f /\ r_pc (wake r) = PWoken f) \/
  ((forall f, r_pc r <> PWaiting f) /\ wake r = r).
Proof.
  intros r. unfold wake. destruct (r_pc r) eqn:E; try (right; split; [intros; discriminate|reflexivity]).
  left. exists f. simpl. auto.
Qed.

Lemma wake_fields : forall r,
  r_req (wake r) = r_req r /\ r_at (wake r) = r_at r /\
  r_stamp (wake r) = r_stamp r /\ r_waits (wake r) = r_waits r.
Proof. intros r; unfold wake; destruct (r_pc r); simpl; auto 10. Qed.

Lemma wake_not_waiting : forall r f, r_pc (wake r) <> PWaiting f.
Proof. intros r f. unfold wake. destruct (r_pc r) eqn:E; simpl; congruence. Qed.

(* ---- per-requester invariants ---- *)
Lemma local_invariant : forall (P : rstate -> Prop),
  (forall m w n i r o, P r -> P (fst (lstep m w n i r o))) ->
  (forall r, P r -> P (wake r)) ->
  forall c t, reqs_all P c -> reqs_all P (step c t).
Proof.
  intros P Hl Hw c t H. unfold step. destruct (c_wpc c) eqn:Ew; try exact H;
  (destruct t as [|i];
   [ intros j x Hj; destruct (wstep_reqs c) as [E|E]; rewrite E in Hj;
     [exact (H j x Hj)|apply broadcast_nth in Hj; destruct Hj as [r [Hr ->]]; apply Hw; exact (H j r Hr)]
   | destruct (rstep_shape c i) as [[_ E]|[r [Hr E]]]; rewrite E; [exact H|];
     intros j x Hj; apply with_req_nth in Hj; destruct Hj as [[-> [-> _]]|[_ Hj]];
     [apply Hl; exact (H i r Hr)|exact (H j x Hj)] ]).
Qed.

Lemma reqs_all_init : forall (P : rstate -> Prop) m prog reqs,
  (forall r, P (req_init r)) -> reqs_all P (cinit m prog reqs).
Proof.
  intros P m prog reqs H i r Hi. simpl in Hi. apply nth_error_map_some in Hi.
  destruct Hi as [x [_ ->]]. apply H.
Qed.

(* frames carry parsed (non-negative) numbers *)
Definition frame_ok (f : frame) : Prop :=
  match f with
  | FBlocking _ msnint P _ => 0 <= msnint /\ (forall p, P = Some p -> 0 <= p)
  | _ => True
  end.

Definition pc_frame_ok (r : rstate) : Prop :=
  match r_pc r with
  | PLock f | PTest f | PWaiting f | PWoken f => frame_ok f
  | _ => True
  end.

Lemma parseMSNPart_nonneg : forall a b x y, parseMSNPart a b = Some (x, y) -> 0 <= x /\ 0 <= y.
Proof.
  intros a b x y H. unfold parseMSNPart in H.
  destruct (is_empty a) eqn:Ea.
  - destruct (is_empty b) eqn:Eb.
    + inversion H; lia.
    + destruct (parseUint b) eqn:E; inversion H; subst. apply parseUint_range in E. lia.
  - destruct (parseUint a) eqn:E1; [|discriminate]. apply parseUint_range in E1.
    destruct (is_empty b) eqn:Eb.
    + inversion H; lia.
    + destruct (parseUint b) eqn:E; inversion H; subst. apply parseUint_range in E. lia.
Qed.

Lemma call_frame_ok : forall m q h f, call m q h = PLock f -> frame_ok f.
Proof.
  intros m q h f H. unfold call in H. destruct h as [[|i|i id|i id|i id]|]; try discriminate;
    try (inversion H; subst; exact I).
  unfold handleMediaPlaylist_pre in H. destruct (m_variant m); try (inversion H; subst; exact I).
  destruct (parseMSNPart _ _) as [[x y]|] eqn:E; [|discriminate].
  destruct (negb (is_empty _)).
  - inversion H; subst. simpl. destruct (parseMSNPart_nonneg _ _ _ _ E) as [A B]. split; [exact A|].
    intros p Hp. destruct (is_empty _); [discriminate|]. inversion Hp; subst. exact B.
  - destruct (negb (is_empty _)); [discriminate|]. inversion H; subst; exact I.
Qed.

Lemma call_pc : forall m q h,
  (exists resp, call m q h = PDone resp) \/ (exists f, call m q h = PLock f).
Proof.
  intros m q h. unfold call. destruct h as [[|i|i id|i id|i id]|]; eauto.
  destruct (handleMediaPlaylist_pre (m_variant m) q); eauto.
Qed.

Lemma lstep_frame_ok : forall m w n i r o, pc_frame_ok r -> pc_frame_ok (fst (lstep m w n i r o)).
Proof.
  intros m w n i r o H. unfold lstep, pc_frame_ok in *.
  destruct (r_pc r) eqn:E; simpl; auto.
  - destruct (call_pc m (req_query (r_req r)) h) as [[resp Ec]|[f Ec]]; rewrite Ec; auto.
    eapply call_frame_ok; eauto.
  - destruct o; simpl; rewrite ?E; auto.
  - destruct (test m (req_query (r_req r)) f); simpl; auto.
  - rewrite E; auto.
  - destruct o; simpl; rewrite ?E; auto.
  - destruct h; exact I.
  - rewrite E; auto.
Qed.

Lemma wake_frame_ok : forall r, pc_frame_ok r -> pc_frame_ok (wake r).
Proof.
  intros r H. destruct (wake_pc r) as [[f [E1 E2]]|[_ E2]]; [|rewrite E2; exact H].
  unfold pc_frame_ok in *. rewrite E1 in H. rewrite E2. exact H.
Qed.

(* ---- the mutex ---- *)
Definition holder (c : cstate) (t : tid) : Prop :=
  match t with
  | TW => w_holds (c_wpc c) = true
  | TR i => exists r, nth_error (c_reqs c) i = Some r /\ r_holds r = true
  end.

Definition mutex_inv (c : cstate) : Prop :=
  (forall t, c_owner c = Some t -> holder c t) /\ (forall t, holder c t -> c_owner c = Some t).

Lemma wake_holds : forall r, r_holds (wake r) = r_holds r.
Proof.
  intros r. destruct (wake_pc r) as [[f [E1 E2]]|[_ E2]]; [|rewrite E2; reflexivity].
  unfold r_holds. rewrite E1, E2. reflexivity.
Qed.

Lemma holder_reqs_ext : forall c c' i,
  (forall j, nth_error (c_reqs c') j = nth_error (c_reqs c) j) ->
  holder c (TR i) -> holder c' (TR i).
Proof. intros c c' i H [r [Hr Hh]]. exists r. rewrite H. auto. Qed.

(* what a requester step does to "holds" and to the owner *)
Lemma lstep_mutex : forall m w n i r o r' o',
  lstep m w n i r o = (r', o') ->
  (* the requester holds and keeps the owner field *)
  (r_holds r = true /\ r_holds r' = true /\ o' = o) \/
  (* releases *)
  (r_holds r = true /\ r_holds r' = false /\ o' = None) \/
  (* acquires *)
  (r_holds r = false /\ r_holds r' = true /\ o = None /\ o' = Some (TR i)) \/
  (* not involved *)
  (r_holds r = false /\ r_holds r' = false /\ o' = o).
Proof.
  intros m w n i r o r' o' H. unfold lstep in H. unfold r_holds. destruct (r_pc r) eqn:E.
  - inversion H; subst; simpl. right; right; right; auto.
  - inversion H; subst; simpl.
    destruct (call_pc m (req_query (r_req r)) h) as [[resp Ec]|[f Ec]]; rewrite Ec; right; right; right; auto.
  - destruct o; inversion H; subst; simpl.
    + rewrite E. right; right; right; auto.
    + right; right; left; auto.
  - destruct (test m (req_query (r_req r)) f); inversion H; subst; simpl; auto 6.
  - inversion H; subst r' o'. rewrite E. right; right; right; auto.
  - destruct o; inversion H; subst; simpl.
    + rewrite E. right; right; right; auto.
    + right; right; left; auto.
  - inversion H; subst; simpl. right; left; auto.
  - inversion H; subst; simpl. right; left. split; [reflexivity|]. split; [|reflexivity].
    unfold hint_call. destruct h; reflexivity.
  - inversion H; subst r' o'. rewrite E. right; right; right; auto.
Qed.

Lemma mutex_inv_rstep : forall c i, mutex_inv c -> mutex_inv (rstep c i).
Proof.
  intros c i [I1 I2].
  destruct (rstep_shape c i) as [[_ E]|[r [Hr E]]]; rewrite E; [split; assumption|].
  destruct (lstep (c_mux c) (c_wpc c) (c_progress c) i r (c_owner c)) as [r' o'] eqn:El; simpl fst; simpl snd.
  pose proof (lstep_mutex _ _ _ _ _ _ _ _ El) as Hm.
  assert (Hw : w_holds (c_wpc c) = true -> c_owner c = Some TW) by (intros; apply (I2 TW); assumption).
  assert (Hi : r_holds r = true -> c_owner c = Some (TR i)) by (intros; apply (I2 (TR i)); exists r; auto).
  assert (Hoi : c_owner c = Some (TR i) -> r_holds r = true)
    by (intros Ho; destruct (I1 _ Ho) as [x [Hx Hh]]; congruence).
  assert (Hoth : forall j x, j <> i -> nth_error (c_reqs c) j = Some x -> r_holds x = true ->
                 c_owner c = Some (TR j)) by (intros j x _ Hx Hh; apply (I2 (TR j)); exists x; auto).
  split.
  - intros t Ht. simpl c_owner in Ht. destruct t as [|j]; unfold holder.
    + destruct Hm as [[A [B C]]|[[A [B C]]|[[A [B [C D]]]|[A [B C]]]]]; subst o'; try discriminate.
      * apply (I1 TW); assumption.
      * apply (I1 TW); assumption.
    + destruct (Nat.eq_dec j i) as [->|Hn].
      * exists r'. split; [apply (with_req_nth_eq c i r' o' r Hr)|].
        destruct Hm as [[A [B C]]|[[A [B C]]|[[A [B [C D]]]|[A [B C]]]]]; subst o'; auto; try discriminate.
        rewrite (Hoi Ht) in A; discriminate.
      * destruct Hm as [[A [B C]]|[[A [B C]]|[[A [B [C D]]]|[A [B C]]]]]; subst o'; try discriminate.
        -- destruct (I1 _ Ht) as [x [Hx Hh]]. exists x. rewrite with_req_nth_neq by auto. auto.
        -- inversion Ht; congruence.
        -- destruct (I1 _ Ht) as [x [Hx Hh]]. exists x. rewrite with_req_nth_neq by auto. auto.
  - intros t Ht. simpl c_owner. destruct t as [|j]; unfold holder in Ht.
    + pose proof (Hw Ht) as Ho.
      destruct Hm as [[A [B C]]|[[A [B C]]|[[A [B [C D]]]|[A [B C]]]]]; subst o'; auto.
      * rewrite (Hi A) in Ho; discriminate.
      * congruence.
    + destruct Ht as [x [Hx Hh]]. apply with_req_nth in Hx. destruct Hx as [[-> [-> _]]|[Hn Hx]].
      * destruct Hm as [[A [B C]]|[[A [B C]]|[[A [B [C D]]]|[A [B C]]]]]; subst o'; auto; try congruence.
      * pose proof (Hoth j x Hn Hx Hh) as Hoj.
        destruct Hm as [[A [B C]]|[[A [B C]]|[[A [B [C D]]]|[A [B C]]]]]; subst o'; auto; try congruence.
        rewrite (Hi A) in Hoj; congruence.
Qed.

Lemma mutex_inv_wstep : forall c, c_wpc c <> WCrashed -> mutex_inv c -> mutex_inv (wstep c).
Proof.
  intros c Hnc [I1 I2]. unfold wstep. destruct (c_wpc c) eqn:Ew.
  - (* WIdle *)
    destruct (c_prog c) as [|o rest]; [split; assumption|].
    assert (Hnone : c_owner c = None -> forall t, ~ holder c t) by (intros Ho t Ht; rewrite (I2 t Ht) in Ho; discriminate).
    assert (G : forall w', w_holds w' = true ->
              c_owner c = None -> mutex_inv (mk (c_mux c) (Some TW) w' rest (c_reqs c) (c_progress c))).
    { intros w' Hw' Ho. split.
      - intros t Ht. simpl in Ht. inversion Ht; subst. exact Hw'.
      - intros [|j] Ht; [reflexivity|]. exfalso. apply (Hnone Ho (TR j)). exact Ht. }
    assert (Hc : mutex_inv c) by (split; assumption).
    destruct o.
    + split; intros [|j] Ht; simpl in *.
      * apply I1 in Ht. simpl in Ht. rewrite Ew in Ht. exact Ht.
      * apply (I1 (TR j)). exact Ht.
      * discriminate.
      * apply (I2 (TR j)). exact Ht.
    + destruct (c_owner c) eqn:Eo; [exact Hc|]. apply G; auto.
    + destruct (c_owner c) eqn:Eo; [exact Hc|]. apply G; auto.
    + destruct (c_owner c) eqn:Eo; [exact Hc|]. apply G; auto.
  - (* WLocked *)
    assert (Ho : c_owner c = Some TW) by (apply (I2 TW); simpl; rewrite Ew; reflexivity).
    destruct (apply_wop (c_mux c) o); (split; intros [|j] Ht; simpl in *;
      [reflexivity| rewrite Ho in Ht; discriminate | exact Ho | apply (I2 (TR j)); exact Ht]).
  - (* WRotated *)
    assert (Ho : c_owner c = Some TW) by (apply (I2 TW); simpl; rewrite Ew; reflexivity).
    split; intros [|j] Ht; simpl in *; try discriminate.
    pose proof (I2 (TR j) Ht). congruence.
  - (* WUnlocked: broadcast *)
    split; intros [|j] Ht; simpl in *.
    + apply I1 in Ht. simpl in Ht. rewrite Ew in Ht. discriminate.
    + destruct (I1 _ Ht) as [x [Hx Hh]]. exists (wake x). split; [apply broadcast_nth_fwd; exact Hx|].
      rewrite wake_holds; exact Hh.
    + discriminate.
    + destruct Ht as [x [Hx Hh]]. apply broadcast_nth in Hx. destruct Hx as [r [Hr ->]].
      rewrite wake_holds in Hh. apply (I2 (TR j)). exists r; auto.
  - (* CLocked *)
    assert (Ho : c_owner c = Some TW) by (apply (I2 TW); simpl; rewrite Ew; reflexivity).
    split; intros [|j] Ht; simpl in *;
      [reflexivity| rewrite Ho in Ht; discriminate | exact Ho | apply (I2 (TR j)); exact Ht].
  - (* CSet *)
    assert (Ho : c_owner c = Some TW) by (apply (I2 TW); simpl; rewrite Ew; reflexivity).
    split; intros [|j] Ht; simpl in *; try discriminate.
    pose proof (I2 (TR j) Ht). congruence.
  - (* CUnlocked: broadcast *)
    split; intros [|j] Ht; simpl in *.
    + apply I1 in Ht. simpl in Ht. rewrite Ew in Ht. discriminate.
    + destruct (I1 _ Ht) as [x [Hx Hh]]. exists (wake x). split; [apply broadcast_nth_fwd; exact Hx|].
      rewrite wake_holds; exact Hh.
    + discriminate.
    + destruct Ht as [x [Hx Hh]]. apply broadcast_nth in Hx. destruct Hx as [r [Hr ->]].
      rewrite wake_holds in Hh. apply (I2 (TR j)). exists r; auto.
  - (* CStreams *)
    destruct (Nat.ltb k (List.length (m_streams (c_mux c)))); (split; intros [|j] Ht; simpl in *;
      [ apply I1 in Ht; simpl in Ht; rewrite Ew in Ht; discriminate
      | apply (I1 (TR j)); exact Ht | discriminate | apply (I2 (TR j)); exact Ht ]).
  - (* WFinished *) split; assumption.
  - congruence.
Qed.

Lemma mutex_inv_step : forall c t, mutex_inv c -> mutex_inv (step c t).
Proof.
  intros c t I. unfold step.
  destruct (c_wpc c) eqn:Ew; try exact I;
    (destruct t as [|i]; [apply mutex_inv_wstep; [congruence|exact I]|apply mutex_inv_rstep; exact I]).
Qed.

Lemma mutex_inv_init : forall m prog reqs, mutex_inv (cinit m prog reqs).
Proof.
  intros m prog reqs. split.
  - intros t H. discriminate.
  - intros [|j] H; simpl in H; [discriminate|]. destruct H as [r [Hr Hh]].
    apply nth_error_map_some in Hr. destruct Hr as [x [_ ->]]. discriminate.
Qed.
