(* C15, grammar, tag level: every attribute-list tag Marshal prints for a valid value is
   "#TAG:" ++ NAME=value[,NAME=value]* ++ "\n" with a non-empty list, names free of '=' and
   blanks, quoted values free of quotes, unquoted values free of commas, nothing containing
   CR or LF. *)
From Coq Require Import List ZArith Bool String Ascii Lia.
From GoHls Require Import Model.PlaylistBase Model.Playlist Model.PlaylistSpec
  Proofs.PlaylistStr Proofs.PlaylistNum Proofs.PlaylistAttrs Proofs.PlaylistTags Proofs.PlaylistTagsMulti.
Import ListNotations.
Local Open Scope string_scope.
Local Open Scope Z_scope.

(* a printed tag line is a well-formed attribute list *)
Definition attr_line (pfx line : string) : Prop :=
  exists l, l <> [] /\ forallb attr_ok2 l = true /\ line = pfx ++ render_attrs l ++ lf.

Section WithOracles.
Variable orc : oracles.
Hypothesis OK : oracle_ok orc.

Theorem tag_lines_are_attribute_lists :
  (forall t, dur_signed (st_timeoffset t) = true -> attr_line "#EXT-X-START:" (start_marshal orc t))
  /\ (forall t, dur_pos (pi_parttarget t) = true -> attr_line "#EXT-X-PART-INF:" (part_inf_marshal orc t))
  /\ (forall t, wf_map t = true -> attr_line "#EXT-X-MAP:" (map_marshal t))
  /\ (forall t, wf_key t = true -> attr_line "#EXT-X-KEY:" (key_marshal t))
  /\ (forall t, int31 (sk_skipped t) = true -> attr_line "#EXT-X-SKIP:" (skip_marshal t))
  /\ (forall t, wf_part t = true -> attr_line "#EXT-X-PART:" (part_marshal orc t))
  /\ (forall t, wf_hint t = true -> attr_line "#EXT-X-PRELOAD-HINT:" (preload_hint_marshal t))
  /\ (forall t, wf_rendition t = true -> attr_line "#EXT-X-MEDIA:" (rendition_marshal t))
  /\ (forall t, wf_variant t = true ->
        exists l, l <> [] /\ forallb attr_ok2 l = true
                  /\ variant_marshal orc t = "#EXT-X-STREAM-INF:" ++ render_attrs l ++ lf ++ v_uri t ++ lf)
  /\ (forall t, wf_server_control t = true ->
        attr_line "#EXT-X-SERVER-CONTROL:" (server_control_marshal orc t)).
Proof.
  repeat split; intros t H.
  - exists (start_attrs orc t). split; [discriminate|]. split; [apply start_attrs_ok; auto|apply start_marshal_render].
  - exists (part_inf_attrs orc t). split; [discriminate|]. split; [apply part_inf_attrs_ok; auto|apply part_inf_marshal_render].
  - exists (map_attrs t). split; [discriminate|]. split; [apply map_attrs_ok; auto|apply map_marshal_render].
  - exists (key_attrs t). split; [unfold key_attrs; destruct (String.eqb (k_method t) "NONE"); discriminate|].
    split; [apply key_attrs_ok; auto|apply key_marshal_render].
  - exists (skip_attrs t). split; [discriminate|]. split; [apply skip_attrs_ok; auto|apply skip_marshal_render].
  - exists (part_attrs orc t). split; [discriminate|]. split; [apply part_attrs_ok; auto|apply part_marshal_render].
  - exists (hint_attrs t). split; [discriminate|]. split; [apply hint_attrs_ok; auto|apply hint_marshal_render].
  - exists (rendition_attrs t). split; [discriminate|]. split; [apply rendition_attrs_ok; auto|apply rendition_marshal_render].
  - exists (variant_attrs orc t). split; [discriminate|]. split; [apply variant_attrs_ok; auto|apply variant_marshal_render].
  - exists (sc_attrs orc t). split; [|split; [apply sc_attrs_ok; auto|apply server_control_marshal_render]].
    unfold wf_server_control in H. split_and H. unfold sc_attrs, opt_list.
    destruct (sc_canblockreload t), (sc_partholdback t), (sc_canskipuntil t); discriminate.
Qed.

End WithOracles.
