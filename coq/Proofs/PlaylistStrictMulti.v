(* C15, strict grammar, playlist level (Multivariant): the strict recogniser accepts Marshal
   output of every multivariant playlist value satisfying wf_multivariant and strict_multivariant. *)
From Coq Require Import List ZArith Bool String Ascii Lia.
From GoHls Require Import Model.PlaylistBase Model.Playlist Model.PlaylistSpec Model.PlaylistStrict
  Model.PlaylistStrictSpec Proofs.PlaylistStr Proofs.PlaylistNum Proofs.PlaylistAttrs Proofs.PlaylistTags
  Proofs.PlaylistTagsMulti Proofs.PlaylistMedia Proofs.PlaylistStrictLex Proofs.PlaylistStrictTags
  Proofs.PlaylistStrictLines Proofs.PlaylistStrictMedia.
Import ListNotations.
Local Open Scope string_scope.
Local Open Scope Z_scope.

Local Arguments fmt_int : simpl never.

Ltac incl_tac := let x := fresh in let H := fresh in intros x H; cbn in H |- *; intuition.

(* between two lines of a multivariant playlist: nothing pending, no media tag seen *)
Definition MU (seen : list string) (su : bool) : sstate -> Prop :=
  st_inv seen [] false false false false su.

Lemma MU_weaken seen seen' su st : incl seen seen' -> MU seen su st -> MU seen' su st.
Proof. intros H. apply st_inv_weaken; [exact H|apply incl_refl]. Qed.

Lemma AccU_tag_value seen su name v rest :
  tag_spec name = Some (spec_of name) -> String.eqb name "EXTM3U" = false ->
  is_media_class (t_class (spec_of name)) = false -> t_perseg (spec_of name) = false ->
  String.eqb name "EXT-X-TARGETDURATION" = false ->
  has_prefix "EXT" name = true -> no_byte ":" name = true -> no_crlf name = true -> no_crlf v = true ->
  (t_once (spec_of name) = true -> ~ In name seen) ->
  value_ok name (spec_of name) (Some v) = (true, false) ->
  Acc (st_inv (if t_once (spec_of name) then name :: seen else seen) [] false false
              (String.eqb name "EXT-X-STREAM-INF") false (su || is_multi_class (t_class (spec_of name)))) rest ->
  Acc (MU seen su) (String "#" (name ++ String ":" v) ++ lf ++ rest).
Proof.
  intros Hs Hn Hm Hps Htd Hpre Hcol Hcn Hcv Ho Hv K.
  eapply Acc_line; [apply name_line_no_crlf; auto| |exact K].
  intros st I.
  rewrite sstep_tag_value; [|apply (i_si _ _ _ _ _ _ _ _ I)|exact Hpre|exact Hcol].
  destruct (inv_tag _ _ _ _ _ _ _ _ _ I Hs Hn Ho ltac:(rewrite Hps; discriminate) Hv) as (st' & Et & I').
  exists st'. split; [exact Et|]. now rewrite Hps, Hm, Htd in I'.
Qed.

Lemma AccU_tag_plain seen su name rest :
  tag_spec name = Some (spec_of name) -> String.eqb name "EXTM3U" = false ->
  is_media_class (t_class (spec_of name)) = false -> t_perseg (spec_of name) = false ->
  String.eqb name "EXT-X-TARGETDURATION" = false ->
  has_prefix "EXT" name = true -> no_byte ":" name = true -> no_crlf name = true ->
  (t_once (spec_of name) = true -> ~ In name seen) ->
  value_ok name (spec_of name) None = (true, false) ->
  Acc (st_inv (if t_once (spec_of name) then name :: seen else seen) [] false false
              (String.eqb name "EXT-X-STREAM-INF") false (su || is_multi_class (t_class (spec_of name)))) rest ->
  Acc (MU seen su) (String "#" name ++ lf ++ rest).
Proof.
  intros Hs Hn Hm Hps Htd Hpre Hcol Hcn Ho Hv K.
  eapply Acc_line; [| |exact K].
  - rewrite no_crlf_string, Hcn. reflexivity.
  - intros st I.
    rewrite sstep_tag_plain; [|apply (i_si _ _ _ _ _ _ _ _ I)|exact Hpre|exact Hcol].
    destruct (inv_tag _ _ _ _ _ _ _ _ _ I Hs Hn Ho ltac:(rewrite Hps; discriminate) Hv) as (st' & Et & I').
    exists st'. split; [exact Et|]. now rewrite Hps, Hm, Htd in I'.
Qed.

Lemma AccU_blank seen su rest : Acc (MU seen su) rest -> Acc (MU seen su) ("" ++ lf ++ rest).
Proof.
  intros K. eapply Acc_line; [reflexivity| |exact K].
  intros st I. exists st. split; [apply sstep_blank, (i_si _ _ _ _ _ _ _ _ I)|exact I].
Qed.

(* the URI line right after EXT-X-STREAM-INF *)
Lemma AccU_uri seen u rest : uri_line_ok u = true -> uri_strict u = true ->
  Acc (MU seen true) rest -> Acc (st_inv seen [] false false true false true) (u ++ lf ++ rest).
Proof.
  intros Hu Hs K. destruct (uri_line_facts _ Hu) as (Hn & _).
  eapply Acc_line; [exact Hn| |exact K].
  intros st I. exists (uri_update st). split; [apply sstep_uri; auto|].
  eapply inv_uri; [exact I|discriminate|reflexivity].
Qed.

Lemma MU_final seen st : MU seen true st -> sfinal st = true.
Proof.
  intros [A B C D E F G H I J]. unfold sfinal. rewrite E, D, F, G, H. cbn [negb andb orb].
  rewrite (J eq_refl).
  assert (M : forall n, mem_str n (s_pending st) = false).
  { intros n. destruct (mem_str n (s_pending st)) eqn:Em; auto. destruct (B n Em). }
  cbn [forallb]. rewrite !M. reflexivity.
Qed.

Section WithOracles.
Variable orc : oracles.
Hypothesis LEX : oracle_lex_ok orc.

Lemma variant_acc seen su v rest : wf_variant v = true -> strict_variant v = true ->
  Acc (MU seen true) rest -> Acc (MU seen su) (variant_marshal orc v ++ rest).
Proof.
  intros Hw Hs K.
  assert (Hu : uri_line_ok (v_uri v) = true) by (unfold wf_variant in Hw; split_and Hw; assumption).
  assert (Hus : uri_strict (v_uri v) = true) by (unfold strict_variant in Hs; split_and Hs; assumption).
  rewrite variant_marshal_render, !app_assoc'.
  apply (AccU_tag_value seen su "EXT-X-STREAM-INF" (render_attrs (variant_attrs orc v))); try tag_side.
  - eapply (attrs_value_no_crlf "EXT-X-STREAM-INF"); [|apply variant_value_ok; eauto]. reflexivity.
  - apply variant_value_ok; auto.
  - simp_params. rewrite orb_true_r. apply AccU_uri; auto.
Qed.

Lemma variants_acc seen rest : forall vs, forallb wf_variant vs = true -> forallb strict_variant vs = true ->
  Acc (MU seen true) rest -> Acc (MU seen true) (String.concat "" (map (variant_marshal orc) vs) ++ rest).
Proof.
  induction vs as [|v vs IH]; intros Hw Hs K; [exact K|].
  cbn [forallb] in Hw, Hs. apply andb_true_iff in Hw as [Hv Hvs]. apply andb_true_iff in Hs as [Sv Svs].
  cbn [map]. rewrite concat_cons, app_assoc'. apply variant_acc; auto.
Qed.

Lemma renditions_acc seen su rest : forall rs, forallb wf_rendition rs = true -> rs <> [] ->
  Acc (MU seen true) rest -> Acc (MU seen su) (String.concat "" (map rendition_marshal rs) ++ rest).
Proof.
  intros rs. revert su. induction rs as [|r rs IH]; intros su Hw Hne K; [congruence|].
  cbn [forallb] in Hw. apply andb_true_iff in Hw as [Hr Hrs].
  cbn [map]. rewrite concat_cons, app_assoc', rendition_marshal_render, !app_assoc'.
  apply (AccU_tag_value seen su "EXT-X-MEDIA" (render_attrs (rendition_attrs r))); try tag_side.
  - eapply (attrs_value_no_crlf "EXT-X-MEDIA"); [|apply rendition_value_ok; eauto]. reflexivity.
  - apply rendition_value_ok; auto.
  - simp_params. rewrite orb_true_r. destruct rs as [|r2 rs2]; [exact K|]. apply IH; auto. discriminate.
Qed.

Theorem marshal_multivariant_strict p : wf_multivariant p = true -> strict_multivariant p = true ->
  strict_ok (multivariant_marshal orc p) = true.
Proof.
  unfold wf_multivariant, strict_multivariant. intros H Hs. split_and H.
  destruct p as [ver indep start variants renditions].
  cbn [mv_version mv_independent mv_start mv_variants mv_renditions] in *.
  assert (Hver : 0 <= ver < 2 ^ 64).
  { assert (A : 0 <= ver) by (apply Z.leb_le; assumption).
    assert (B : ver <= maxSupportedVersion) by (apply Z.leb_le; assumption).
    unfold maxSupportedVersion in B. split; [lia|]. eapply Z.le_lt_trans; [exact B|reflexivity]. }
  assert (Hne : negb (Nat.eqb (List.length variants) 0) = true) by assumption.
  assert (Hvs : forallb wf_variant variants = true) by assumption.
  assert (Hrs : forallb wf_rendition renditions = true) by assumption.
  destruct variants as [|v vs]; [discriminate Hne|].
  cbn [forallb] in Hvs, Hs. apply andb_true_iff in Hvs as [Hv Hvs]. apply andb_true_iff in Hs as [Sv Svs].
  assert (Kend : Acc (MU N3 true) "") by (apply Acc_nil; intros st; apply MU_final).
  assert (Kvars : forall su, Acc (MU N3 su) (String.concat "" (map (variant_marshal orc) (v :: vs)))).
  { intros su. cbn [map]. rewrite concat_cons. apply variant_acc; auto.
    rewrite <- (app_empty_r (String.concat "" (map (variant_marshal orc) vs))). apply variants_acc; auto. }
  set (TV := String.concat "" (map (variant_marshal orc) (v :: vs))) in *.
  assert (Kblank : forall su, Acc (MU N3 su) (lf ++ TV)).
  { intros su. change (lf ++ TV) with ("" ++ lf ++ TV). apply AccU_blank, Kvars. }
  assert (Krend : Acc (MU N3 false)
                      ((if negb (Nat.eqb (List.length renditions) 0)
                        then lf ++ String.concat "" (map rendition_marshal renditions) else "") ++ lf ++ TV)).
  { destruct renditions as [|r rs]; [apply Kblank|]. cbn [List.length Nat.eqb negb].
    rewrite !app_assoc'.
    change (lf ++ String.concat "" (map rendition_marshal (r :: rs)) ++ lf ++ TV)
      with ("" ++ lf ++ String.concat "" (map rendition_marshal (r :: rs)) ++ lf ++ TV).
    apply AccU_blank. apply renditions_acc; [exact Hrs|discriminate|apply Kblank]. }
  set (T3 := (if negb (Nat.eqb (List.length renditions) 0)
              then lf ++ String.concat "" (map rendition_marshal renditions) else "") ++ lf ++ TV) in *.
  assert (Kst : Acc (MU N2 false) (match start with Some t => start_marshal orc t | None => "" end ++ T3)).
  { destruct start as [t|].
    - rewrite start_marshal_render, !app_assoc'.
      apply (AccU_tag_value N2 false "EXT-X-START" (render_attrs (start_attrs orc t))); try tag_side.
      + eapply (attrs_value_no_crlf "EXT-X-START"); [|apply start_value_ok; eauto]. reflexivity.
      + apply start_value_ok; auto.
      + simp_params. exact Krend.
    - eapply Acc_weaken; [|exact Krend]. intros st. apply MU_weaken. incl_tac. }
  set (T2 := match start with Some t => start_marshal orc t | None => "" end ++ T3) in *.
  assert (Kind : Acc (MU N1 false) ((if indep then "#EXT-X-INDEPENDENT-SEGMENTS" ++ lf else "") ++ T2)).
  { destruct indep.
    - rewrite !app_assoc'.
      apply (AccU_tag_plain N1 false "EXT-X-INDEPENDENT-SEGMENTS"); try tag_side.
      simp_params. exact Kst.
    - eapply Acc_weaken; [|exact Kst]. intros st. apply MU_weaken. incl_tac. }
  set (T1 := (if indep then "#EXT-X-INDEPENDENT-SEGMENTS" ++ lf else "") ++ T2) in *.
  assert (Kver : Acc (MU [] false) ("#EXT-X-VERSION:" ++ fmt_int ver ++ lf ++ T1)).
  { apply (AccU_tag_value [] false "EXT-X-VERSION" (fmt_int ver)); try tag_side.
    - apply fmt_int_no_crlf. lia.
    - apply int_value_ok; [reflexivity|exact Hver].
    - simp_params. exact Kind. }
  unfold strict_ok, multivariant_marshal.
  cbn [mv_version mv_independent mv_start mv_variants mv_renditions].
  rewrite lines_of_line by reflexivity.
  fold TV. fold T3. fold T2. fold T1.
  destruct (Kver sstate0 st_inv_0) as (r & Er & Fr).
  rewrite Er, Fr. reflexivity.
Qed.

End WithOracles.
