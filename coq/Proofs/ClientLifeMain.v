(* M8: the theorems of Proofs/ClientLife.v instantiated with the GENERATED table
   (Generated/ClientLifeBlockOps.v) through Proofs/ClientLifeTable.v: table_ok, plus concrete
   executions showing that the hypotheses are satisfiable and the statements not vacuous. *)
From Coq Require Import List Bool Arith Lia String.
From GoHls Require Import Lib.ClientLifeIR Model.ClientLifeOps Model.ClientLife
  Generated.ClientLifeBlockOps Proofs.ClientLifeInv Proofs.ClientLife Proofs.ClientLifeTable.
Import ListNotations.

(* what is assumed of net/http: an operation that carries a request created with the pool
   context (http.Client.Do, io.ReadAll of that response's body) returns when it is cancelled *)
Definition http_honours_ctx (nh : blockop -> bool) : Prop :=
  forall o, carries_pool_request_ctx table o = true -> nh o = true.

Lemma exec_app : forall nh s a b, exec table nh s (a ++ b) = exec table nh (exec table nh s a) b.
Proof. intros. unfold exec. apply fold_left_app. Qed.

Theorem main_one_result : forall nh F sch, let s := exec table nh (init F) sch in
  out s = results (log s)
  /\ List.length (results (log s)) <= 1
  /\ (forall v, rpc s = RSend v -> step table nh s ERunSend <> None)
  /\ (forall v, results (log s) = [v] ->
        match v with
        | RErr e => delivered (log s) = [e]
        | RTerminated => has_close (log s) = true /\ delivered (log s) = []
        end).
Proof. intros nh F sch. apply one_result. Qed.

Theorem main_all_joined : forall nh F sch, let s := exec table nh (init F) sch in
  results (log s) <> [] -> wg s = 0 /\ all_done (gs s) = true.
Proof. intros nh F sch. apply all_joined. Qed.

Theorem main_pool_joins : forall nh, http_honours_ctx nh ->
  forall F sch, let s := exec table nh (init F) sch in
  pctx s = true ->
  (rpc s <> RDone -> exists e, is_close e = false /\ step table nh s e <> None)
  /\ (forall sch2, eff table nh s sch2 + mu (exec table nh s sch2) <= mu s)
  /\ (exists sch2, let s2 := exec table nh s sch2 in
        rpc s2 = RDone /\ List.length sch2 <= mu s /\ List.length (results (log s2)) = 1
        /\ wg s2 = 0 /\ all_done (gs s2) = true).
Proof.
  intros nh HH F sch s P.
  assert (I : inv table s) by (apply inv_exec; apply inv_init).
  split; [|split].
  - intro ND. apply (progress_after_cancel table nh table_ok HH s I P ND).
  - intro sch2. apply bounded_after_cancel. exact P.
  - destruct (terminates_after_cancel table nh table_ok HH (mu s) s (le_n _) I P) as (sch2 & R & L).
    exists sch2. cbv zeta.
    assert (I2 : inv table (exec table nh s sch2)) by (apply inv_exec; exact I).
    pose proof (inv_run _ _ I2) as RI. unfold run_inv in RI. rewrite R in RI.
    destruct RI as (_ & W & v & _ & RES & _).
    repeat split; auto.
    + rewrite RES. reflexivity.
    + apply live_zero_all_done. rewrite <- (inv_wg _ _ I2). exact W.
Qed.

Theorem main_no_callback_after : forall nh F sch, let s := exec table nh (init F) sch in
  no_callback_after_result (log s) = true
  /\ (results (log s) <> [] -> forall g a, step table nh s (EG g a) = None).
Proof.
  intros nh F sch s. split; [apply no_callback_after|].
  intros R g a. apply no_goroutine_step_after_result. exact R.
Qed.

(* an HTTP failure (AFault) / an OnTracks error is offered on the pool's error channel until
   runInner takes it or the pool is cancelled (by an earlier error or by Close); once taken it
   is the result *)
Theorem main_error_surfaced : forall nh F sch g e a,
  a = AFault e \/ a = ACallback CbOnTracks (Some e) ->
  forall s', step table nh (exec table nh (init F) sch) (EG g a) = Some s' ->
  In (LFault g e) (log s')
  /\ forall sch2, let s2 := exec table nh s' sch2 in
       (nth_error (gs s2) g = Some (GSending e) \/ In (LDelivered g e) (log s2) \/ pctx s2 = true)
       /\ (In (LDelivered g e) (log s2) -> forall v, results (log s2) = [v] -> v = RErr e).
Proof.
  intros nh F sch g e a A s' H.
  assert (S : nth_error (gs s') g = Some (GSending e) /\ In (LFault g e) (log s')).
  { destruct A as [-> | ->]; [eapply http_fault_sent|eapply ontracks_error_sent]; eauto. }
  destruct S as [S L]. split; [exact L|]. intros sch2 s2. split.
  - apply sending_persists. exact S.
  - intros D v R.
    assert (E : s2 = exec table nh (init F) (sch ++ [EG g a] ++ sch2)).
    { rewrite !exec_app. simpl. unfold step_or_stay.
      change (ClientLife.step table nh) with (step table nh). rewrite H. reflexivity. }
    rewrite E in D, R. eapply delivered_is_result; eauto.
Qed.

Theorem main_run_thread_enabled : forall nh s,
  (rpc s = RSelect -> cctx s = true -> step table nh s ERunCtx <> None)
  /\ (forall g e, rpc s = RSelect -> nth_error (gs s) g = Some (GSending e) -> step table nh s (ERunRecv g) <> None)
  /\ (forall v, rpc s = RCancel v -> step table nh s ERunCancel <> None).
Proof. intros. apply run_thread_enabled. Qed.

(* ---------- the hypotheses are satisfiable, the statements are not vacuous ---------- *)
Definition nh_all : blockop -> bool := fun _ => true.

Example http_honours_ctx_sat : http_honours_ctx nh_all.
Proof. intros o _. reflexivity. Qed.

(* operations of the generated table, looked up by function and line-independent position *)
Definition op_in (f : string) (n : nat) : blockop :=
  nth n (filter (fun o => String.eqb (bo_func o) f) (g_ops table))
        {| bo_file := ""; bo_func := ""; bo_line := 0; bo_kind := KSleep; bo_held := [] |}.

Definition op_do := op_in "downloadPlaylist" 0.
Definition op_readall := op_in "downloadPlaylist" 1.
Definition op_chtracks := op_in "clientPrimaryDownloader.run" 0.
Definition op_park := op_in "clientStreamDownloader.fillSegmentQueue" 0.

(* the playlist request fails with a bad status: the result is that error, everything joined *)
Definition sched_http_fault : list event :=
  [EG 0 (ACallback CbOther None); EG 0 (AStart op_do); EG 0 (AFault EHttpStatus);
   ERunRecv 0; ERunCancel; EG 0 AWgDone; ERunWait; ERunSend].

Example ex_http_fault :
  let s := exec table nh_all (init 10) sched_http_fault in
  results (log s) = [RErr EHttpStatus] /\ out s = [RErr EHttpStatus] /\ wg s = 0 /\ rpc s = RDone
  /\ eff table nh_all (init 10) sched_http_fault = List.length sched_http_fault.
Proof. vm_compute. repeat split; reflexivity. Qed.

(* Close while the primary downloader waits for the tracks of a stream whose downloader is
   inside http.Client.Do: "terminated", both goroutines woken by the cancellation and joined;
   Close is called twice; a callback happened before, none after *)
Definition sched_close : list event :=
  [EG 0 (AStart op_do); EG 0 AComplete; EG 0 (AStart op_readall); EG 0 AComplete; EG 0 ASpawn;
   EG 0 (AStart op_chtracks); EG 1 (ACallback CbOther None); EG 1 (AStart op_do);
   EClose; ERunCtx; EClose; ERunCancel;
   EG 1 ACancelled; EG 1 (AReturn (Some ETransport)); EG 1 ASendCancelled; EG 1 AWgDone;
   EG 0 ACancelled; EG 0 (AReturn (Some EOther)); EG 0 ASendCancelled; EG 0 AWgDone;
   ERunWait; ERunSend; EG 1 (ACallback CbOther None); ERunSend; EClose].

Example ex_close :
  let s := exec table nh_all (init 10) sched_close in
  results (log s) = [RTerminated] /\ out s = [RTerminated] /\ wg s = 0 /\ all_done (gs s) = true
  /\ List.length (filter is_callback (log s)) = 1.
Proof. vm_compute. repeat split; reflexivity. Qed.

(* a state after the cancellation of the pool with two goroutines still blocked: the hypotheses
   of main_pool_joins hold at a non-trivial reachable state *)
Example ex_pool_joins_hyp :
  let s := exec table nh_all (init 10) (firstn 12 sched_close) in
  pctx s = true /\ rpc s = RWait RTerminated /\ wg s = 2 /\ mu s = 50.
Proof. vm_compute. repeat split; reflexivity. Qed.

(* end of stream: the downloader parks in <-ctx.Done() (an allow-listed operation of the table);
   EOS is delivered, the parked goroutine is woken by the cancellation *)
Definition sched_eos : list event :=
  [EG 0 ASpawn; EG 1 (AStart op_park); EG 1 AComplete; EG 0 (ACallback CbOnTracks None);
   EG 0 (AReturn (Some EEOS)); ERunRecv 0; ERunCancel; EG 1 ACancelled; EG 1 (AReturn (Some EOther));
   EG 1 ASendCancelled; EG 1 AWgDone; EG 0 AWgDone; ERunWait; ERunSend].

Example ex_eos :
  let s := exec table nh_all (init 10) sched_eos in
  results (log s) = [RErr EEOS] /\ wg s = 0
  (* the parked <-ctx.Done() did not complete before the cancellation: event 3 was a stutter *)
  /\ eff table nh_all (init 10) sched_eos = List.length sched_eos - 1.
Proof. vm_compute. repeat split; reflexivity. Qed.

(* OnTracks returns an error *)
Example ex_ontracks :
  let s := exec table nh_all (init 10)
             [EG 0 (ACallback CbOnTracks (Some EOnTracks)); ERunRecv 0; ERunCancel; EG 0 AWgDone; ERunWait; ERunSend] in
  results (log s) = [RErr EOnTracks] /\ wg s = 0.
Proof. vm_compute. repeat split; reflexivity. Qed.
