(* C01, fMP4 variants: the closed form of the leading track's log.
   [offered]: the units a history offers to one track, in writing order - a video access unit unless it is skipped
   before the first random-access one (a function of the track's own earlier units only), every access unit / packet
   of an audio write with the timestamps the code computes.  For the LEADING track the log followed by the look-ahead
   unit is exactly these units (those at or after -10 s), each once, in order, every field but the duration as
   written (+10 s): first for the abstract specification, then - through Proofs/MuxAccount.v - for the muxer model
   along every history of successful writes from Start. *)
From Coq Require Import List ZArith Bool Lia Arith.
From GoHls Require Import Model.Mux Model.MuxSpec Proofs.MuxStream Proofs.MuxLift Proofs.MuxWindow Proofs.MuxHistory Proofs.MuxTimes
  Proofs.MuxMulti Proofs.MuxCut Proofs.MuxLog Proofs.MuxLogStep Proofs.MuxLogTS Proofs.MuxPartIds Proofs.MuxAgree
  Proofs.MuxGroups Proofs.MuxRAStart Proofs.MuxRAHist Proofs.MuxChain Proofs.MuxAccount.
Import ListNotations.
Local Open Scope Z_scope.

(* the units of one audio write (same arithmetic as sp_audio_units / write_audio_units) *)
Fixpoint audio_samples (cf : tcfg) (i pts ntp : Z) (units : list (Z * Z * Z * Z)) : list sample :=
  match units with
  | [] => []
  | x :: units' =>
      let '(upts, untp) :=
        match t_kind cf with
        | OPUS => (pts, ntp)
        | _ => (pts + Z.quot (i * 1024 * t_rate cf) (t_srate cf), ntp + Z.quot (i * 1024 * second) (t_srate cf))
        end in
      {| s_dts := upts; s_ptsoff := 0; s_dur := 0; s_nonsync := false; s_ntp := untp; s_pay := u_id x; s_size := u_fsize x |}
      :: match t_kind cf with
         | OPUS => audio_samples cf (i + 1) (pts + u_opusdur x) (ntp + timestampToDuration (u_opusdur x) 48000) units'
         | _ => audio_samples cf (i + 1) pts ntp units'
         end
  end.

(* what a history offers to track ti; [seen]: a random-access unit of the track has been accepted before *)
Fixpoint offered (cf : tcfg) (ti : nat) (seen : bool) (ops : list wop) : list sample :=
  match ops with
  | [] => []
  | WWrite tj a :: rest =>
      if Nat.eqb tj ti then
        if isVideo (t_kind cf) then
          if sp_video_skipped (t_kind cf) seen a then offered cf ti seen rest
          else video_sample a :: offered cf ti true rest
        else audio_samples cf 0 (a_pts a) (a_ntp a) (a_units a) ++ offered cf ti seen rest
      else offered cf ti seen rest
  end.

Definition on_time (cf : tcfg) (s : sample) : bool := 0 <=? s_dts (sp_incoming cf s).
Definition accepted (cf : tcfg) (l : list sample) : list sample := map (sp_incoming cf) (filter (on_time cf) l).

(* ---- the specification, one track at a time ---- *)
Lemma sp_set_other sp tj op y ti : ti <> tj -> nth_error (sp_trk (sp_set sp tj op y)) ti = nth_error (sp_trk sp) ti.
Proof. intros H. unfold sp_set. cbn [sp_trk]. apply nth_error_upd_other. congruence. Qed.

Lemma sp_unit_other cf ld sp tj smp ti : ti <> tj -> nth_error (sp_trk (sp_unit cf ld sp tj smp)) ti = nth_error (sp_trk sp) ti.
Proof.
  intros H. unfold sp_unit. destruct (nth_error (sp_trk sp) tj) as [x|]; [|reflexivity]. cbv zeta.
  destruct (_ <? 0); [reflexivity|]. destruct (a_pend x); [destruct (negb ld && negb (sp_open sp))|]; now apply sp_set_other.
Qed.

Lemma sp_video_other cf ld sp tj a ti : ti <> tj -> nth_error (sp_trk (sp_video cf ld sp tj a)) ti = nth_error (sp_trk sp) ti.
Proof.
  intros H. unfold sp_video. destruct (nth_error (sp_trk sp) tj) as [x|]; [|reflexivity].
  destruct (sp_video_skipped _ _ _); [reflexivity|]. rewrite sp_unit_other by exact H. now apply sp_set_other.
Qed.

Lemma sp_audio_units_fold cf ld ti units : forall sp i pts ntp,
  sp_audio_units cf ld sp ti i pts ntp units = fold_left (fun s smp => sp_unit cf ld s ti smp) (audio_samples cf i pts ntp units) sp.
Proof.
  induction units as [|x units IH]; intros sp i pts ntp; [reflexivity|].
  cbn [sp_audio_units audio_samples].
  destruct (match t_kind cf with OPUS => (pts, ntp) | _ => _ end) as [upts untp].
  destruct (t_kind cf); cbn [fold_left]; apply IH.
Qed.

Lemma fold_unit_other cf ld tj ti l : ti <> tj -> forall sp,
  nth_error (sp_trk (fold_left (fun s smp => sp_unit cf ld s tj smp) l sp)) ti = nth_error (sp_trk sp) ti.
Proof.
  intros H. induction l as [|s l IH]; intros sp; [reflexivity|]. cbn [fold_left]. rewrite IH. now apply sp_unit_other.
Qed.

(* one unit offered to the leading track *)
Lemma leading_one cf sp ti smp x :
  nth_error (sp_trk sp) ti = Some x ->
  exists x', nth_error (sp_trk (sp_unit cf true sp ti smp)) ti = Some x' /\ a_seen x' = a_seen x
             /\ map core (kept x') = map core (kept x) ++ map core (accepted cf [smp]).
Proof.
  intros Hx. unfold accepted, on_time. cbn [filter].
  destruct (0 <=? s_dts (sp_incoming cf smp)) eqn:E.
  - apply Z.leb_le in E. destruct (spec_unit_conservation cf true sp ti smp x Hx E) as [(x' & A & B & C & _) _].
    exists x'. split; [exact A|]. split; [exact B|]. exact C.
  - apply Z.leb_gt in E. rewrite (spec_unit_negative cf true sp ti smp E). exists x. split; [exact Hx|]. split; [reflexivity|].
    cbn [map]. now rewrite app_nil_r.
Qed.

Lemma accepted_app cf l1 l2 : accepted cf (l1 ++ l2) = accepted cf l1 ++ accepted cf l2.
Proof. unfold accepted. now rewrite filter_app, map_app. Qed.

Lemma leading_many cf ti l : forall sp x,
  nth_error (sp_trk sp) ti = Some x ->
  exists x', nth_error (sp_trk (fold_left (fun s smp => sp_unit cf true s ti smp) l sp)) ti = Some x' /\ a_seen x' = a_seen x
             /\ map core (kept x') = map core (kept x) ++ map core (accepted cf l).
Proof.
  induction l as [|s l IH]; intros sp x Hx.
  - exists x. split; [exact Hx|]. split; [reflexivity|]. cbn. now rewrite app_nil_r.
  - cbn [fold_left]. destruct (leading_one cf sp ti s x Hx) as (x1 & A1 & B1 & C1).
    destruct (IH _ x1 A1) as (x2 & A2 & B2 & C2). exists x2. split; [exact A2|]. split; [congruence|].
    rewrite C2, C1, <- app_assoc, <- map_app. f_equal. f_equal. change (s :: l) with ([s] ++ l). now rewrite accepted_app.
Qed.

Theorem spec_leading_closed_form T0 cf si ti ops : forall sp x,
  nth_error T0 ti = Some (cf, true, si) -> nth_error (sp_trk sp) ti = Some x ->
  exists x', nth_error (sp_trk (sp_run T0 sp ops)) ti = Some x'
             /\ map core (kept x') = map core (kept x) ++ map core (accepted cf (offered cf ti (a_seen x) ops)).
Proof.
  induction ops as [|[tj a] ops IH]; intros sp x HT Hx.
  - exists x. split; [exact Hx|]. cbn. now rewrite app_nil_r.
  - unfold sp_run. cbn [fold_left offered]. fold (sp_run T0 (sp_step T0 sp (WWrite tj a)) ops).
    destruct (Nat.eqb_spec tj ti) as [->|Hne].
    + cbn [sp_step]. rewrite HT.
      destruct (isVideo (t_kind cf)) eqn:Ev.
      * unfold sp_video. rewrite Hx.
        destruct (sp_video_skipped (t_kind cf) (a_seen x) a) eqn:Es; [now apply IH|].
        set (x0 := {| a_seen := true; a_pend := a_pend x; a_log := a_log x |}).
        assert (H0 : nth_error (sp_trk (sp_set sp ti (sp_open sp) x0)) ti = Some x0).
        { unfold sp_set. cbn [sp_trk]. now rewrite (nth_error_upd_same _ ti _ _ Hx). }
        destruct (leading_one cf _ ti (video_sample a) x0 H0) as (x1 & A1 & B1 & C1).
        destruct (IH _ x1 HT A1) as (x2 & A2 & C2). exists x2. split; [exact A2|].
        rewrite C2, C1. change (kept x0) with (kept x). rewrite B1. cbn [a_seen x0].
        rewrite <- app_assoc, <- map_app. f_equal. f_equal.
        change (video_sample a :: offered cf ti true ops) with ([video_sample a] ++ offered cf ti true ops).
        now rewrite accepted_app.
      * rewrite sp_audio_units_fold.
        destruct (leading_many cf ti (audio_samples cf 0 (a_pts a) (a_ntp a) (a_units a)) sp x Hx) as (x1 & A1 & B1 & C1).
        destruct (IH _ x1 HT A1) as (x2 & A2 & C2). exists x2. split; [exact A2|].
        rewrite C2, C1, B1, <- app_assoc, <- map_app, accepted_app. reflexivity.
    + assert (Hk : nth_error (sp_trk (sp_step T0 sp (WWrite tj a))) ti = Some x).
      { cbn [sp_step]. destruct (nth_error T0 tj) as [[[cf' ld'] si']|]; [|exact Hx].
        destruct (isVideo (t_kind cf')).
        - rewrite sp_video_other by congruence. exact Hx.
        - rewrite sp_audio_units_fold, fold_unit_other by congruence. exact Hx. }
      now apply IH.
Qed.

(* ---- ... and for the muxer model, along every history of successful writes from Start ---- *)
Theorem leading_track_closed_form c m0 ops ti cf si :
  start c = Ok m0 -> c_variant c <> MPEGTS -> all_ok m0 ops ->
  nth_error (map tk_static (m_tracks m0)) ti = Some (cf, true, si) ->
  let m := mux_run m0 ops in
  map core (slog m ti ++ pend_list m ti) = map core (accepted cf (offered cf ti false ops)).
Proof.
  intros Hs Hv Hok HT m.
  set (T0 := map tk_static (m_tracks m0)) in *.
  assert (Hlt : (ti < length T0)%nat) by (apply nth_error_Some; congruence).
  destruct (history_accounting c m0 ops Hs Hv Hok ti Hlt) as (A & B & _). fold T0 in A, B. fold m in A, B.
  set (x0 := {| a_seen := false; a_pend := None; a_log := [] |}).
  assert (H0 : nth_error (sp_trk (sp_init (length T0))) ti = Some x0) by (cbn [sp_init sp_trk]; now apply nth_repeat).
  destruct (spec_leading_closed_form T0 cf si ti ops _ x0 HT H0) as (x' & Hx' & Hk).
  unfold sp_log in A. unfold sp_pend in B. rewrite Hx' in A, B.
  unfold pend_list. rewrite A, B. exact Hk.
Qed.

(* non-vacuity: the example history of MuxLogStep.v - three video units were written to the leading track 0 *)
Lemma closed_form_example : exists m0 cf si,
  start ex_cfg = Ok m0 /\ c_variant ex_cfg <> MPEGTS /\ all_ok m0 ex_ops
  /\ nth_error (map tk_static (m_tracks m0)) 0 = Some (cf, true, si)
  /\ map (fun s => (s_pay s, s_dts s)) (accepted cf (offered cf 0 false ex_ops)) = [(11, 900000); (12, 903000); (13, 906000)].
Proof.
  destruct (start ex_cfg) as [m0| |] eqn:E; [|vm_compute in E; discriminate|vm_compute in E; discriminate].
  vm_compute in E. injection E as <-. eexists. eexists. eexists.
  split; [reflexivity|]. split; [discriminate|]. split; [vm_compute; tauto|]. split; [reflexivity|]. vm_compute. reflexivity.
Qed.
