(* MuxAtomic - proofs: the check [atomic_rotation] of Model/MuxAtomic.v is sound for the
   interleaving semantics (every state a playlist handler can read has all streams at the same
   rotation history), and a skeleton shaped like "one critical section per stream" is refuted
   by an exhibited schedule. *)
From Coq Require Import List ZArith Bool String Arith Lia.
From GoHls Require Import Model.MuxAtomic.
Import ListNotations.

(* ------------------------------------------------------------------ lists, upd *)
Lemma nth_error_upd : forall ss i r j,
  nth_error (upd ss i r) j =
  if Nat.eqb j i then option_map (fun h => h ++ [r]) (nth_error ss j) else nth_error ss j.
Proof.
  induction ss as [|h tl IH]; intros i r j.
  - simpl. destruct j; destruct (Nat.eqb _ _); reflexivity.
  - destruct i as [|i]; destruct j as [|j]; simpl; try reflexivity.
    apply IH.
Qed.

Lemma length_upd : forall ss i r, List.length (upd ss i r) = List.length ss.
Proof. induction ss; intros [|i] r; simpl; auto. Qed.

Lemma nth_error_set_nth : forall {A} (l : list A) i x j,
  nth_error (set_nth l i x) j =
  if Nat.eqb j i then (match nth_error l j with Some _ => Some x | None => None end) else nth_error l j.
Proof.
  induction l as [|h tl IH]; intros i x j.
  - simpl. destruct j; destruct (Nat.eqb _ _); reflexivity.
  - destruct i as [|i]; destruct j as [|j]; simpl; try reflexivity.
    apply IH.
Qed.

(* ------------------------------------------------------------------ wsafe *)
Lemma wfinal_app : forall t1 t2 w, wfinal w (t1 ++ t2) = wfinal (wfinal w t1) t2.
Proof. intros. unfold wfinal. apply fold_left_app. Qed.

Lemma wsafe_app : forall t1 t2 w, wsafe w (t1 ++ t2) <-> wsafe w t1 /\ wsafe (wfinal w t1) t2.
Proof.
  induction t1 as [|e t1 IH]; intros t2 w; simpl.
  - tauto.
  - rewrite IH. unfold wfinal. simpl. tauto.
Qed.

Lemma wfinal_len : forall t w, List.length (w_ss (wfinal w t)) = List.length (w_ss w).
Proof.
  induction t as [|e t IH]; intros w; simpl; auto.
  unfold wfinal in *. simpl. rewrite IH. destruct e; simpl; auto using length_upd.
Qed.

(* ------------------------------------------------------------------ boolean equalities *)
Lemma kind_eqb_eq : forall a b, kind_eqb a b = true -> a = b.
Proof. destruct a, b; simpl; congruence. Qed.

Lemma phase_eqb_eq : forall p q, phase_eqb p q = true -> p = q.
Proof.
  destruct p, q; simpl; intros H; try discriminate; auto;
    repeat (apply andb_prop in H; destruct H as [H ?]);
    repeat match goal with
           | H : kind_eqb _ _ = true |- _ => apply kind_eqb_eq in H
           | H : Bool.eqb _ _ = true |- _ => apply eqb_prop in H
           end; subst; auto.
Qed.

Lemma astate_eqb_eq : forall a b, astate_eqb a b = true -> a = b.
Proof.
  intros [h p d] [h' p' d']. unfold astate_eqb. simpl. intros H.
  apply andb_prop in H. destruct H as [H Hd]. apply andb_prop in H. destruct H as [Hh Hp].
  apply eqb_prop in Hh. apply Nat.eqb_eq in Hd. subst.
  destruct p, p'; simpl in Hp; try discriminate; auto.
  apply phase_eqb_eq in Hp. subst. auto.
Qed.

(* ------------------------------------------------------------------ bindO, joins *)
Lemma bindO_in : forall os f r o a, bindO os f = Some r -> In (o, a) os ->
  exists r', f o a = Some r' /\ incl r' r.
Proof.
  induction os as [|[o0 a0] tl IH]; intros f r o a H Hin; simpl in *.
  - contradiction.
  - destruct (f o0 a0) as [r0|] eqn:E0; try discriminate.
    destruct (bindO tl f) as [r1|] eqn:E1; try discriminate.
    inversion H; subst. destruct Hin as [Hin|Hin].
    + inversion Hin; subst. exists r0. split; auto. apply incl_appl, incl_refl.
    + destruct (IH f r1 o a E1 Hin) as [r' [Hf Hi]]. exists r'. split; auto.
      apply incl_appr; auto.
Qed.

Lemma join_l : forall x y r, join x y = Some r -> exists a b, x = Some a /\ y = Some b /\ r = a ++ b.
Proof. intros [a|] [b|] r H; simpl in H; try discriminate. inversion H. eauto. Qed.

Lemma joinl_in : forall l k r a, joinl l k = Some r -> In a l -> exists r', k a = Some r' /\ incl r' r.
Proof.
  induction l as [|x tl IH]; intros k r a H Hin; simpl in *.
  - contradiction.
  - apply join_l in H. destruct H as [u [v [Hu [Hv Hr]]]]. subst r. destruct Hin as [->|Hin].
    + exists u. split; auto. apply incl_appl, incl_refl.
    + destruct (IH k v a Hv Hin) as [r' [Hk Hi]]. exists r'. split; auto. apply incl_appr; auto.
Qed.

Lemma forallb_In : forall {A} (f : A -> bool) l x, forallb f l = true -> In x l -> f x = true.
Proof. intros. rewrite forallb_forall in H. auto. Qed.

(* ------------------------------------------------------------------ inversion of the loop analyses *)
Definition loop_cont (air : astate -> option outs) (o : outc) (a' : astate) : option outs :=
  match o with ONormal => Some [] | OBreak => air a' | _ => Some [(o, a')] end.

Lemma loop_cont_in : forall air ob r o a', bindO ob (loop_cont air) = Some r -> In (o, a') ob ->
  (o = OBreak -> exists r', air a' = Some r' /\ incl r' r) /\
  ((o = OReturn \/ o = OCut) -> In (o, a') r).
Proof.
  intros air ob r o a' Hb Hin. destruct (bindO_in _ _ _ _ _ Hb Hin) as [r' [Hf Hi]]. split.
  - intros ->. simpl in Hf. eauto.
  - intros [->| ->]; simpl in Hf; inversion Hf; subst; apply Hi; left; reflexivity.
Qed.

Lemma for_failed_inv : forall aib air a r, for_failed aib air a = Some r ->
  exists ob, aib a = Some ob /\
    (forall a', In (ONormal, a') ob -> a' = a) /\
    (exists ra, air a = Some ra /\ incl ra r) /\
    (forall a', In (OBreak, a') ob -> exists r', air a' = Some r' /\ incl r' r) /\
    (forall o a', (o = OReturn \/ o = OCut) -> In (o, a') ob -> In (o, a') r).
Proof.
  intros aib air a r H. unfold for_failed in H.
  destruct (aib a) as [ob|] eqn:Eb; try discriminate.
  destruct (forallb _ ob) eqn:Ef; try discriminate.
  apply join_l in H. destruct H as [u [v [Hu [Hv Hr]]]]. subst r.
  exists ob. split; auto. split; [|split; [|split]].
  - intros a' Hin. pose proof (forallb_In _ _ _ Ef Hin) as Hx. simpl in Hx. apply astate_eqb_eq; auto.
  - exists u. split; auto. apply incl_appl, incl_refl.
  - intros a' Hin. destruct (loop_cont_in _ _ _ _ _ Hv Hin) as [H1 _].
    destruct (H1 eq_refl) as [r' [Hk Hi]]. exists r'. split; auto. apply incl_appr; auto.
  - intros o a' Ho Hin. destruct (loop_cont_in _ _ _ _ _ Hv Hin) as [_ H2]. apply in_or_app. right; auto.
Qed.

Lemma loop_any_inv : forall aib air a r, loop_any aib air a = Some r ->
  exists ob, aib a = Some ob /\
    (forall a', In (ONormal, a') ob -> a' = a) /\
    (forall a', In (OBreak, a') ob -> exists r', air a' = Some r' /\ incl r' r) /\
    (forall o a', (o = OReturn \/ o = OCut) -> In (o, a') ob -> In (o, a') r).
Proof.
  intros aib air a r H. unfold loop_any in H.
  destruct (aib a) as [ob|] eqn:Eb; try discriminate.
  destruct (forallb _ ob) eqn:Ef; try discriminate.
  exists ob. split; auto. split; [|split].
  - intros a' Hin. pose proof (forallb_In _ _ _ Ef Hin) as Hx. simpl in Hx. apply astate_eqb_eq; auto.
  - intros a' Hin. destruct (loop_cont_in _ _ _ _ _ H Hin) as [H1 _]. auto.
  - intros o a' Ho Hin. destruct (loop_cont_in _ _ _ _ _ H Hin) as [_ H2]. auto.
Qed.

Lemma for_mid_inv : forall aib air a r k ldd,
  for_any aib air a = Some r -> a_ph a = Some (PMid k ldd) ->
  exists rN o1 o2,
    for_failed aib air (a_set_ph a None) = Some rN /\ incl rN r /\
    aib (a_set_ph a (Some (PIter k ldd true false))) = Some o1 /\
    aib (a_set_ph a (Some (PIter k ldd false false))) = Some o2 /\
    (forall a', In (ONormal, a') (o1 ++ o2) ->
       a' = a_set_ph a None \/
       (a_held a' = a_held a /\ a_dn a' = a_dn a /\ iter_done (a_ph a') k ldd = true)) /\
    (forall a', In (OBreak, a') (o1 ++ o2) -> a_ph a' = None /\ exists r', air a' = Some r' /\ incl r' r) /\
    (exists ra, air (a_set_ph a (Some PAgree)) = Some ra /\ incl ra r) /\
    (forall o a', (o = OReturn \/ o = OCut) -> In (o, a') (o1 ++ o2) -> In (o, a') r).
Proof.
  intros aib air a r k ldd H Hp. unfold for_any in H. rewrite Hp in H.
  destruct (for_failed aib air (a_set_ph a None)) as [rN|] eqn:EN; try discriminate.
  destruct (aib (a_set_ph a (Some (PIter k ldd true false)))) as [o1|] eqn:E1; try discriminate.
  destruct (aib (a_set_ph a (Some (PIter k ldd false false)))) as [o2|] eqn:E2; try discriminate.
  destruct (forallb _ (o1 ++ o2)) eqn:Ef; try discriminate.
  apply join_l in H. destruct H as [u [v [Hu [Hv Hr]]]]. inversion Hv; subst v. subst r.
  apply join_l in Hu. destruct Hu as [u1 [u2 [Hu1 [Hu2 Hu]]]]. subst u.
  exists rN, o1, o2. split; [auto|]. split; [apply incl_appr, incl_refl|].
  split; [auto|]. split; [auto|].
  - split; [|split; [|split]].
    + intros a' Hin. pose proof (forallb_In _ _ _ Ef Hin) as Hx. simpl in Hx.
      apply orb_prop in Hx. destruct Hx as [Hx|Hx].
      * left. apply astate_eqb_eq; auto.
      * right. apply andb_prop in Hx. destruct Hx as [Hx H3]. apply andb_prop in Hx. destruct Hx as [H1 H2].
        apply eqb_prop in H1. apply Nat.eqb_eq in H2. auto.
    + intros a' Hin. pose proof (forallb_In _ _ _ Ef Hin) as Hx. simpl in Hx.
      destruct (loop_cont_in _ _ _ _ _ Hu2 Hin) as [H1 _]. destruct (H1 eq_refl) as [r' [Hk Hi]].
      split. { destruct (a_ph a'); [discriminate|reflexivity]. }
      exists r'. split; auto. apply incl_appl, incl_appr; auto.
    + exists u1. split; auto. apply incl_appl, incl_appl, incl_refl.
    + intros o a' Ho Hin. destruct (loop_cont_in _ _ _ _ _ Hu2 Hin) as [_ H2].
      apply in_or_app. left. apply in_or_app. right. auto.
Qed.

Definition pure_exit (a' : astate) : astate :=
  match a_ph a' with Some PPure => a_set_ph a' (Some PAgree) | _ => a' end.

Lemma for_pure_inv : forall aib air a r,
  for_any aib air a = Some r -> a_ph a = Some PPure ->
  exists rN ob,
    for_failed aib air (a_set_ph a None) = Some rN /\ incl rN r /\
    aib a = Some ob /\
    (forall a', In (ONormal, a') ob -> a' = a_set_ph a None \/ a' = a) /\
    (forall a', In (OBreak, a') ob ->
       (a_ph a' = None \/ a_ph a' = Some PPure) /\ exists r', air (pure_exit a') = Some r' /\ incl r' r) /\
    (exists ra, air (a_set_ph a (Some PAgree)) = Some ra /\ incl ra r) /\
    (forall o a', (o = OReturn \/ o = OCut) -> In (o, a') ob -> In (o, a') r).
Proof.
  intros aib air a r H Hp. unfold for_any in H. rewrite Hp in H.
  destruct (for_failed aib air (a_set_ph a None)) as [rN|] eqn:EN; try discriminate.
  destruct (aib a) as [ob|] eqn:E1; try discriminate.
  destruct (forallb _ ob) eqn:Ef; try discriminate.
  apply join_l in H. destruct H as [u [v [Hu [Hv Hr]]]]. inversion Hv; subst v. subst r.
  apply join_l in Hu. destruct Hu as [u1 [u2 [Hu1 [Hu2 Hu]]]]. subst u.
  exists rN, ob. split; [auto|]. split; [apply incl_appr, incl_refl|]. split; [auto|].
  - split; [|split; [|split]].
    + intros a' Hin. pose proof (forallb_In _ _ _ Ef Hin) as Hx. simpl in Hx.
      apply orb_prop in Hx. destruct Hx as [Hx|Hx]; [left|right]; apply astate_eqb_eq; auto.
    + intros a' Hin. pose proof (forallb_In _ _ _ Ef Hin) as Hx. simpl in Hx.
      destruct (bindO_in _ _ _ _ _ Hu2 Hin) as [r' [Hk Hi]]. simpl in Hk.
      split. { destruct (a_ph a') as [[]|]; try discriminate; auto. }
      exists r'. split; auto. apply incl_appl, incl_appr; auto.
    + exists u1. split; auto. apply incl_appl, incl_appl, incl_refl.
    + intros o a' Ho Hin. destruct (bindO_in _ _ _ _ _ Hu2 Hin) as [r' [Hk Hi]].
      apply in_or_app. left. apply in_or_app. right. apply Hi.
      destruct Ho as [-> | ->]; simpl in Hk; inversion Hk; left; reflexivity.
Qed.

(* ------------------------------------------------------------------ partitions of the streams *)
Definition part (ss : list hist) (h : hist) (r : rot) (D : nat -> bool) : Prop :=
  forall j a, nth_error ss j = Some a -> a = if D j then h ++ [r] else h.

Lemma part_const_alleq : forall ss h r D b,
  part ss h r D -> (forall j, j < List.length ss -> D j = b) -> alleq ss.
Proof.
  intros ss h r D b Hp Hd i j x y Hi Hj.
  assert (Li : i < List.length ss) by (apply nth_error_Some; congruence).
  assert (Lj : j < List.length ss) by (apply nth_error_Some; congruence).
  rewrite (Hp _ _ Hi), (Hp _ _ Hj), (Hd _ Li), (Hd _ Lj). reflexivity.
Qed.

Lemma alleq_part : forall ss r, alleq ss -> exists h, part ss h r (fun _ => false).
Proof.
  intros ss r H. destruct ss as [|x tl].
  - exists []. intros j a Hj. destruct j; discriminate.
  - exists x. intros j a Hj. apply (H j 0 a x Hj eq_refl).
Qed.

Lemma part_ext : forall ss h r D D',
  (forall j, j < List.length ss -> D j = D' j) -> part ss h r D -> part ss h r D'.
Proof.
  intros ss h r D D' He Hp j a Hj.
  assert (Lj : j < List.length ss) by (apply nth_error_Some; congruence).
  rewrite <- (He _ Lj). apply Hp; auto.
Qed.

Lemma part_upd : forall ss h r D i,
  part ss h r D -> D i = false -> part (upd ss i r) h r (fun j => D j || (j =? i)).
Proof.
  intros ss h r D i Hp Hd j a Hj. rewrite nth_error_upd in Hj.
  destruct (Nat.eqb j i) eqn:E.
  - apply Nat.eqb_eq in E. subst j. destruct (nth_error ss i) as [x|] eqn:Ex; simpl in Hj; try discriminate.
    inversion Hj; subst a. rewrite (Hp _ _ Ex), Hd. rewrite orb_true_r. reflexivity.
  - rewrite orb_false_r. apply Hp; auto.
Qed.

(* ------------------------------------------------------------------ soundness of the abstract interpretation *)
Section Sound.
  Variables (n ld : nat) (arg : Z).
  Hypothesis ld_lt : ld < n.

  Definition inD_mid (i : nat) (ldd : bool) (j : nat) : bool := (j <? i) || (ldd && (j =? ld)).
  Definition inD_iter (i : nat) (ldd cd : bool) (j : nat) : bool :=
    (j <? i) || (ldd && (j =? ld)) || (cd && (j =? i)).

  Definition phaseG (p : phase) (ss : list hist) (cur : nat) : Prop :=
    match p with
    | PAgree | PPure => alleq ss
    | PLead k => exists h, part ss h (k, arg) (fun j => j =? ld)
    | PMid k ldd => cur <= n /\ exists h, part ss h (k, arg) (inD_mid cur ldd)
    | PIter k ldd cl cd =>
        cur < n /\ cl = (cur =? ld) /\ exists h, part ss h (k, arg) (inD_iter cur ldd cd)
    end.

  Definition G0 (a : astate) (w : wstate) (s : lstate) : Prop :=
    List.length (w_ss w) = n /\ w_held w = a_held a /\ l_failed s = w_failed w /\
    match a_ph a with
    | None => w_failed w = true
    | Some p => w_failed w = false /\ phaseG p (w_ss w) (l_cur s)
    end.

  Definition G (a : astate) (w : wstate) (s : lstate) : Prop := l_dn s = a_dn a /\ G0 a w s.

  Lemma G_failed : forall a w s, G a w s ->
    G (a_set_ph a None) (w_set_failed w) (set_failed s).
  Proof.
    intros a w s [Hd [Hl [Hh [Hf Hp]]]]. repeat split; simpl; auto.
  Qed.

  Lemma G_failed_upd : forall a w s i r, G a w s ->
    G (a_set_ph a None) (w_set_failed (w_upd w i r)) (set_failed s).
  Proof.
    intros a w s i r [Hd [Hl [Hh [Hf Hp]]]]. repeat split; simpl; auto. rewrite length_upd; auto.
  Qed.

  Lemma astep_sound : forall st s ev s1 a l' w,
    atomic_step ld arg st s ev s1 -> astep st a = Some l' -> G a w s ->
    wsafe w ev /\ exists a1, In a1 l' /\ G a1 (wfinal w ev) s1.
  Proof.
    intros st s ev s1 a l' w Hst Ha HG.
    pose proof HG as HG'. destruct HG' as [Hd [Hl [Hh [Hf Hp]]]].
    inversion Hst; subst; simpl in Ha.
    - (* lock *)
      destruct (a_held a) eqn:E; try discriminate. inversion Ha; subst. split.
      + simpl. split; auto; congruence.
      + eexists. split; [left; reflexivity|]. repeat split; simpl; auto; try congruence.
    - (* unlock *)
      destruct (a_held a) eqn:E; simpl in Ha; try discriminate.
      destruct (ph_ok (a_ph a)) eqn:Ek; try discriminate. inversion Ha; subst. split.
      + simpl. split; auto. split; [try congruence; auto|].
        destruct (a_ph a) as [[]|]; simpl in Ek; try discriminate; try (right; tauto). left; auto.
      + eexists. split; [left; reflexivity|]. repeat split; simpl; auto; try congruence.
    - (* defer *)
      inversion Ha; subst. split; [exact I|]. eexists. split; [left; reflexivity|].
      repeat split; simpl; auto.
    - (* mut ok *)
      destruct (a_held a) eqn:E; try discriminate.
      assert (Hw : wsafe w [FMut i (k, arg)]) by (simpl; split; auto; congruence).
      split; auto. unfold wfinal; simpl.
      destruct (a_ph a) as [p|] eqn:Ep.
      + destruct p; try discriminate.
        * (* PAgree *)
          destruct w0; try discriminate. inversion Ha; subst. simpl in H. inversion H; subst i.
          eexists. split; [left; reflexivity|]. destruct Hp as [Hnf Hq]. simpl in Hq.
          repeat split; simpl; auto; try congruence; try (rewrite length_upd; congruence).
          destruct (alleq_part _ (k, arg) Hq) as [h Hh0]. exists h.
          eapply part_ext; [|apply part_upd; [exact Hh0|reflexivity]]. intros; reflexivity.
        * (* PIter *)
          destruct cd; try discriminate. destruct w0; try discriminate.
          destruct (kind_eqb k k0 && negb (cl && ldd)) eqn:Ec; try discriminate.
          inversion Ha; subst. simpl in H. inversion H; subst i.
          apply andb_prop in Ec. destruct Ec as [Ek Ec]. apply kind_eqb_eq in Ek. subst k0.
          eexists. split; [left; reflexivity|]. destruct Hp as [Hnf [Hlt [Hcl [h Hq]]]].
          repeat split; simpl; auto; try congruence; try (rewrite length_upd; congruence).
          exists h. eapply part_ext; [|apply part_upd; [exact Hq|]].
          -- intros j _. unfold inD_iter. simpl. rewrite orb_false_r. reflexivity.
          -- unfold inD_iter. rewrite Nat.ltb_irrefl. simpl. rewrite <- Hcl.
             rewrite andb_comm. rewrite orb_false_r. apply negb_true_iff in Ec. exact Ec.
      + destruct w0; try discriminate; inversion Ha; subst;
          (eexists; split; [left; reflexivity|]; repeat split; simpl; auto; try congruence;
           try (rewrite length_upd; congruence); try (rewrite Ep; auto)).
    - (* mut, fails after mutating *)
      destruct (a_held a) eqn:E; try discriminate.
      split. { simpl. repeat split; auto; congruence. }
      unfold wfinal; simpl.
      assert (HN : G (a_set_ph a None) (w_set_failed (w_upd w i (k, arg))) (set_failed s))
        by (apply G_failed_upd; auto).
      destruct (a_ph a) as [p|] eqn:Ep.
      + destruct p; try discriminate.
        * destruct w0; try discriminate. inversion Ha; subst.
          eexists. split; [right; left; reflexivity|]. exact HN.
        * destruct cd; try discriminate. destruct w0; try discriminate.
          destruct (kind_eqb k k0 && negb (cl && ldd)); try discriminate. inversion Ha; subst.
          eexists. split; [right; left; reflexivity|]. exact HN.
      + assert (a_set_ph a None = a) by (destruct a; simpl in *; subst; reflexivity).
        destruct w0; try discriminate; inversion Ha; subst;
          (eexists; split; [left; reflexivity|]); rewrite <- H0; exact HN.
    - (* mut, fails without mutating *)
      destruct (a_held a) eqn:E; try discriminate.
      split. { simpl. auto. }
      unfold wfinal; simpl.
      assert (HN : G (a_set_ph a None) (w_set_failed w) (set_failed s)) by (apply G_failed; auto).
      destruct (a_ph a) as [p|] eqn:Ep.
      + destruct p; try discriminate.
        * destruct w0; try discriminate. inversion Ha; subst.
          eexists. split; [right; left; reflexivity|]. exact HN.
        * destruct cd; try discriminate. destruct w0; try discriminate.
          destruct (kind_eqb k k0 && negb (cl && ldd)); try discriminate. inversion Ha; subst.
          eexists. split; [right; left; reflexivity|]. exact HN.
      + assert (a_set_ph a None = a) by (destruct a; simpl in *; subst; reflexivity).
        destruct w0; try discriminate; inversion Ha; subst;
          (eexists; split; [left; reflexivity|]); rewrite <- H; exact HN.
    - (* write *)
      destruct (a_held a) eqn:E; try discriminate. inversion Ha; subst. split.
      + simpl. split; auto; congruence.
      + eexists. split; [left; reflexivity|]. exact HG.
    - (* fallible ok *)
      inversion Ha; subst. split; [exact I|]. eexists. split; [left; reflexivity|]. exact HG.
    - (* fallible err *)
      inversion Ha; subst. split; [simpl; auto|]. eexists. split; [right; left; reflexivity|].
      unfold wfinal; simpl. apply G_failed; auto.
    - (* read *)
      destruct (a_held a) eqn:E; try discriminate. inversion Ha; subst. split.
      + simpl. split; auto; congruence.
      + eexists. split; [left; reflexivity|]. exact HG.
    - (* wait *)
      destruct (a_held a) eqn:E; simpl in Ha; try discriminate.
      destruct (ph_ok (a_ph a)) eqn:Ek; try discriminate. inversion Ha; subst. split.
      + simpl. repeat split; auto; try congruence.
        destruct (a_ph a) as [[]|]; simpl in Ek; try discriminate; try (right; tauto). left; auto.
      + eexists. split; [left; reflexivity|]. unfold wfinal; simpl.
        destruct w as [wh wf wss]. unfold w_set_held; simpl in *. subst wh. exact HG.
    - (* note *)
      inversion Ha; subst. split; [exact I|]. eexists. split; [left; reflexivity|]. exact HG.
  Qed.

  (* a body without a streams loop keeps the loop variable *)
  Lemma nn_cur : forall p s t o s', bsl n ld arg p s t o s' -> no_nested true p = true -> l_cur s' = l_cur s.
  Proof.
    induction 1; intros Hn; simpl in *; auto; try discriminate;
      try match goal with Hc : choose _ _ _ _ _ |- _ => inversion Hc; subst; simpl in Hn end;
      try match goal with Hc : atomic_step _ _ _ _ _ _ |- _ =>
            assert (l_cur s1 = l_cur s) by (inversion Hc; subst; reflexivity) end;
      repeat match goal with
             | Hx : _ && _ = true |- _ => apply andb_prop in Hx; destruct Hx
             end;
      repeat match goal with
             | IH : ?P -> l_cur ?x = l_cur ?y |- _ =>
                 let Hx := fresh in
                 assert (Hx : P) by (simpl; repeat (apply andb_true_intro; split); auto);
                 specialize (IH Hx); clear Hx
             end;
      simpl in *; congruence.
  Qed.

  Lemma unl_sound : forall d a a2 w s,
    unl d a = Some a2 -> G0 a w s ->
    wsafe w (repeat FUnlock d) /\ G0 a2 (wfinal w (repeat FUnlock d)) s /\ a_dn a2 = a_dn a.
  Proof.
    induction d as [|d IH]; intros a a2 w s Hu HG; simpl in *.
    - inversion Hu; subst. auto.
    - destruct (a_held a) eqn:E; simpl in Hu; try discriminate.
      destruct (ph_ok (a_ph a)) eqn:Ek; try discriminate.
      destruct HG as [Hl [Hh [Hf Hp]]].
      assert (HG1 : G0 (a_set_held a false) (w_set_held w false) s) by (repeat split; simpl; auto).
      destruct (IH _ _ _ _ Hu HG1) as [Hs [Hg Hdn]]. split; [|split]; auto.
      split; auto. split; [congruence|].
      destruct (a_ph a) as [[]|]; simpl in Ek; try discriminate; try (right; tauto). left; auto.
  Qed.

  Lemma contN_in : forall k os r o a, bindO os (contN k) = Some r -> In (o, a) os ->
    (o = ONormal -> exists r', k a = Some r' /\ incl r' r) /\ (o <> ONormal -> In (o, a) r).
  Proof.
    intros k os r o a Hb Hin. destruct (bindO_in _ _ _ _ _ Hb Hin) as [r' [Hf Hi]].
    split; intros Ho.
    - subst o. simpl in Hf. eauto.
    - destruct o; simpl in Hf; try congruence; inversion Hf; subst; apply Hi; left; reflexivity.
  Qed.

  (* a conditional: the chosen body is analysed from the same abstract state, its Normal outcomes
     continue with rest inside os, the others are in os *)
  Lemma choose_sound : forall p s body rest a os w,
    choose ld p s body rest -> ai p a = Some os -> G a w s ->
    exists ob, ai body a = Some ob /\
      (forall a', In (ONormal, a') ob -> exists r, ai rest a' = Some r /\ incl r os) /\
      (forall o a', o <> ONormal -> In (o, a') ob -> In (o, a') os).
  Proof.
    intros p s body rest a os w Hc Ha HG.
    destruct HG as [Hd [Hl [Hh [Hf Hp]]]].
    assert (SKIP : forall r, ai rest a = Some r -> incl r os ->
       exists ob, ai PDone a = Some ob /\
         (forall a', In (ONormal, a') ob -> exists r, ai rest a' = Some r /\ incl r os) /\
         (forall o a', o <> ONormal -> In (o, a') ob -> In (o, a') os)).
    { intros r Hr Hi. exists [(ONormal, a)]. split; [reflexivity|]. split.
      - intros a' [Hin|[]]. inversion Hin; subst. eauto.
      - intros o a' Ho [Hin|[]]. inversion Hin; subst. congruence. }
    assert (TAKE : forall ob r, bindO ob (contN (ai rest)) = Some r -> incl r os ->
         (forall a', In (ONormal, a') ob -> exists r, ai rest a' = Some r /\ incl r os) /\
         (forall o a', o <> ONormal -> In (o, a') ob -> In (o, a') os)).
    { intros ob r Hbind Hi. split.
      - intros a' Hin. destruct (contN_in _ _ _ _ _ Hbind Hin) as [H1 _].
        destruct (H1 eq_refl) as [r' [Hk Hi']]. exists r'. split; auto. eapply incl_tran; eauto.
      - intros o a' Ho Hin. destruct (contN_in _ _ _ _ _ Hbind Hin) as [_ H2]. apply Hi; auto. }
    inversion Hc; subst; simpl in Ha.
    - (* iferr else *)
      destruct (a_ph a).
      + destruct (ai body a) as [ob|] eqn:Eb; simpl in Ha; try discriminate.
        exists ob. split; [reflexivity|]. eapply TAKE; eauto. apply incl_refl.
      + apply join_l in Ha. destruct Ha as [u [v [Hu [Hv Hr]]]]. subst os.
        destruct (ai body a) as [ob|] eqn:Eb; simpl in Hv; try discriminate.
        exists ob. split; [reflexivity|]. eapply TAKE; eauto. apply incl_appr, incl_refl.
    - (* iferr take *)
      destruct (a_ph a).
      + destruct Hp. congruence.
      + apply join_l in Ha. destruct Ha as [u [v [Hu [Hv Hr]]]]. subst os.
        destruct (ai body a) as [ob|] eqn:Eb; simpl in Hu; try discriminate.
        exists ob. split; [reflexivity|]. eapply TAKE; eauto. apply incl_appl, incl_refl.
    - (* nonleading take *)
      destruct (a_ph a) as [[]|] eqn:Ep; try discriminate.
      + destruct cl.
        * destruct Hp as [_ [_ [Hcl _]]]. symmetry in Hcl. apply Nat.eqb_eq in Hcl. contradiction.
        * destruct (ai body a) as [ob|] eqn:Eb; simpl in Ha; try discriminate.
          exists ob. split; [reflexivity|]. eapply TAKE; eauto. apply incl_refl.
      + apply join_l in Ha. destruct Ha as [u [v [Hu [Hv Hr]]]]. subst os.
        destruct (ai body a) as [ob|] eqn:Eb; simpl in Hu; try discriminate.
        exists ob. split; [reflexivity|]. eapply TAKE; eauto. apply incl_appl, incl_refl.
      + apply join_l in Ha. destruct Ha as [u [v [Hu [Hv Hr]]]]. subst os.
        destruct (ai body a) as [ob|] eqn:Eb; simpl in Hu; try discriminate.
        exists ob. split; [reflexivity|]. eapply TAKE; eauto. apply incl_appl, incl_refl.
    - (* nonleading skip *)
      destruct (a_ph a) as [[]|] eqn:Ep; try discriminate.
      + destruct cl.
        * eapply SKIP; eauto. apply incl_refl.
        * destruct Hp as [_ [_ [Hcl _]]]. symmetry in Hcl. apply Nat.eqb_neq in Hcl. contradiction.
      + apply join_l in Ha. destruct Ha as [u [v [Hu [Hv Hr]]]]. subst os.
        eapply SKIP; eauto. apply incl_appr, incl_refl.
      + apply join_l in Ha. destruct Ha as [u [v [Hu [Hv Hr]]]]. subst os.
        eapply SKIP; eauto. apply incl_appr, incl_refl.
    - (* branch left *)
      apply join_l in Ha. destruct Ha as [u [v [Hu [Hv Hr]]]]. subst os.
      destruct (ai body a) as [ob|] eqn:Eb; simpl in Hu; try discriminate.
      exists ob. split; [reflexivity|]. eapply TAKE; eauto. apply incl_appl, incl_refl.
    - (* branch right *)
      apply join_l in Ha. destruct Ha as [u [v [Hu [Hv Hr]]]]. subst os.
      destruct (ai body a) as [ob|] eqn:Eb; simpl in Hv; try discriminate.
      exists ob. split; [reflexivity|]. eapply TAKE; eauto. apply incl_appr, incl_refl.
  Qed.

  Lemma G0_dn : forall a w s d d', G0 a w s -> G0 (a_set_dn a d) w (set_dn s d').
  Proof. intros a w s d d' H. exact H. Qed.

  Lemma choose_nn : forall p s body rest inl, choose ld p s body rest -> no_nested inl p = true ->
    no_nested inl body = true /\ no_nested inl rest = true.
  Proof.
    intros p s body rest inl Hc Hn. inversion Hc; subst; simpl in Hn;
      repeat match goal with Hx : _ && _ = true |- _ => apply andb_prop in Hx; destruct Hx end;
      split; auto.
  Qed.

  Lemma G_none_cur : forall a w s c, G a w s -> a_ph a = None -> G a w (set_cur s c).
  Proof.
    intros a w s c [Hd [Hl [Hh [Hf Hp]]]] Hn. rewrite Hn in Hp.
    repeat split; simpl; auto. rewrite Hn. auto.
  Qed.

  Lemma enter_sound : forall b a a1 w s, enter_for b a = Some a1 -> G a w s -> G a1 w (set_cur s 0).
  Proof.
    intros b a a1 w s He HG. unfold enter_for in He.
    destruct (a_ph a) as [[]|] eqn:Ep; try discriminate.
    - (* PAgree *)
      destruct HG as [Hd [Hl [Hh [Hf Hp]]]]. rewrite Ep in Hp. destruct Hp as [Hnf Hq]. simpl in Hq.
      destruct (first_mut b) as [k|]; inversion He; subst; repeat split; simpl; auto.
      + lia.
      + destruct (alleq_part _ (k, arg) Hq) as [h Hh0]. exists h.
        eapply part_ext; [|exact Hh0]. intros j _. unfold inD_mid. simpl. reflexivity.
    - (* PLead *)
      inversion He; subst. destruct HG as [Hd [Hl [Hh [Hf Hp]]]]. rewrite Ep in Hp.
      destruct Hp as [Hnf [h Hq]]. repeat split; simpl; auto; try lia.
      exists h. eapply part_ext; [|exact Hq]. intros j _. unfold inD_mid. simpl. reflexivity.
    - inversion He; subst. apply G_none_cur; auto.
  Qed.

  Lemma mid_to_iter : forall a w s k ldd, G a w s -> a_ph a = Some (PMid k ldd) -> l_cur s < n ->
    G (a_set_ph a (Some (PIter k ldd (l_cur s =? ld) false))) w s.
  Proof.
    intros a w s k ldd [Hd [Hl [Hh [Hf Hp]]]] Hm Hlt. rewrite Hm in Hp.
    destruct Hp as [Hnf [Hle [h Hq]]]. repeat split; simpl; auto.
    exists h. eapply part_ext; [|exact Hq]. intros j _. unfold inD_mid, inD_iter. simpl.
    rewrite orb_false_r. reflexivity.
  Qed.

  Lemma iter_to_mid : forall a a' w s1 c k ldd,
    G a' w s1 -> l_cur s1 = c -> a_ph a = Some (PMid k ldd) ->
    a_held a' = a_held a -> a_dn a' = a_dn a -> iter_done (a_ph a') k ldd = true ->
    G a w (set_cur s1 (S c)).
  Proof.
    intros a a' w s1 c k ldd [Hd [Hl [Hh [Hf Hp]]]] Hc Hm Hhe Hdn Hit.
    destruct (a_ph a') as [[]|] eqn:Ep; simpl in Hit; try discriminate.
    apply andb_prop in Hit. destruct Hit as [Hit Hdone]. apply andb_prop in Hit. destruct Hit as [Hk Hl2].
    apply kind_eqb_eq in Hk. apply eqb_prop in Hl2. subst k0 ldd0.
    destruct Hp as [Hnf [Hlt [Hcl [h Hq]]]]. rewrite Hc in *.
    repeat split; simpl; auto; try congruence. rewrite Hm. split; auto. split; [lia|].
    exists h. eapply part_ext; [|exact Hq]. intros j _. unfold inD_mid, inD_iter.
    destruct (Nat.ltb_spec j c); destruct (Nat.ltb_spec j (S c)); try lia; simpl; auto.
    - destruct (Nat.eqb_spec j c); try lia. subst j.
      apply orb_prop in Hdone. destruct Hdone as [->|Hx].
      + rewrite orb_true_r. simpl. destruct (ldd && (c =? ld)); reflexivity.
      + apply andb_prop in Hx. destruct Hx as [-> ->]. simpl. rewrite <- Hcl. reflexivity.
    - destruct (Nat.eqb_spec j c); try lia. rewrite andb_false_r, orb_false_r. reflexivity.
  Qed.

  Lemma mid_exit : forall a w s k ldd, G a w s -> a_ph a = Some (PMid k ldd) -> n <= l_cur s ->
    G (a_set_ph a (Some PAgree)) w s.
  Proof.
    intros a w s k ldd [Hd [Hl [Hh [Hf Hp]]]] Hm Hle. rewrite Hm in Hp.
    destruct Hp as [Hnf [Hle2 [h Hq]]]. repeat split; simpl; auto.
    eapply part_const_alleq with (b := true); [exact Hq|]. intros j Hj. unfold inD_mid.
    destruct (Nat.ltb_spec j (l_cur s)); [reflexivity|lia].
  Qed.

  Lemma pure_exit_G : forall a' w s, G a' w s -> a_ph a' = None \/ a_ph a' = Some PPure -> G (pure_exit a') w s.
  Proof.
    intros a' w s HG [Hp|Hp]; unfold pure_exit; rewrite Hp; auto.
    destruct HG as [Hd [Hl [Hh [Hf Hq]]]]. rewrite Hp in Hq. repeat split; simpl; tauto.
  Qed.

  Lemma pure_to_agree : forall a w s, G a w s -> a_ph a = Some PPure -> G (a_set_ph a (Some PAgree)) w s.
  Proof.
    intros a w s [Hd [Hl [Hh [Hf Hq]]]] Hp. rewrite Hp in Hq. repeat split; simpl; tauto.
  Qed.

  Lemma G_pure_cur : forall a w s c, G a w s -> a_ph a = Some PPure -> G a w (set_cur s c).
  Proof.
    intros a w s c [Hd [Hl [Hh [Hf Hp]]]] Hn. rewrite Hn in Hp.
    repeat split; simpl; auto; try tauto. rewrite Hn. auto.
  Qed.

  Lemma ai_sound : forall p s t o s', bsl n ld arg p s t o s' ->
    forall inl ab os w, no_nested inl p = true -> ai p ab = Some os -> G ab w s ->
    wsafe w t /\ (o <> OCut -> exists a', In (o, a') os /\ G a' (wfinal w t) s').
  Proof.
    induction 1; intros inl ab os w Hn Ha HG.
    - (* done *)
      simpl in Ha. inversion Ha; subst. split; [exact I|]. intros _. exists ab. split; [left; auto|exact HG].
    - (* cut *)
      split; [exact I|]. congruence.
    - (* atomic *)
      simpl in Hn, Ha. destruct (astep a ab) as [l'|] eqn:Es; try discriminate.
      destruct (astep_sound _ _ _ _ _ _ _ H Es HG) as [Hw [a1 [Hin HG1]]].
      destruct (joinl_in _ _ _ _ Ha Hin) as [r' [Hk Hi]].
      destruct (IHbsl _ _ _ _ Hn Hk HG1) as [Hw2 Hex].
      split. { apply wsafe_app; auto. }
      intros Ho. destruct (Hex Ho) as [a' [Hin' HG']]. exists a'. split; [apply Hi; auto|].
      rewrite wfinal_app; auto.
    - (* break *)
      simpl in Ha. inversion Ha; subst. split; [exact I|]. intros _. exists ab. split; [left; auto|exact HG].
    - (* return *)
      simpl in Ha. inversion Ha; subst. split; [exact I|]. intros _. exists ab. split; [left; auto|exact HG].
    - (* cond, body ends normally *)
      destruct (choose_nn _ _ _ _ _ H Hn) as [Hnb Hnr].
      destruct (choose_sound _ _ _ _ _ _ _ H Ha HG) as [ob [Hob [HN HX]]].
      destruct (IHbsl1 _ _ _ _ Hnb Hob HG) as [Hw1 Hex1].
      destruct Hex1 as [a1 [Hin1 HG1]]; [discriminate|].
      destruct (HN _ Hin1) as [r [Hr Hi]].
      destruct (IHbsl2 _ _ _ _ Hnr Hr HG1) as [Hw2 Hex2].
      split. { apply wsafe_app; auto. }
      intros Ho. destruct (Hex2 Ho) as [a' [Hin' HG']]. exists a'. split; [apply Hi; auto|].
      rewrite wfinal_app; auto.
    - (* cond, body leaves *)
      destruct (choose_nn _ _ _ _ _ H Hn) as [Hnb Hnr].
      destruct (choose_sound _ _ _ _ _ _ _ H Ha HG) as [ob [Hob [HN HX]]].
      destruct (IHbsl _ _ _ _ Hnb Hob HG) as [Hw1 Hex1].
      split; auto. intros Ho. destruct (Hex1 Ho) as [a' [Hin' HG']]. exists a'. split; auto.
    - (* fn *)
      simpl in Hn, Ha. apply andb_prop in Hn. destruct Hn as [Hnb Hnr].
      destruct (ai body (a_set_dn ab 0)) as [ob|] eqn:Eb; simpl in Ha; try discriminate.
      assert (HG0 : G (a_set_dn ab 0) w (set_dn s 0)).
      { destruct HG as [Hd HG0]. split; [reflexivity|]. apply G0_dn; auto. }
      destruct (IHbsl1 _ _ _ _ Hnb Eb HG0) as [Hw1 Hex1].
      destruct Hex1 as [a1 [Hin1 HG1]]. { destruct H0; subst; discriminate. }
      destruct (bindO_in _ _ _ _ _ Ha Hin1) as [r' [Hfe Hi]].
      assert (Hfe' : match unl (a_dn a1) a1 with Some a2 => ai rest (a_set_dn a2 (a_dn ab)) | None => None end = Some r').
      { destruct H0; subst; exact Hfe. }
      destruct (unl (a_dn a1) a1) as [a2|] eqn:Eu; try discriminate.
      destruct HG1 as [Hd1 HG1]. destruct (unl_sound _ _ _ _ _ Eu HG1) as [Hwu [HGu Hdn]].
      rewrite <- Hd1 in Hwu, HGu.
      assert (HG2 : G (a_set_dn a2 (a_dn ab)) (wfinal (wfinal w t1) (repeat FUnlock (l_dn s1))) (set_dn s1 (l_dn s))).
      { split; [simpl; destruct HG; auto|]. apply G0_dn; auto. }
      destruct (IHbsl2 _ _ _ _ Hnr Hfe' HG2) as [Hw2 Hex2].
      split. { apply wsafe_app. split; auto. apply wsafe_app. split; auto. }
      intros Ho. destruct (Hex2 Ho) as [a' [Hin' HG']]. exists a'. split; [apply Hi; auto|].
      rewrite !wfinal_app; auto.
    - (* fn cut *)
      simpl in Hn, Ha. apply andb_prop in Hn. destruct Hn as [Hnb Hnr].
      destruct (ai body (a_set_dn ab 0)) as [ob|] eqn:Eb; simpl in Ha; try discriminate.
      assert (HG0 : G (a_set_dn ab 0) w (set_dn s 0)).
      { destruct HG as [Hd HG0]. split; [reflexivity|]. apply G0_dn; auto. }
      destruct (IHbsl _ _ _ _ Hnb Eb HG0) as [Hw1 _]. split; auto. congruence.
    - (* for *)
      simpl in Ha. destruct (enter_for body ab) as [a1|] eqn:Ee; try discriminate.
      apply (IHbsl inl a1 os w); auto. eapply enter_sound; eauto.
    - (* next: done *)
      simpl in Hn, Ha. apply andb_prop in Hn. destruct Hn as [Hn Hnr].
      destruct (a_ph ab) as [ph|] eqn:Ep.
      + destruct ph; try (unfold for_any in Ha; rewrite Ep in Ha; discriminate).
        * destruct (for_mid_inv _ _ _ _ _ _ Ha Ep) as [rN [o1 [o2 [_ [_ [_ [_ [_ [_ [[ra [Hra Hi]] _]]]]]]]]]].
          pose proof (mid_exit _ _ _ _ _ HG Ep H) as HGe.
          destruct (IHbsl _ _ _ _ Hnr Hra HGe) as [Hw Hex]. split; auto.
          intros Ho. destruct (Hex Ho) as [a' [Hin' HG']]. exists a'. split; auto.
        * destruct (for_pure_inv _ _ _ _ Ha Ep) as [rN [ob [_ [_ [_ [_ [_ [[ra [Hra Hi]] _]]]]]]]].
          pose proof (pure_to_agree _ _ _ HG Ep) as HGe.
          destruct (IHbsl _ _ _ _ Hnr Hra HGe) as [Hw Hex]. split; auto.
          intros Ho. destruct (Hex Ho) as [a' [Hin' HG']]. exists a'. split; auto.
      + unfold for_any in Ha. rewrite Ep in Ha.
        destruct (for_failed_inv _ _ _ _ Ha) as [ob [_ [_ [[ra [Hra Hi]] _]]]].
        destruct (IHbsl _ _ _ _ Hnr Hra HG) as [Hw Hex]. split; auto.
        intros Ho. destruct (Hex Ho) as [a' [Hin' HG']]. exists a'. split; auto.
    - (* next: one iteration, then the loop again *)
      pose proof Hn as Hn0. simpl in Hn. apply andb_prop in Hn. destruct Hn as [Hn Hnr].
      apply andb_prop in Hn. destruct Hn as [Hil Hnb].
      pose proof (nn_cur _ _ _ _ _ H0 Hnb) as Hcur.
      pose proof Ha as Ha0. simpl in Ha.
      destruct (a_ph ab) as [ph|] eqn:Ep.
      + destruct ph; try (unfold for_any in Ha; rewrite Ep in Ha; discriminate).
        * (* PMid *)
          destruct (for_mid_inv _ _ _ _ _ _ Ha Ep) as [rN [o1 [o2 [HrN [HiN [E1 [E2 [HNo _]]]]]]]].
          pose proof (mid_to_iter _ _ _ _ _ HG Ep H) as HGi.
          assert (Hb : exists ob, ai body (a_set_ph ab (Some (PIter k ldd (l_cur s =? ld) false))) = Some ob
                                  /\ incl ob (o1 ++ o2)).
          { destruct (l_cur s =? ld); eexists; split; eauto; [apply incl_appl|apply incl_appr]; apply incl_refl. }
          destruct Hb as [ob [Eb Hio]].
          destruct (IHbsl1 _ _ _ _ Hnb Eb HGi) as [Hw1 Hex1].
          destruct Hex1 as [a1 [Hin1 HG1]]; [discriminate|].
          destruct (HNo _ (Hio _ Hin1)) as [HaN|[Hhe [Hdn Hit]]].
          -- (* the iteration failed: go on in failed mode *)
             subst a1.
             assert (HaN : ai (PNext body rest) (a_set_ph ab None) = Some rN) by (simpl; exact HrN).
             assert (HGN : G (a_set_ph ab None) (wfinal w t1) (set_cur s1 (S (l_cur s))))
               by (apply G_none_cur; auto).
             destruct (IHbsl2 _ _ _ _ Hn0 HaN HGN) as [Hw2 Hex2].
             split. { apply wsafe_app; auto. }
             intros Ho. destruct (Hex2 Ho) as [a' [Hin' HG']]. exists a'. split; [apply HiN; auto|].
             rewrite wfinal_app; auto.
          -- pose proof (iter_to_mid _ _ _ _ _ _ _ HG1 Hcur Ep Hhe Hdn Hit) as HGm.
             destruct (IHbsl2 _ _ _ _ Hn0 Ha0 HGm) as [Hw2 Hex2].
             split. { apply wsafe_app; auto. }
             intros Ho. destruct (Hex2 Ho) as [a' [Hin' HG']]. exists a'. split; auto.
             rewrite wfinal_app; auto.
        * (* PPure *)
          destruct (for_pure_inv _ _ _ _ Ha Ep) as [rN [ob [HrN [HiN [Eb [HNo _]]]]]].
          destruct (IHbsl1 _ _ _ _ Hnb Eb HG) as [Hw1 Hex1].
          destruct Hex1 as [a1 [Hin1 HG1]]; [discriminate|].
          destruct (HNo _ Hin1) as [HaN|HaN]; subst a1.
          -- assert (HaN : ai (PNext body rest) (a_set_ph ab None) = Some rN) by (simpl; exact HrN).
             assert (HGN : G (a_set_ph ab None) (wfinal w t1) (set_cur s1 (S (l_cur s))))
               by (apply G_none_cur; auto).
             destruct (IHbsl2 _ _ _ _ Hn0 HaN HGN) as [Hw2 Hex2].
             split. { apply wsafe_app; auto. }
             intros Ho. destruct (Hex2 Ho) as [a' [Hin' HG']]. exists a'. split; [apply HiN; auto|].
             rewrite wfinal_app; auto.
          -- assert (HGN : G ab (wfinal w t1) (set_cur s1 (S (l_cur s)))) by (apply G_pure_cur; auto).
             destruct (IHbsl2 _ _ _ _ Hn0 Ha0 HGN) as [Hw2 Hex2].
             split. { apply wsafe_app; auto. }
             intros Ho. destruct (Hex2 Ho) as [a' [Hin' HG']]. exists a'. split; auto.
             rewrite wfinal_app; auto.
      + unfold for_any in Ha. rewrite Ep in Ha.
        destruct (for_failed_inv _ _ _ _ Ha) as [ob [Eb [HNo _]]].
        destruct (IHbsl1 _ _ _ _ Hnb Eb HG) as [Hw1 Hex1].
        destruct Hex1 as [a1 [Hin1 HG1]]; [discriminate|].
        rewrite (HNo _ Hin1) in HG1.
        assert (HGN : G ab (wfinal w t1) (set_cur s1 (S (l_cur s)))) by (apply G_none_cur; auto).
        destruct (IHbsl2 _ _ _ _ Hn0 Ha0 HGN) as [Hw2 Hex2].
        split. { apply wsafe_app; auto. }
        intros Ho. destruct (Hex2 Ho) as [a' [Hin' HG']]. exists a'. split; auto.
        rewrite wfinal_app; auto.
    - (* next: break *)
      simpl in Hn. apply andb_prop in Hn. destruct Hn as [Hn Hnr].
      apply andb_prop in Hn. destruct Hn as [Hil Hnb]. simpl in Ha.
      assert (K : forall ob, ai body ab = Some ob \/ True -> True) by auto. clear K.
      destruct (a_ph ab) as [ph|] eqn:Ep.
      + destruct ph; try (unfold for_any in Ha; rewrite Ep in Ha; discriminate).
        * destruct (for_mid_inv _ _ _ _ _ _ Ha Ep) as [rN [o1 [o2 [HrN [HiN [E1 [E2 [_ [HBr _]]]]]]]]].
          pose proof (mid_to_iter _ _ _ _ _ HG Ep H) as HGi.
          assert (Hb : exists ob, ai body (a_set_ph ab (Some (PIter k ldd (l_cur s =? ld) false))) = Some ob
                                  /\ incl ob (o1 ++ o2)).
          { destruct (l_cur s =? ld); eexists; split; eauto; [apply incl_appl|apply incl_appr]; apply incl_refl. }
          destruct Hb as [ob [Eb Hio]].
          destruct (IHbsl1 _ _ _ _ Hnb Eb HGi) as [Hw1 Hex1].
          destruct Hex1 as [a1 [Hin1 HG1]]; [discriminate|].
          destruct (HBr _ (Hio _ Hin1)) as [_ [r' [Hr' Hi]]].
          destruct (IHbsl2 _ _ _ _ Hnr Hr' HG1) as [Hw2 Hex2].
          split. { apply wsafe_app; auto. }
          intros Ho. destruct (Hex2 Ho) as [a' [Hin' HG']]. exists a'. split; [apply Hi; auto|].
          rewrite wfinal_app; auto.
        * destruct (for_pure_inv _ _ _ _ Ha Ep) as [rN [ob [HrN [HiN [Eb [_ [HBr _]]]]]]].
          destruct (IHbsl1 _ _ _ _ Hnb Eb HG) as [Hw1 Hex1].
          destruct Hex1 as [a1 [Hin1 HG1]]; [discriminate|].
          destruct (HBr _ Hin1) as [Hph [r' [Hr' Hi]]].
          pose proof (pure_exit_G _ _ _ HG1 Hph) as HGe.
          destruct (IHbsl2 _ _ _ _ Hnr Hr' HGe) as [Hw2 Hex2].
          split. { apply wsafe_app; auto. }
          intros Ho. destruct (Hex2 Ho) as [a' [Hin' HG']]. exists a'. split; [apply Hi; auto|].
          rewrite wfinal_app; auto.
      + unfold for_any in Ha. rewrite Ep in Ha.
        destruct (for_failed_inv _ _ _ _ Ha) as [ob [Eb [_ [_ [HBr _]]]]].
        destruct (IHbsl1 _ _ _ _ Hnb Eb HG) as [Hw1 Hex1].
        destruct Hex1 as [a1 [Hin1 HG1]]; [discriminate|].
        destruct (HBr _ Hin1) as [r' [Hr' Hi]].
        destruct (IHbsl2 _ _ _ _ Hnr Hr' HG1) as [Hw2 Hex2].
        split. { apply wsafe_app; auto. }
        intros Ho. destruct (Hex2 Ho) as [a' [Hin' HG']]. exists a'. split; [apply Hi; auto|].
        rewrite wfinal_app; auto.
    - (* next: return / cut inside the body *)
      simpl in Hn. apply andb_prop in Hn. destruct Hn as [Hn Hnr].
      apply andb_prop in Hn. destruct Hn as [Hil Hnb]. simpl in Ha.
      destruct (a_ph ab) as [ph|] eqn:Ep.
      + destruct ph; try (unfold for_any in Ha; rewrite Ep in Ha; discriminate).
        * destruct (for_mid_inv _ _ _ _ _ _ Ha Ep) as [rN [o1 [o2 [HrN [HiN [E1 [E2 [_ [_ [_ HX]]]]]]]]]].
          pose proof (mid_to_iter _ _ _ _ _ HG Ep H) as HGi.
          assert (Hb : exists ob, ai body (a_set_ph ab (Some (PIter k ldd (l_cur s =? ld) false))) = Some ob
                                  /\ incl ob (o1 ++ o2)).
          { destruct (l_cur s =? ld); eexists; split; eauto; [apply incl_appl|apply incl_appr]; apply incl_refl. }
          destruct Hb as [ob [Eb Hio]].
          destruct (IHbsl _ _ _ _ Hnb Eb HGi) as [Hw1 Hex1]. split; auto.
          intros Ho. destruct (Hex1 Ho) as [a' [Hin' HG']]. exists a'. split; auto.
        * destruct (for_pure_inv _ _ _ _ Ha Ep) as [rN [ob [HrN [HiN [Eb [_ [_ [_ HX]]]]]]]].
          destruct (IHbsl _ _ _ _ Hnb Eb HG) as [Hw1 Hex1]. split; auto.
          intros Ho. destruct (Hex1 Ho) as [a' [Hin' HG']]. exists a'. split; auto.
      + unfold for_any in Ha. rewrite Ep in Ha.
        destruct (for_failed_inv _ _ _ _ Ha) as [ob [Eb [_ [_ [_ HX]]]]].
        destruct (IHbsl _ _ _ _ Hnb Eb HG) as [Hw1 Hex1]. split; auto.
        intros Ho. destruct (Hex1 Ho) as [a' [Hin' HG']]. exists a'. split; auto.
    - (* loop: iteration *)
      pose proof Hn as Hn0. simpl in Hn. apply andb_prop in Hn. destruct Hn as [Hnb Hnr].
      pose proof Ha as Ha0. simpl in Ha.
      destruct (loop_any_inv _ _ _ _ Ha) as [ob [Eb [HNo _]]].
      destruct (IHbsl1 _ _ _ _ Hnb Eb HG) as [Hw1 Hex1].
      destruct Hex1 as [a1 [Hin1 HG1]]; [discriminate|].
      rewrite (HNo _ Hin1) in HG1.
      destruct (IHbsl2 _ _ _ _ Hn0 Ha0 HG1) as [Hw2 Hex2].
      split. { apply wsafe_app; auto. }
      intros Ho. destruct (Hex2 Ho) as [a' [Hin' HG']]. exists a'. split; auto.
      rewrite wfinal_app; auto.
    - (* loop: break *)
      simpl in Hn. apply andb_prop in Hn. destruct Hn as [Hnb Hnr]. simpl in Ha.
      destruct (loop_any_inv _ _ _ _ Ha) as [ob [Eb [_ [HBr _]]]].
      destruct (IHbsl1 _ _ _ _ Hnb Eb HG) as [Hw1 Hex1].
      destruct Hex1 as [a1 [Hin1 HG1]]; [discriminate|].
      destruct (HBr _ Hin1) as [r' [Hr' Hi]].
      destruct (IHbsl2 _ _ _ _ Hnr Hr' HG1) as [Hw2 Hex2].
      split. { apply wsafe_app; auto. }
      intros Ho. destruct (Hex2 Ho) as [a' [Hin' HG']]. exists a'. split; [apply Hi; auto|].
      rewrite wfinal_app; auto.
    - (* loop: return / cut *)
      simpl in Hn. apply andb_prop in Hn. destruct Hn as [Hnb Hnr]. simpl in Ha.
      destruct (loop_any_inv _ _ _ _ Ha) as [ob [Eb [_ [_ HX]]]].
      destruct (IHbsl _ _ _ _ Hnb Eb HG) as [Hw1 Hex1]. split; auto.
      intros Ho. destruct (Hex1 Ho) as [a' [Hin' HG']]. exists a'. split; auto.
  Qed.
End Sound.

(* ------------------------------------------------------------------ threads of a checked skeleton *)
Lemma entry_sound : forall n ld arg f p failed t o s' w,
  ld < n -> no_nested false p = true -> entry_ok_from f p failed = true ->
  bsl n ld arg (PFn f p PDone) (l_init failed) t o s' ->
  List.length (w_ss w) = n -> w_held w = false -> w_failed w = failed ->
  (failed = false -> alleq (w_ss w)) ->
  wsafe w t /\
  (o <> OCut -> o = ONormal /\ List.length (w_ss (wfinal w t)) = n /\ w_held (wfinal w t) = false /\
                w_failed (wfinal w t) = l_failed s' /\ (l_failed s' = false -> alleq (w_ss (wfinal w t)))).
Proof.
  intros n ld arg f p failed t o s' w Hld Hnn He Hb Hlen Hh Hf Hal.
  unfold entry_ok_from in He.
  destruct (ai (PFn f p PDone) (a_idle failed)) as [os|] eqn:Ea; try discriminate.
  assert (HG : G n ld arg (a_idle failed) w (l_init failed)).
  { split; [reflexivity|]. repeat split; simpl; auto.
    destruct failed; simpl; auto. }
  assert (Hn2 : no_nested false (PFn f p PDone) = true) by (simpl; rewrite Hnn; reflexivity).
  destruct (ai_sound n ld arg Hld _ _ _ _ _ Hb false _ _ _ Hn2 Ea HG) as [Hw Hex].
  split; auto. intros Ho. destruct (Hex Ho) as [a' [Hin HG']].
  unfold outs_idle in He. pose proof (forallb_In _ _ _ He Hin) as Hx. simpl in Hx.
  apply andb_prop in Hx. destruct Hx as [Hx Hdn]. apply andb_prop in Hx. destruct Hx as [Hx Hph].
  apply andb_prop in Hx. destruct Hx as [Hon Hhe].
  destruct HG' as [Hd' [Hl' [Hh' [Hf' Hp']]]].
  split. { destruct o; try discriminate; reflexivity. }
  split; auto. split. { rewrite Hh'. apply negb_true_iff in Hhe. exact Hhe. }
  split; auto. intros Hnf.
  destruct (a_ph a') as [[]|]; simpl in Hph; try discriminate.
  - destruct Hp' as [_ Hq]. exact Hq.
  - destruct Hp' as [_ Hq]. exact Hq.
  - congruence.
Qed.

Lemma writer_entry_inv : forall sk f p, writer_entry_ok sk f = true -> prog_of sk f = Some p ->
  no_nested false p = true /\ entry_ok_from f p false = true /\ entry_ok_from f p true = true.
Proof.
  intros sk f p H Hp. unfold writer_entry_ok in H. rewrite Hp in H.
  apply andb_prop in H. destruct H as [H H3]. apply andb_prop in H. destruct H as [H1 H2]. auto.
Qed.

Lemma wtrace_safe : forall sk n ld, ld < n ->
  forallb (writer_entry_ok sk) (sk_writer sk) = true ->
  forall failed tw, wtrace sk n ld failed tw ->
  forall w, List.length (w_ss w) = n -> w_held w = false -> w_failed w = failed ->
            (failed = false -> alleq (w_ss w)) -> wsafe w tw.
Proof.
  intros sk n ld Hld Hall failed tw Hw. induction Hw; intros w Hlen Hh Hf Hal.
  - exact I.
  - pose proof (forallb_In _ _ _ Hall H) as Hok.
    destruct (writer_entry_inv _ _ _ Hok H0) as [Hnn [He0 He1]].
    assert (He : entry_ok_from f p failed = true) by (destruct failed; auto).
    destruct (entry_sound _ _ _ _ _ _ _ _ _ w Hld Hnn He H1 Hlen Hh Hf Hal) as [Hs Hex].
    destruct Hex as [_ [Hl' [Hh' [Hf' Hal']]]]; [discriminate|].
    apply wsafe_app. split; auto.
  - pose proof (forallb_In _ _ _ Hall H) as Hok.
    destruct (writer_entry_inv _ _ _ Hok H0) as [Hnn [He0 He1]].
    assert (He : entry_ok_from f p failed = true) by (destruct failed; auto).
    destruct (entry_sound _ _ _ _ _ _ _ _ _ w Hld Hnn He H1 Hlen Hh Hf Hal) as [Hs _]. exact Hs.
Qed.

Definition nomut (t : list fev) : bool :=
  forallb (fun e => match e with FMut _ _ => false | _ => true end) t.

Lemma nomut_app : forall a b, nomut (a ++ b) = nomut a && nomut b.
Proof. intros. unfold nomut. apply forallb_app. Qed.

Lemma nomut_repeat : forall d, nomut (repeat FUnlock d) = true.
Proof. induction d; simpl; auto. Qed.

Lemma bsl_nomut : forall n ld arg p s t o s', bsl n ld arg p s t o s' -> no_mut p = true -> nomut t = true.
Proof.
  induction 1; intros Hn; simpl in *; auto;
    try match goal with Hc : choose _ _ _ _ _ |- _ => inversion Hc; subst; simpl in Hn end;
    repeat match goal with Hx : _ && _ = true |- _ => apply andb_prop in Hx; destruct Hx end;
    rewrite ?nomut_app, ?nomut_repeat;
    repeat match goal with
           | IH : ?P -> nomut ?x = true |- _ =>
               let Hx := fresh in
               assert (Hx : P) by (simpl; repeat (apply andb_true_intro; split); auto);
               rewrite (IH Hx); clear IH
           end; auto.
  (* atomic *)
  inversion H; subst; simpl in *; try discriminate;
    repeat match goal with
           | IH : ?P -> nomut ?x = true |- _ => rewrite (IH Hn); clear IH
           end; auto.
Qed.

Lemma wsafe_rsafe : forall t w, wsafe w t -> nomut t = true -> rsafe (w_held w) t.
Proof.
  induction t as [|e t IH]; intros w Hs Hn; simpl in *; auto.
  destruct Hs as [Hok Hs]. apply andb_prop in Hn. destruct Hn as [He Hn].
  specialize (IH _ Hs Hn). destruct e; simpl in *; try discriminate; tauto.
Qed.

Lemma rtrace_safe : forall sk n ld ss0 t, ld < n -> List.length ss0 = n -> alleq ss0 ->
  forallb (reader_entry_ok sk) (sk_readers sk) = true -> rtrace sk n ld t -> rsafe false t.
Proof.
  intros sk n ld ss0 t Hld Hlen Hal Hall [f [p [arg [o [s' [Hin [Hp Hb]]]]]]].
  pose proof (forallb_In _ _ _ Hall Hin) as Hok. unfold reader_entry_ok in Hok. rewrite Hp in Hok.
  apply andb_prop in Hok. destruct Hok as [Hok He]. apply andb_prop in Hok. destruct Hok as [Hnn Hnm].
  set (w := {| w_held := false; w_failed := false; w_ss := ss0 |}).
  destruct (entry_sound _ _ _ _ _ _ _ _ _ w Hld Hnn He Hb Hlen eq_refl eq_refl (fun _ => Hal)) as [Hs _].
  apply (wsafe_rsafe _ w Hs).
  apply (bsl_nomut _ _ _ _ _ _ _ _ Hb). simpl. rewrite Hnm. reflexivity.
Qed.

(* ------------------------------------------------------------------ the interleaving invariant *)
Definition heldb (g : gstate) (t : nat) : bool :=
  match g_holder g with Some h => Nat.eqb h t | None => false end.

Definition wst (g : gstate) : wstate :=
  {| w_held := heldb g 0; w_failed := g_failed g; w_ss := g_ss g |}.

Definition ginv (g : gstate) : Prop :=
  (forall rem, nth_error (g_thr g) 0 = Some rem -> wsafe (wst g) rem) /\
  (forall t rem, t <> 0 -> nth_error (g_thr g) t = Some rem -> rsafe (heldb g t) rem) /\
  (heldb g 0 = false -> g_failed g = true \/ alleq (g_ss g)).

Lemma nth_set_same : forall {A} (l : list A) t x y, nth_error l t = Some y -> nth_error (set_nth l t x) t = Some x.
Proof. intros. rewrite nth_error_set_nth, Nat.eqb_refl, H. reflexivity. Qed.

Lemma nth_set_other : forall {A} (l : list A) t u x, u <> t -> nth_error (set_nth l t x) u = nth_error l u.
Proof. intros. rewrite nth_error_set_nth. destruct (Nat.eqb_spec u t); congruence. Qed.

(* what the stepping thread's own safety says about the holder *)
Lemma thread_held : forall g t, heldb g t = true -> g_holder g = Some t.
Proof.
  intros g t H. unfold heldb in H. destruct (g_holder g); try discriminate.
  apply Nat.eqb_eq in H. congruence.
Qed.

Lemma ginv_step : forall g g', gstep g g' -> ginv g -> ginv g'.
Proof.
  intros g g' Hs [HW [HR HA]].
  assert (SAFE : forall t e rest, nth_error (g_thr g) t = Some (e :: rest) ->
            (t = 0 /\ wok (wst g) e /\ wsafe (wapply (wst g) e) rest) \/
            (t <> 0 /\ rsafe (heldb g t) (e :: rest))).
  { intros t e rest Hn. destruct (Nat.eq_dec t 0) as [->|Hne].
    - left. split; auto. apply (HW _ Hn).
    - right. split; auto. }
  inversion Hs; subst; clear Hs;
    match goal with Hn : nth_error (g_thr g) ?t = Some (?e :: ?rest) |- _ =>
      destruct (SAFE _ _ _ Hn) as [[Ht [Hok Hrest]]|[Ht Hrs]]; [subst t|] end;
    unfold ginv, wst, heldb in *;
    cbn [g_ss g_failed g_holder g_thr w_held w_failed w_ss wok wapply w_set_held w_set_failed w_upd rsafe] in *.
  - (* writer locks *)
    rewrite H0 in *. split; [|split].
    + intros rem Hr. rewrite (nth_set_same _ _ _ _ H) in Hr. inversion Hr; subst. exact Hrest.
    + intros u rem Hu Hr. rewrite nth_set_other in Hr by auto.
      specialize (HR _ _ Hu Hr). destruct (Nat.eqb_spec 0 u); [congruence|exact HR].
    + discriminate.
  - (* reader locks *)
    rewrite H0 in *. destruct Hrs as [_ Hrs]. split; [|split].
    + intros rem Hr. rewrite nth_set_other in Hr by auto.
      destruct (Nat.eqb_spec t 0); [congruence|]. apply HW; auto.
    + intros u rem Hu Hr. destruct (Nat.eq_dec u t) as [->|Hut].
      * rewrite (nth_set_same _ _ _ _ H) in Hr. inversion Hr; subst. rewrite Nat.eqb_refl. exact Hrs.
      * rewrite nth_set_other in Hr by auto. specialize (HR _ _ Hu Hr).
        destruct (Nat.eqb_spec t u); [congruence|exact HR].
    + intros _. apply HA. reflexivity.
  - (* writer unlocks *)
    rewrite H0 in *. destruct Hok as [Hh Hag].
    assert (h = 0) by (apply Nat.eqb_eq; exact Hh). subst h. split; [|split].
    + intros rem Hr. rewrite (nth_set_same _ _ _ _ H) in Hr. inversion Hr; subst. exact Hrest.
    + intros u rem Hu Hr. rewrite nth_set_other in Hr by auto.
      specialize (HR _ _ Hu Hr). destruct (Nat.eqb_spec 0 u); [congruence|exact HR].
    + intros _. exact Hag.
  - (* reader unlocks *)
    rewrite H0 in *. destruct Hrs as [Hh Hrs].
    assert (h = t) by (apply Nat.eqb_eq; exact Hh). subst h. split; [|split].
    + intros rem Hr. rewrite nth_set_other in Hr by auto.
      destruct (Nat.eqb_spec t 0); [congruence|]. apply HW; auto.
    + intros u rem Hu Hr. destruct (Nat.eq_dec u t) as [->|Hut].
      * rewrite (nth_set_same _ _ _ _ H) in Hr. inversion Hr; subst. exact Hrs.
      * rewrite nth_set_other in Hr by auto. specialize (HR _ _ Hu Hr).
        destruct (Nat.eqb_spec t u); [congruence|exact HR].
    + intros _. apply HA. destruct (Nat.eqb_spec t 0); [congruence|reflexivity].
  - (* writer mutates *)
    split; [|split].
    + intros rem Hr. rewrite (nth_set_same _ _ _ _ H) in Hr. inversion Hr; subst. exact Hrest.
    + intros u rem Hu Hr. rewrite nth_set_other in Hr by auto. apply (HR _ _ Hu Hr).
    + intros Hx. rewrite Hx in Hok. discriminate.
  - (* reader mutates: impossible *)
    contradiction.
  - (* writer fails *)
    split; [|split].
    + intros rem Hr. rewrite (nth_set_same _ _ _ _ H) in Hr. inversion Hr; subst. exact Hrest.
    + intros u rem Hu Hr. rewrite nth_set_other in Hr by auto. apply (HR _ _ Hu Hr).
    + intros _. left. reflexivity.
  - (* reader fails *)
    destruct (Nat.eqb_spec t 0); [congruence|]. split; [|split].
    + intros rem Hr. rewrite nth_set_other in Hr by auto. apply HW; auto.
    + intros u rem Hu Hr. destruct (Nat.eq_dec u t) as [->|Hut].
      * rewrite (nth_set_same _ _ _ _ H) in Hr. inversion Hr; subst. exact Hrs.
      * rewrite nth_set_other in Hr by auto. apply (HR _ _ Hu Hr).
    + exact HA.
  - (* writer touches *)
    split; [|split].
    + intros rem Hr. rewrite (nth_set_same _ _ _ _ H) in Hr. inversion Hr; subst. exact Hrest.
    + intros u rem Hu Hr. rewrite nth_set_other in Hr by auto. apply (HR _ _ Hu Hr).
    + exact HA.
  - (* reader touches *)
    destruct Hrs as [_ Hrs]. split; [|split].
    + intros rem Hr. rewrite nth_set_other in Hr by auto. apply HW; auto.
    + intros u rem Hu Hr. destruct (Nat.eq_dec u t) as [->|Hut].
      * rewrite (nth_set_same _ _ _ _ H) in Hr. inversion Hr; subst. exact Hrs.
      * rewrite nth_set_other in Hr by auto. apply (HR _ _ Hu Hr).
    + exact HA.
  - (* writer reads *)
    split; [|split].
    + intros rem Hr. rewrite (nth_set_same _ _ _ _ H) in Hr. inversion Hr; subst. exact Hrest.
    + intros u rem Hu Hr. rewrite nth_set_other in Hr by auto. apply (HR _ _ Hu Hr).
    + exact HA.
  - (* reader reads *)
    destruct Hrs as [_ Hrs]. split; [|split].
    + intros rem Hr. rewrite nth_set_other in Hr by auto. apply HW; auto.
    + intros u rem Hu Hr. destruct (Nat.eq_dec u t) as [->|Hut].
      * rewrite (nth_set_same _ _ _ _ H) in Hr. inversion Hr; subst. exact Hrs.
      * rewrite nth_set_other in Hr by auto. apply (HR _ _ Hu Hr).
    + exact HA.
Qed.

Lemma ginv_reach : forall g0 g, greach g0 g -> ginv g0 -> ginv g.
Proof. induction 1; intros; auto. eapply ginv_step; eauto. Qed.

Lemma ginv_reads : forall g t, ginv g -> reads g t -> g_failed g = true \/ alleq (g_ss g).
Proof.
  intros g t [HW [HR HA]] [Ht [rest Hn]]. specialize (HR _ _ Ht Hn). simpl in HR.
  destruct HR as [Hh _]. apply HA. apply thread_held in Hh. unfold heldb. rewrite Hh.
  destruct (Nat.eqb_spec t 0); [congruence|reflexivity].
Qed.

(* ------------------------------------------------------------------ main theorem *)
Theorem atomic_rotation_sound : forall sk, atomic_rotation sk = true ->
  forall n ld ss0 tw trs g, ld < n -> List.length ss0 = n -> alleq ss0 ->
  wtrace sk n ld false tw -> Forall (rtrace sk n ld) trs ->
  greach (ginit ss0 (tw :: trs)) g ->
  forall t, reads g t -> g_failed g = true \/ alleq (g_ss g).
Proof.
  intros sk Hat n ld ss0 tw trs g Hld Hlen Hal Hw Hr Hreach t Hreads.
  unfold atomic_rotation in Hat. apply andb_prop in Hat. destruct Hat as [Hat _].
  apply andb_prop in Hat. destruct Hat as [HWr HRd].
  eapply ginv_reads; [|exact Hreads]. eapply ginv_reach; [exact Hreach|].
  split; [|split]; simpl.
  - intros rem Hrem. inversion Hrem; subst rem.
    eapply (wtrace_safe sk n ld Hld HWr false tw Hw); simpl; auto.
  - intros u rem Hu Hrem. destruct u as [|u]; [congruence|]. simpl in Hrem.
    rewrite Forall_forall in Hr. apply nth_error_In in Hrem.
    eapply rtrace_safe; eauto.
  - intros _. right. exact Hal.
Qed.

(* what the playlists of two streams show is the same whenever a handler can read them *)
Corollary atomic_rotation_same_view : forall sk, atomic_rotation sk = true ->
  forall n ld ss0 tw trs g, ld < n -> List.length ss0 = n -> alleq ss0 ->
  wtrace sk n ld false tw -> Forall (rtrace sk n ld) trs ->
  greach (ginit ss0 (tw :: trs)) g ->
  forall t, reads g t -> g_failed g = false ->
  forall i j hi hj, nth_error (g_ss g) i = Some hi -> nth_error (g_ss g) j = Some hj ->
    seg_count hi = seg_count hj /\ seg_instants hi = seg_instants hj /\ part_instants hi = part_instants hj.
Proof.
  intros sk Hat n ld ss0 tw trs g Hld Hlen Hal Hw Hr Hreach t Hreads Hnf i j hi hj Hi Hj.
  destruct (atomic_rotation_sound sk Hat n ld ss0 tw trs g Hld Hlen Hal Hw Hr Hreach t Hreads) as [Hf|Ha].
  - congruence.
  - rewrite (Ha _ _ _ _ Hi Hj). auto.
Qed.

(* ------------------------------------------------------------------ executable schedules (to exhibit runs) *)
Definition gstep_exec (g : gstate) (t : nat) : option gstate :=
  match nth_error (g_thr g) t with
  | Some (e :: rest) =>
      let thr' := set_nth (g_thr g) t rest in
      match e with
      | FLock => match g_holder g with
                 | None => Some {| g_ss := g_ss g; g_failed := g_failed g; g_holder := Some t; g_thr := thr' |}
                 | Some _ => None
                 end
      | FUnlock => match g_holder g with
                   | Some _ => Some {| g_ss := g_ss g; g_failed := g_failed g; g_holder := None; g_thr := thr' |}
                   | None => None
                   end
      | FMut i r => Some {| g_ss := upd (g_ss g) i r; g_failed := g_failed g; g_holder := g_holder g; g_thr := thr' |}
      | FFail => Some {| g_ss := g_ss g; g_failed := (if Nat.eqb t 0 then true else g_failed g);
                         g_holder := g_holder g; g_thr := thr' |}
      | FTouch | FRead => Some {| g_ss := g_ss g; g_failed := g_failed g; g_holder := g_holder g; g_thr := thr' |}
      end
  | _ => None
  end.

Lemma gstep_exec_sound : forall g t g', gstep_exec g t = Some g' -> gstep g g'.
Proof.
  intros g t g' H. unfold gstep_exec in H.
  destruct (nth_error (g_thr g) t) as [[|e rest]|] eqn:En; try discriminate.
  destruct e.
  - destruct (g_holder g) eqn:Eh; try discriminate. inversion H; subst. apply G_lock; auto.
  - destruct (g_holder g) eqn:Eh; try discriminate. inversion H; subst. eapply G_unlock; eauto.
  - inversion H; subst. apply G_mut; auto.
  - inversion H; subst. apply G_fail; auto.
  - inversion H; subst. apply G_touch; auto.
  - inversion H; subst. apply G_read; auto.
Qed.

(* the schedule is the list of thread numbers that step, in order *)
Fixpoint grun (g : gstate) (sch : list nat) : option gstate :=
  match sch with
  | [] => Some g
  | t :: sch' => match gstep_exec g t with Some g' => grun g' sch' | None => None end
  end.

Lemma greach_trans : forall g0 g1 g2, greach g0 g1 -> greach g1 g2 -> greach g0 g2.
Proof. intros g0 g1 g2 H01 H12. induction H12; auto. eapply R_step; eauto. Qed.

Lemma grun_sound : forall sch g g', grun g sch = Some g' -> greach g g'.
Proof.
  induction sch as [|t sch IH]; intros g g' H; simpl in H.
  - inversion H; subst. apply R_refl.
  - destruct (gstep_exec g t) as [g1|] eqn:E; try discriminate.
    eapply greach_trans; [|apply IH; exact H].
    eapply R_step; [apply R_refl|]. eapply gstep_exec_sound; eauto.
Qed.

(* building big-step runs of concrete programs: always the successful alternative *)
Ltac bs_step :=
  lazymatch goal with
  | |- bsl _ _ _ PDone _ _ _ _ => eapply B_done
  | |- bsl _ _ _ PBreak _ _ _ _ => eapply B_break
  | |- bsl _ _ _ PReturn _ _ _ _ => eapply B_return
  | |- bsl _ _ _ (PAtom _ _) _ _ _ _ => eapply B_atomic; [econstructor; reflexivity | ]
  | |- bsl _ _ _ (PIfErr _ _ _) _ _ _ _ => eapply B_cond_n; [eapply C_iferr_else | | ]
  | |- bsl _ _ _ (PIfNL _ _) _ _ _ _ =>
      first [ eapply B_cond_n; [eapply C_nl_take; simpl; lia | | ]
            | eapply B_cond_n; [eapply C_nl_skip; reflexivity | eapply B_done | ] ]
  | |- bsl _ _ _ (PFn _ _ _) _ _ _ _ => eapply B_fn
  | |- bsl _ _ _ (PFor _ _) _ _ _ _ => eapply B_for
  | |- bsl _ _ _ (PNext _ _) _ _ _ _ =>
      first [ eapply B_next_done; [simpl; lia | ] | eapply B_next_iter; [simpl; lia | | ] ]
  | |- _ = ONormal \/ _ = OReturn => first [left; reflexivity | right; reflexivity]
  end.

Lemma bsl_eq : forall n ld arg p s t t' o s', bsl n ld arg p s t o s' -> t = t' -> bsl n ld arg p s t' o s'.
Proof. intros; subst; auto. Qed.

Lemma wtrace_one : forall sk n ld failed f p arg t s',
  In f (sk_writer sk) -> prog_of sk f = Some p ->
  bsl n ld arg (PFn f p PDone) (l_init failed) t ONormal s' -> wtrace sk n ld failed t.
Proof.
  intros. rewrite <- (app_nil_r t). eapply WT_op; eauto. apply WT_nil.
Qed.

Lemma alleq_repeat : forall (h : hist) n, alleq (repeat h n).
Proof.
  intros h n i j a b Hi Hj. apply nth_error_In in Hi, Hj.
  apply repeat_spec in Hi, Hj. congruence.
Qed.

(* ------------------------------------------------------------------ non-vacuity and refutation *)
Open Scope string_scope.

(* shaped like muxer.go: rotateSegments locks around rotateSegmentsInner *)
Definition ex_inner : prog :=
  AMut KSeg WLeading ;; PIfErr PReturn PDone
    (PFor (PIfNL (AMut KSeg WCur ;; PIfErr PReturn PDone
                    (AWrite "targetDuration" WCur ;; AWrite "partTargetDuration" WCur ;; PDone)) PDone)
          PReturn).
Definition ex_outer : prog :=
  ALock ;; PCall "inner" (AUnlock ;; ANote "hook" ;; PIfErr PReturn PDone (ANote "Broadcast" ;; PReturn)).
Definition ex_reader : prog :=
  PFn "lit" (ALock ;; ADeferUnlock ;;
             PLoop (PBranch PReturn PDone (PBranch PBreak PDone (AWait ;; PDone))) 
                   (ARead "generateMediaPlaylist" WSelf ;; AFallible "generateMediaPlaylist" ;; PIfErr PReturn PDone PReturn))
      PReturn.
Definition ex_mut : prog := AFallible "finalize" ;; PIfErr PReturn PDone PReturn.

Definition ex_ok : skeleton :=
  {| sk_fns := [("inner", ex_inner); ("outer", ex_outer); ("reader", ex_reader); ("mut", ex_mut)];
     sk_writer := ["outer"]; sk_readers := ["reader"]; sk_mutators := ["mut"] |}.

Example ex_ok_checks : atomic_rotation ex_ok = true.
Proof. vm_compute. reflexivity. Qed.

(* the same with one critical section per stream *)
Definition ex_inner_split : prog :=
  ALock ;; AMut KSeg WLeading ;; AUnlock ;; PIfErr PReturn PDone
    (PFor (PIfNL (ALock ;; AMut KSeg WCur ;; AWrite "targetDuration" WCur ;; AWrite "partTargetDuration" WCur ;;
                  AUnlock ;; PIfErr PReturn PDone PDone) PDone)
          PReturn).
Definition ex_outer_split : prog :=
  PCall "inner" (ANote "hook" ;; PIfErr PReturn PDone (ANote "Broadcast" ;; PReturn)).
Definition ex_reader_simple : prog :=
  ALock ;; ADeferUnlock ;; ARead "generateMediaPlaylist" WSelf ;; PReturn.

Definition ex_split : skeleton :=
  {| sk_fns := [("inner", ex_inner_split); ("outer", ex_outer_split); ("reader", ex_reader_simple); ("mut", ex_mut)];
     sk_writer := ["outer"]; sk_readers := ["reader"]; sk_mutators := ["mut"] |}.

Example ex_split_rejected : atomic_rotation ex_split = false.
Proof. vm_compute. reflexivity. Qed.

Definition ex_r : rot := (KSeg, 1000%Z).

Lemma ex_split_writer : wtrace ex_split 2 0 false
  [FLock; FMut 0 ex_r; FUnlock; FLock; FMut 1 ex_r; FTouch; FTouch; FUnlock].
Proof.
  eapply (wtrace_one ex_split 2 0 false "outer" _ 1000%Z).
  - left; reflexivity.
  - vm_compute. reflexivity.
  - eapply bsl_eq; [repeat bs_step|reflexivity].
Qed.

Lemma ex_split_reader : rtrace ex_split 2 0 [FLock; FRead; FUnlock].
Proof.
  exists "reader". eexists. exists 0%Z. eexists. eexists. split; [left; reflexivity|]. split.
  - vm_compute. reflexivity.
  - eapply bsl_eq; [repeat bs_step|reflexivity].
Qed.

(* REFUTATION: with one critical section per stream there is a schedule in which a handler reads
   while the video stream has rotated and the audio rendition has not *)
Theorem split_rotation_torn :
  atomic_rotation ex_split = false /\
  exists n ld ss0 tw trs g t,
    ld < n /\ List.length ss0 = n /\ alleq ss0 /\
    wtrace ex_split n ld false tw /\ Forall (rtrace ex_split n ld) trs /\
    greach (ginit ss0 (tw :: trs)) g /\ reads g t /\ g_failed g = false /\
    exists hi hj, nth_error (g_ss g) 0 = Some hi /\ nth_error (g_ss g) 1 = Some hj /\
                  seg_count hi <> seg_count hj.
Proof.
  split; [exact ex_split_rejected|].
  exists 2, 0, [[]; []].
  exists [FLock; FMut 0 ex_r; FUnlock; FLock; FMut 1 ex_r; FTouch; FTouch; FUnlock].
  exists [[FLock; FRead; FUnlock]].
  (* schedule: the writer rotates the leading stream and unlocks; the handler gets the mutex *)
  destruct (grun (ginit [[]; []] [[FLock; FMut 0 ex_r; FUnlock; FLock; FMut 1 ex_r; FTouch; FTouch; FUnlock];
                                  [FLock; FRead; FUnlock]]) [0; 0; 0; 1]) as [g|] eqn:E;
    [|vm_compute in E; discriminate].
  exists g, 1.
  split; [lia|]. split; [reflexivity|]. split. { apply (alleq_repeat [] 2). }
  split; [exact ex_split_writer|]. split. { constructor; [exact ex_split_reader|constructor]. }
  split. { apply grun_sound with (sch := [0; 0; 0; 1]). exact E. }
  vm_compute in E. inversion E; subst g; clear E.
  split. { split; [lia|]. eexists. reflexivity. }
  split; [reflexivity|].
  exists [ex_r], []. split; [reflexivity|]. split; [reflexivity|]. vm_compute. discriminate.
Qed.

(* NON-VACUITY of atomic_rotation_sound: its hypotheses hold for the locked skeleton with three
   streams, one complete rotation and a handler that reads afterwards *)
Lemma ex_ok_writer : wtrace ex_ok 3 0 false
  [FLock; FMut 0 ex_r; FMut 1 ex_r; FTouch; FTouch; FMut 2 ex_r; FTouch; FTouch; FUnlock].
Proof.
  eapply (wtrace_one ex_ok 3 0 false "outer" _ 1000%Z).
  - left; reflexivity.
  - vm_compute. reflexivity.
  - eapply bsl_eq; [repeat bs_step|reflexivity].
Qed.

Lemma ex_ok_reader : rtrace ex_ok 3 0 [FLock; FRead; FUnlock].
Proof.
  exists "reader". eexists. exists 0%Z. eexists. eexists. split; [left; reflexivity|]. split.
  - vm_compute. reflexivity.
  - eapply bsl_eq.
    + eapply B_fn; [|right; reflexivity|apply B_done].
      eapply B_fn; [|right; reflexivity|apply B_return].
      eapply B_atomic; [econstructor|]. eapply B_atomic; [econstructor|].
      eapply B_loop_break.
      * eapply B_cond_n; [eapply C_br_r|eapply B_done|].
        eapply B_cond_x; [eapply C_br_l|eapply B_break|discriminate].
      * eapply B_atomic; [econstructor|]. eapply B_atomic; [eapply A_fallible_ok|].
        eapply B_cond_n; [eapply C_iferr_else|eapply B_done|]. eapply B_return.
    + reflexivity.
Qed.

Example atomic_rotation_sound_nonvacuous :
  atomic_rotation ex_ok = true /\
  exists tw trs g t, wtrace ex_ok 3 0 false tw /\ Forall (rtrace ex_ok 3 0) trs /\
    greach (ginit [[]; []; []] (tw :: trs)) g /\ reads g t /\ g_failed g = false /\
    g_ss g = [[ex_r]; [ex_r]; [ex_r]].
Proof.
  split; [exact ex_ok_checks|].
  exists [FLock; FMut 0 ex_r; FMut 1 ex_r; FTouch; FTouch; FMut 2 ex_r; FTouch; FTouch; FUnlock].
  exists [[FLock; FRead; FUnlock]].
  destruct (grun (ginit [[]; []; []]
     [[FLock; FMut 0 ex_r; FMut 1 ex_r; FTouch; FTouch; FMut 2 ex_r; FTouch; FTouch; FUnlock];
      [FLock; FRead; FUnlock]]) [0; 0; 0; 0; 0; 0; 0; 0; 0; 1]) as [g|] eqn:E;
    [|vm_compute in E; discriminate].
  exists g, 1.
  split; [exact ex_ok_writer|]. split. { constructor; [exact ex_ok_reader|constructor]. }
  split. { eapply grun_sound. exact E. }
  vm_compute in E. inversion E; subst g; clear E.
  split. { split; [lia|]. eexists. reflexivity. }
  split; reflexivity.
Qed.
