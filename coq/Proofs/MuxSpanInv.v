(* C03, fMP4 variants (continued from MuxSpan.v): the invariant of the leading stream
     "every segment starts at the timestamp and wall clock of the first sample of its group - or, while the
      group of the open segment is still empty, of the look-ahead unit of the leading track - every closed
      segment has samples, and every closed segment ends where the next one starts"
   is kept by every write that returns nil, hence holds in every state reachable from Start. *)
From Coq Require Import List ZArith Bool Lia Arith.
From GoHls Require Import Model.Mux Proofs.MuxStream Proofs.MuxLift Proofs.MuxWindow Proofs.MuxHistory Proofs.MuxTimes
  Proofs.MuxMulti Proofs.MuxCut Proofs.MuxLog Proofs.MuxLogStep Proofs.MuxLogTS Proofs.MuxPartIds Proofs.MuxAgree
  Proofs.MuxGroups Proofs.MuxRAStart Proofs.MuxRAHist Proofs.MuxChain Proofs.MuxSpan.
Import ListNotations.
Local Open Scope Z_scope.

(* the key [k] carries the timestamp (as a duration, at clock rate [rate]) and the wall clock of unit [x] *)
Definition head_is (rate : Z) (k : skey) (x : sample) : Prop :=
  kstart k = timestampToDuration (s_dts x) rate /\ kntp k = s_ntp x.

Definition headed (rate : Z) (k : skey) (l : list sample) : Prop :=
  exists x rest, l = x :: rest /\ head_is rate k x.

(* closed segments: each one headed by its first sample, starting at [a], each ending where the next starts,
   the last ending at [b] *)
Fixpoint chain (rate a : Z) (K : list skey) (G : list (list sample)) (b : Z) : Prop :=
  match K, G with
  | [], [] => a = b
  | k :: K', l :: G' => kstart k = a /\ headed rate k l /\ chain rate (kend k) K' G' b
  | _, _ => False
  end.

Lemma chain_snoc rate K : forall a G k l b,
  chain rate a K G (kstart k) -> headed rate k l -> kend k = b -> chain rate a (K ++ [k]) (G ++ [l]) b.
Proof.
  induction K as [|k0 K IH]; intros a G k l b Hc Hh He; destruct G as [|l0 G]; cbn [chain app] in *; try contradiction.
  - subst a. auto.
  - destruct Hc as (A & B & C). split; [exact A|]. split; [exact B|]. now apply IH.
Qed.

Lemma chain_split rate K1 : forall a G1 k K2 l G2 b,
  length K1 = length G1 -> chain rate a (K1 ++ k :: K2) (G1 ++ l :: G2) b ->
  headed rate k l /\ chain rate (kend k) K2 G2 b.
Proof.
  induction K1 as [|k0 K1 IH]; intros a G1 k K2 l G2 b Hlen Hc; destruct G1 as [|l0 G1]; cbn [length] in Hlen; try discriminate;
    cbn [chain app] in Hc.
  - destruct Hc as (_ & B & C). auto.
  - destruct Hc as (_ & _ & C). eapply IH; [|exact C]. lia.
Qed.

(* the segment chain [K] starting at [a] is followed by units [tl]: [a] is the timestamp of the first unit of
   what follows *)
Lemma chain_next rate K : forall a G b tl x0 rest0,
  chain rate a K G b -> tl = x0 :: rest0 -> b = timestampToDuration (s_dts x0) rate ->
  exists y after, concat G ++ tl = y :: after /\ a = timestampToDuration (s_dts y) rate.
Proof.
  induction K as [|k K IH]; intros a G b tl x0 rest0 Hc Htl Hb; destruct G as [|l G]; cbn [chain] in Hc; try contradiction.
  - subst. exists x0, rest0. split; reflexivity.
  - destruct Hc as (A & (x & rest & -> & H1 & _) & _).
    exists x, (rest ++ concat G ++ tl). split; [cbn [concat app]; now rewrite <- app_assoc|]. now rewrite <- A.
Qed.

Lemma head_is_same rate k x x' : s_dts x' = s_dts x -> s_ntp x' = s_ntp x -> head_is rate k x -> head_is rate k x'.
Proof. intros E1 E2 [A B]. split; congruence. Qed.

(* keys [K], groups [G] and look-ahead [P] (at most one unit) of one stream *)
Definition SPAN (rate : Z) (K : list skey) (G : list (list sample)) (P : list sample) : Prop :=
  (K = [] /\ G = [])
  \/ exists KC GC ko lo a x rest,
       K = KC ++ [ko] /\ G = GC ++ [lo] /\ chain rate a KC GC (kstart ko)
       /\ lo ++ P = x :: rest /\ head_is rate ko x.

Record SP (m : mstate) (ti : nat) (rate : Z) : Prop := {
  sp_span : SPAN rate (klog m ti) (glog m ti) (pend_list m ti);
  sp_closed : opened_at m ti = false -> klog m ti = [];
  (* the flat log of C01 is the grouped log, flattened *)
  sp_flat : slog m ti = concat (glog m ti)
}.

Lemma pending_of_nexts_nth m ti x : nth_error (tk_nexts m) ti = Some x -> pending m ti = x.
Proof.
  unfold pending, tk_nexts. rewrite nth_error_map.
  destruct (nth_error (m_tracks m) ti) as [t|]; simpl; [|discriminate]. now intros [= <-].
Qed.

Section SpanStep.
  Variable F0 : list bool.
  Variable T0 : list (tcfg * bool * nat).
  Hypothesis HOL : OneLead F0.

  (* a write of the leading track keeps the invariant *)
  Theorem SP_leading_write m t ra pc smp0 m' :
    ST F0 T0 m -> nth_error (m_tracks m) (li F0) = Some t -> tk_leading t = true ->
    fmp4WriteSample m (li F0) ra pc smp0 = (m', Ok tt) ->
    SP m (li F0) (t_rate (tk_cfg t)) -> SP m' (li F0) (t_rate (tk_cfg t)).
  Proof.
    intros HS Ht Hlead Hw [P1 P2 P3]. set (ti := li F0) in *. set (rate := t_rate (tk_cfg t)) in *.
    pose proof HS as ((HL & HB) & HO & HF & HT).
    destruct (fmp4_log_step m ti t ra pc smp0 m' HL Ht Hw) as (L' & _ & Sti & Hnx & Hneg).
    destruct (Z_lt_le_dec (shifted t smp0) 0) as [Hlt|Hd]; [rewrite (Hneg Hlt); constructor; assumption|].
    specialize (Hnx Hd).
    assert (Hpend' : pending m' ti = Some (incoming_of t smp0)) by now apply pending_of_nexts_nth.
    assert (Hpend : pending m ti = tk_next t) by (unfold pending; now rewrite Ht).
    unfold emitted_by in Sti. rewrite (proj2 (Z.ltb_ge _ _) Hd) in Sti.
    destruct (tk_next t) as [prev|] eqn:En.
    - (* the look-ahead unit is emitted *)
      rewrite Hlead in Sti. cbn [negb andb] in Sti.
      destruct (ST_lead F0 T0 HOL m HS) as [_ HOLS].
      destruct (fmp4_glog_step m ti t ra pc smp0 m' prev (conj HL HB) HO HOLS Ht Hlead En Hd Hw) as (b & _ & Hg & Ho').
      pose proof (fmp4_klog_step F0 T0 HOL m t ra pc smp0 m' prev HS Ht Hlead En Hd Hw) as Hk.
      cbv zeta in Hg, Hk. fold ti in Hk. fold rate in Hk.
      set (smp := emit_of prev (shifted t smp0)) in *.
      set (d := timestampToDuration (shifted t smp0) rate) in *.
      set (G0 := if opened_at m ti then glog m ti else glog m ti ++ [[]]) in *.
      set (K0 := if opened_at m ti then klog m ti
                 else klog m ti ++ [(timestampToDuration (s_dts prev) rate, s_ntp prev, 0)]) in *.
      (* the span just before the unit is emitted (a segment is opened for it if need be) *)
      assert (H0 : exists KC GC ko lo a x rest,
                 K0 = KC ++ [ko] /\ G0 = GC ++ [lo] /\ chain rate a KC GC (kstart ko)
                 /\ lo ++ [prev] = x :: rest /\ head_is rate ko x /\ concat G0 = concat (glog m ti)).
      { subst K0 G0. destruct (opened_at m ti) eqn:Eop.
        - destruct P1 as [[EK _]|(KC & GC & ko & lo & a & x & rest & A & B & C & D & E)].
          + exfalso. pose proof (glog_open_nonempty m ti Eop) as Hne. pose proof (klog_length m ti) as Hlen.
            rewrite EK in Hlen. destruct (glog m ti); [congruence|discriminate].
          + unfold pend_list in D. rewrite Hpend in D. exists KC, GC, ko, lo, a, x, rest. auto 10.
        - rewrite (P2 eq_refl).
          assert (EG : glog m ti = []).
          { pose proof (klog_length m ti) as Hlen. rewrite (P2 eq_refl) in Hlen. destruct (glog m ti); [reflexivity|discriminate]. }
          rewrite EG.
          exists [], [], (timestampToDuration (s_dts prev) rate, s_ntp prev, 0), [],
                 (timestampToDuration (s_dts prev) rate), prev, [].
          split; [reflexivity|]. split; [reflexivity|]. split; [reflexivity|]. split; [reflexivity|].
          split; [split; reflexivity|reflexivity]. }
      destruct H0 as (KC & GC & ko & lo & a & x & rest & EK0 & EG0 & Hc & Hlo & Hhd & Hcat).
      assert (EG1 : app_last G0 [smp] = GC ++ [lo ++ [smp]]) by (rewrite EG0; apply app_last_snoc).
      rewrite EG1 in Hg.
      assert (Hh' : headed rate ko (lo ++ [smp])).
      { destruct lo as [|x1 lo']; cbn [app] in *.
        - injection Hlo as <- _. exists smp, []. split; [reflexivity|].
          apply (head_is_same rate ko prev); [reflexivity|reflexivity|exact Hhd].
        - injection Hlo as <- _. exists x1, (lo' ++ [smp]). split; [reflexivity|exact Hhd]. }
      assert (Hlen0 : length K0 = length G0).
      { subst K0 G0. destruct (opened_at m ti); rewrite ?app_length, klog_length; reflexivity. }
      pose proof (klog_length m' ti) as Hlen'.
      constructor.
      + unfold pend_list. rewrite Hpend'. right.
        destruct b.
        * (* the segment is cut *)
          destruct Hk as [Hk|(KC2 & a2 & n2 & e2 & EK2 & Hk)].
          { exfalso. rewrite Hk, Hg, Hlen0, EG0, !app_length in Hlen'. cbn [length] in Hlen'. lia. }
          rewrite EK0 in EK2. apply app_inj_tail in EK2. destruct EK2 as [<- ->].
          exists (KC ++ [(a2, n2, d)]), (GC ++ [lo ++ [smp]]), (d, s_ntp smp0, 0), [], a, (incoming_of t smp0), [].
          split; [rewrite Hk, <- app_assoc; reflexivity|]. split; [exact Hg|]. split; [|split; [reflexivity|split; reflexivity]].
          apply chain_snoc; [exact Hc| |reflexivity].
          destruct Hh' as (x' & rest' & Ex' & Hx'). exists x', rest'. split; [exact Ex'|exact Hx'].
        * destruct Hk as [Hk|(KC2 & a2 & n2 & e2 & EK2 & Hk)].
          2:{ exfalso. rewrite Hk, Hg, !app_length in Hlen'. rewrite EK2, EG0, !app_length in Hlen0.
              cbn [length] in Hlen', Hlen0. lia. }
          destruct Hh' as (x' & rest' & Ex' & Hx').
          exists KC, GC, ko, (lo ++ [smp]), a, x', (rest' ++ [incoming_of t smp0]).
          split; [rewrite Hk; exact EK0|]. split; [exact Hg|]. split; [exact Hc|]. split; [now rewrite Ex'|exact Hx'].
      + intros Hcl. rewrite Ho' in Hcl. discriminate.
      + rewrite Sti, P3, Hg, <- Hcat, EG0.
        destruct b; rewrite !concat_app; cbn [concat]; rewrite ?app_nil_r, <- ?app_assoc; reflexivity.
    - (* the first unit of the track: it only fills the look-ahead *)
      assert (Em' : m_streams m' = m_streams m /\ map tk_samples (m_tracks m') = map tk_samples (m_tracks m)).
      { unfold fmp4WriteSample in Hw. rewrite Ht in Hw. cbv zeta in Hw. fold (shifted t smp0) in Hw.
        destruct (shifted t smp0 <? 0) eqn:E0; [apply Z.ltb_lt in E0; lia|]. rewrite En in Hw. injection Hw as <-.
        split; [reflexivity|]. unfold upd_track. cbn [set_tracks m_tracks]. apply map_upd_static. intros x. reflexivity. }
      destruct Em' as [Es Et].
      assert (Hg : glog m' ti = glog m ti) by (apply glog_ext; auto).
      assert (Hk : klog m' ti = klog m ti) by (apply klog_ext; auto).
      assert (Ho : opened_at m' ti = opened_at m ti) by (unfold opened_at; now rewrite Es).
      constructor.
      + rewrite Hg, Hk. unfold pend_list in *. rewrite Hpend'. rewrite Hpend in P1.
        destruct P1 as [P1|(KC & GC & ko & lo & a & x & rest & A & B & C & D & E)]; [now left|right].
        rewrite app_nil_r in D. subst lo.
        exists KC, GC, ko, (x :: rest), a, x, (rest ++ [incoming_of t smp0]). auto 10.
      + now rewrite Hk, Ho.
      + rewrite Sti, app_nil_r, Hg. exact P3.
  Qed.

  (* a write of any other track leaves the leading stream's keys, groups and look-ahead alone *)
  Theorem SP_other_write m tj t ra pc smp0 m' rate :
    LI m -> nth_error (m_tracks m) tj = Some t -> tk_leading t = false -> tj <> li F0 ->
    fmp4WriteSample m tj ra pc smp0 = (m', Ok tt) ->
    SP m (li F0) rate -> SP m' (li F0) rate.
  Proof.
    intros HL Ht Hlead Hne Hw HP. set (ti := li F0) in *.
    destruct (fmp4_log_step m tj t ra pc smp0 m' HL Ht Hw) as (_ & Sother & _).
    assert (HF : glog m' ti = glog m ti /\ klog m' ti = klog m ti /\ pending m' ti = pending m ti
                 /\ opened_at m' ti = opened_at m ti).
    { unfold fmp4WriteSample in Hw. rewrite Ht in Hw. cbv zeta in Hw.
      pose proof (li_tracks m HL tj t Ht) as Hsi. rewrite Hsi in Hw.
      destruct (_ <? 0); [injection Hw as <-; auto|].
      match type of Hw with context [upd_track m tj ?F] => set (m1 := upd_track m tj F) in * end.
      assert (R1 : glog m1 ti = glog m ti /\ klog m1 ti = klog m ti /\ pending m1 ti = pending m ti
                   /\ opened_at m1 ti = opened_at m ti).
      { split; [|split; [reflexivity|split; [|reflexivity]]].
        - apply glog_ext; [reflexivity|]. subst m1. unfold upd_track. cbn [set_tracks m_tracks].
          apply map_upd_static. intros x. reflexivity.
        - unfold pending. subst m1. unfold upd_track. cbn [set_tracks m_tracks]. now rewrite nth_error_upd_other by exact Hne. }
      assert (L1 : LI m1).
      { apply (LI_ext m); auto. subst m1. unfold upd_track. cbn [set_tracks m_tracks]. apply map_upd_static. intros x. reflexivity. }
      assert (Hlt1 : (tj < length (m_tracks m1))%nat).
      { subst m1. unfold upd_track. cbn [set_tracks m_tracks]. rewrite upd_length. apply nth_error_Some. congruence. }
      destruct (tk_next t) as [prev|]; [|injection Hw as <-; exact R1].
      rewrite Hlead in Hw. cbn [negb andb] in Hw.
      match type of Hw with (if negb ?c then _ else _) = _ => change c with (opened_at m1 tj) in Hw end.
      destruct (opened_at m1 tj) eqn:Eop; cbn [negb] in Hw; [|injection Hw as <-; exact R1].
      match type of Hw with context [part_writeSample ?a tj tj ?b] => destruct (part_writeSample a tj tj b) as [m4| |] eqn:Ew end;
        [|discriminate|discriminate].
      injection Hw as <-.
      pose proof (glog_pws m1 tj _ m4 (li_streams m1 L1) (li_part m1 L1) Ew Eop Hlt1 ti) as Hg.
      destruct (Nat.eqb_spec ti tj) as [E|_]; [congruence|].
      pose proof (pending_of_nexts m1 m4 ti (nexts_pws _ _ _ _ _ Ew)) as Hp.
      destruct R1 as (A & B & C & D).
      split; [congruence|]. split; [rewrite (klog_pws _ _ _ _ _ ti Ew); exact B|]. split; [congruence|].
      rewrite (opened_pws _ _ _ _ _ ti Ew). exact D. }
    destruct HF as (Hg & Hk & Hp & Ho). destruct HP as [P1 P2 P3].
    constructor; unfold pend_list in *; rewrite ?Hg, ?Hk, ?Hp, ?Ho; auto.
    rewrite Sother by (intros E; apply Hne; now rewrite E). exact P3.
  Qed.
End SpanStep.
