(* IR of the blocking-operation table of M8 (client lifecycle).
   Generated/ClientLifeBlockOps.v (written by tools/clientlife from the Go AST of every
   non-test client*.go of the repository) is a value of these types; the rules over it are
   in Model/ClientLifeOps.v.  Expressions are kept as their Go source text. *)
From Coq Require Import List String.
Import ListNotations.

(* one alternative of a [select] *)
Inductive alt :=
| ASend (ch : string)              (* case ch <- v *)
| ARecv (ch : string)              (* case x := <-ch  (ch is not X.Done(), not time.After) *)
| ADone (ctx : string)             (* case <-ctx.Done(), [ctx] = the context expression *)
| AAfter                           (* case <-time.After(d) *)
| ADefault.                        (* default: *)

(* kind of a blocking operation; [reqctx] = the context expression the *http.Request was
   created with (http.NewRequestWithContext) when the translator could resolve it *)
Inductive opkind :=
| KSelect (alts : list alt)
| KSend (ch : string)              (* bare send statement *)
| KRecv (ch : string)              (* bare receive / range over a channel *)
| KRecvDone (ctx : string)         (* bare <-ctx.Done() *)
| KCondWait (c : string)
| KWgWait (wg : string)
| KHttpDo (client : string) (reqctx : option string)
| KReadAll (arg : string) (reqctx : option string)   (* io.ReadAll of a response body *)
| KIoRead (r : string)              (* Read/Write on an io.Reader/io.Writer interface value *)
| KSleep
| KLock (m : string).

Record blockop := {
  bo_file : string;
  bo_func : string;                (* Type.method, or func, [$n] for the n-th func literal *)
  bo_line : nat;
  bo_kind : opkind;
  bo_held : list string            (* mutexes held when the operation starts *)
}.

(* where a context value flows: call arguments of type context.Context, composite-literal
   fields and assignments of that type *)
Inductive flowkind := FArg (callee : string) | FField (field : string) | FAssign (lhs : string).
Record ctxflow := { cf_func : string; cf_kind : flowkind; cf_expr : string }.

Record gen := {
  g_ops : list blockop;
  g_ctxparams : list (string * string);     (* function, name of its context.Context parameter *)
  g_ctxflow : list ctxflow;
  g_go : list (string * string);            (* function containing a go statement, what it starts *)
  g_cancels : list (string * string);       (* function, cancel-function field it calls *)
  g_lockleaks : list (string * string);     (* function that can return holding a mutex *)
  g_calls : list (string * string);         (* caller, callee: calls between functions of these files *)
  g_lockedcalls : list (string * string);   (* function, callee (any, "ext:" = outside the package) called with a mutex held *)
  g_skel : list (string * list string)      (* synchronisation skeleton, source order *)
}.
