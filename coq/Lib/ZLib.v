(* Lib/ZLib - integer arithmetic shared by the models: Go's truncating division
   ([Z.quot]/[Z.rem]) versus floor division, multiplyAndDivide, floor differences,
   rounding up to a unit. Definitions and lemmas only; nothing model-specific. *)
From Coq Require Import ZArith Lia.
Local Open Scope Z_scope.

(* ---------- truncating vs floor division ---------- *)

Lemma quot_nonneg_div : forall a b, 0 <= a -> 0 < b -> Z.quot a b = a / b.
Proof. intros. apply Z.quot_div_nonneg; lia. Qed.

Lemma rem_nonneg_mod : forall a b, 0 <= a -> 0 < b -> Z.rem a b = a mod b.
Proof. intros. apply Z.rem_mod_nonneg; lia. Qed.

(* floor division characterised by its two inequalities *)
Lemma div_bounds : forall a b, 0 < b -> b * (a / b) <= a < b * (a / b) + b.
Proof.
  intros a b Hb. pose proof (Z.div_mod a b ltac:(lia)). pose proof (Z.mod_pos_bound a b Hb). lia.
Qed.

Lemma div_unique_bounds : forall a b q, 0 < b -> b * q <= a < b * q + b -> a / b = q.
Proof.
  intros a b q Hb H. symmetry. apply (Z.div_unique_pos a b q (a - b * q)); lia.
Qed.

Lemma div_le_iff : forall a b c, 0 < b -> (c <= a / b <-> b * c <= a).
Proof.
  intros a b c Hb. pose proof (div_bounds a b Hb). split; intro; nia.
Qed.

Lemma div_lt_iff : forall a b c, 0 < b -> (a / b < c <-> a < b * c).
Proof.
  intros a b c Hb. pose proof (div_bounds a b Hb). split; intro; nia.
Qed.

(* ---------- multiplyAndDivide (muxer_segmenter.go) ---------- *)

(* secs := v / d; dec := v % d; return secs*m + dec*m/d   (Go: truncating / and %) *)
Definition mulDiv (v m d : Z) : Z := Z.quot v d * m + Z.quot (Z.rem v d * m) d.

Lemma mulDiv_floor : forall v m d, 0 <= v -> 0 < d -> 0 <= m -> mulDiv v m d = v * m / d.
Proof.
  intros v m d Hv Hd Hm. unfold mulDiv.
  rewrite (quot_nonneg_div v d Hv Hd), (rem_nonneg_mod v d Hv Hd).
  pose proof (Z.mod_pos_bound v d Hd) as Hr.
  rewrite quot_nonneg_div by nia.
  pose proof (Z.div_mod v d ltac:(lia)) as Hdm.
  symmetry.
  replace (v * m) with ((v mod d * m) + (v / d * m) * d) by nia.
  rewrite Z.div_add by lia. lia.
Qed.

(* an exact multiple comes out exactly *)
Lemma mulDiv_exact : forall k m d, 0 <= k -> 0 < d -> 0 <= m -> mulDiv (k * d) m d = k * m.
Proof.
  intros. rewrite mulDiv_floor by nia.
  replace (k * d * m) with (k * m * d) by lia. apply Z.div_mul. lia.
Qed.

(* ---------- differences of floors ---------- *)

(* floor((a+b)/r) - floor(a/r) is floor(b/r) or that plus one *)
Lemma floor_diff_bounds : forall a b r, 0 < r ->
  b / r <= (a + b) / r - a / r <= b / r + 1.
Proof.
  intros a b r Hr.
  pose proof (div_bounds a r Hr). pose proof (div_bounds b r Hr). pose proof (div_bounds (a + b) r Hr).
  nia.
Qed.

(* ... and exactly b/r when r divides b *)
Lemma floor_diff_exact : forall a b r, 0 < r -> b mod r = 0 ->
  (a + b) / r - a / r = b / r.
Proof.
  intros a b r Hr Hb.
  pose proof (Z.div_mod b r ltac:(lia)) as E. rewrite Hb in E.
  replace (a + b) with (a + (b / r) * r) by lia.
  rewrite Z.div_add by lia. lia.
Qed.

(* the upper end of the jitter interval: ceil(b/r) *)
Definition cdiv (b r : Z) : Z := (b + r - 1) / r.

Lemma cdiv_exact : forall b r, 0 < r -> b mod r = 0 -> cdiv b r = b / r.
Proof.
  intros b r Hr Hb. unfold cdiv.
  pose proof (Z.div_mod b r ltac:(lia)) as E. rewrite Hb in E.
  apply div_unique_bounds; [lia|]. pose proof (div_bounds b r Hr). nia.
Qed.

Lemma cdiv_inexact : forall b r, 0 < r -> b mod r <> 0 -> cdiv b r = b / r + 1.
Proof.
  intros b r Hr Hb. unfold cdiv.
  pose proof (Z.div_mod b r ltac:(lia)) as E. pose proof (Z.mod_pos_bound b r Hr).
  apply div_unique_bounds; [lia|]. nia.
Qed.

Lemma cdiv_ge_div : forall b r, 0 < r -> b / r <= cdiv b r <= b / r + 1.
Proof.
  intros b r Hr. destruct (Z.eq_dec (b mod r) 0) as [E|E].
  - rewrite cdiv_exact by assumption. lia.
  - rewrite cdiv_inexact by assumption. lia.
Qed.

Lemma cdiv_le_iff : forall b r c, 0 < r -> (cdiv b r <= c <-> b <= r * c).
Proof.
  intros b r c Hr. unfold cdiv. pose proof (div_bounds (b + r - 1) r Hr). split; intro; nia.
Qed.

Lemma cdiv_mono : forall b b' r, 0 < r -> b <= b' -> cdiv b r <= cdiv b' r.
Proof. intros. unfold cdiv. apply Z.div_le_mono; lia. Qed.

Lemma floor_diff_le_cdiv : forall a b r, 0 < r -> (a + b) / r - a / r <= cdiv b r.
Proof.
  intros a b r Hr. destruct (Z.eq_dec (b mod r) 0) as [E|E].
  - rewrite cdiv_exact, floor_diff_exact by assumption. lia.
  - rewrite cdiv_inexact by assumption. pose proof (floor_diff_bounds a b r Hr). lia.
Qed.

(* ---------- rounding up to a unit ---------- *)

Definition ceil_to (u d : Z) : Z := ((d + u - 1) / u) * u.

Lemma ceil_to_ge : forall u d, 0 < u -> d <= ceil_to u d < d + u.
Proof.
  intros u d Hu. unfold ceil_to. pose proof (div_bounds (d + u - 1) u Hu). nia.
Qed.

Lemma ceil_to_mono : forall u d d', 0 < u -> d <= d' -> ceil_to u d <= ceil_to u d'.
Proof.
  intros. unfold ceil_to. apply Z.mul_le_mono_nonneg_r; [lia|]. apply Z.div_le_mono; lia.
Qed.

Lemma ceil_to_multiple : forall u k, 0 < u -> ceil_to u (k * u) = k * u.
Proof.
  intros u k Hu. unfold ceil_to. f_equal. apply div_unique_bounds; [lia|]. nia.
Qed.

Lemma ceil_to_mod : forall u d, 0 < u -> ceil_to u d mod u = 0.
Proof. intros. unfold ceil_to. apply Z.mod_mul. lia. Qed.

(* d and d+1 round up to the same multiple of u unless d is itself a multiple *)
Lemma ceil_to_succ : forall u d, 0 < u -> d mod u <> 0 -> ceil_to u (d + 1) = ceil_to u d.
Proof.
  intros u d Hu Hd. unfold ceil_to. f_equal.
  pose proof (Z.div_mod d u ltac:(lia)) as E. pose proof (Z.mod_pos_bound d u Hu) as B.
  rewrite (div_unique_bounds (d + 1 + u - 1) u (d / u + 1)) by nia.
  rewrite (div_unique_bounds (d + u - 1) u (d / u + 1)) by nia. reflexivity.
Qed.

(* ---------- no straddling: floor(N*c*u/R) next to a multiple of u ---------- *)

(* Let x = N*(c*u)/R be a non-integer rational. If R <= u * gcd(c,R) then neither floor(x)
   nor floor(x)+1 is a multiple of u.  (Used with c*u = 10^9: u = 10^6 ns, c = 1000, any
   R <= 10^6; and u = 5000 ns, c = 200000, the standard media clock rates.) *)
Lemma no_straddle : forall N c u R,
  0 < u -> 0 < R -> R <= u * Z.gcd c R ->
  (N * (c * u)) mod R <> 0 ->
  (N * (c * u) / R) mod u <> 0 /\ (N * (c * u) / R + 1) mod u <> 0.
Proof.
  intros N c u R Hu HR Hg Hx.
  set (X := N * (c * u)) in *.
  pose proof (Z.div_mod X R ltac:(lia)) as E. pose proof (Z.mod_pos_bound X R HR) as B.
  set (q := X / R) in *. set (r := X mod R) in *.
  set (g := Z.gcd c R) in *.
  assert (Hg0 : 0 <= g) by apply Z.gcd_nonneg.
  destruct (Z.gcd_divide_l c R) as [c' Hc]. destruct (Z.gcd_divide_r c R) as [R' HR'].
  fold g in Hc, HR'.
  split; intro Hm.
  - (* q = k*u : then r = X - k*u*R is a multiple of u*g, 0 < r < R <= u*g *)
    apply Z.mod_divide in Hm; [|lia]. destruct Hm as [k Hk].
    assert (Er : r = (N * c' - k * R') * (u * g)) by (unfold X in E; rewrite Hc in E; nia).
    assert (0 < u * g) by nia.
    assert (0 < N * c' - k * R') by nia.
    nia.
  - (* q + 1 = k*u : then R - r is a multiple of u*g, 0 < R - r < R <= u*g *)
    apply Z.mod_divide in Hm; [|lia]. destruct Hm as [k Hk].
    assert (Er : R - r = (k * R' - N * c') * (u * g)) by (unfold X in E; rewrite Hc in E; nia).
    assert (0 < u * g) by nia.
    assert (0 < k * R' - N * c') by nia.
    nia.
Qed.
