(* Schedules: a schedule is a list of thread ids; [run] folds a total step function over it
   (a step of a thread that is not enabled leaves the state unchanged).  Invariant rule and
   list-update lemmas used by the M4 proofs. *)
From Coq Require Import List Arith Lia.
Import ListNotations.

Section Sched.
  Context {S T : Type} (step : S -> T -> S).

  Definition run (s : S) (sched : list T) : S := fold_left step sched s.

  Lemma run_nil : forall s, run s [] = s.
  Proof. reflexivity. Qed.

  Lemma run_cons : forall s t r, run s (t :: r) = run (step s t) r.
  Proof. reflexivity. Qed.

  Lemma run_app : forall a b s, run s (a ++ b) = run (run s a) b.
  Proof. intros; unfold run; apply fold_left_app. Qed.

  Lemma run_snoc : forall a t s, run s (a ++ [t]) = step (run s a) t.
  Proof. intros; rewrite run_app; reflexivity. Qed.

  (* an inductive invariant holds after every schedule *)
  Lemma run_invariant : forall (I : S -> Prop),
    (forall s t, I s -> I (step s t)) ->
    forall sched s, I s -> I (run s sched).
  Proof.
    intros I Hstep sched; induction sched as [|t r IH]; intros s Hs; [exact Hs|].
    rewrite run_cons; apply IH, Hstep, Hs.
  Qed.

  (* a relation between a state and its successors that is reflexive, transitive and holds
     for every step holds along every schedule *)
  Lemma run_relation : forall (R : S -> S -> Prop),
    (forall s, R s s) -> (forall a b c, R a b -> R b c -> R a c) ->
    (forall s t, R s (step s t)) ->
    forall sched s, R s (run s sched).
  Proof.
    intros R Hr Ht Hs sched; induction sched as [|t r IH]; intros s; [apply Hr|].
    rewrite run_cons; eapply Ht; [apply Hs|apply IH].
  Qed.
End Sched.

(* ---- list update ---- *)
Definition upd_nth {A} (l : list A) (i : nat) (x : A) : list A :=
  firstn i l ++ match skipn i l with [] => [] | _ :: t => x :: t end.

Lemma upd_nth_length : forall A (l : list A) i x, length (upd_nth l i x) = length l.
Proof.
  intros A l; induction l as [|a l IH]; intros [|i] x; simpl; auto.
  unfold upd_nth in IH. rewrite IH. reflexivity.
Qed.

Lemma nth_error_upd_nth_eq : forall A (l : list A) i x,
  i < length l -> nth_error (upd_nth l i x) i = Some x.
Proof.
  intros A l; induction l as [|a l IH]; intros [|i] x H; simpl in *; try lia; auto.
  apply IH; lia.
Qed.

Lemma nth_error_upd_nth_neq : forall A (l : list A) i j x,
  i <> j -> nth_error (upd_nth l i x) j = nth_error l j.
Proof.
  intros A l; induction l as [|a l IH]; intros i j x H.
  - destruct i, j; reflexivity.
  - destruct i as [|i], j as [|j]; try congruence; try reflexivity.
    change (nth_error (upd_nth l i x) j = nth_error l j). apply IH; congruence.
Qed.

Lemma nth_error_upd_nth : forall A (l : list A) i j x y,
  nth_error (upd_nth l i x) j = Some y ->
  (i = j /\ y = x /\ i < length l) \/ (i <> j /\ nth_error l j = Some y).
Proof.
  intros A l i j x y H. destruct (Nat.eq_dec i j) as [->|Hn].
  - left. assert (Hl : j < length l).
    { rewrite <- (upd_nth_length A l j x). apply nth_error_Some. congruence. }
    rewrite nth_error_upd_nth_eq in H by exact Hl. inversion H; auto.
  - right. rewrite nth_error_upd_nth_neq in H by exact Hn. auto.
Qed.

Lemma nth_error_map_some : forall A B (f : A -> B) l i y,
  nth_error (map f l) i = Some y -> exists x, nth_error l i = Some x /\ y = f x.
Proof.
  intros A B f l; induction l as [|a l IH]; intros [|i] y H; simpl in *; try discriminate.
  - inversion H; eauto.
  - apply IH; exact H.
Qed.
