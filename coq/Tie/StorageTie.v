(* Correspondence for C17: a case = op list + the observations of the real RAM and disk
   backends; [mismatches] returns the indices of the cases on which a model disagrees. *)
From Coq Require Import List ZArith Bool.
From GoHls Require Import Model.Storage.
Import ListNotations.

Definition obs_eqb (a b : obs) : bool :=
  match a, b with
  | ONone, ONone | OOk, OOk | OErr, OErr => true
  | OBytes x, OBytes y => if list_eq_dec Z.eq_dec x y then true else false
  | ONum x, ONum y => Z.eqb x y
  | _, _ => false
  end.

Fixpoint obsl_eqb (a b : list obs) : bool :=
  match a, b with
  | [], [] => true
  | x :: a', y :: b' => obs_eqb x y && obsl_eqb a' b'
  | _, _ => false
  end.

Record scase := { sc_ops : list sop; sc_ram : list obs; sc_disk : list obs; sc_file : option (list Z) }.

(* 1 = wf violated (generator bug), 2 = RAM differs, 3 = disk differs, 4 = file bytes differ *)
Definition check_case (c : scase) : list nat :=
  (if wf_ops (sc_ops c) then [] else [1]) ++
  (if obsl_eqb (obs_ram (sc_ops c)) (sc_ram c) then [] else [2]) ++
  (if obsl_eqb (obs_disk (sc_ops c)) (sc_disk c) then [] else [3]) ++
  (let d := fst (run disk_step disk_init (sc_ops c)) in
   match sc_file c with
   | None => if f_exists d then [4] else []
   | Some bs => if f_exists d && (if list_eq_dec Z.eq_dec (f_bytes d) bs then true else false)
                then [] else [4]
   end).

Fixpoint mismatches_from (i : nat) (cs : list scase) : list (nat * list nat) :=
  match cs with
  | [] => []
  | c :: cs' =>
      match check_case c with
      | [] => mismatches_from (S i) cs'
      | ks => (i, ks) :: mismatches_from (S i) cs'
      end
  end.

Definition mismatches (cs : list scase) : list (nat * list nat) := mismatches_from 0 cs.
