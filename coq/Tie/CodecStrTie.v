(* C16, codec-string leg of the tie: the real codecparams.Marshal against Model/CodecStr.v.
   A case is the record of fields the Go code read (the harness obtains them from mediacommon's
   own parsers on the parameter bytes it hands to Marshal) and the string the real Marshal
   returned. Observables:
     1  marshal (model) <> the real string
     2  the fields are within their ranges, the real string is not empty and the grammar
        wf_codec_string rejects it (the prediction of c16_codec_string_wellformed on real output) *)
From Coq Require Import List ZArith Bool String Ascii.
From GoHls Require Import Model.PlaylistBase Model.CodecStr.
Import ListNotations.
Local Open Scope string_scope.

Inductive ccase := CCase (c : codec) (real : string).

(* strings with bytes outside printable ASCII are written as byte lists *)
Fixpoint bs (l : list nat) : string :=
  match l with [] => "" | n :: r => String (ascii_of_nat n) (bs r) end.

Definition check (x : ccase) : list nat :=
  let '(CCase c real) := x in
  List.app (if String.eqb (marshal c) real then [] else [1%nat])
           (if codec_fields_ok c && negb (String.eqb real "") && negb (wf_codec_string real)
            then [2%nat] else []).

Fixpoint mismatches_from (i : nat) (l : list ccase) : list (nat * list nat) :=
  match l with
  | [] => []
  | x :: r => match check x with
              | [] => mismatches_from (S i) r
              | ks => (i, ks) :: mismatches_from (S i) r
              end
  end.

Definition mismatches (l : list ccase) : list (nat * list nat) := mismatches_from 0 l.
