(* Correspondence for C06 / C07: cases produced by harness/cmd/muxconc from runs of the real
   muxer; [mismatches] returns the indices of the cases on which the model disagrees.

   A case is either
   - a SEQUENTIAL case: a writer history (abstract ops read off the hooks and snapshots of the
     real run), the expected VerifSnapshot view, and probes (queries with the observed outcome:
     400 / blocks / playlist / ...), or
   - a SCHEDULE case: a history, the writer's remaining program, the requests, the schedule the
     controller forced (macro items, each a list of micro steps of the model), and what every
     requester was observed to do. *)
From Coq Require Import List ZArith Bool String.
From GoHls Require Import Lib.MuxSched Model.MuxConcSeq Model.MuxConcSpec Model.MuxConcPar.
Import ListNotations.
Local Open Scope Z_scope.

(* coqfmt.Str prints non-printable bytes through [bs] *)
Definition bs (l : list nat) : string :=
  fold_right (fun n s => String (Ascii.ascii_of_nat n) s) EmptyString l.

Fixpoint list_eqb {A} (eqb : A -> A -> bool) (a b : list A) : bool :=
  match a, b with
  | [], [] => true
  | x :: a', y :: b' => eqb x y && list_eqb eqb a' b'
  | _, _ => false
  end.

Definition qitem_eqb (a b : qitem) : bool :=
  match a, b with
  | QBad, QBad => true
  | QPair k v, QPair k' v' => String.eqb k k' && String.eqb v v'
  | _, _ => false
  end.

Fixpoint count_q (x : qitem) (l : list qitem) : nat :=
  match l with [] => 0%nat | y :: r => ((if qitem_eqb x y then 1 else 0) + count_q x r)%nat end.

(* url.Values.Encode sorts by key: compare as multisets *)
Definition query_eqb (a b : query) : bool :=
  Nat.eqb (List.length a) (List.length b) &&
  forallb (fun x => Nat.eqb (count_q x a) (count_q x b)) a.

(* EXTINF carries 5 decimals *)
Definition dur_close (model real : Z) : bool := Z.abs (model - real) <=? 5000.

Definition plentry_eqb (a b : plentry) : bool :=
  match a, b with
  | PEGap d, PEGap d' => dur_close d d'
  | PESeg id d ps dt, PESeg id' d' ps' dt' =>
      (id =? id') && dur_close d d' && list_eqb Z.eqb ps ps' && Bool.eqb dt dt'
  | _, _ => false
  end.

Definition optZ_eqb (a b : option Z) : bool :=
  match a, b with Some x, Some y => x =? y | None, None => true | _, _ => false end.

Definition playlist_eqb (a b : playlist) : bool :=
  (pl_mediaSequence a =? pl_mediaSequence b) && (pl_targetDuration a =? pl_targetDuration b) &&
  Bool.eqb (pl_map a) (pl_map b) && optZ_eqb (pl_skip a) (pl_skip b) &&
  list_eqb plentry_eqb (pl_segments a) (pl_segments b) &&
  list_eqb Z.eqb (pl_parts a) (pl_parts b) && optZ_eqb (pl_hint a) (pl_hint b) &&
  query_eqb (pl_query a) (pl_query b).

(* ---------- what the harness observes of one request ---------- *)
Inductive ebody :=
| EBNone                      (* no body compared (non-200) *)
| EBEmpty                     (* 200 with an empty body *)
| EBMulti
| EBPlaylist (pl : playlist)
| EBPart (stream : nat) (id : Z)
| EBSeg (stream : nat) (id : Z).

Inductive eclass :=
| ECDone (status : Z) (b : ebody)
| ECWaiting                   (* parked in cond.Wait() *)
| ECLockBlocked               (* parked in mutex.Lock() *)
| ECNotStarted
| ECLookedUp.                 (* parked at server:looked-up *)

Definition resp_matches (r : response) (status : Z) (b : ebody) : bool :=
  match r, b with
  | R200Multi, EBMulti => status =? 200
  | R200Playlist pl, EBPlaylist pl' => (status =? 200) && playlist_eqb pl pl'
  | R200Part k id, EBPart k' id' => (status =? 200) && Nat.eqb k k' && (id =? id')
  | R200Seg k id, EBSeg k' id' => (status =? 200) && Nat.eqb k k' && (id =? id')
  | R400, EBNone => status =? 400
  | R404, EBNone => status =? 404
  | R500, EBNone => status =? 500
  | RNone, EBEmpty => status =? 200
  | _, _ => false
  end.

Definition class_matches (c : cstate) (r : rstate) (e : eclass) : bool :=
  match r_pc r, e with
  | PDone resp, ECDone st b => resp_matches resp st b
  | PWaiting _, ECWaiting => true
  | PLock _, ECLockBlocked | PWoken _, ECLockBlocked =>
      match c_owner c with Some _ => true | None => false end
  | PStart, ECNotStarted => true
  | PCall _, ECLookedUp => true
  | _, _ => false
  end.

(* ---------- sequential cases ---------- *)
Record snap_stream := {
  sn_nextSegmentID : Z; sn_nextPartID : Z; sn_deleteCount : Z; sn_len : Z; sn_gaps : Z;
  sn_targetDuration : Z; sn_hasNext : bool; sn_nextParts : Z; sn_closed : bool;
  sn_durations : list Z
}.

Definition is_gap (s : seg) : bool := match s with Gap _ => true | _ => false end.

Definition snap_stream_ok (s : stream) (e : snap_stream) : bool :=
  (nextSegmentID s =? sn_nextSegmentID e) && (nextPartID s =? sn_nextPartID e) &&
  (segmentDeleteCount s =? sn_deleteCount e) && (zlen (segments s) =? sn_len e) &&
  (zlen (filter is_gap (segments s)) =? sn_gaps e) &&
  (targetDuration s =? sn_targetDuration e) &&
  Bool.eqb (match nextSegment s with Some _ => true | None => false end) (sn_hasNext e) &&
  (match nextSegment s with Some ps => zlen ps | None => 0 end =? sn_nextParts e) &&
  Bool.eqb (s_closed s) (sn_closed e) &&
  list_eqb Z.eqb (map seg_dur (segments s)) (sn_durations e).

Definition path_in (p : path) (l : list path) : bool := existsb (path_eqb p) l.

Definition paths_ok_b (t : ptable) (e : list path) : bool :=
  forallb (fun x => path_in (fst x) e) t && forallb (fun p => path_in p (map fst t)) e &&
  Nat.eqb (List.length t) (List.length e).

(* outcome of one request evaluated atomically on a quiescent state *)
Inductive pout :=
| PO400 | PO404 | PO500 | POBlock | POPanic
| POPlaylist (pl : playlist) | POMulti | POPart (k : nat) (id : Z) | POSeg (k : nat) (id : Z) | POEmpty.

Definition tres_out (t : tres) : option pout :=
  match t with
  | TWait => Some POBlock
  | TExit R400 => Some PO400
  | TExit R500 => Some PO500
  | TExit (R200Playlist pl) => Some (POPlaylist pl)
  | TExit R200Multi => Some POMulti
  | TExit RPanic => Some POPanic
  | _ => None
  end.

Definition probe (m : mux) (r : request) : option pout :=
  match call m (req_query r) (lookup m r) with
  | PDone R400 => Some PO400
  | PDone RNone => Some POEmpty
  | PDone (R200Part k id) => Some (POPart k id)
  | PDone (R200Seg k id) => Some (POSeg k id)
  | PLock (FHint k id) =>
      match test m (req_query r) (FHint k id) with
      | TBreakHint (Some (HPart k' id')) => Some (POPart k' id')
      | TBreakHint None => Some PO404
      | TBreakHint _ => None
      | t => tres_out t
      end
  | PLock f => tres_out (test m (req_query r) f)
  | _ => None
  end.

Definition pout_eqb (a b : pout) : bool :=
  match a, b with
  | PO400, PO400 | PO404, PO404 | PO500, PO500 | POBlock, POBlock | POPanic, POPanic | POMulti, POMulti
  | POEmpty, POEmpty => true
  | POPlaylist x, POPlaylist y => playlist_eqb x y
  | POPart k i, POPart k' i' | POSeg k i, POSeg k' i' => Nat.eqb k k' && (i =? i')
  | _, _ => false
  end.

Record seqcase := {
  q_variant : variant; q_segmentCount : Z; q_nstreams : nat; q_leading : nat;
  q_ops : list wop;
  q_snap : list snap_stream; q_closed : bool; q_paths : list path;
  q_probes : list (request * pout)
}.

Fixpoint probes_bad (m : mux) (i : nat) (ps : list (request * pout)) : list nat :=
  match ps with
  | [] => []
  | (r, e) :: rest =>
      (match probe m r with
       | Some o => if pout_eqb o e then [] else [(100 + i)%nat]
       | None => [(100 + i)%nat]
       end) ++ probes_bad m (S i) rest
  end.

(* 1 = the writer model panics, 2 = stream state differs, 3 = path table differs,
   4 = closed flag differs, 100+i = probe i differs *)
Definition check_seq (c : seqcase) : list nat :=
  match run_wops (mux_init (q_variant c) (q_segmentCount c) (q_nstreams c) (q_leading c)) (q_ops c) with
  | None => [1%nat]
  | Some m =>
      (if Nat.eqb (List.length (m_streams m)) (List.length (q_snap c)) &&
          forallb (fun p => snap_stream_ok (fst p) (snd p)) (combine (m_streams m) (q_snap c))
       then [] else [2%nat]) ++
      (if paths_ok_b (m_paths m) (q_paths c) then [] else [3%nat]) ++
      (if Bool.eqb (m_closed m) (q_closed c) then [] else [4%nat]) ++
      probes_bad m 0 (q_probes c)
  end.

(* ---------- schedule cases ---------- *)
Inductive sitem :=
| SW (n : nat)       (* n micro steps of the writer *)
| SR (i : nat)       (* one micro step of requester i *)
| SRun (i : nat).    (* requester i until it sleeps, returns, or is stuck in Lock() *)

Fixpoint srun (fuel : nat) (c : cstate) (i : nat) : cstate :=
  match fuel with
  | O => c
  | S f =>
      match req_pc c i with
      | Some (PWaiting _) | Some (PDone _) | None => c
      | Some (PLock _) | Some (PWoken _) =>
          match c_owner c with
          | Some _ => c
          | None => srun f (step c (TR i)) i
          end
      | Some _ => srun f (step c (TR i)) i
      end
  end.

Definition sitem_run (c : cstate) (s : sitem) : cstate :=
  match s with
  | SW n => crun c (repeat TW n)
  | SR i => step c (TR i)
  | SRun i => srun 12 c i
  end.

Record rexp := { x_class : eclass; x_waits : nat; x_stamp : option Z }.

Record schedcase := {
  h_variant : variant; h_segmentCount : Z; h_nstreams : nat; h_leading : nat;
  h_pre : list wop;             (* history before the concurrent phase *)
  h_prog : list wop;            (* the writer's program during it *)
  h_reqs : list request;
  h_sched : list sitem;
  h_exp : list rexp;
  h_owner_free : bool;          (* VerifMutexFree at the end *)
  h_finished : bool;            (* Close returned *)
  h_files_empty : option bool   (* os.ReadDir(Directory) empty (None: not observed) *)
}.

Definition optZ_eqb' := optZ_eqb.

Fixpoint reqs_bad (c : cstate) (i : nat) (rs : list rstate) (es : list rexp) : list nat :=
  match rs, es with
  | [], [] => []
  | r :: rs', e :: es' =>
      (if class_matches c r (x_class e) then [] else [(100 + i)%nat]) ++
      (if Nat.eqb (r_waits r) (x_waits e) then [] else [(200 + i)%nat]) ++
      (match x_stamp e with
       | None => []
       | Some z => match r_stamp r with
                   | Some z' => if z =? z' then [] else [(300 + i)%nat]
                   | None => [(300 + i)%nat]
                   end
       end) ++ reqs_bad c (S i) rs' es'
  | _, _ => [99%nat]
  end.

(* 1 = history panics, 5 = mutex owner differs, 6 = Close-returned differs, 7 = files differ,
   100+i = class/response of requester i, 200+i = number of sleeps, 300+i = progress stamp *)
Definition check_sched (h : schedcase) : list nat :=
  match run_wops (mux_init (h_variant h) (h_segmentCount h) (h_nstreams h) (h_leading h)) (h_pre h) with
  | None => [1%nat]
  | Some m0 =>
      let c := fold_left sitem_run (h_sched h) (cinit m0 (h_prog h) (h_reqs h)) in
      (if Bool.eqb (match c_owner c with None => true | Some _ => false end) (h_owner_free h)
       then [] else [5%nat]) ++
      (if Bool.eqb (match c_wpc c with WFinished => true | _ => false end) (h_finished h)
       then [] else [6%nat]) ++
      (match h_files_empty h with
       | None => []
       | Some b => if Bool.eqb (match m_files (c_mux c) with [] => true | _ => false end) b
                   then [] else [7%nat]
       end) ++
      reqs_bad c 0 (c_reqs c) (h_exp h)
  end.

Inductive mcase := CSeq (c : seqcase) | CSched (h : schedcase).

Definition check_case (c : mcase) : list nat :=
  match c with CSeq q => check_seq q | CSched h => check_sched h end.

Fixpoint mismatches_from (i : nat) (cs : list mcase) : list (nat * list nat) :=
  match cs with
  | [] => []
  | c :: cs' =>
      match check_case c with
      | [] => mismatches_from (S i) cs'
      | ks => (i, ks) :: mismatches_from (S i) cs'
      end
  end.

Definition mismatches (cs : list mcase) : list (nat * list nat) := mismatches_from 0 cs.
