(* Correspondence for C11. A case is either a client run (per stream: playlist URL, the scripted
   history, the request log the stub observed; plus what Client.Wait returned) or a direct
   comparison of findSegmentWithID / findSegmentWithInvPosition / clientAbsoluteURL / the
   _HLS_skip URL / the constants through the verif exports.
   [mismatches] returns (case index, codes):
     1 request log differs          2 final outcome differs
     3 URL oracle instance differs  4 findSegmentWithID differs
     5 findSegmentWithInvPosition differs   6 constants differ *)
From Coq Require Import List ZArith String Bool.
From GoHls Require Import Model.ClientSel Model.ClientSelURL.
Import ListNotations.
Local Open Scope Z_scope.

Definition wkind_eqb (a b : wkind) : bool :=
  match a, b with
  | WPlaylist, WPlaylist | WSegment, WSegment | WPart, WPart => true
  | _, _ => false
  end.

Definition ostr_eqb (a b : option string) : bool :=
  match a, b with
  | None, None => true
  | Some x, Some y => String.eqb x y
  | _, _ => false
  end.

Definition wreq_eqb (a b : wreq) : bool :=
  wkind_eqb (w_kind a) (w_kind b) && String.eqb (w_url a) (w_url b) && ostr_eqb (w_range a) (w_range b).

Definition owreq_eqb (a : option wreq) (b : wreq) : bool :=
  match a with Some x => wreq_eqb x b | None => false end.

Fixpoint log_eqb (model : list (option wreq)) (obs : list wreq) : bool :=
  match model, obs with
  | [], [] => true
  | x :: m', y :: o' => owreq_eqb x y && log_eqb m' o'
  | _, _ => false
  end.

(* obs is a prefix of model *)
Fixpoint log_prefixb (model : list (option wreq)) (obs : list wreq) : bool :=
  match obs, model with
  | [], _ => true
  | y :: o', x :: m' => owreq_eqb x y && log_prefixb m' o'
  | _ :: _, [] => false
  end.

Record stream_case := {
  st_purl : string;
  st_history : list playlist;
  st_obs : list wreq
}.

Inductive ccase :=
| CRun (streams : list stream_case) (final : outcome)
| CFindID (seqNo : Z) (nsegs : nat) (id : Z) (panicked found : bool) (index invPos : Z)
| CFindInv (nsegs : nat) (invPos : Z) (panicked found : bool) (index : Z)
| CResolve (base ref : string) (result : option string)
| CSkip (url result : string)
| CConsts (initialDistance maxDistance : Z).

Definition model_stream (s : stream_case) : list (option wreq) * outcome :=
  let '(log, o) := run resolve_url (st_purl s) (st_history s) in
  (wire_log resolve_url add_skip (st_purl s) log, o).

Definition dummy_seg : segment := {| sg_uri := "x"; sg_start := None; sg_length := None; sg_payload := 0 |}.

Definition check_case (c : ccase) : list nat :=
  match c with
  | CRun streams final =>
      let ms := map model_stream streams in
      let outs := map snd ms in
      let pairs := combine ms streams in
      let all_equal := forallb (fun p => log_eqb (fst (fst p)) (st_obs (snd p))) pairs in
      let all_prefix := forallb (fun p => log_prefixb (fst (fst p)) (st_obs (snd p))) pairs in
      (* some stream whose modelled outcome is the observed error made all its requests *)
      let culprit := existsb (fun p => outcome_eqb (snd (fst p)) final &&
                                       log_eqb (fst (fst p)) (st_obs (snd p))) pairs in
      let log_ok :=
        match streams with
        | [_] => all_equal
        | _ => if forallb is_eos outs then all_equal else all_prefix && culprit
        end in
      (if log_ok then [] else [1%nat]) ++
      (if client_result outs final then [] else [2%nat])
  | CFindID seqNo nsegs id panicked found index invPos =>
      match findSegmentWithID seqNo (repeat dummy_seg nsegs) id with
      | Found3 _ i inv => if negb panicked && found && (i =? index) && (inv =? invPos) then [] else [4%nat]
      | Nil3 => if negb panicked && negb found && (index =? 0) && (invPos =? 0) then [] else [4%nat]
      | Panic3 => if panicked then [] else [4%nat]
      end
  | CFindInv nsegs invPos panicked found index =>
      match findSegmentWithInvPosition (repeat dummy_seg nsegs) invPos with
      | Found2 _ i => if negb panicked && found && (i =? index) then [] else [5%nat]
      | Nil2 => if negb panicked && negb found && (index =? 0) then [] else [5%nat]
      | Panic2 => if panicked then [] else [5%nat]
      end
  | CResolve base ref result =>
      if ostr_eqb (resolve_url base ref) result then [] else [3%nat]
  | CSkip url result =>
      if String.eqb (add_skip url) result then [] else [3%nat]
  | CConsts a b =>
      if (a =? clientLiveInitialDistance) && (b =? clientLiveMaxDistanceFromEnd) then [] else [6%nat]
  end.

Fixpoint mismatches_from (i : nat) (cs : list ccase) : list (nat * list nat) :=
  match cs with
  | [] => []
  | c :: cs' =>
      match check_case c with
      | [] => mismatches_from (S i) cs'
      | ks => (i, ks) :: mismatches_from (S i) cs'
      end
  end.

Definition mismatches (cs : list ccase) : list (nat * list nat) := mismatches_from 0 cs.

(* shorthands used by the generated case files *)
Definition sg (uri : string) (start length : option Z) (payload : Z) : segment :=
  {| sg_uri := uri; sg_start := start; sg_length := length; sg_payload := payload |}.
Definition pl (msn : Z) (segs : list segment) (endlist : bool) (t : pltype)
           (sc : option (bool * bool)) (hint : option (string * Z * option Z))
           (mp : option (string * option Z * option Z)) : playlist :=
  {| MediaSequence := msn; Segments := segs; Endlist := endlist; PlaylistType := t;
     ServerControl := match sc with
                      | Some (b, s) => Some {| sc_canBlockReload := b; sc_canSkipUntil := s |}
                      | None => None end;
     PreloadHint := match hint with
                    | Some (u, s, l) => Some {| ph_uri := u; ph_start := s; ph_length := l |}
                    | None => None end;
     Map := match mp with
            | Some (u, s, l) => Some {| mp_uri := u; mp_start := s; mp_length := l |}
            | None => None end |}.
Definition rq (k : wkind) (url : string) (range : option string) : wreq :=
  {| w_kind := k; w_url := url; w_range := range |}.

(* Coq elaborates string literals slowly (milliseconds each), so a case file states every
   distinct segment and every distinct URL once, in a table, and refers to them by position *)
Definition plx (tbl : list segment) (msn : Z) (idx : list Z) (endlist : bool) (t : pltype)
           (sc : option (bool * bool)) (hint : option (string * Z * option Z))
           (mp : option (string * option Z * option Z)) : playlist :=
  pl msn (map (fun i => nth (Z.to_nat i) tbl dummy_seg) idx) endlist t sc hint mp.
Definition rqx (tbl : list string) (k : wkind) (url : Z) (range : option string) : wreq :=
  rq k (nth (Z.to_nat url) tbl EmptyString) range.
