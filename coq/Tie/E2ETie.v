(* Correspondence for C09 (see harness/cmd/e2e/tie.go for what each case holds).
   [mismatches] returns (case index, codes):
     1  CSupport: the real codec string does not start as [codec_string] says / the model's checkSupport
        disagrees with the real one
     2  CPlan: the tracks OnTracks reported (or "no supported variant") differ from [client_plan]
     3  CNorm: delivered time of a callback differs from [e2e_norm_fmp4] / [e2e_norm_mpegts]
     10+k CClient: code k of the client-model comparison (1 no model run, 3 callback not predicted,
        4 pts / dts / payload, 5 AbsoluteTime, 6 tracks) *)
From Coq Require Import List ZArith Bool String Uint63.
From GoHls Require Model.Mux Model.ClientContent.
From GoHls Require Import Model.ClientTime Model.E2E Tie.ClientTimeTie.
Import ListNotations.
Local Open Scope Z_scope.

Definition kind_of (k : Z) : Mux.ckind :=
  if k =? 1 then Mux.H264 else if k =? 2 then Mux.H265 else if k =? 3 then Mux.VP9
  else if k =? 4 then Mux.AV1 else if k =? 5 then Mux.AAC else Mux.OPUS.

Definition gcode (g : option ClientContent.gcodec) : Z :=
  match g with
  | Some ClientContent.GH264 => 1 | Some ClientContent.GH265 => 2 | Some ClientContent.GVP9 => 3
  | Some ClientContent.GAV1 => 4 | Some ClientContent.GMPEG4Audio => 5 | Some ClientContent.GOpus => 6
  | None => 0
  end.

Definition mkcfg (v : Z) (tracks : list (Z * Z * Z * Z * Z * bool * Z)) (segcount segmin partmin : Z) : Mux.cfg :=
  {| Mux.c_variant := if v =? 1 then Mux.MPEGTS else if v =? 2 then Mux.FMP4 else Mux.LL;
     Mux.c_tracks := map (fun t => let '(k, rate, srate, name, lang, dflt, p0) := t in
                                   {| Mux.t_kind := kind_of k; Mux.t_rate := rate; Mux.t_srate := srate;
                                      Mux.t_name := name; Mux.t_lang := lang; Mux.t_default := dflt;
                                      Mux.t_params0 := p0 |}) tracks;
     Mux.c_segcount := segcount; Mux.c_segmin := segmin; Mux.c_partmin := partmin; Mux.c_segmax := 0 |}.

Inductive ccase :=
| CSupport (k : Z) (s : string) (supported : bool)
| CPlan (c : Mux.cfg) (index : bool) (target : nat) (novariant : bool) (tracks : list (Z * Z * Z * Z * bool))
| CNorm (ts : bool) (r rl d d0 got : Z)
| CClient (e : e2e).

Fixpoint ctracks_eqb (a : list ctrack) (b : list (Z * Z * Z * Z * bool)) : bool :=
  match a, b with
  | [], [] => true
  | x :: a', (k, r, n, l, d) :: b' =>
      Z.eqb (gcode (ct_kind x)) k && Z.eqb (ct_rate x) r && Z.eqb (ct_name x) n && Z.eqb (ct_lang x) l
      && Bool.eqb (ct_default x) d && ctracks_eqb a' b'
  | _, _ => false
  end.

(* the client-model comparison of Tie/ClientTimeTie.v, for a client that was cut while playing: every
   callback made must be the model's i-th delivery of that track (pts, dts, payload as under the first
   anchor; AbsoluteTime as under some anchor a rendition may have observed). fMP4 streams are given as
   downloaded; [client_view] drops the trackless segments / parts a stream processor skips. *)
Fixpoint check_tracks_prefix (j : nat) (outs : list (list (nat * delivery))) (obs : list (list obsUnit))
  : list nat :=
  match obs with
  | [] => []
  | o :: r =>
      let cands := map (proj j) outs in
      (match cands, o with
       | [], _ :: _ => [1%nat]
       | _, _ => []
       end) ++ check_units 0 cands o ++ check_tracks_prefix (S j) outs r
  end.

Definition check_client (c : e2e) : list nat :=
  match c with
  | EF leading rends tracks obs _ =>
      let outs := oks (runsF (client_view true leading) (map (client_view false) rends)) in
      let want := map (fun t => (it_timeScale t, it_isVideo t)) (st_init leading ++ flat_map st_init rends) in
      dedup ((if tracks_eqb want tracks then [] else [6%nat]) ++ check_tracks_prefix 0 outs obs)
  | EM leading rends tracks obs _ =>
      let outs := oks (runsM leading rends) in
      let want := map (fun c => (90000, match c with MH264 => true | MAudio => false end))
                      (mst_tracks leading ++ flat_map mst_tracks rends) in
      dedup ((if tracks_eqb want tracks then [] else [6%nat]) ++ check_tracks_prefix 0 outs obs)
  end.

Definition check_case (c : ccase) : list nat :=
  match c with
  | CSupport k s supported =>
      if String.prefix (codec_string (kind_of k) "") s
         && Bool.eqb (ClientContent.checkSupport [s]) supported
      then [] else [1%nat]
  | CPlan c index target novariant tracks =>
      match client_plan c index target with
      | PNoVariant => if novariant then [] else [2%nat]
      | PTracks l => if negb novariant && ctracks_eqb l tracks then [] else [2%nat]
      | _ => [2%nat]
      end
  | CNorm ts r rl d d0 got =>
      if ts then (if Z.eqb (e2e_norm_mpegts r rl d d0) got then [] else [3%nat])
      else (match e2e_norm_fmp4 r rl d d0 with
            | Ok x => if Z.eqb x got then [] else [3%nat]
            | _ => [3%nat]
            end)
  | CClient e => map (fun k => (10 + k)%nat) (check_client e)
  end.

Fixpoint mismatches_from (i : nat) (cs : list ccase) : list (nat * list nat) :=
  match cs with
  | [] => []
  | c :: cs' =>
      match check_case c with
      | [] => mismatches_from (S i) cs'
      | ks => (i, ks) :: mismatches_from (S i) cs'
      end
  end.

Definition mismatches (cs : list ccase) : list (nat * list nat) := mismatches_from 0 cs.
