(* Correspondence for C12.  A case = the trace of observable events of one run of the REAL
   client (requests served / failed / blocked, user callbacks, OnTracks result, calls of Close,
   "every request succeeded and every sample was delivered") up to the moment Wait() yielded,
   plus the class of the value it yielded.

   The trace is replayed on the model (Model/ClientLife.v over the GENERATED table) with a fixed
   assignment of events to model goroutines:
     goroutine 0  the primary downloader (OnTracks, end of stream),
     goroutine 1  the rest of the client (added first): other callbacks, adds one goroutine per request,
     goroutine k  one per request: Do, [ReadAll], return / fail / stay blocked.
   Every replayed event must be enabled in the model (the real trace is a trace of the model).
   The model then predicts the possible results: the decisions of runInner's select that are
   enabled (an error offered by a sender; "terminated" if the client context is cancelled) -
   decisions enabled at an earlier point of the trace stay enabled, so the set at the end is the
   set for all interleavings of the run thread.  The observed class must be one of them, and the
   model must be able to complete that decision: cancel, every goroutine woken and joined, the
   single send. *)
From Coq Require Import List Bool Arith String.
From GoHls Require Import Lib.ClientLifeIR Model.ClientLifeOps Model.ClientLife Generated.ClientLifeBlockOps.
Import ListNotations.

Inductive tev :=
| TCb                           (* a user callback other than OnTracks *)
| TReqOk
| TReqBlocked                   (* the request is held until its context is cancelled *)
| TReqFault (e : err)
| TOnTracks (r : option err)
| TClose
| TAllDone.                     (* every request succeeded, every sample delivered: the stream ended *)

Record ccase := { cc_trace : list tev; cc_result : option result }.

Definition NH : blockop -> bool := fun _ => true.
Definition st := step table NH.
Definition FUEL : nat := 1000.

Definition dummy_op : blockop :=
  {| bo_file := ""; bo_func := ""; bo_line := 0; bo_kind := KSleep; bo_held := [] |}.
Definition op_in (f : string) (n : nat) : blockop :=
  nth n (filter (fun o => String.eqb (bo_func o) f) (g_ops table)) dummy_op.
Definition op_do := op_in "clientStreamDownloader.downloadSegment" 0.
Definition op_readall := op_in "clientStreamDownloader.downloadSegment" 1.

Fixpoint run_events (s : state) (l : list event) : option state :=
  match l with
  | [] => Some s
  | e :: r => match st s e with Some s' => run_events s' r | None => None end
  end.

Definition events_of (s : state) (t : tev) : list event :=
  let g := List.length (gs s) in
  match t with
  | TCb => [EG 1 (ACallback CbOther None)]
  | TReqOk => [EG 1 ASpawn; EG g (AStart op_do); EG g AComplete; EG g (AStart op_readall); EG g AComplete;
               EG g (AReturn None); EG g AWgDone]
  | TReqBlocked => [EG 1 ASpawn; EG g (AStart op_do)]
  | TReqFault e => [EG 1 ASpawn; EG g (AStart op_do); EG g (AFault e)]
  | TOnTracks r => [EG 0 (ACallback CbOnTracks r)]
  | TClose => [EClose]
  | TAllDone => [EG 0 (AReturn (Some EEOS))]
  end.

Fixpoint apply_trace (s : state) (tr : list tev) : option state :=
  match tr with
  | [] => Some s
  | t :: r => match run_events s (events_of s t) with Some s' => apply_trace s' r | None => None end
  end.

Definition err_eqb (a b : err) : bool :=
  match a, b with
  | EEOS, EEOS | EHttpStatus, EHttpStatus | ETransport, ETransport | EBodyRead, EBodyRead
  | EOnTracks, EOnTracks | EOther, EOther => true
  | _, _ => false
  end.
Definition result_eqb (a b : result) : bool :=
  match a, b with
  | RErr x, RErr y => err_eqb x y
  | RTerminated, RTerminated => true
  | _, _ => false
  end.

Fixpoint senders_from (i : nat) (l : list gpc) : list (event * result) :=
  match l with
  | [] => []
  | GSending e :: r => (ERunRecv i, RErr e) :: senders_from (S i) r
  | _ :: r => senders_from (S i) r
  end.

(* the decisions runInner's select can take in state s *)
Definition decisions (s : state) : list (event * result) :=
  senders_from 0 (gs s) ++ (if cctx s then [(ERunCtx, RTerminated)] else []).

Definition drain_event (s : state) (g : nat) : option event :=
  match nth_error (gs s) g with
  | Some (GBlocked _) => Some (EG g ACancelled)
  | Some GBody => Some (EG g (AReturn None))
  | Some (GSending _) => Some (EG g ASendCancelled)
  | Some GExit => Some (EG g AWgDone)
  | _ => None
  end.

Fixpoint drain_g (n : nat) (s : state) (g : nat) : state :=
  match n with
  | O => s
  | S n' =>
      match drain_event s g with
      | Some e => match st s e with Some s' => drain_g n' s' g | None => s end
      | None => s
      end
  end.

Definition drain_all (s : state) : state :=
  fold_left (fun s g => drain_g 5 s g) (seq 0 (List.length (gs s))) s.

(* take decision d, cancel the pool, join, send: the final state *)
Definition finish (s : state) (d : event) : option state :=
  match run_events s [d; ERunCancel] with
  | Some s1 => run_events (drain_all s1) [ERunWait; ERunSend]
  | None => None
  end.

Definition start : option state := st (init FUEL) (EG 0 ASpawn).

(* 1 = the model rejects an event of the trace; 2 = the observed result is not one the model
   predicts; 3 = the model cannot complete the observed decision with everything joined and
   exactly that single result; 4 = no result was observed although the model has a decision
   enabled *)
Definition check_case (c : ccase) : list nat :=
  match start with
  | None => [1]
  | Some s0 =>
      match apply_trace s0 (cc_trace c) with
      | None => [1]
      | Some s =>
          match cc_result c with
          | None => match decisions s with [] => [] | _ => [4] end
          | Some v =>
              match find (fun d => result_eqb (snd d) v) (decisions s) with
              | None => [2]
              | Some d =>
                  match finish s (fst d) with
                  | Some f =>
                      if match results (log f) with [w] => result_eqb w v | _ => false end
                         && Nat.eqb (wg f) 0 && all_done (gs f) && no_callback_after_result (log f)
                      then [] else [3]
                  | None => [3]
                  end
              end
          end
      end
  end.

Fixpoint mismatches_from (i : nat) (cs : list ccase) : list (nat * list nat) :=
  match cs with
  | [] => []
  | c :: cs' =>
      match check_case c with
      | [] => mismatches_from (S i) cs'
      | ks => (i, ks) :: mismatches_from (S i) cs'
      end
  end.

Definition mismatches (cs : list ccase) : list (nat * list nat) := mismatches_from 0 cs.
