(* Correspondence for C19: cases carry the arguments given to the real code and what it
   returned / showed; [mismatches] lists the cases on which Model/PartDur.v disagrees.
   Pure-function cases: result [None] = the Go call panicked.
   Muxer cases: configuration, the writes of the leading track, and the observations taken
   from the real Muxer (exact part durations and sample counts of every completed segment,
   the retained segment list, adjusted part duration, freeze flag, every change of the part
   target duration with the write index, the number of "part duration changed" reports, and
   a few parsed playlists). *)
From Coq Require Import List ZArith Bool.
From GoHls Require Import Lib.ZLib Model.PartDur Proofs.PartDurArith.
Import ListNotations.
Local Open Scope Z_scope.

Record pview := {
  v_k : Z;                         (* taken after this many writes *)
  v_pt : Z;                        (* PART-TARGET, ns *)
  v_segs : list (list Z);          (* EXT-X-PART durations per listed complete segment, 10 us units *)
  v_next : list Z }.               (* trailing EXT-X-PART durations, 10 us units *)

Record robs := {
  ro_published : list (list (Z * Z));    (* (ns, samples) *)
  ro_next : list (Z * Z);
  ro_retained : list (option (list Z));
  ro_adjusted : Z;
  ro_freeze : bool;
  ro_calls : list (Z * Z);               (* run-length (calls, access units per call): the harness
                                            observes the muxer after each Write* call only *)
  ro_pt_trace : list (Z * Z);            (* (number of writes done, new part target) at each change
                                            seen at a call boundary *)
  ro_errors : Z;
  ro_views : list pview }.

Inductive pcase :=
| CMulDiv (v m d : Z) (r : option Z)
| CTsd (t R : Z) (r : option Z)
| CD2T (d R : Z) (r : option Z)
| CCompat (p sd : Z) (r : option bool)
| CFind (pm : Z) (sds : list Z) (r : option Z)
| CRun (c : cfg) (ws : list write) (o : robs)
| CSide (c : cfg) (T : Z) (side : bool).   (* the harness's own evaluation of c19_side, by which it
                                             classifies the irregularities it observes *)

(* writes from a first dts and (delta to the next dts, flag code): 0 plain, 1 randomAccess,
   3 randomAccess + paramsChanged *)
Fixpoint mkws (d : Z) (l : list (Z * Z)) : list write :=
  match l with
  | [] => []
  | (delta, f) :: l' =>
      {| w_dts := d; w_ra := negb (f =? 0); w_pc := (f =? 3) |} :: mkws (d + delta) l'
  end.

(* run-length form: (count, delta, flag) *)
Definition expand (l : list (Z * Z * Z)) : list (Z * Z) :=
  flat_map (fun x => match x with (n, delta, f) => repeat (delta, f) (Z.to_nat n) end) l.

Definition mkwsr (d : Z) (l : list (Z * Z * Z)) : list write := mkws d (expand l).

Definition opt_eqb {A} (eqb : A -> A -> bool) (a b : option A) : bool :=
  match a, b with Some x, Some y => eqb x y | None, None => true | _, _ => false end.

Definition res_opt {A} (r : pres A) : option (option A) :=
  match r with POk a => Some (Some a) | PPanic => Some None | POutOfFuel => None end.

Definition agree {A} (eqb : A -> A -> bool) (m : pres A) (r : option A) : bool :=
  match res_opt m with Some x => opt_eqb eqb x r | None => false end.

Fixpoint list_eqb {A} (eqb : A -> A -> bool) (a b : list A) : bool :=
  match a, b with
  | [], [] => true
  | x :: a', y :: b' => eqb x y && list_eqb eqb a' b'
  | _, _ => false
  end.

Definition part_eqb (p : part) (q : Z * Z) : bool := (p_dur p =? fst q) && (p_n p =? snd q).

Fixpoint list_eqb2 {A B} (eqb : A -> B -> bool) (a : list A) (b : list B) : bool :=
  match a, b with
  | [], [] => true
  | x :: a', y :: b' => eqb x y && list_eqb2 eqb a' b'
  | _, _ => false
  end.

(* states after every prefix of the writes, first = after one write *)
Fixpoint scan (c : cfg) (s : mstate) (ws : list write) : option (list mstate) :=
  match ws with
  | [] => Some []
  | w :: ws' =>
      match fmp4WriteSample c s w with
      | POk s' => match scan c s' ws' with Some l => Some (s' :: l) | None => None end
      | _ => None
      end
  end.

Definition call_sizes (l : list (Z * Z)) : list nat :=
  flat_map (fun x => repeat (Z.to_nat (snd x)) (Z.to_nat (fst x))) l.

(* part target changes seen at the call boundaries: a call of n access units is n writes *)
Fixpoint pt_changes_calls (k prev : Z) (sizes : list nat) (l : list mstate) : list (Z * Z) :=
  match sizes with
  | [] => []
  | n :: r =>
      match skipn (n - 1) l with
      | s :: l' =>
          let k' := k + Z.of_nat n in
          if partTarget s =? prev then pt_changes_calls k' prev r l'
          else (k', partTarget s) :: pt_changes_calls k' (partTarget s) r l'
      | [] => []
      end
  end.

Fixpoint pt_changes (k : Z) (prev : Z) (l : list mstate) : list (Z * Z) :=
  match l with
  | [] => []
  | s :: l' =>
      if partTarget s =? prev then pt_changes (k + 1) prev l'
      else (k, partTarget s) :: pt_changes (k + 1) (partTarget s) l'
  end.

(* a printed duration (10 us units) is the 5-decimal rounding of d ns, any tie rule *)
Definition text_ok (d : Z) (t : Z) : bool := Z.abs (t * 10000 - d) <=? 5000.

Definition view_ok (states : list mstate) (v : pview) : bool :=
  match nth_error states (Z.to_nat (v_k v - 1)) with
  | None => false
  | Some s =>
      (partTarget s =? v_pt v) &&
      list_eqb2 (fun ps ts => list_eqb2 (fun p t => text_ok (p_dur p) t) ps ts) (listedSegments s) (v_segs v) &&
      list_eqb2 (fun p t => text_ok (p_dur p) t) (nextParts s) (v_next v)
  end.

Definition seg_durs_eqb (a : option (list part)) (b : option (list Z)) : bool :=
  match a, b with
  | None, None => true
  | Some ps, Some ds => list_eqb2 (fun p d => p_dur p =? d) ps ds
  | _, _ => false
  end.

(* 1 pure result, 2 published, 3 next parts, 4 adjusted/freeze, 5 part target trace,
   6 error count, 7 retained segments, 8 playlist view, 9 the model panicked / no state,
   10 the harness's side-condition verdict differs from [sideb] *)
Definition check_case (cs : pcase) : list nat :=
  match cs with
  | CMulDiv v m d r => if agree Z.eqb (multiplyAndDivide v m d) r then [] else [1%nat]
  | CTsd t R r => if agree Z.eqb (timestampToDuration t R) r then [] else [1%nat]
  | CD2T d R r => if agree Z.eqb (durationToTimestamp d R) r then [] else [1%nat]
  | CCompat p sd r => if agree Bool.eqb (partDurationIsCompatible p sd) r then [] else [1%nat]
  | CFind pm sds r => if agree Z.eqb (findCompatiblePartDuration pm sds) r then [] else [1%nat]
  | CSide c T b =>
      match findCompatiblePartDuration (partMinDuration c) [tsd T (clockRate c)] with
      | POk adj => if Bool.eqb (sideb adj T (clockRate c)) b then [] else [10%nat]
      | _ => [9%nat]
      end
  | CRun c ws o =>
      match scan c init_state ws with
      | None => [9%nat]
      | Some states =>
          let s := last states init_state in
          (if list_eqb2 (list_eqb2 part_eqb) (published s) (ro_published o) then [] else [2%nat]) ++
          (if list_eqb2 part_eqb (nextParts s) (ro_next o) then [] else [3%nat]) ++
          (if (adjusted s =? ro_adjusted o) && Bool.eqb (freeze s) (ro_freeze o) then [] else [4%nat]) ++
          (if list_eqb (fun a b => (fst a =? fst b) && (snd a =? snd b)) (pt_changes_calls 0 0 (call_sizes (ro_calls o)) states) (ro_pt_trace o)
           then [] else [5%nat]) ++
          (if encodeErrors s =? ro_errors o then [] else [6%nat]) ++
          (if list_eqb2 seg_durs_eqb (segments s) (ro_retained o) then [] else [7%nat]) ++
          (if forallb (view_ok states) (ro_views o) then [] else [8%nat])
      end
  end.

Fixpoint mismatches_from (i : nat) (cs : list pcase) : list (nat * list nat) :=
  match cs with
  | [] => []
  | c :: cs' =>
      match check_case c with
      | [] => mismatches_from (S i) cs'
      | ks => (i, ks) :: mismatches_from (S i) cs'
      end
  end.

Definition mismatches (cs : list pcase) : list (nat * list nat) := mismatches_from 0 cs.
