(* Correspondence for C14/C15: cases produced by harness/cmd/playlist from the REAL
   pkg/playlist; [mismatches] returns the indices of the cases on which the model
   (instantiated with Model/PlaylistOracle.go_oracles) disagrees, with the observable:
     1 = Marshal bytes, 2 = Media.Unmarshal, 3 = Multivariant.Unmarshal, 4 = playlist.Unmarshal,
     5 = the model answered Panic / OutOfFuel,
     6 = Model/PlaylistStrict.strict_ok disagrees with the Go grammar checker (no violation),
     7 = the value satisfies the hypotheses of c15_grammar_media / _multivariant (wf and strict,
         evaluated here) but strict_ok rejects the REAL Marshal output: the theorem's prediction
         fails on the implementation. *)
From Coq Require Import List ZArith Bool String Ascii Uint63.
From GoHls Require Import Model.PlaylistBase Model.PlaylistOracle Model.Playlist Model.PlaylistSpec
  Model.PlaylistStrict Model.PlaylistStrictSpec.
Import ListNotations.
Local Open Scope string_scope.
Local Open Scope Z_scope.

(* non-printable bytes in generated string literals *)
Definition bs (l : list nat) : string := string_of_bytes l.

(* Byte strings of the generated case files are packed 7 bytes per primitive 63-bit integer
   (little-endian inside a word; every word is full except the last, which holds [last]
   bytes): Coq elaborates string literals at ~70 us per character, primitive integers are
   free. *)
Definition tb (w : int) (k : int) : bool := negb (Uint63.eqb (Uint63.land (Uint63.lsr w k) 1%uint63) 0%uint63).
Definition ascii_at (w : int) (off : int) : ascii :=
  Ascii (tb w off) (tb w (off + 1)%uint63) (tb w (off + 2)%uint63) (tb w (off + 3)%uint63)
        (tb w (off + 4)%uint63) (tb w (off + 5)%uint63) (tb w (off + 6)%uint63) (tb w (off + 7)%uint63).
Fixpoint unpack_word (n : nat) (w : int) (off : int) (rest : string) : string :=
  match n with
  | O => rest
  | S n' => String (ascii_at w off) (unpack_word n' w (off + 8)%uint63 rest)
  end.
Fixpoint pk (l : list int) (last : nat) : string :=
  match l with
  | [] => EmptyString
  | [w] => unpack_word last w 0%uint63 EmptyString
  | w :: tl => unpack_word 7 w 0%uint63 (pk tl last)
  end.

Definition dtime_eq_dec : forall a b : dtime, {a = b} + {a <> b}.
Proof. repeat decide equality. Defined.
Definition media_eq_dec : forall a b : Media, {a = b} + {a <> b}.
Proof. repeat decide equality. Defined.
Definition multivariant_eq_dec : forall a b : Multivariant, {a = b} + {a <> b}.
Proof. repeat decide equality. Defined.

(* outcome of a real call: Some v = returned v, nil; None = returned an error *)
Inductive pcase :=
| CValueMedia (m : Media) (bytes : string)             (* Marshal of m returned bytes; then as CUnmarshal bytes *)
              (media : option (option Media)) (multi : option (option Multivariant))
              (auto : option (option playlist)) (strict : option bool)
| CValueMulti (m : Multivariant) (bytes : string)
              (media : option (option Media)) (multi : option (option Multivariant))
              (auto : option (option playlist)) (strict : option bool)
| CUnmarshal (s : string)
             (media : option (option Media))           (* Media.Unmarshal, if observed *)
             (multi : option (option Multivariant))    (* Multivariant.Unmarshal, if observed *)
             (auto : option (option playlist))
             (strict : option bool)             (* Go grammar checker found no violation, if observed *).           (* playlist.Unmarshal, if observed *)

Definition res_cmp {A} (eqb : A -> A -> bool) (r : res A) (obs : option A) (tag : nat) : list nat :=
  match r, obs with
  | Ok a, Some b => if eqb a b then [] else [tag]
  | Err, None => []
  | Panic, _ | OutOfFuel, _ => [tag; 5%nat]
  | _, _ => [tag]
  end.

Definition media_eqb (a b : Media) : bool := if media_eq_dec a b then true else false.
Definition multi_eqb (a b : Multivariant) : bool := if multivariant_eq_dec a b then true else false.
Definition playlist_eqb (a b : playlist) : bool :=
  match a, b with
  | PMedia x, PMedia y => media_eqb x y
  | PMultivariant x, PMultivariant y => multi_eqb x y
  | _, _ => false
  end.

Definition check_unmarshal (s : string) (media : option (option Media))
  (multi : option (option Multivariant)) (auto : option (option playlist)) : list nat :=
      match media with
      | Some obs => res_cmp media_eqb (media_unmarshal go_oracles s) obs 2%nat
      | None => []
      end ++
      match multi with
      | Some obs => res_cmp multi_eqb (multivariant_unmarshal go_oracles s) obs 3%nat
      | None => []
      end ++
      match auto with
      | Some obs => res_cmp playlist_eqb (unmarshal go_oracles s) obs 4%nat
      | None => []
      end.

Definition check_strict (s : string) (strict : option bool) : list nat :=
  match strict with
  | Some b => if Bool.eqb (strict_ok s) b then [] else [6%nat]
  | None => []
  end.

Definition check_case (c : pcase) : list nat :=
  match c with
  | CValueMedia m bytes media multi auto strict =>
      (if String.eqb (media_marshal go_oracles m) bytes then [] else [1%nat])
      ++ check_unmarshal bytes media multi auto ++ check_strict bytes strict
      ++ (if is_some strict && wf_media m && strict_media m && negb (strict_ok bytes) then [7%nat] else [])
  | CValueMulti m bytes media multi auto strict =>
      (if String.eqb (multivariant_marshal go_oracles m) bytes then [] else [1%nat])
      ++ check_unmarshal bytes media multi auto ++ check_strict bytes strict
      ++ (if is_some strict && wf_multivariant m && strict_multivariant m && negb (strict_ok bytes)
          then [7%nat] else [])
  | CUnmarshal s media multi auto strict => check_unmarshal s media multi auto ++ check_strict s strict
  end.

Fixpoint mismatches_from (i : nat) (cs : list pcase) : list (nat * list nat) :=
  match cs with
  | [] => []
  | c :: cs' =>
      match check_case c with
      | [] => mismatches_from (S i) cs'
      | ks => (i, ks) :: mismatches_from (S i) cs'
      end
  end.

Definition mismatches (cs : list pcase) : list (nat * list nat) := mismatches_from 0 cs.
