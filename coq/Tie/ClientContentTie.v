(* Correspondence for C13: a case = the parsed description of everything the stub server
   returned (what mediacommon's parsers and playlist.Unmarshal made of the served bytes) plus
   the outcome class observed on the real gohlslib.Client in a child process; [mismatches]
   returns the indices of the cases on which the model disagrees, with the reasons:
     1 = the model's outcome depends on wall-clock time within [0, 2 s] (generator must avoid)
     2 = tracks handed to OnTracks differ (or OnTracks called / not called)
     3 = end class differs (EOS / error class / panic kind)
     4 = per-track onData counts differ (compared when the run ended with EOS)
     5 = number of OnDecodeError calls differs (compared when the run ended with EOS) *)
From Coq Require Import List ZArith Bool String.
From GoHls Require Import Model.ClientContent.
Import ListNotations.
Local Open Scope Z_scope.

(* Go prints the same message for a nil func call and a nil pointer dereference *)
Inductive pclass := QNil | QIndex | QDiv | QAssert.
Definition pclass_of (p : pkind) : pclass :=
  match p with
  | PNilFunc | PNilDeref => QNil
  | PIndex => QIndex
  | PDivZero => QDiv
  | PTypeAssert => QAssert
  end.

Inductive oend := OEOS | OErr (e : ekind) | OPanic (q : pclass) | OOther.

Definition ekind_eqb (a b : ekind) : bool :=
  match a, b with
  | EHttp, EHttp | EInvalidPlaylist, EInvalidPlaylist | ENoVariants, ENoVariants | ENoGroup, ENoGroup
  | EBadURL, EBadURL | EInitParse, EInitParse | ERenditionMultiTrack, ERenditionMultiTrack
  | ETooManyTracks, ETooManyTracks | ESegParse, ESegParse | ENoLeadingData, ENoLeadingData
  | EMixed, EMixed | EDecode, EDecode | EDtsRtc, EDtsRtc | ENoSupportedTracks, ENoSupportedTracks
  | ETsInit, ETsInit | ETsRead, ETsRead | EOnTracks, EOnTracks | EBlocked, EBlocked
  | ENoSegments, ENoSegments | ENotEnough, ENotEnough | ENextNotFound, ENextNotFound
  | ETooLate, ETooLate | EHintGone, EHintGone | EInvalidTimeScale, EInvalidTimeScale => true
  | _, _ => false
  end.

Definition pclass_eqb (a b : pclass) : bool :=
  match a, b with
  | QNil, QNil | QIndex, QIndex | QDiv, QDiv | QAssert, QAssert => true
  | _, _ => false
  end.

Definition oend_of (r : res unit) : oend :=
  match r with
  | Ok _ => OEOS
  | Err e => OErr e
  | Panic p => OPanic (pclass_of p)
  | OutOfFuel => OOther
  end.

Definition oend_eqb (a b : oend) : bool :=
  match a, b with
  | OEOS, OEOS => true
  | OErr x, OErr y => ekind_eqb x y
  | OPanic x, OPanic y => pclass_eqb x y
  | _, _ => false
  end.

Definition gcodec_eqb (a b : gcodec) : bool :=
  match a, b with
  | GAV1, GAV1 | GVP9, GVP9 | GH265, GH265 | GH264, GH264 | GOpus, GOpus | GMPEG4Audio, GMPEG4Audio => true
  | _, _ => false
  end.

Definition ocodec_eqb (a b : option gcodec) : bool :=
  match a, b with
  | None, None => true
  | Some x, Some y => gcodec_eqb x y
  | _, _ => false
  end.

Fixpoint list_eqb {A} (eqb : A -> A -> bool) (a b : list A) : bool :=
  match a, b with
  | [], [] => true
  | x :: a', y :: b' => eqb x y && list_eqb eqb a' b'
  | _, _ => false
  end.

Definition tracks_eqb (a b : option (list (option gcodec))) : bool :=
  match a, b with
  | None, None => true
  | Some x, Some y => list_eqb ocodec_eqb x y
  | _, _ => false
  end.

Record ccase := {
  cc_sc : scenario;
  cc_tracks : option (list (option gcodec));     (* None: OnTracks was not called *)
  cc_ends : list oend;                           (* acceptable end classes (several when the error text is ambiguous) *)
  cc_counts : list nat;                          (* onData calls per exposed track *)
  cc_decodeErrors : nat
}.

Definition two_seconds : Z := 2000000000.

(* Which tree the model follows: the proposed repairs (findings/C13-*.json) that have been
   committed to /repo. The pinned tree has none. When a repair lands, set its flag to true: the
   model then follows the repaired code (Props/C13.v: c13_content_no_panic_after_repair is the
   full no-panic theorem for every tree with rep_tracks = true). *)
Definition repo_repairs : repairs := {| rep_tracks := true; rep_join := true |}.

Definition outcome_eqb (a b : outcome) : bool :=
  tracks_eqb (o_tracks a) (o_tracks b) && oend_eqb (oend_of (o_end a)) (oend_of (o_end b))
  && list_eqb (list_eqb Nat.eqb) (o_counts a) (o_counts b) && Nat.eqb (o_decodeErrors a) (o_decodeErrors b).

Definition check_case (rp : repairs) (c : ccase) : list nat :=
  let o := client_run_gen rp (cc_sc c) 0 in
  let o2 := client_run_gen rp (cc_sc c) two_seconds in
  (if outcome_eqb o o2 then [] else [1%nat]) ++
  (if tracks_eqb (o_tracks o) (cc_tracks c) then [] else [2%nat]) ++
  (if existsb (oend_eqb (oend_of (o_end o))) (cc_ends c) then [] else [3%nat]) ++
  (match cc_ends c with
   | [OEOS] =>
       (if list_eqb Nat.eqb (List.concat (o_counts o)) (cc_counts c) then [] else [4%nat]) ++
       (if Nat.eqb (o_decodeErrors o) (cc_decodeErrors c) then [] else [5%nat])
   | _ => []
   end).

Fixpoint mismatches_from (rp : repairs) (i : nat) (cs : list ccase) : list (nat * list nat) :=
  match cs with
  | [] => []
  | c :: cs' =>
      match check_case rp c with
      | [] => mismatches_from rp (S i) cs'
      | ks => (i, ks) :: mismatches_from rp (S i) cs'
      end
  end.

(* [mismatches]: against the tree /repo has (repo_repairs); [mismatches_for]: against a scratch
   copy with the given repairs (mutation self-tests only) *)
Definition mismatches_for (rp : repairs) (cs : list ccase) : list (nat * list nat) := mismatches_from rp 0 cs.
Definition mismatches (cs : list ccase) : list (nat * list nat) := mismatches_for repo_repairs cs.

(* bytes that coqfmt.Str cannot print as a literal *)
Definition bs (l : list nat) : string := string_of_list_ascii (map Ascii.ascii_of_nat l).

(* short constructors for the generated case files *)
Definition IT (id ts : Z) (c : fcodec) : init_track := {| it_id := id; it_timescale := ts; it_codec := c |}.
Definition SM (d o : Z) (a b : bool) : sample := {| s_duration := d; s_ptsoff := o; s_okAV1 := a; s_okAVCC := b |}.
Definition PT (id base : Z) (s : list sample) : part_track := {| pt_id := id; pt_baseTime := base; pt_samples := s |}.
Definition FS (dt : option Z) (p : option (list part)) : fseg := {| fg_dateTime := dt; fg_parts := p |}.
Definition TS (dt : option Z) (r : list ts_read) : tseg := {| tg_dateTime := dt; tg_reads := r |}.
Definition SFm (i : option (list init_track)) (s : list fseg) : stream := SF {| fs_init := i; fs_segs := s |}.
Definition STs (p : option (list tcodec)) (s : list tseg) : stream := ST {| tst_pmt := p; tst_segs := s |}.
Definition U (ok : bool) (r : nat) : uri := {| u_parse_ok := ok; u_empty := false; u_res := r |}.
Definition VR (codecs : list string) (bw : Z) (u : uri) (audio : string) : option uvariant :=
  Some {| v_codecs := codecs; v_bandwidth := bw; v_uri := u; v_audio := audio |}.
Definition RD (g : string) (u : option uri) : option urendition := Some {| r_groupID := g; r_uri := u |}.
Definition MV (vs : list (option uvariant)) (rs : list (option urendition)) : uplaylist :=
  PLMulti {| mv_variants := vs; mv_renditions := rs |}.
(* a media playlist as primary: the client's run over parsed content only needs its kind *)
Definition MEDIA (nseg : nat) : uplaylist :=
  PLMedia {| um_mediaSequence := 0;
             um_segments := repeat (Some {| us_uri := U true 0; us_dateTime := None; us_duration := 1000000000 |}) nseg;
             um_parts := []; um_map := None; um_serverControl := None; um_preloadHint := None;
             um_playlistType := Some PTVod; um_endlist := true |}.
Definition SC (p : uplaylist) (s : list stream) (e : bool) : scenario :=
  {| sc_primary := p; sc_streams := s; sc_onTracksErr := e |}.
Definition CASE (sc : scenario) (t : option (list (option gcodec))) (e : list oend) (c : list nat) (n : nat) : ccase :=
  {| cc_sc := sc; cc_tracks := t; cc_ends := e; cc_counts := c; cc_decodeErrors := n |}.

(* ---------- second case type: the playlist index expressions on the real functions ----------
   The harness calls the exported dateTimeOfPreloadHint, findSegmentWithInvPosition,
   findSegmentWithID, pickLeadingPlaylist and checkSupport of /repo on generated values
   (nil elements included, under recover()) and records what they returned. *)
Inductive pobs :=
| PPanic                       (* the call panicked *)
| PNone                        (* nil / not found *)
| PTime (ns : Z)               (* dateTimeOfPreloadHint: the time *)
| PFound (isSome : bool) (index : Z) (inv : Z)   (* element non-nil?, index, inverse position (0 when unused) *)
| PIdx (i : Z)                 (* pickLeadingPlaylist: index of the chosen variant *)
| PBool (b : bool).

Definition pobs_eqb (a b : pobs) : bool :=
  match a, b with
  | PPanic, PPanic | PNone, PNone => true
  | PTime x, PTime y => Z.eqb x y
  | PFound s i v, PFound s' i' v' => Bool.eqb s s' && Z.eqb i i' && Z.eqb v v'
  | PIdx x, PIdx y => Z.eqb x y
  | PBool x, PBool y => Bool.eqb x y
  | _, _ => false
  end.

Inductive pcall :=
| CDateTime (pl : umedia)
| CInvPos (segs : list (option useg)) (invPos : Z)
| CWithID (seqNo : Z) (segs : list (option useg)) (id : Z)
| CPick (vs : list (option uvariant))       (* u_res of each variant = its index *)
| CSupport (codecs : list string).

Definition is_some {A} (o : option A) : bool := match o with Some _ => true | None => false end.

Definition model_call (c : pcall) : pobs :=
  match c with
  | CDateTime pl =>
      match dateTimeOfPreloadHint pl with
      | Ok None => PNone | Ok (Some t) => PTime t | Panic _ => PPanic | _ => PNone
      end
  | CInvPos segs invPos =>
      match findSegmentWithInvPosition segs invPos with
      | Ok None => PNone
      | Ok (Some (s, i)) => PFound (is_some s) i 0
      | Panic _ => PPanic | _ => PNone
      end
  | CWithID seqNo segs id =>
      match findSegmentWithID seqNo segs id with
      | Ok None => PNone
      | Ok (Some (s, i, v)) => PFound (is_some s) i v
      | Panic _ => PPanic | _ => PNone
      end
  | CPick vs =>
      match pickLeadingPlaylist vs with
      | Ok None => PNone
      | Ok (Some v) => PIdx (Z.of_nat (u_res (v_uri v)))
      | Panic _ => PPanic | _ => PNone
      end
  | CSupport codecs => PBool (checkSupport codecs)
  end.

Record pcase := { pc_call : pcall; pc_obs : pobs }.

Fixpoint pmismatches_from (i : nat) (cs : list pcase) : list (nat * list nat) :=
  match cs with
  | [] => []
  | c :: cs' =>
      if pobs_eqb (model_call (pc_call c)) (pc_obs c) then pmismatches_from (S i) cs'
      else (i, [6%nat]) :: pmismatches_from (S i) cs'
  end.
Definition pmismatches (cs : list pcase) : list (nat * list nat) := pmismatches_from 0 cs.

Definition SG (dt : option Z) (dur : Z) : option useg :=
  Some {| us_uri := U true 0; us_dateTime := dt; us_duration := dur |}.
Definition PR (dur : Z) : option upart := Some {| up_duration := dur |}.
Definition MD (segs : list (option useg)) (parts : list (option upart)) : umedia :=
  {| um_mediaSequence := 0; um_segments := segs; um_parts := parts; um_map := None;
     um_serverControl := None; um_preloadHint := None; um_playlistType := None; um_endlist := false |}.
Definition PC (c : pcall) (o : pobs) : pcase := {| pc_call := c; pc_obs := o |}.
