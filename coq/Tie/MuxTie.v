(* Correspondence for the muxer model: the observable trace of a write history, flattened to
   lines of integers. The Go harness prints the implementation's observables in the same encoding
   and the two outputs are compared textually. The encoding lives here, next to the model, so the
   model's side cannot drift from the theorems' definitions. *)
From Coq Require Import List ZArith Bool.
From GoHls Require Import Model.Mux.
Import ListNotations.
Local Open Scope Z_scope.

Definition b2z (b : bool) : Z := if b then 1 else 0.
Definition zlen {A} (l : list A) : Z := Z.of_nat (length l).

Definition kind_code (k : ckind) : Z :=
  match k with H264 => 1 | H265 => 2 | VP9 => 3 | AV1 => 4 | AAC => 5 | OPUS => 6 end.

Definition res_code {A} (r : res A) : Z :=
  match r with Ok _ => 0 | Err e => 10 + Z.of_nat e | Panic p => 20 + Z.of_nat p end.

(* ---- line 2: state digest (compared with VerifSnapshot) ---- *)
Definition stream_digest (v : variant) (s : stream) : list Z :=
  [ st_nextSeg s; st_nextPart s; st_delcount s; zlen (st_segments s);
    zlen (filter sg_gap (st_segments s)); st_target s; st_parttarget s;
    b2z (match st_init s with Some _ => true | None => false end);
    b2z (match st_open s with Some _ => true | None => false end);
    match st_open s with Some g => zlen (listed_parts v g) | None => 0 end ].

Definition digest_line (k : Z) (v : variant) (m : mstate) : list Z :=
  [2; k; b2z (m_pending m); m_adj m; b2z (m_freeze m); zlen (m_paths m)]
  ++ flat_map (stream_digest v) (m_streams m).

(* ---- line 3: media playlist ---- *)
Definition enc_part (p : plpart) : list Z := [pp_id p; pp_dur p; b2z (pp_indep p)].
Definition enc_seg (s : plseg) : list Z :=
  [b2z (ps_gap s); ps_id s; ps_dur s;
   match ps_dt s with Some _ => 1 | None => 0 end;
   match ps_dt s with Some t => t / 1000000 | None => 0 end;
   zlen (ps_parts s)] ++ flat_map enc_part (ps_parts s).

Definition playlist_line (k : Z) (si : nat) (m : mstate) : list Z :=
  match gen_media_playlist m si with
  | None => [3; k; Z.of_nat si; 0]
  | Some p =>
      [3; k; Z.of_nat si; 1; pl_version p; pl_msn p; pl_target p; b2z (pl_ll p);
       (if pl_ll p then pl_parttarget p else 0); (if pl_ll p then pl_holdback p else 0);
       (if pl_ll p then pl_skipuntil p else 0); b2z (pl_map p); zlen (pl_segs p)]
      ++ flat_map enc_seg (pl_segs p)
      ++ [zlen (pl_trailing p)] ++ flat_map enc_part (pl_trailing p)
      ++ [match pl_hint p with Some h => h | None => -1 end]
  end.

(* ---- line 4: multivariant playlist ---- *)
(* what a codec string shows of a parameter id: the harness derives the SPS (level byte) from
   id / 4 mod 3 and the PPS from the whole id; only the SPS shows in the RFC 6381 string *)
Definition codec_obs (c : ckind * Z) : Z :=
  if isVideo (fst c) then (snd c / 4) mod 3 else snd c.

Definition multivariant_line (k : Z) (m : mstate) : list Z :=
  match gen_multivariant m with
  | Panic p => [4; k; 20 + Z.of_nat p]
  | Err e => [4; k; 10 + Z.of_nat e]
  | Ok None => [4; k; 0; 0]
  | Ok (Some v) =>
      [4; k; 0; 1; mv_version v; 0; 0; zlen (mv_codecs v)]
      ++ flat_map (fun c => [kind_code (fst c); codec_obs c]) (mv_codecs v)
      ++ match mv_video v with Some c => [1; kind_code (fst c); codec_obs c] | None => [0; 0; 0] end
      ++ match mv_uri v with Some u => [b2z (fst u); snd u] | None => [-1; -1] end
      ++ [b2z (mv_audio v); zlen (mv_renditions v)]
      ++ flat_map (fun r => [b2z (r_isvideo r); r_num r; r_name r; r_lang r; b2z (r_default r);
                             b2z (r_hasuri r)]) (mv_renditions v)
  end.

(* ---- line 5: path table keys, sorted ---- *)
Definition enc_key (k : pathkey) : Z * Z * Z :=
  match k with
  | KIndex => (0, 0, 0)
  | KPlaylist s => (1, Z.of_nat s, 0)
  | KInit s => (2, Z.of_nat s, 0)
  | KSeg s i => (3, Z.of_nat s, i)
  | KPart s i => (4, Z.of_nat s, i)
  end.
Definition key_leb (a b : Z * Z * Z) : bool :=
  let '(a1, a2, a3) := a in let '(b1, b2, b3) := b in
  if a1 <? b1 then true else if b1 <? a1 then false else
  if a2 <? b2 then true else if b2 <? a2 then false else a3 <=? b3.
Fixpoint insert_key (x : Z * Z * Z) (l : list (Z * Z * Z)) : list (Z * Z * Z) :=
  match l with
  | [] => [x]
  | y :: l' => if key_leb x y then x :: l else y :: insert_key x l'
  end.
Definition sort_keys (l : list (Z * Z * Z)) : list (Z * Z * Z) := fold_right insert_key [] l.
Definition paths_line (k : Z) (m : mstate) : list Z :=
  [5; k] ++ flat_map (fun x => let '(a, b, c) := x in [a; b; c])
                     (sort_keys (map (fun e => enc_key (fst e)) (m_paths m))).

(* ---- line 6: the part finalized by the last rotation; line 7: the MPEG-TS segment ---- *)
Definition enc_sample (s : sample) : list Z :=
  [s_dur s; s_ptsoff s; b2z (s_nonsync s); s_pay s; s_size s].

(* every part with lo <= id < hi, oldest first (window segments, then the open one) *)
Definition parts_between (s : stream) (lo hi : Z) : list part :=
  filter (fun p => (lo <=? p_id p) && (p_id p <? hi))
         (flat_map sg_parts (st_segments s)
          ++ match st_open s with Some g => sg_parts g | None => [] end).

Definition part_lines (k : Z) (si : nat) (s0 s : stream) : list (list Z) :=
  map (fun p => [6; k; Z.of_nat si; u32 (p_id p); b2z (p_hastrack p); p_base p; zlen (p_samples p)]
                ++ flat_map enc_sample (p_samples p))
      (parts_between s (st_nextPart s0) (st_nextPart s)).

Definition enc_unit (u : tsunit) : list Z :=
  [Z.of_nat (u_track u); u_pts u mod 8589934592; u_dts u mod 8589934592; b2z (u_ra u); zlen (u_pays u)]
  ++ flat_map (fun p => [fst p; snd p]) (u_pays u).

Definition tsseg_line (k : Z) (si : nat) (s : stream) : list (list Z) :=
  match rev (st_segments s) with
  | g :: _ =>
      (* a TS demuxer completes a PES packet when the next one of the same PID starts, so the
         cross-track order is not observable: units are grouped by track, each track in write order *)
      let grouped := flat_map (fun ti => filter (fun u => Nat.eqb (u_track u) ti) (sg_units g))
                              (seq 0 (length (st_tracks s))) in
      [[7; k; Z.of_nat si; sg_id g; zlen (sg_units g)] ++ flat_map enc_unit grouped]
  | [] => []
  end.

(* ---- the trace ---- *)
Definition counters (m : mstate) : list (Z * Z) :=
  map (fun s => (st_nextSeg s, st_nextPart s)) (m_streams m).
Fixpoint counters_eqb (a b : list (Z * Z)) : bool :=
  match a, b with
  | [], [] => true
  | (x1, y1) :: a', (x2, y2) :: b' => (x1 =? x2) && (y1 =? y2) && counters_eqb a' b'
  | _, _ => false
  end.
Definition segcounters_changed (a b : mstate) : bool :=
  negb (counters_eqb (map (fun s => (st_nextSeg s, 0)) (m_streams a))
                     (map (fun s => (st_nextSeg s, 0)) (m_streams b))).

Fixpoint enum_from {A} (i : nat) (l : list A) : list (nat * A) :=
  match l with [] => [] | x :: l' => (i, x) :: enum_from (S i) l' end.

Definition rotation_lines (k : Z) (m0 m : mstate) : list (list Z) :=
  let v := c_variant (m_cfg m) in
  let streams := enum_from 0 (m_streams m) in
  map (fun e => playlist_line k (fst e) m) streams
  ++ [multivariant_line k m; paths_line k m]
  ++ match v with
     | MPEGTS => if segcounters_changed m0 m
                 then flat_map (fun e => tsseg_line k (fst e) (snd e)) streams else []
     | _ => flat_map (fun e => match nth_error (m_streams m0) (fst e) with
                               | Some s0 => part_lines k (fst e) s0 (snd e)
                               | None => []
                               end) streams
     end.

Fixpoint trace_from (k : Z) (m : mstate) (ops : list wop) : list (list Z) :=
  match ops with
  | [] => []
  | o :: ops' =>
      let '(m', r) := mux_step m o in
      [1; k; res_code r]
      :: digest_line k (c_variant (m_cfg m')) m'
      :: (if counters_eqb (counters m) (counters m') then [] else rotation_lines k m m')
      ++ trace_from (k + 1) m' ops'
  end.

Definition trace (c : cfg) (ops : list wop) : list (list Z) :=
  match start c with
  | Ok m =>
      ([0; 0] ++ flat_map (fun s => [b2z (st_isvideo s); st_num s; b2z (st_leading s);
                                     b2z (st_rendition s); b2z (st_default s); st_name s; st_lang s])
                          (m_streams m))
      :: trace_from 0 m ops
  | Err e => [[0; 10 + Z.of_nat e]]
  | Panic p => [[0; 20 + Z.of_nat p]]
  end.
