(* Correspondence for C10. Two kinds of case:
   - direct: one call of an exported pure function (or a call list on a converter) with the
     value the real code returned;
   - e2e: an abstract stream as the real Client downloaded it (parsed content) with the
     callbacks the Client made (per client track: pts, dts when the callback has one,
     AbsoluteTime, payload identifier), the tracks OnTracks reported and how the Client ended.
   [mismatches] returns (case index, codes). *)
From Coq Require Import List ZArith Bool Uint63.
From GoHls Require Import Model.ClientTime.
Import ListNotations.
Local Open Scope Z_scope.

(* Case files write 64-bit values as primitive-integer literals (constant-time to elaborate,
   a binary Z literal costs time per bit): zi n = n, zn n = -n. *)
Definition zi (x : int) : Z := Uint63.to_Z x.
Definition zn (x : int) : Z := - Uint63.to_Z x.

Definition resZ_eqb (r : res Z) (x : Z) : bool := match r with Ok v => Z.eqb v x | _ => false end.

Definition optZ_eqb (a b : option Z) : bool :=
  match a, b with
  | None, None => true
  | Some x, Some y => Z.eqb x y
  | _, _ => false
  end.

Fixpoint listZ_eqb (a b : list Z) : bool :=
  match a, b with
  | [], [] => true
  | x :: a', y :: b' => Z.eqb x y && listZ_eqb a' b'
  | _, _ => false
  end.

(* ---------- direct cases ---------- *)
Inductive dcase :=
| DMulDiv (v m d r : Z)                        (* multiplyAndDivide(v,m,d) = r *)
| DT2D (d rate r : Z)                          (* timestampToDuration(d, rate) = r ns *)
| DConvert (lts lbt v rate r : Z)              (* clientTimeConvFMP4{lts,lbt}.convert(v, rate) = r *)
| DGetNTP (nv nts ncr ts rate r : Z)           (* setNTP(nv,nts,ncr); getNTP(ts, rate) = r ns *)
| DDecode (start : Z) (calls rs : list Z)      (* clientTimeConvMPEGTS{startDTS}: convert each *)
| DMGetNTP (nv nts ts r : Z)                   (* MPEG-TS setNTP(nv,nts); getNTP(ts) = r ns *)
| DMulDivPanic (v m : Z).                      (* multiplyAndDivide(v,m,0) panicked *)

Definition check_dcase (c : dcase) : bool :=
  match c with
  | DMulDiv v m d r => resZ_eqb (multiplyAndDivide v m d) r
  | DT2D d rate r => resZ_eqb (timestampToDuration d rate) r
  | DConvert lts lbt v rate r =>
      resZ_eqb (fmp4_convert {| leadingTimeScale := lts; leadingBaseTime := lbt |} v rate) r
  | DGetNTP nv nts ncr ts rate r =>
      match fmp4_getNTP (fmp4_setNTP nv nts ncr) ts rate with
      | Ok (Some x) => Z.eqb x r | _ => false end
  | DDecode start calls rs => listZ_eqb (decode_all (mpegts_initialize start) calls) rs
  | DMGetNTP nv nts ts r =>
      match mpegts_getNTP (mpegts_setNTP nv nts) ts with
      | Ok (Some x) => Z.eqb x r | _ => false end
  | DMulDivPanic v m => match multiplyAndDivide v m 0 with Panic => true | _ => false end
  end.

(* ---------- e2e cases ---------- *)
Record obsUnit := { o_pts : Z; o_dts : option Z; o_ntp : option Z; o_data : Z }.

(* how the Client ended: 0 = ErrClientEOS after delivering everything, 1 = "difference between
   DTS and RTC is too big", 2 = "could not find data of leading track", 9 = anything else *)
Definition outcome_of {A} (r : res A) : Z :=
  match r with
  | Ok _ => 0
  | Err ErrDTSRTC => 1
  | Err ErrNoLeadingData => 2
  | _ => 9
  end.

Inductive e2e :=
| EF (leading : stream) (rends : list stream)
     (tracks : list (Z * bool)) (obs : list (list obsUnit)) (outcome : Z)
| EM (leading : mstream) (rends : list mstream)
     (tracks : list (Z * bool)) (obs : list (list obsUnit)) (outcome : Z).

Definition set_anchor_pt (a : nat) (pt : partTrack) : partTrack :=
  {| pt_id := pt_id pt; pt_baseTime := pt_baseTime pt; pt_samples := pt_samples pt; pt_anchor := a |}.
Definition set_anchor_seg (a : nat) (s : segment) : segment :=
  {| sg_dateTime := sg_dateTime s; sg_parts := map (map (set_anchor_pt a)) (sg_parts s) |}.
Definition set_anchor_stream (a : nat) (st : stream) : stream :=
  {| st_init := st_init st; st_segments := map (set_anchor_seg a) (st_segments st) |}.

Definition set_anchor_pes (a : nat) (e : pes) : pes :=
  {| pe_track := pe_track e; pe_rawPTS := pe_rawPTS e; pe_rawDTS := pe_rawDTS e;
     pe_payload := pe_payload e; pe_elapsed := pe_elapsed e; pe_anchor := a |}.
Definition set_anchor_mseg (a : nat) (s : msegment) : msegment :=
  {| ms_dateTime := ms_dateTime s; ms_pes := map (set_anchor_pes a) (ms_pes s) |}.
Definition set_anchor_mstream (a : nat) (st : mstream) : mstream :=
  {| mst_tracks := mst_tracks st; mst_segments := map (set_anchor_mseg a) (mst_segments st) |}.

(* the model's deliveries under every NTP anchor a rendition may have observed *)
Definition runsF (leading : stream) (rends : list stream) : list (res (list (nat * delivery))) :=
  map (fun a => runClientFMP4 leading (map (set_anchor_stream a) rends))
      (seq 0 (Nat.max 1 (length (st_segments leading)))).
Definition runsM (leading : mstream) (rends : list mstream) : list (res (list (nat * delivery))) :=
  map (fun a => runClientMPEGTS leading (map (set_anchor_mstream a) rends))
      (seq 0 (Nat.max 1 (length (mst_segments leading)))).

Definition oks {A} (l : list (res A)) : list A :=
  flat_map (fun r => match r with Ok x => [x] | _ => [] end) l.

Definition unit_core_eqb (d : delivery) (o : obsUnit) : bool :=
  Z.eqb (dl_pts d) (o_pts o) && Z.eqb (dl_data d) (o_data o)
  && match o_dts o with Some x => Z.eqb (dl_dts d) x | None => true end.

(* unit i of track j: pts/dts/payload as under the first anchor; AbsoluteTime as under some anchor *)
Fixpoint check_units (i : nat) (cands : list (list delivery)) (obs : list obsUnit) : list nat :=
  match obs with
  | [] => []
  | o :: r =>
      let ds := flat_map (fun l => match nth_error l i with Some d => [d] | None => [] end) cands in
      match ds with
      | [] => [3%nat]
      | d :: _ =>
          (if unit_core_eqb d o then [] else [4%nat]) ++
          (if existsb (fun c => optZ_eqb (dl_ntp c) (o_ntp o)) ds then [] else [5%nat]) ++
          check_units (S i) cands r
      end
  end.

Fixpoint check_tracks (j : nat) (outs : list (list (nat * delivery))) (obs : list (list obsUnit))
  : list nat :=
  match obs with
  | [] => []
  | o :: r =>
      let cands := map (proj j) outs in
      (match cands with
       | c :: _ => if Nat.eqb (length c) (length o) then [] else [3%nat]
       | [] => [1%nat]
       end) ++ check_units 0 cands o ++ check_tracks (S j) outs r
  end.

Fixpoint tracks_eqb (a b : list (Z * bool)) : bool :=
  match a, b with
  | [], [] => true
  | (x, v) :: a', (y, w) :: b' => Z.eqb x y && Bool.eqb v w && tracks_eqb a' b'
  | _, _ => false
  end.

Definition no_extra_track (n : nat) (outs : list (list (nat * delivery))) : bool :=
  forallb (fun out => forallb (fun x => Nat.ltb (fst x) n) out) outs.

Definition dedup (l : list nat) : list nat := nodup Nat.eq_dec l.

Definition check_e2e (c : e2e) : list nat :=
  match c with
  | EF leading rends tracks obs outcome =>
      let rs := runsF leading rends in
      let want := map (fun t => (it_timeScale t, it_isVideo t))
                      (st_init leading ++ flat_map st_init rends) in
      dedup (
      (match rs with r :: _ => if Z.eqb (outcome_of r) outcome then [] else [1%nat] | [] => [1%nat] end) ++
      (if Z.eqb outcome 0 then
         (if tracks_eqb want tracks then [] else [6%nat]) ++
         (if Nat.eqb (length obs) (length want) then [] else [2%nat]) ++
         (if no_extra_track (length obs) (oks rs) then [] else [2%nat]) ++
         check_tracks 0 (oks rs) obs
       else []))
  | EM leading rends tracks obs outcome =>
      let rs := runsM leading rends in
      let want := map (fun c => (90000, match c with MH264 => true | MAudio => false end))
                      (mst_tracks leading ++ flat_map mst_tracks rends) in
      dedup (
      (match rs with r :: _ => if Z.eqb (outcome_of r) outcome then [] else [1%nat] | [] => [1%nat] end) ++
      (if Z.eqb outcome 0 then
         (if tracks_eqb want tracks then [] else [6%nat]) ++
         (if Nat.eqb (length obs) (length want) then [] else [2%nat]) ++
         (if no_extra_track (length obs) (oks rs) then [] else [2%nat]) ++
         check_tracks 0 (oks rs) obs
       else []))
  end.

(* a MPEG-TS presentation given at the level of mediacommon's Reader: the PMT as Reader.Tracks()
   lists it (supported and unsupported elementary streams) and every PES the demultiplexer
   completes, [pe_track] = position of its PID in the PMT. The model filters ([readerView]:
   initializeReader's supportedTracks, Reader.Read's onData lookup); the reported tracks are
   [reportedTracksPMT]. *)
Definition EP (leading : pmtStream) (rends : list pmtStream)
           (tracks : list (Z * bool)) (obs : list (list obsUnit)) (outcome : Z) : e2e :=
  EM (readerView leading) (map readerView rends) tracks obs outcome.

Inductive tcase := TD (c : dcase) | TE (c : e2e).

Definition check_case (c : tcase) : list nat :=
  match c with
  | TD d => if check_dcase d then [] else [7%nat]
  | TE e => check_e2e e
  end.

Fixpoint mismatches_from (i : nat) (cs : list tcase) : list (nat * list nat) :=
  match cs with
  | [] => []
  | c :: cs' =>
      match check_case c with
      | [] => mismatches_from (S i) cs'
      | ks => (i, ks) :: mismatches_from (S i) cs'
      end
  end.

Definition mismatches (cs : list tcase) : list (nat * list nat) := mismatches_from 0 cs.
