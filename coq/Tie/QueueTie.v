(* Correspondence for C20: a case = producer program, number of pulls, the controller's decision
   list (with the select cases the real goroutines were seen to take), the observation of the REAL
   clientSegmentQueue after every decision and the payload ids the real pulls returned.
   [mismatches] lists the cases on which Model/Queue.v (macro_run) disagrees. *)
From Coq Require Import List ZArith Bool.
From GoHls Require Import Model.Queue.
Import ListNotations.
Local Open Scope Z_scope.

Fixpoint zl_eqb (a b : list Z) : bool :=
  match a, b with
  | [], [] => true
  | x :: a', y :: b' => (x =? y) && zl_eqb a' b'
  | _, _ => false
  end.

Fixpoint zll_eqb (a b : list (list Z)) : bool :=
  match a, b with
  | [], [] => true
  | x :: a', y :: b' => zl_eqb x y && zll_eqb a' b'
  | _, _ => false
  end.

(* compact encodings (the case files are large; small plain numbers type-check fast, huge numerals do not):
   decisions: 0 = start downloader op, 1 = start pull, 2/3 = release downloader (chan/ctx case seen),
              4/5 = release processor (chan/ctx), 6 = cancel;
   observations: the 7 fields of [observe] packed in base 100 *)
Definition decode_decision (z : Z) : decision :=
  if z =? 0 then DStart TP else if z =? 1 then DStart TC
  else if z =? 2 then DRelease TP BChan else if z =? 3 then DRelease TP BCtx
  else if z =? 4 then DRelease TC BChan else if z =? 5 then DRelease TC BCtx
  else DCancel.

Definition pack (l : list Z) : Z := fold_left (fun a x => a * 100 + x) l 0.

Record qcase := {
  qc_prog : list pop;
  qc_pulls : nat;
  qc_ds : list Z;
  qc_obs : list Z;
  qc_ret : list Z
}.

(* 1 = a decision the harness took is not available in the model (disagreement about who is idle /
       at a hook), 2 = the observations differ, 3 = the delivered ids differ *)
Definition check_case (c : qcase) : list nat :=
  let '(s, obs, ok) := macro_run (init (qc_prog c) (qc_pulls c)) (map decode_decision (qc_ds c)) in
  (if ok then [] else [1%nat]) ++
  (if zl_eqb (map pack obs) (qc_obs c) then [] else [2%nat]) ++
  (if zl_eqb (returned s) (qc_ret c) then [] else [3%nat]).

Fixpoint mismatches_from (i : nat) (cs : list qcase) : list (nat * list nat) :=
  match cs with
  | [] => []
  | c :: cs' =>
      match check_case c with
      | [] => mismatches_from (S i) cs'
      | ks => (i, ks) :: mismatches_from (S i) cs'
      end
  end.

Definition mismatches (cs : list qcase) : list (nat * list nat) := mismatches_from 0 cs.
