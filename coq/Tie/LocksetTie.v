(* Correspondence for C08: every data race the Go race detector reported on the real package
   (normalised by the harness to (field, function of the write, function of the other access)
   through the translator's site table) must be an UNSAFE pair of the generated access table.
   [mismatches] returns the observed races the table claims to be ordered - a translator / model
   defect (the claim "ordered by lock or publication" was wrong on a real execution). *)
From Coq Require Import List String Bool.
From GoHls Require Import Model.Lockset Model.LocksetFindings Model.LocksetCheck Generated.LocksetTable.
Import ListNotations.

Definition predicted : list finding := unsafe_sigs loc_names fn_names table.

Definition flip (e : finding) : finding := let '(f, a, b) := e in (f, b, a).

Fixpoint mismatches_from (U : list finding) (i : nat) (obs : list finding) : list (nat * finding) :=
  match obs with
  | [] => []
  | e :: r =>
      if existsb (finding_eqb e) U || existsb (finding_eqb (flip e)) U
      then mismatches_from U (S i) r
      else (i, e) :: mismatches_from U (S i) r
  end.

Definition mismatches (obs : list finding) : list (nat * finding) :=
  let U := predicted in mismatches_from U 0 obs.
