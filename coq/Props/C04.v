(* C04 - Successive playlists evolve only as RFC 8216 allows.
   Only property theorems (each closed by [exact]) and [Print Assumptions].
   Model: Model/Mux.v; proofs: Proofs/MuxStream.v, MuxLift.v, MuxWindow.v, MuxHistory.v, MuxPlaylist.v.
   [reach c ops m]: m is the state after Start with configuration c and ANY list of writes ops
   (whatever each write returned). *)
From Coq Require Import List ZArith Bool.
From GoHls Require Import Model.Mux Proofs.MuxStream Proofs.MuxLift Proofs.MuxWindow Proofs.MuxHistory Proofs.MuxPlaylist
  Proofs.MuxPartIds Proofs.MuxAgree.
Import ListNotations.
Local Open Scope Z_scope.

(* the window invariant of every stream in every reachable state: at most SegmentCount segments;
   MEDIA-SEQUENCE = number of segments dropped; the entry at position i of the list of everything
   ever published has id i (so id = media sequence number); gaps only in Low-Latency, only below 7 *)
Theorem c04_window_invariant : forall c ops m0,
  start c = Ok m0 ->
  Forall (WInv (c_variant (norm_cfg c)) (c_segcount (norm_cfg c))) (m_streams (mux_run m0 ops)).
Proof. exact window_inv_reachable. Qed.
Print Assumptions c04_window_invariant.

Theorem c04_len : forall c ops m, reach c ops m -> forall si pl,
  gen_media_playlist m si = Some pl ->
  Z.of_nat (length (pl_segs pl)) <= c_segcount (norm_cfg c).
Proof. exact playlist_length. Qed.
Print Assumptions c04_len.

Theorem c04_id_is_msn : forall c ops m, reach c ops m -> forall si pl i e,
  gen_media_playlist m si = Some pl -> nth_error (pl_segs pl) i = Some e ->
  (ps_gap e = false -> ps_id e = pl_msn pl + Z.of_nat i)
  /\ (ps_gap e = true -> c_variant (norm_cfg c) = LL /\ pl_msn pl + Z.of_nat i < 7).
Proof. exact playlist_ids. Qed.
Print Assumptions c04_id_is_msn.

Theorem c04_msn_never_decreases : forall (ops2 : list wop) m1 m2,
  m2 = mux_run m1 ops2 -> forall si p1 p2,
  gen_media_playlist m1 si = Some p1 -> gen_media_playlist m2 si = Some p2 -> pl_msn p1 <= pl_msn p2.
Proof. exact msn_monotone. Qed.
Print Assumptions c04_msn_never_decreases.

(* a media sequence number denotes the same segment record (hence URI number, duration, gap flag)
   in every later playlist; together with c04_window_is_suffix: segments are only appended at the
   tail of [published] and removed from its head *)
Theorem c04_msn_stable : forall (ops2 : list wop) m1 m2,
  m2 = mux_run m1 ops2 -> forall si s1 s2 n g,
  nth_error (m_streams m1) si = Some s1 -> nth_error (m_streams m2) si = Some s2 ->
  nth_error (published s1) n = Some g -> nth_error (published s2) n = Some g.
Proof. exact msn_stable. Qed.
Print Assumptions c04_msn_stable.

Theorem c04_window_is_suffix : forall c ops m, reach c ops m -> forall si s,
  nth_error (m_streams m) si = Some s ->
  st_segments s = skipn (Z.to_nat (st_delcount s)) (published s).
Proof. exact window_is_suffix. Qed.
Print Assumptions c04_window_is_suffix.

Theorem c04_history_monotone : forall m ops, Forall2 R (m_streams m) (m_streams (mux_run m ops)).
Proof. exact history_monotone. Qed.
Print Assumptions c04_history_monotone.

Theorem c04_parts_only_under_last_two : forall c ops m, reach c ops m -> forall si pl i e,
  gen_media_playlist m si = Some pl -> nth_error (pl_segs pl) i = Some e ->
  ps_parts e <> [] -> (length (pl_segs pl) - i <= 2)%nat /\ c_variant (norm_cfg c) = LL.
Proof. exact playlist_parts_last_two. Qed.
Print Assumptions c04_parts_only_under_last_two.

Theorem c04_preload_hint : forall c ops m, reach c ops m -> forall si pl s,
  nth_error (m_streams m) si = Some s -> gen_media_playlist m si = Some pl ->
  pl_hint pl = match c_variant (norm_cfg c) with LL => Some (st_nextPart s) | _ => None end.
Proof. exact playlist_hint. Qed.
Print Assumptions c04_preload_hint.

(* part numbers increase by exactly one across the whole stream: in every reachable state the parts of a
   stream (evicted, listed and open segments, in order) are numbered 0, 1, 2, ... without a hole; the
   stream's part counter is the next number and the number of the open part (the preload hint) *)
Theorem c04_part_numbers_consecutive : forall c m0 ops si s,
  start c = Ok m0 -> nth_error (m_streams (mux_run m0 ops)) si = Some s ->
  counted 0 (map p_id (all_parts s)) /\ st_nextPart s = Z.of_nat (length (all_parts s))
  /\ (forall p, st_openpart s = Some p -> p_id p = st_nextPart s).
Proof. exact part_ids_consecutive. Qed.
Print Assumptions c04_part_numbers_consecutive.

(* all streams of one muxer expose the same media sequence numbers and durations (sequential part: between
   any two writes): same segment counter, same number of evicted segments (= EXT-X-MEDIA-SEQUENCE), same
   gap flags / ids / start and end times / wall clocks of the listed segments, same id, start and wall clock
   of the open segment (MuxAgree.shape) *)
Theorem c04_streams_agree_between_writes : forall c m0 ops s1 s2,
  start c = Ok m0 -> In s1 (m_streams (mux_run m0 ops)) -> In s2 (m_streams (mux_run m0 ops)) ->
  shape s1 = shape s2.
Proof. exact streams_agree. Qed.
Print Assumptions c04_streams_agree_between_writes.

(* ---------------------------------------------------------------------------------------------
   Last sentence of C04: "All streams of one muxer (video and audio renditions) expose the same
   media sequence numbers and durations at the same time."
   Model: Model/MuxAtomic.v (lock skeletons, interleaving semantics of one writer goroutine and any
   number of playlist handlers, the decidable check [atomic_rotation]); proofs: Proofs/MuxAtomic.v;
   the skeleton of muxer.go / muxer_stream.go is REGENERATED from the source on every run
   (tools/critsec -> Generated/MuxCritSec.v) and checked in Proofs/MuxAtomicGen.v.
   A stream is abstracted to its rotation history (kind, nextDTS); the number of published
   segments and every segment duration are functions of it ([seg_count], [seg_instants]).
   [greach (ginit ss0 (tw :: trs)) g]: g is reachable by ANY interleaving of the writer's events tw
   (ANY sequence of createFirstSegment / rotateParts / rotateSegments calls with any arguments, the
   last one possibly unfinished) with the events of the handlers trs; [reads g t]: handler t is about
   to read playlist state in g; [g_failed]: some rotation returned an error before (then the muxer
   is broken: a rendition may miss the segment the leading stream has - outside the claim). *)
From GoHls Require Import Model.MuxAtomic Proofs.MuxAtomic Proofs.MuxAtomicGen Generated.MuxCritSec.

(* for EVERY skeleton accepted by the check, every number of streams, every history, every schedule *)
Theorem c04_atomic_rotation_sound : forall sk, atomic_rotation sk = true ->
  forall n ld ss0 tw trs g, (ld < n)%nat -> List.length ss0 = n -> alleq ss0 ->
  wtrace sk n ld false tw -> Forall (rtrace sk n ld) trs ->
  greach (ginit ss0 (tw :: trs)) g ->
  forall t, reads g t -> g_failed g = true \/ alleq (g_ss g).
Proof. exact atomic_rotation_sound. Qed.
Print Assumptions c04_atomic_rotation_sound.

(* the hypotheses are satisfiable: three streams, a complete rotation, a handler reading after it *)
Theorem c04_atomic_rotation_nonvacuous :
  atomic_rotation ex_ok = true /\
  exists tw trs g t, wtrace ex_ok 3 0 false tw /\ Forall (rtrace ex_ok 3 0) trs /\
    greach (ginit [[]; []; []] (tw :: trs)) g /\ reads g t /\ g_failed g = false /\
    g_ss g = [[ex_r]; [ex_r]; [ex_r]].
Proof. exact atomic_rotation_sound_nonvacuous. Qed.
Print Assumptions c04_atomic_rotation_nonvacuous.

(* REFUTED for "one critical section per stream" (the shape of seeded/C04-m2): the check rejects it
   and there is a schedule in which a handler reads while the streams' segment counts differ *)
Theorem c04_split_rotation_refuted :
  atomic_rotation ex_split = false /\
  exists n ld ss0 tw trs g t,
    (ld < n)%nat /\ List.length ss0 = n /\ alleq ss0 /\
    wtrace ex_split n ld false tw /\ Forall (rtrace ex_split n ld) trs /\
    greach (ginit ss0 (tw :: trs)) g /\ reads g t /\ g_failed g = false /\
    exists hi hj, nth_error (g_ss g) 0 = Some hi /\ nth_error (g_ss g) 1 = Some hj /\
                  seg_count hi <> seg_count hj.
Proof. exact split_rotation_torn. Qed.
Print Assumptions c04_split_rotation_refuted.

(* the source as it is now: closed by computation over the regenerated skeleton *)
Theorem c04_generated_skeleton_atomic : atomic_rotation MuxCritSec.generated = true.
Proof. exact generated_atomic. Qed.
Print Assumptions c04_generated_skeleton_atomic.

Theorem c04_streams_agree_at_the_same_time :
  forall n ld ss0 tw trs g, (ld < n)%nat -> List.length ss0 = n -> alleq ss0 ->
  wtrace MuxCritSec.generated n ld false tw -> Forall (rtrace MuxCritSec.generated n ld) trs ->
  greach (ginit ss0 (tw :: trs)) g ->
  forall t, reads g t -> g_failed g = false ->
  forall i j hi hj, nth_error (g_ss g) i = Some hi -> nth_error (g_ss g) j = Some hj ->
    seg_count hi = seg_count hj /\ seg_instants hi = seg_instants hj /\ part_instants hi = part_instants hj.
Proof. exact generated_same_view. Qed.
Print Assumptions c04_streams_agree_at_the_same_time.
