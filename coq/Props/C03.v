(* C03 - Playlist durations, target durations (and date-times) match the media.
   Only property theorems (each closed by [exact]) and [Print Assumptions].
   Proved here, for every configuration accepted by Start and every write history:
   part durations add up exactly to the segment duration; TARGETDURATION / PART-TARGET of the
   leading stream dominate every listed EXTINF (as the text prints it) / part; hold-back and
   skip-until arithmetic; TARGETDURATION computed after rounding to the text's resolution;
   TARGETDURATION of the leading stream's playlist never decreases between two moments of a history
   (c03_target_never_decreases: any state, any further writes).
   Checked by the correspondence run + oracle, not proved: EXTINF equals the media time spanned by
   the leading track's samples, PROGRAM-DATE-TIME equals the wall clock of the first unit, the
   non-leading streams copy the leading stream's values. *)
From Coq Require Import List ZArith Bool.
From GoHls Require Import Model.Mux Proofs.MuxStream Proofs.MuxLift Proofs.MuxWindow Proofs.MuxHistory
  Proofs.MuxPlaylist Proofs.MuxTimes Proofs.MuxTargetMono.
Import ListNotations.
Local Open Scope Z_scope.

Theorem c03_parts_sum : forall c ops m si pl i e,
  reach c ops m -> gen_media_playlist m si = Some pl ->
  nth_error (pl_segs pl) i = Some e -> ps_parts e <> [] ->
  sumZ (map pp_dur (ps_parts e)) = ps_dur e.
Proof. exact parts_sum_to_extinf. Qed.
Print Assumptions c03_parts_sum.

Theorem c03_target : forall c ops m si s pl i e,
  reach c ops m -> nth_error (m_streams m) si = Some s -> st_leading s = true ->
  gen_media_playlist m si = Some pl -> nth_error (pl_segs pl) i = Some e ->
  roundSeconds (round10us (ps_dur e)) <= pl_target pl.
Proof. exact target_dominates. Qed.
Print Assumptions c03_target.

(* whatever 5-decimal value e (in 10 us units) the text shows for a duration d - any rounding of d to
   10 us, e * 10000 - d <= 5000 - its rounding to whole seconds is dominated by what c03_target bounds *)
Theorem c03_target_text : forall d e,
  0 <= d -> 0 <= e -> e * 10000 - d <= 5000 -> roundSeconds (e * 10000) <= roundSeconds (round10us d).
Proof. exact round_text_dominated. Qed.
Print Assumptions c03_target_text.

Theorem c03_part_target : forall c ops m si s pl,
  reach c ops m -> nth_error (m_streams m) si = Some s -> st_leading s = true ->
  gen_media_playlist m si = Some pl ->
  (forall i e q, nth_error (pl_segs pl) i = Some e -> In q (ps_parts e) -> pp_dur q <= pl_parttarget pl)
  /\ (forall q, In q (pl_trailing pl) -> pp_dur q <= pl_parttarget pl).
Proof. exact part_target_dominates. Qed.
Print Assumptions c03_part_target.

Theorem c03_holdback : forall m si pl,
  gen_media_playlist m si = Some pl -> 0 <= pl_parttarget pl ->
  2 * pl_parttarget pl <= pl_holdback pl /\ pl_skipuntil pl = 6 * pl_target pl * second.
Proof. exact holdback_skipuntil. Qed.
Print Assumptions c03_holdback.

(* the invariant behind them, in every reachable state: the parts of a published segment tile it,
   the finalized parts of the open segment lead up to the open part, targets dominate *)
Theorem c03_times_invariant : forall c ops m si s,
  reach c ops m -> nth_error (m_streams m) si = Some s -> TI (c_variant (norm_cfg c)) s.
Proof. exact reach_TI. Qed.
Print Assumptions c03_times_invariant.

Theorem c03_parts_telescope : forall ps a b, parts_chain a ps b -> sumZ (map p_dur ps) = b - a.
Proof. exact parts_chain_sum. Qed.
Print Assumptions c03_parts_telescope.

Theorem c03_target_never_decreases : forall m ops si s pl pl',
  nth_error (m_streams m) si = Some s -> st_leading s = true ->
  gen_media_playlist m si = Some pl -> gen_media_playlist (mux_run m ops) si = Some pl' ->
  pl_target pl <= pl_target pl'.
Proof. exact playlist_target_monotone. Qed.
Print Assumptions c03_target_never_decreases.
