(* C03 - Playlist durations, target durations (and date-times) match the media.
   Only property theorems (each closed by [exact]) and [Print Assumptions].
   Proved here, for every configuration accepted by Start and every write history:
   part durations add up exactly to the segment duration; TARGETDURATION / PART-TARGET of the
   leading stream dominate every listed EXTINF (as the text prints it) / part; hold-back and
   skip-until arithmetic; TARGETDURATION computed after rounding to the text's resolution;
   TARGETDURATION of the leading stream's playlist never decreases between two moments of a history
   (c03_target_never_decreases: any state, any further writes).
   Proved here for the fMP4 and Low-Latency variants (hypothesis c_variant c <> MPEGTS), for the LEADING
   stream, in every state reached from Start by writes that all return nil (hypothesis all_ok m0 ops; no
   other hypothesis - units before -10 s, skipped units, parameter changes and writes of the other tracks
   are all covered):
     c03_segment_times_are_first_units  every non-gap evicted or listed segment has samples x :: rest; in the
        stream's sample log followed by the leading track's look-ahead unit they are followed by a unit y (the
        first sample of the next segment or, after the newest segment, the look-ahead unit that will open the
        next one); the record's start / wall clock are timestampToDuration (dts x) / ntp x and its end is
        timestampToDuration (dts y), at the leading track's clock rate (dts includes the muxer's +10 s);
     c03_extinf_is_media_span  hence EXTINF (ps_dur) of the i-th listed entry of the leading stream's playlist,
        when not a gap, = timestampToDuration (dts y) - timestampToDuration (dts x): the media time the
        segment spans on the leading track, consecutive segments tiling the time line;
     c03_date_time_is_first_unit_ntp  EXT-X-PROGRAM-DATE-TIME (ps_dt), where printed, is the wall clock
        written with the unit that became the segment's first sample;
     c03_span_nonvacuous  a concrete Low-Latency history with two complete segments meets the hypotheses.
   ... and for EVERY stream of the muxer (leading or not), same variants and hypotheses:
     c03_extinf_is_leading_span_all_streams, c03_date_time_is_leading_first_unit_all_streams  the i-th
        listed entry of any stream's playlist, when not a gap, has the id of the leading stream's i-th listed
        segment, its EXTINF is the media time that segment spans on the leading track and its
        EXT-X-PROGRAM-DATE-TIME, where printed, the wall clock of that segment's first unit (from the
        agreement of all streams on ids, gap flags, start / end times and wall clocks, MuxAgree.v).
   ... and for the MPEG-TS variant (hypotheses c_variant c = MPEGTS and all_ok m0 ops only).  The segment writer
   keeps only the 90 kHz timestamps of a unit, so the written values are kept in a ghost log beside the state:
   ts_wlog m0 ops (Proofs/MuxSpanTSHist.v) lists the accepted writes (track, unit) grouped like the segments - a
   write that makes the number of segments grow opens a group, one that only makes the unit log grow joins the
   last group, any other write is dropped - and wunit / wtime are the unit handed to the segment writer and
   timestampToDuration of the written decode time (video: a_dts, audio: a_pts) at the track's clock rate:
     c03_mpegts_segment_times_are_first_units  group by group the ghost log maps onto the units the segments hold;
        every evicted or listed segment g has a first write x and the next (listed or open) segment a first write
        y, with sg_start g = wtime x, sg_ntp g = the wall clock of x, sg_end g = wtime y;
     c03_mpegts_extinf_is_media_span  EXTINF of the i-th listed entry = wtime y - wtime x, its id that of the
        segment and its EXT-X-PROGRAM-DATE-TIME (always printed in this variant) the wall clock of x;
     c03_mpegts_date_time_is_first_unit_ntp  the date-time clause on its own;
     c03_mpegts_span_nonvacuous  an H264 + AAC history with two complete segments.
   Nothing of the property's EXTINF / PROGRAM-DATE-TIME clauses is left to the tie alone.
   Part DURATION (fMP4 and Low-Latency, hypotheses c_variant c <> MPEGTS and all_ok m0 ops only; leading stream):
     c03_part_times_are_first_units  every finalized part p of an evicted, listed or the open segment (all_parts s,
        in order) has samples x :: rest; in the stream's sample log followed by the look-ahead unit they are followed
        by a unit y (the first sample of the next part, the first buffered sample, or the look-ahead unit);
        p_start p = timestampToDuration (dts x) and p_end p = timestampToDuration (dts y) at the leading track's rate
        - no part of the leading stream is empty, so no guard is needed;
     c03_part_duration_is_media_span  hence every part DURATION the playlist lists (pp_dur: the parts under the last
        two segments and the trailing parts of the open segment, Low-Latency) = timestampToDuration (dts y) -
        timestampToDuration (dts x), the media time the part spans on the leading track;
     c03_part_span_nonvacuous  a Low-Latency history with five listed and two trailing parts of two frames each.
   Not proved: the part durations listed by NON-leading streams' playlists (they are created with the same
   rotation timestamps, but MuxAgree.v's shape - ids, gap flags, segment times and wall clocks - does not cover the
   part lists; an agreement lemma on (p_id, p_start, p_end) per stream is what is missing; checked by the oracle). *)
From Coq Require Import List ZArith Bool.
From GoHls Require Import Model.Mux Proofs.MuxStream Proofs.MuxLift Proofs.MuxWindow Proofs.MuxHistory
  Proofs.MuxPlaylist Proofs.MuxTimes Proofs.MuxTargetMono
  Proofs.MuxLog Proofs.MuxLogStep Proofs.MuxGroups Proofs.MuxChain Proofs.MuxSpan Proofs.MuxSpanHist Proofs.MuxSpanAll
  Proofs.MuxLogTS Proofs.MuxTSStart Proofs.MuxSpanTS Proofs.MuxSpanTSHist
  Proofs.MuxPartIds Proofs.MuxSpanPart Proofs.MuxSpanPartHist.
Import ListNotations.
Local Open Scope Z_scope.

Theorem c03_parts_sum : forall c ops m si pl i e,
  reach c ops m -> gen_media_playlist m si = Some pl ->
  nth_error (pl_segs pl) i = Some e -> ps_parts e <> [] ->
  sumZ (map pp_dur (ps_parts e)) = ps_dur e.
Proof. exact parts_sum_to_extinf. Qed.
Print Assumptions c03_parts_sum.

Theorem c03_target : forall c ops m si s pl i e,
  reach c ops m -> nth_error (m_streams m) si = Some s -> st_leading s = true ->
  gen_media_playlist m si = Some pl -> nth_error (pl_segs pl) i = Some e ->
  roundSeconds (round10us (ps_dur e)) <= pl_target pl.
Proof. exact target_dominates. Qed.
Print Assumptions c03_target.

(* whatever 5-decimal value e (in 10 us units) the text shows for a duration d - any rounding of d to
   10 us, e * 10000 - d <= 5000 - its rounding to whole seconds is dominated by what c03_target bounds *)
Theorem c03_target_text : forall d e,
  0 <= d -> 0 <= e -> e * 10000 - d <= 5000 -> roundSeconds (e * 10000) <= roundSeconds (round10us d).
Proof. exact round_text_dominated. Qed.
Print Assumptions c03_target_text.

Theorem c03_part_target : forall c ops m si s pl,
  reach c ops m -> nth_error (m_streams m) si = Some s -> st_leading s = true ->
  gen_media_playlist m si = Some pl ->
  (forall i e q, nth_error (pl_segs pl) i = Some e -> In q (ps_parts e) -> pp_dur q <= pl_parttarget pl)
  /\ (forall q, In q (pl_trailing pl) -> pp_dur q <= pl_parttarget pl).
Proof. exact part_target_dominates. Qed.
Print Assumptions c03_part_target.

Theorem c03_holdback : forall m si pl,
  gen_media_playlist m si = Some pl -> 0 <= pl_parttarget pl ->
  2 * pl_parttarget pl <= pl_holdback pl /\ pl_skipuntil pl = 6 * pl_target pl * second.
Proof. exact holdback_skipuntil. Qed.
Print Assumptions c03_holdback.

(* the invariant behind them, in every reachable state: the parts of a published segment tile it,
   the finalized parts of the open segment lead up to the open part, targets dominate *)
Theorem c03_times_invariant : forall c ops m si s,
  reach c ops m -> nth_error (m_streams m) si = Some s -> TI (c_variant (norm_cfg c)) s.
Proof. exact reach_TI. Qed.
Print Assumptions c03_times_invariant.

Theorem c03_parts_telescope : forall ps a b, parts_chain a ps b -> sumZ (map p_dur ps) = b - a.
Proof. exact parts_chain_sum. Qed.
Print Assumptions c03_parts_telescope.

Theorem c03_target_never_decreases : forall m ops si s pl pl',
  nth_error (m_streams m) si = Some s -> st_leading s = true ->
  gen_media_playlist m si = Some pl -> gen_media_playlist (mux_run m ops) si = Some pl' ->
  pl_target pl <= pl_target pl'.
Proof. exact playlist_target_monotone. Qed.
Print Assumptions c03_target_never_decreases.

(* ---- EXTINF is the media span, PROGRAM-DATE-TIME the first unit's wall clock (leading stream, fMP4 variants) ---- *)
Theorem c03_segment_times_are_first_units : forall c m0 ops,
  start c = Ok m0 -> c_variant c <> MPEGTS -> all_ok m0 ops ->
  let m := mux_run m0 ops in
  let li := leading_index m in
  forall s t P g Q,
    nth_error (m_streams m) li = Some s -> nth_error (m_tracks m) li = Some t ->
    published s = P ++ g :: Q -> sg_gap g = false ->
    tk_leading t = true /\ st_tracks s = [li] /\
    exists x rest y after,
      seg_samples g = x :: rest
      /\ slog m li ++ pend_list m li = flat_map seg_samples (real_segs P) ++ (x :: rest) ++ y :: after
      /\ sg_start g = timestampToDuration (s_dts x) (t_rate (tk_cfg t))
      /\ sg_ntp g = s_ntp x
      /\ sg_end g = timestampToDuration (s_dts y) (t_rate (tk_cfg t)).
Proof. exact segment_times_are_first_units. Qed.
Print Assumptions c03_segment_times_are_first_units.

Theorem c03_extinf_is_media_span : forall c m0 ops,
  start c = Ok m0 -> c_variant c <> MPEGTS -> all_ok m0 ops ->
  let m := mux_run m0 ops in
  let li := leading_index m in
  forall t pl i e,
    nth_error (m_tracks m) li = Some t -> gen_media_playlist m li = Some pl ->
    nth_error (pl_segs pl) i = Some e -> ps_gap e = false ->
    exists s g x rest y after,
      nth_error (m_streams m) li = Some s /\ nth_error (st_segments s) i = Some g /\ ps_id e = sg_id g
      /\ seg_samples g = x :: rest
      /\ slog m li ++ pend_list m li
         = flat_map seg_samples (real_segs (st_evicted s ++ firstn i (st_segments s))) ++ (x :: rest) ++ y :: after
      /\ ps_dur e = timestampToDuration (s_dts y) (t_rate (tk_cfg t)) - timestampToDuration (s_dts x) (t_rate (tk_cfg t)).
Proof. exact extinf_is_media_span. Qed.
Print Assumptions c03_extinf_is_media_span.

Theorem c03_date_time_is_first_unit_ntp : forall c m0 ops,
  start c = Ok m0 -> c_variant c <> MPEGTS -> all_ok m0 ops ->
  let m := mux_run m0 ops in
  let li := leading_index m in
  forall pl i e,
    gen_media_playlist m li = Some pl -> nth_error (pl_segs pl) i = Some e -> ps_gap e = false ->
    exists s g x rest,
      nth_error (m_streams m) li = Some s /\ nth_error (st_segments s) i = Some g /\ ps_id e = sg_id g
      /\ seg_samples g = x :: rest
      /\ forall ntp, ps_dt e = Some ntp -> ntp = s_ntp x.
Proof. exact date_time_is_first_unit_ntp. Qed.
Print Assumptions c03_date_time_is_first_unit_ntp.

(* ---- the same for every stream of the muxer: non-leading streams list the leading stream's spans and wall clocks ---- *)
Theorem c03_extinf_is_leading_span_all_streams : forall c m0 ops,
  start c = Ok m0 -> c_variant c <> MPEGTS -> all_ok m0 ops ->
  let m := mux_run m0 ops in
  let li := leading_index m in
  forall si s t pl i e,
    nth_error (m_streams m) si = Some s -> nth_error (m_tracks m) li = Some t ->
    gen_media_playlist m si = Some pl ->
    nth_error (pl_segs pl) i = Some e -> ps_gap e = false ->
    exists sl gl x rest y after,
      nth_error (m_streams m) li = Some sl /\ nth_error (st_segments sl) i = Some gl
      /\ sg_gap gl = false /\ ps_id e = sg_id gl
      /\ seg_samples gl = x :: rest
      /\ slog m li ++ pend_list m li
         = flat_map seg_samples (real_segs (st_evicted sl ++ firstn i (st_segments sl))) ++ (x :: rest) ++ y :: after
      /\ ps_dur e = timestampToDuration (s_dts y) (t_rate (tk_cfg t)) - timestampToDuration (s_dts x) (t_rate (tk_cfg t)).
Proof. exact extinf_is_leading_span_all_streams. Qed.
Print Assumptions c03_extinf_is_leading_span_all_streams.

Theorem c03_date_time_is_leading_first_unit_all_streams : forall c m0 ops,
  start c = Ok m0 -> c_variant c <> MPEGTS -> all_ok m0 ops ->
  let m := mux_run m0 ops in
  let li := leading_index m in
  forall si s pl i e,
    nth_error (m_streams m) si = Some s -> gen_media_playlist m si = Some pl ->
    nth_error (pl_segs pl) i = Some e -> ps_gap e = false ->
    exists sl gl x rest,
      nth_error (m_streams m) li = Some sl /\ nth_error (st_segments sl) i = Some gl
      /\ sg_gap gl = false /\ ps_id e = sg_id gl
      /\ seg_samples gl = x :: rest
      /\ forall ntp, ps_dt e = Some ntp -> ntp = s_ntp x.
Proof. exact date_time_is_leading_first_unit_all_streams. Qed.
Print Assumptions c03_date_time_is_leading_first_unit_all_streams.

(* the hypotheses of the three theorems above are met by a Low-Latency history with two complete segments
   (segments 7 and 8, 1 s each: first samples at 10 s and 11 s, the open segment's first sample at 12 s) *)
Theorem c03_span_nonvacuous : exists m0 t pl e1 e2,
  start ex_cfg = Ok m0 /\ c_variant ex_cfg <> MPEGTS /\ all_ok m0 sp_ops
  /\ let m := mux_run m0 sp_ops in
     let li := leading_index m in
     nth_error (m_tracks m) li = Some t /\ t_rate (tk_cfg t) = 90000
     /\ gen_media_playlist m li = Some pl
     /\ nth_error (pl_segs pl) 5 = Some e1 /\ ps_gap e1 = false
     /\ nth_error (pl_segs pl) 6 = Some e2 /\ ps_gap e2 = false
     /\ (ps_id e1, ps_dur e1, ps_dt e1) = (7, 1000000000, Some 1700000000000000000)
     /\ (ps_id e2, ps_dur e2, ps_dt e2) = (8, 1000000000, Some 1700000000999990000)
     /\ map (map (fun x => (s_pay x, s_dts x, s_ntp x))) (glog m li)
        = [[(10, 900000, 1700000000000000000); (11, 930000, 1700000000333330000); (12, 960000, 1700000000666660000)];
           [(13, 990000, 1700000000999990000); (14, 1020000, 1700000001333320000); (15, 1050000, 1700000001666650000)];
           [(16, 1080000, 1700000001999980000)]]
     /\ (timestampToDuration 900000 90000, timestampToDuration 990000 90000, timestampToDuration 1080000 90000)
        = (10000000000, 11000000000, 12000000000).
Proof. exact span_example. Qed.
Print Assumptions c03_span_nonvacuous.

(* ---- the same for the MPEG-TS variant, over the ghost log of written units ---- *)
Theorem c03_mpegts_segment_times_are_first_units : forall c m0 ops,
  start c = Ok m0 -> c_variant c = MPEGTS -> all_ok m0 ops ->
  let m := mux_run m0 ops in
  let W := ts_wlog m0 ops in
  map (map (wunit m)) W = tsg m
  /\ forall s P g Q,
       nth_error (m_streams m) 0 = Some s -> published s = P ++ g :: Q ->
       exists x rest y rest',
         nth_error W (length P) = Some (x :: rest) /\ nth_error W (S (length P)) = Some (y :: rest')
         /\ sg_units g = map (wunit m) (x :: rest)
         /\ sg_start g = wtime m x
         /\ sg_ntp g = a_ntp (snd x)
         /\ sg_end g = wtime m y.
Proof. exact ts_segment_times_are_first_units. Qed.
Print Assumptions c03_mpegts_segment_times_are_first_units.

Theorem c03_mpegts_extinf_is_media_span : forall c m0 ops,
  start c = Ok m0 -> c_variant c = MPEGTS -> all_ok m0 ops ->
  let m := mux_run m0 ops in
  let W := ts_wlog m0 ops in
  forall pl i e,
    gen_media_playlist m 0 = Some pl -> nth_error (pl_segs pl) i = Some e ->
    exists s g x rest y rest',
      nth_error (m_streams m) 0 = Some s /\ nth_error (st_segments s) i = Some g
      /\ nth_error W (length (st_evicted s) + i) = Some (x :: rest)
      /\ nth_error W (S (length (st_evicted s) + i)) = Some (y :: rest')
      /\ sg_units g = map (wunit m) (x :: rest)
      /\ ps_dur e = wtime m y - wtime m x
      /\ (sg_gap g = false -> ps_id e = sg_id g /\ ps_dt e = Some (a_ntp (snd x))).
Proof. exact ts_extinf_is_media_span. Qed.
Print Assumptions c03_mpegts_extinf_is_media_span.

Theorem c03_mpegts_date_time_is_first_unit_ntp : forall c m0 ops,
  start c = Ok m0 -> c_variant c = MPEGTS -> all_ok m0 ops ->
  let m := mux_run m0 ops in
  let W := ts_wlog m0 ops in
  forall pl i e,
    gen_media_playlist m 0 = Some pl -> nth_error (pl_segs pl) i = Some e -> ps_gap e = false ->
    exists s g x rest,
      nth_error (m_streams m) 0 = Some s /\ nth_error (st_segments s) i = Some g /\ ps_id e = sg_id g
      /\ nth_error W (length (st_evicted s) + i) = Some (x :: rest)
      /\ sg_units g = map (wunit m) (x :: rest)
      /\ ps_dt e = Some (a_ntp (snd x)).
Proof. exact ts_date_time_is_first_unit_ntp. Qed.
Print Assumptions c03_mpegts_date_time_is_first_unit_ntp.

Theorem c03_mpegts_span_nonvacuous : exists m0 pl e1 e2,
  start ts_cfg = Ok m0 /\ c_variant ts_cfg = MPEGTS /\ all_ok m0 ts_ops2
  /\ let m := mux_run m0 ts_ops2 in
     gen_media_playlist m 0 = Some pl
     /\ nth_error (pl_segs pl) 0 = Some e1 /\ nth_error (pl_segs pl) 1 = Some e2
     /\ (ps_gap e1, ps_id e1, ps_dur e1, ps_dt e1) = (false, 0, 1000000000, Some (1700000000000000000 + 45000 * 11111))
     /\ (ps_gap e2, ps_id e2, ps_dur e2, ps_dt e2) = (false, 1, 1000000000, Some (1700000000000000000 + 135000 * 11111))
     /\ map (map (fun x => (fst x, a_dts (snd x), a_ntp (snd x)))) (ts_wlog m0 ts_ops2)
        = [[(0%nat, 45000, 1700000000000000000 + 45000 * 11111); (1%nat, 24000, 1700000000000000000 + 24000 * 11111);
            (0%nat, 90000, 1700000000000000000 + 90000 * 11111)];
           [(0%nat, 135000, 1700000000000000000 + 135000 * 11111); (1%nat, 48000, 1700000000000000000 + 48000 * 11111);
            (0%nat, 180000, 1700000000000000000 + 180000 * 11111)];
           [(0%nat, 225000, 1700000000000000000 + 225000 * 11111); (1%nat, 72000, 1700000000000000000 + 72000 * 11111)]]
     /\ map (fun w => match w with x :: _ => wtime m x | [] => 0 end) (ts_wlog m0 ts_ops2)
        = [500000000; 1500000000; 2500000000].
Proof. exact ts_span_example. Qed.
Print Assumptions c03_mpegts_span_nonvacuous.

(* ---- each part's DURATION is the media time spanned by the part (leading stream, fMP4 variants) ---- *)
Theorem c03_part_times_are_first_units : forall c m0 ops,
  start c = Ok m0 -> c_variant c <> MPEGTS -> all_ok m0 ops ->
  let m := mux_run m0 ops in
  let li := leading_index m in
  forall s t A p B,
    nth_error (m_streams m) li = Some s -> nth_error (m_tracks m) li = Some t ->
    all_parts s = A ++ p :: B ->
    exists x rest y after,
      p_samples p = x :: rest
      /\ slog m li ++ pend_list m li = flat_map p_samples A ++ (x :: rest) ++ y :: after
      /\ p_start p = timestampToDuration (s_dts x) (t_rate (tk_cfg t))
      /\ p_end p = timestampToDuration (s_dts y) (t_rate (tk_cfg t)).
Proof. exact part_times_are_first_units. Qed.
Print Assumptions c03_part_times_are_first_units.

Theorem c03_part_duration_is_media_span : forall c m0 ops,
  start c = Ok m0 -> c_variant c <> MPEGTS -> all_ok m0 ops ->
  let m := mux_run m0 ops in
  let li := leading_index m in
  forall s t pl,
    nth_error (m_streams m) li = Some s -> nth_error (m_tracks m) li = Some t -> gen_media_playlist m li = Some pl ->
    (forall i e k q, nth_error (pl_segs pl) i = Some e -> nth_error (ps_parts e) k = Some q ->
       exists g p x rest y after,
         nth_error (st_segments s) i = Some g /\ nth_error (sg_parts g) k = Some p /\ pp_id q = p_id p
         /\ p_samples p = x :: rest
         /\ slog m li ++ pend_list m li
            = flat_map p_samples (flat_map sg_parts (st_evicted s ++ firstn i (st_segments s)) ++ firstn k (sg_parts g))
              ++ (x :: rest) ++ y :: after
         /\ pp_dur q = timestampToDuration (s_dts y) (t_rate (tk_cfg t)) - timestampToDuration (s_dts x) (t_rate (tk_cfg t)))
    /\ (forall k q, nth_error (pl_trailing pl) k = Some q ->
       exists o p x rest y after,
         st_open s = Some o /\ nth_error (sg_parts o) k = Some p /\ pp_id q = p_id p
         /\ p_samples p = x :: rest
         /\ slog m li ++ pend_list m li
            = flat_map p_samples (flat_map sg_parts (published s) ++ firstn k (sg_parts o)) ++ (x :: rest) ++ y :: after
         /\ pp_dur q = timestampToDuration (s_dts y) (t_rate (tk_cfg t)) - timestampToDuration (s_dts x) (t_rate (tk_cfg t))).
Proof. exact part_duration_is_media_span. Qed.
Print Assumptions c03_part_duration_is_media_span.

Theorem c03_part_span_nonvacuous : exists m0 s t pl,
  start ex_cfg = Ok m0 /\ c_variant ex_cfg <> MPEGTS /\ all_ok m0 pt_ops
  /\ let m := mux_run m0 pt_ops in
     let li := leading_index m in
     nth_error (m_streams m) li = Some s /\ nth_error (m_tracks m) li = Some t /\ t_rate (tk_cfg t) = 90000
     /\ gen_media_playlist m li = Some pl
     /\ map (fun e => (ps_id e, map (fun q => (pp_id q, pp_dur q)) (ps_parts e))) (skipn 6 (pl_segs pl))
        = [(7, [(0, 200000000); (1, 200000000); (2, 200000000); (3, 200000000); (4, 200000000)])]
     /\ map (fun q => (pp_id q, pp_dur q)) (pl_trailing pl) = [(5, 200000000); (6, 200000000)]
     /\ map (fun p => (p_id p, p_start p, p_end p, map s_dts (p_samples p))) (all_parts s)
        = [(0, 10000000000, 10200000000, [900000; 909000]); (1, 10200000000, 10400000000, [918000; 927000]);
           (2, 10400000000, 10600000000, [936000; 945000]); (3, 10600000000, 10800000000, [954000; 963000]);
           (4, 10800000000, 11000000000, [972000; 981000]); (5, 11000000000, 11200000000, [990000; 999000]);
           (6, 11200000000, 11400000000, [1008000; 1017000])]
     /\ (timestampToDuration 900000 90000, timestampToDuration 918000 90000) = (10000000000, 10200000000).
Proof. exact part_span_example. Qed.
Print Assumptions c03_part_span_nonvacuous.
