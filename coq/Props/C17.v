(* C17 - Storage returns exactly what was written; RAM and disk are equivalent.
   This file contains only the property theorems (each closed by [exact]) and
   [Print Assumptions]; the model is Model/Storage.v, the proofs Proofs/Storage*.v. *)
From Coq Require Import List ZArith Bool.
From GoHls Require Import Model.Storage Proofs.StorageLists Proofs.StorageRam Proofs.StorageDisk Proofs.StorageMain.
Import ListNotations.

(* For every op list of the quantifier (any number of parts, any interleaving of Write and
   Seek(start|current) on the part being written, failed seeks, empty parts, readers on
   completed parts and on the file with any buffer sizes, before/after Finalize, used after
   Remove), the RAM backend shows exactly the specification's observations:
   part readers return the bytes written (spec_write_bytes), the file reader returns the
   parts concatenated (spec_open_file, spec_reads_chunks), Size is the total length,
   the file cannot be read before Finalize. *)
Theorem c17_ram_refines : forall ops, wf_ops ops = true -> obs_ram ops = obs_spec ops.
Proof. exact ram_refines. Qed.
Print Assumptions c17_ram_refines.

Theorem c17_disk_refines : forall ops, wf_ops ops = true -> obs_disk ops = obs_spec ops.
Proof. exact disk_refines. Qed.
Print Assumptions c17_disk_refines.

Theorem c17_equiv : forall ops, wf_ops ops = true -> obs_ram ops = obs_disk ops.
Proof. exact ram_disk_equiv. Qed.
Print Assumptions c17_equiv.

Theorem c17_remove : forall ops,
  wf_ops ops = true -> In Remove ops -> f_exists (fst (run disk_step disk_init ops)) = false.
Proof. exact remove_deletes. Qed.
Print Assumptions c17_remove.

(* the specification side, spelled out *)
Theorem c17_spec_part_bytes : forall l pos bs i,
  bs <> [] ->
  nth i (put_all l pos bs) 0%Z =
  if (Nat.leb pos i) && (Nat.ltb i (pos + length bs)) then nth (i - pos) bs 0%Z else nth i l 0%Z.
Proof. exact spec_write_bytes. Qed.
Print Assumptions c17_spec_part_bytes.

Theorem c17_spec_file_concat : forall s,
  sp_final s = true ->
  spec_step s (Open TFile) =
  ({| sp_parts := sp_parts s; sp_pos := sp_pos s; sp_final := true;
      sp_handles := sp_handles s ++ [Some (concat (sp_parts s))] |}, OOk).
Proof. exact spec_open_file. Qed.
Print Assumptions c17_spec_file_concat.

Theorem c17_spec_any_buffer_sizes : forall ns s h rem,
  nth_error (sp_handles s) h = Some (Some rem) ->
  snd (run spec_step s (map (ReadH h) ns)) = map OBytes (fst (drain rem ns))
  /\ concat (fst (drain rem ns)) ++ snd (drain rem ns) = rem.
Proof. intros ns s h rem H. split; [exact (spec_reads_chunks ns s h rem H)|exact (drain_concat ns rem)]. Qed.
Print Assumptions c17_spec_any_buffer_sizes.

Theorem c17_spec_not_before_finalize : forall s,
  sp_final s = false -> snd (spec_step s (Open TFile)) = OErr.
Proof. exact spec_open_file_early. Qed.
Print Assumptions c17_spec_not_before_finalize.

Theorem c17_spec_size : forall s,
  sp_final s = true -> snd (spec_step s Size) = ONum (Z.of_nat (length (concat (sp_parts s)))).
Proof. exact spec_size_final. Qed.
Print Assumptions c17_spec_size.

(* ramFileReader.Read terminates, returns the next bytes, and makes progress *)
Theorem c17_reader_progress : forall r n,
  rfr_ok r ->
  exists r', rfr_read r n = Some (r', firstn n (rfr_remaining r))
             /\ rfr_ok r' /\ rfr_remaining r' = skipn n (rfr_remaining r)
             /\ rf_parts r' = rf_parts r.
Proof. exact rfr_read_spec. Qed.
Print Assumptions c17_reader_progress.
