(* C07 - Close unblocks every request and releases all storage.
   Only property theorems (closed by [exact]) and [Print Assumptions].
   Model: Model/MuxConcPar.v over Model/MuxConcSeq.v; proofs Proofs/MuxConc*.v.

   The model follows /repo after the repairs 08d316e (the preload-hint closure unlocks on its
   closed exit: former finding F1) and c04d523 (Close sets every stream.closed under the mutex,
   before Unlock / Broadcast: former finding F2); every theorem is stated at full strength,
   there is no _partial / _refuted. *)
From Coq Require Import List ZArith Bool String.
From GoHls Require Import Lib.MuxSched Model.MuxConcSeq Model.MuxConcSpec Model.MuxConcPar
  Proofs.MuxConcSeqA Proofs.MuxConcInvA Proofs.MuxConcInvB Proofs.MuxConcInvC Proofs.MuxConcInvD
  Proofs.MuxConcProg Proofs.MuxConcMain Proofs.MuxConcAll Proofs.MuxConcFiles
  Model.MuxConcSkelIR Model.MuxConcSkelExp Generated.MuxConcSkel.
Import ListNotations.
Local Open Scope Z_scope.

(* the invariants hold after every schedule, for any number of requesters *)
Theorem c07_inv_reachable : forall m prog reqs sched,
  fresh m -> Inv (crun (cinit m prog reqs) sched).
Proof. exact Inv_reachable. Qed.
Print Assumptions c07_inv_reachable.

(* the owner of the mutex is a live thread whose pc lies in a critical section, and conversely *)
Theorem c07_mutex_owner : forall m prog reqs sched,
  fresh m -> mutex_inv (crun (cinit m prog reqs) sched).
Proof. exact mutex_owner_reachable. Qed.
Print Assumptions c07_mutex_owner.

(* no internal lock is left held: whenever no thread is inside a handler or inside a writer
   operation the mutex is free *)
Theorem c07_mutex_free : forall c, Inv c -> nobody_inside c -> c_owner c = None.
Proof. exact mutex_free. Qed.
Print Assumptions c07_mutex_free.

Theorem c07_returned_holds_nothing : forall c i r resp,
  Inv c -> nth_error (c_reqs c) i = Some r -> r_pc r = PDone resp -> c_owner c <> Some (TR i).
Proof. exact returned_holds_nothing. Qed.
Print Assumptions c07_returned_holds_nothing.

(* Close, once it has taken the mutex, returns by its own steps *)
Theorem c07_close_completes : forall c,
  (c_wpc c = CLocked \/ c_wpc c = CSet \/ c_wpc c = CUnlocked \/ exists k, c_wpc c = CStreams k) ->
  exists j, (j <= List.length (m_streams (c_mux c)) + 4)%nat /\ c_wpc (crun c (repeat TW j)) = WFinished.
Proof. exact close_completes. Qed.
Print Assumptions c07_close_completes.

(* after Close's broadcast nobody is asleep (every waiter has been woken) and nobody falls
   asleep again *)
Theorem c07_nobody_asleep_after_close : forall m prog reqs sched i r f,
  fresh m ->
  let c := crun (cinit m prog reqs) sched in
  close_broadcast_done (c_wpc c) = true ->
  nth_error (c_reqs c) i = Some r -> r_pc r <> PWaiting f.
Proof. exact nobody_asleep_after_close. Qed.
Print Assumptions c07_nobody_asleep_after_close.

Theorem c07_no_wait_after_close : forall c, phase_inv c -> closing (c_wpc c) = true ->
  forall q f, test (c_mux c) q f <> TWait.
Proof. exact no_wait_after_close. Qed.
Print Assumptions c07_no_wait_after_close.

(* every request - a woken waiter, a request in flight, a request issued later - completes by
   its own steps (at most 6), never waits, and leaves the mutex free *)
Theorem c07_all_terminate : forall c i r,
  Inv c -> hint_prop (c_mux c) -> close_broadcast_done (c_wpc c) = true -> c_owner c = None ->
  nth_error (c_reqs c) i = Some r ->
  exists k, (k <= 6)%nat /\ exists r',
    nth_error (c_reqs (crun c (repeat (TR i) k))) i = Some r' /\
    (exists resp, r_pc r' = PDone resp) /\ r_waits r' = r_waits r /\
    c_owner (crun c (repeat (TR i) k)) = None.
Proof. exact all_terminate_after_close. Qed.
Print Assumptions c07_all_terminate.

(* a request that was blocked inside the muxer completes with a non-200 status *)
Theorem c07_waiters_non200 : forall c i r f,
  Inv c -> hint_prop (c_mux c) -> closing (c_wpc c) = true -> c_wpc c <> WCrashed -> c_owner c = None ->
  nth_error (c_reqs c) i = Some r -> r_pc r = PWoken f ->
  exists k, (k <= 4)%nat /\ exists resp,
    done_with (crun c (repeat (TR i) k)) i = Some resp /\ is_200 resp = false /\
    c_owner (crun c (repeat (TR i) k)) = None.
Proof. exact woken_terminates_after_close. Qed.
Print Assumptions c07_waiters_non200.

(* the hypothesis hint_prop of the two theorems above holds in every reachable state of EVERY
   variant (Low-Latency: path-table invariant; fMP4 / MPEG-TS: no part path is ever registered),
   so they are instantiated for all three variants; the initial table of a started muxer is ok *)
Theorem c07_hint_prop_reachable_all_variants : forall m prog reqs sched,
  table_ok m -> hint_prop (c_mux (crun (cinit m prog reqs) sched)).
Proof. exact hint_prop_reachable_all_variants. Qed.
Print Assumptions c07_hint_prop_reachable_all_variants.

Theorem c07_initial_table_ok : forall v sc n lead, table_ok (mux_init v sc n lead).
Proof. exact init_table_ok. Qed.
Print Assumptions c07_initial_table_ok.

(* every segment file has been removed when Close returns *)
Theorem c07_files_removed : forall m prog reqs sched,
  fresh m -> m_files m = [] ->
  c_wpc (crun (cinit m prog reqs) sched) = WFinished ->
  m_files (c_mux (crun (cinit m prog reqs) sched)) = [].
Proof. exact files_removed. Qed.
Print Assumptions c07_files_removed.

(* regression: the two schedules that refuted the unrepaired code now end well *)
Example c07_former_f2 :
  let c := crun f2_init f2_sched in
  c_wpc c = WFinished /\ c_owner c = None /\ done_with c 0 = Some R500.
Proof. exact f2_regression. Qed.

Example c07_former_f1 :
  let c := crun f1_init f1_sched in
  c_wpc c = WFinished /\ done_with c 0 = Some R500 /\ done_with c 1 = Some R500 /\ c_owner c = None.
Proof. exact f1_regression. Qed.

(* hypotheses are satisfiable: a run with a pending multivariant request, Close, wake-up *)
Example c07_hyps :
  let c := crun (cinit (mux_init LL 7 1 0) [WClose] [RqMulti])
                [TR 0; TR 0; TR 0; TR 0; TW; TW; TW; TW; TW; TW]%nat in
  c_wpc c = WFinished /\ c_owner c = None /\ req_pc c 0 = Some (PWoken FMulti) /\
  done_with (crun c (repeat (TR 0) 3)) 0 = Some R500 /\ m_files (c_mux c) = [].
Proof. vm_compute. auto 10. Qed.

(* the pc automata were transcribed from exactly the locking structure the source has today:
   tools/muxconc re-extracts the skeletons from /repo on every run (Generated/MuxConcSkel.v) *)
Theorem c07_skeletons_match :
  (skel_Close, skel_rotateParts, skel_rotateSegments, skel_handleMultivariantPlaylist,
   skel_handleMediaPlaylist, skel_preloadHint, skel_serverHandle, skel_streamClose) =
  (expected_Close, expected_rotateParts, expected_rotateSegments, expected_handleMultivariantPlaylist,
   expected_handleMediaPlaylist, expected_preloadHint, expected_serverHandle, expected_streamClose).
Proof. reflexivity. Qed.
Print Assumptions c07_skeletons_match.
