(* C07 - Close unblocks every request and releases all storage.
   Only property theorems (closed by [exact]) and [Print Assumptions].
   Model: Model/MuxConcPar.v over Model/MuxConcSeq.v; proofs Proofs/MuxConc*.v.

   Findings on the pinned tree (faithful model):
     F1  the preload-hint closure returns on s.closed WITHOUT unlocking Muxer.mutex: the
         mutex stays held with nobody inside; every later request hangs in Lock()
                                       -> c07_mutex_free_refuted (global deadlock witness)
     F2  muxerStream.closed is set after the broadcast, outside the mutex: a waiter that
         re-checks first goes back to sleep and nobody ever wakes it
                                       -> c07_all_terminate_refuted
   The partial theorems exclude exactly these: [nobody_leaked] / [c_owner c = None] (no hint
   closure has taken its closed exit) and "the requester is not asleep" together with
   c07_stuck_only_f2, which says that whoever is still asleep after Close's broadcast went to
   sleep AFTER that broadcast (F2's schedule) and is not the multivariant handler. *)
From Coq Require Import List ZArith Bool String.
From GoHls Require Import Lib.MuxSched Model.MuxConcSeq Model.MuxConcSpec Model.MuxConcPar
  Proofs.MuxConcSeqA Proofs.MuxConcInvA Proofs.MuxConcInvB Proofs.MuxConcInvC Proofs.MuxConcInvD
  Proofs.MuxConcProg Proofs.MuxConcMain Proofs.MuxConcFiles
  Model.MuxConcSkelIR Model.MuxConcSkelExp Generated.MuxConcSkel.
Import ListNotations.
Local Open Scope Z_scope.

(* the invariants hold after every schedule, for any number of requesters *)
Theorem c07_inv_reachable : forall m prog reqs sched,
  fresh m -> Inv (crun (cinit m prog reqs) sched).
Proof. exact Inv_reachable. Qed.
Print Assumptions c07_inv_reachable.

(* "the owner is a live thread whose pc lies in a critical section" - or a requester that left
   a handler with the mutex held *)
Theorem c07_mutex_owner : forall m prog reqs sched,
  fresh m -> mutex_inv (crun (cinit m prog reqs) sched).
Proof. intros m prog reqs sched F. exact (i_mutex _ (Inv_reachable m prog reqs sched F)). Qed.
Print Assumptions c07_mutex_owner.

Theorem c07_mutex_free_partial : forall c,
  Inv c -> nobody_inside c -> nobody_leaked c -> c_owner c = None.
Proof. exact mutex_free_partial. Qed.
Print Assumptions c07_mutex_free_partial.

(* the only way to leak: the preload-hint closure evaluated on a closed stream *)
Theorem c07_leak_origin : forall m prog reqs sched i r,
  nth_error (c_reqs (crun (cinit m prog reqs) sched)) i = Some r -> r_leaked r = true ->
  exists p rest k id s, sched = p ++ TR i :: rest /\
    let c := crun (cinit m prog reqs) p in
    req_pc c i = Some (PTest (FHint k id)) /\
    nth_error (m_streams (c_mux c)) k = Some s /\ s_closed s = true.
Proof. exact leak_origin. Qed.
Print Assumptions c07_leak_origin.

Theorem c07_mutex_free_refuted :
  let c := crun f1_init f1_sched in
  c_wpc c = WFinished /\ done_with c 0 = Some R500 /\ req_pc c 1 = Some PStart /\
  c_owner c = Some (TR 0) /\
  let c2 := crun c [TR 1; TR 1]%nat in
  req_pc c2 1 = Some (PLock FMulti) /\ (forall sched', crun c2 sched' = c2).
Proof. exact mutex_free_refuted. Qed.
Print Assumptions c07_mutex_free_refuted.

(* Close, once it has taken the mutex, returns by its own steps *)
Theorem c07_close_completes : forall c,
  (c_wpc c = CLocked \/ c_wpc c = CSet \/ c_wpc c = CUnlocked \/ exists k, c_wpc c = CStreams k) ->
  exists j, (j <= List.length (m_streams (c_mux c)) + 4)%nat /\ c_wpc (crun c (repeat TW j)) = WFinished.
Proof. exact close_completes. Qed.
Print Assumptions c07_close_completes.

(* a requester that was waiting and has been woken completes by its own steps, non-200 *)
Theorem c07_all_terminate_partial : forall c i r f,
  Inv c -> hint_prop (c_mux c) -> c_wpc c = WFinished -> c_owner c = None ->
  nth_error (c_reqs c) i = Some r -> r_pc r = PWoken f ->
  exists k, (k <= 4)%nat /\ exists resp,
    done_with (crun c (repeat (TR i) k)) i = Some resp /\ is_200 resp = false.
Proof. exact woken_terminates_after_close. Qed.
Print Assumptions c07_all_terminate_partial.

(* who can still be asleep once Close has broadcast: only F2's victims *)
Theorem c07_stuck_only_f2 : forall m prog reqs sched i r f,
  fresh m ->
  let c := crun (cinit m prog reqs) sched in
  close_broadcast_done (c_wpc c) = true ->
  nth_error (c_reqs c) i = Some r -> r_pc r = PWaiting f ->
  r_slept_late r = true /\ f <> FMulti.
Proof. exact stuck_only_f2. Qed.
Print Assumptions c07_stuck_only_f2.

Theorem c07_all_terminate_refuted :
  let c := crun f2_init f2_sched in
  c_wpc c = WFinished /\ c_owner c = None /\ req_pc c 0 = Some (PWaiting (FPlain 0 false)) /\
  (forall sched', req_pc (crun c sched') 0 = Some (PWaiting (FPlain 0 false))).
Proof. exact all_terminate_refuted. Qed.
Print Assumptions c07_all_terminate_refuted.

(* requests issued after Close returned respond by their own steps, without waiting *)
Theorem c07_later_requests_partial : forall c i r,
  Inv c -> hint_prop (c_mux c) -> c_wpc c = WFinished -> c_owner c = None ->
  nth_error (c_reqs c) i = Some r -> (forall f, r_pc r <> PWaiting f) ->
  exists k, (k <= 6)%nat /\ exists r',
    nth_error (c_reqs (crun c (repeat (TR i) k))) i = Some r' /\
    (exists resp, r_pc r' = PDone resp) /\ r_waits r' = r_waits r.
Proof. exact later_requests_after_close. Qed.
Print Assumptions c07_later_requests_partial.

Theorem c07_no_wait_after_close : forall c, phase_inv c -> c_wpc c = WFinished ->
  forall q f, test (c_mux c) q f <> TWait.
Proof. exact no_wait_after_close. Qed.
Print Assumptions c07_no_wait_after_close.

(* every segment file has been removed when Close returns *)
Theorem c07_files_removed : forall m prog reqs sched,
  fresh m -> m_files m = [] ->
  c_wpc (crun (cinit m prog reqs) sched) = WFinished ->
  m_files (c_mux (crun (cinit m prog reqs) sched)) = [].
Proof. exact files_removed. Qed.
Print Assumptions c07_files_removed.

(* hypotheses are satisfiable: a run with a pending multivariant request, Close, wake-up *)
Example c07_hyps :
  let c := crun (cinit (mux_init LL 7 1 0) [WClose] [RqMulti])
                [TR 0; TR 0; TR 0; TR 0; TW; TW; TW; TW; TW; TW]%nat in
  c_wpc c = WFinished /\ c_owner c = None /\ req_pc c 0 = Some (PWoken FMulti) /\
  done_with (crun c (repeat (TR 0) 3)) 0 = Some R500 /\ m_files (c_mux c) = [].
Proof. vm_compute. auto 10. Qed.

(* the pc automata were transcribed from exactly the locking structure the source has today:
   tools/muxconc re-extracts the skeletons from /repo on every run (Generated/MuxConcSkel.v) *)
Theorem c07_skeletons_match :
  (skel_Close, skel_rotateParts, skel_rotateSegments, skel_handleMultivariantPlaylist,
   skel_handleMediaPlaylist, skel_preloadHint, skel_serverHandle, skel_streamClose) =
  (expected_Close, expected_rotateParts, expected_rotateSegments, expected_handleMultivariantPlaylist,
   expected_handleMediaPlaylist, expected_preloadHint, expected_serverHandle, expected_streamClose).
Proof. reflexivity. Qed.
Print Assumptions c07_skeletons_match.
