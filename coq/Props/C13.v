(* C13 - Malformed or unsupported server content cannot crash or wedge the client.
   Only the property theorems (each closed by [exact]) and [Print Assumptions]; the model is
   Model/ClientContent.v, the proofs Proofs/ClientContent{Ops,Fmp4,Main,Fixes,NoWedge}.v.

   Which tree is meant. The model is parametrised by the repairs a tree contains
   ([client_run_gen rp]); /repo CARRIES ALL OF THEM (known_findings.json, kind "fixed"):
     f8dc8c2        findings 1+2 (rep_tracks): init tracks codecs.FromFMP4 does not know are
                    dropped, a time scale 0 is an error
     098dd1f        finding 3 (rep_join): processSegment collects the tokens of finished part
                    tracks while it pushes
     8f9d4a5, d590576 + c9db2ec   checkSupport accepts av01./vp09.; trackless fMP4 bodies
   so the model of /repo as it is now is [client_run_fixed] = [client_run_gen all_repairs] (this is
   what Tie.repo_repairs makes the correspondence run compare with /repo). The theorems about
   /repo are c13_playlist_use, c13_content_no_panic_after_repair, c13_no_wedge_after_repair,
   c13_no_busy_loop_any_tree, c13_checkSupport, c13_empty_*. [client_run] = [client_run_gen
   no_repairs] is the model of the tree BEFORE f8dc8c2 / 098dd1f; it is kept as a regression
   witness: c13_refuted, c13_refuted_zero_timescale, c13_wedge_on_valid_content and
   c13_content_no_panic_partial are statements about that unrepaired model. *)
From Coq Require Import List ZArith Bool String.
From GoHls Require Import Model.ClientContent Proofs.ClientContentOps Proofs.ClientContentFmp4
     Proofs.ClientContentMain Proofs.ClientContentFixes Proofs.ClientContentNoWedge.
Import ListNotations.
Local Open Scope Z_scope.

(* ---- playlists ----
   Whatever playlist.Unmarshal returned (first playlist of a stream, any later reload, the
   multivariant playlist), for every value of curSegmentID, none of the index / dereference
   expressions the client applies to it (pl.Segments[len-1], Segments[0], segments[index] in
   findSegmentWithInvPosition / findSegmentWithID, variants[i].Codecs/URI, alt.GroupID, *pl.URI,
   Map.URI, PreloadHint.URI, ServerControl.CanSkipUntil, dateTimeOfPreloadHint) panics, given
   only that the slices hold no nil element. [structural_ok] (no nil slice element) holds of every
   result of playlist.Unmarshal by construction - it appends only freshly allocated elements; in
   C15's playlist model the element lists cannot hold nil at all - i.e. by the shape of the
   playlist model's types (transcription trust + the tie's corpus / index-expression legs), NOT
   by a C15 theorem. *)
Theorem c13_playlist_use : forall first pl cur,
  structural_ok first = true -> structural_ok pl = true ->
  is_panic (client_use_playlist first pl cur) = false.
Proof. exact client_use_playlist_np. Qed.
Print Assumptions c13_playlist_use.

Example c13_playlist_use_hyp_sat :
  structural_ok vod_media = true /\ client_use_playlist vod_media vod_media None = Ok tt.
Proof. vm_compute. auto. Qed.

(* the hypothesis is load-bearing: with a nil element the same expressions panic *)
Example c13_playlist_use_needs_structure :
  exists first, structural_ok first = false /\ client_use_playlist first first None = Panic PNilDeref.
Proof. exact client_use_playlist_needs_structure. Qed.

(* ---- media content ----
   The full statement "for EVERY parsed init / parts / PMT description the outcome is Deliver,
   Skip or Err, never Panic" was FALSE before /repo commit f8dc8c2: it is false of the unrepaired
   model [client_run] = [client_run_gen no_repairs]. Two witnesses, kept as regression witnesses
   (for the model of /repo as it is now see c13_content_no_panic_after_repair below): *)

(* DESIGN 7.2 F5: an init track whose codec codecs.FromFMP4 does not know becomes a Track with a
   nil Codec (it is exposed to OnTracks as such), its track processor gets no decodePayload, and
   the first sample calls the nil func. *)
Theorem c13_refuted : exists sc el,
  mc_wf sc = true /\ o_tracks (client_run sc el) = Some [None] /\
  o_end (client_run sc el) = Panic PNilFunc.
Proof. exact refuted_unsupported_codec_ex. Qed.
Print Assumptions c13_refuted.

(* second finding: an init track with mdhd time scale 0 (all codecs supported): integer divide
   by zero in clientTimeConvFMP4.convert / timestampToDuration *)
Theorem c13_refuted_zero_timescale : exists sc el,
  mc_wf sc = true /\ o_end (client_run sc el) = Panic PDivZero.
Proof. exact refuted_zero_timescale_ex. Qed.
Print Assumptions c13_refuted_zero_timescale.

(* the mechanism of F5 at operation level, for every track and every entry *)
Theorem c13_f5_mechanism : forall tp el dts ntp s rest,
  tp_decode tp = None -> process tp el dts ntp (s :: rest) = Panic PNilFunc.
Proof. exact process_nil_decoder. Qed.
Print Assumptions c13_f5_mechanism.

Theorem c13_f5_nil_codec_no_decoder : forall t, tp_initialize t = None <-> t_codec t = None.
Proof. exact tp_initialize_none. Qed.
Print Assumptions c13_f5_nil_codec_no_decoder.

(* What held of the unrepaired model [client_run] already: for every scenario - any multivariant / media primary playlist, any number of
   renditions, fMP4 and MPEG-TS mixed in any way, every MPEG-TS codec tag, any track ids
   (permuted, duplicated, unknown, missing), empty parts, no leading-track data, more than 10
   tracks, unparsable inits / segments, any base times, durations, offsets (int64 wrap-around
   included), any elapsed wall-clock time - provided mediacommon's parser guarantees hold
   (mc_wf: an init has >= 1 track and no nil codec; no nil playlist element) and every fMP4 init
   track has a codec gohlslib knows and a non-zero time scale (all_supported: exactly what the
   two findings are about), the client ends with EOS or an error, never with a panic. *)
Theorem c13_content_no_panic_partial : forall sc el,
  mc_wf sc = true -> all_supported sc = true -> is_panic (o_end (client_run sc el)) = false.
Proof. exact client_run_np. Qed.
Print Assumptions c13_content_no_panic_partial.

Example c13_content_hyp_sat :
  mc_wf witness_valid = true /\ all_supported witness_valid = true /\
  client_run witness_valid 0 =
    {| o_tracks := Some [Some GH264; Some GMPEG4Audio]; o_counts := [[1%nat; 1%nat]];
       o_decodeErrors := 0; o_end := Ok tt |}.
Proof. exact valid_plays. Qed.

(* The repair of findings 1 and 2 (/repo commit f8dc8c2: drop init tracks codecs.FromFMP4 does not
   know, reject time scale 0) makes the FULL statement true: for the model of every tree that
   contains it - in particular /repo as it is now, [client_run_fixed] - no hypothesis on the media
   content is left: every codec tag incl. a nil Codec, empty inits, any time scale. Only the
   playlist's structural guarantee remains. *)
Theorem c13_content_no_panic_after_repair : forall rp sc el,
  rep_tracks rp = true -> structural_ok (sc_primary sc) = true ->
  is_panic (o_end (client_run_gen rp sc el)) = false.
Proof. exact client_run_repaired_np. Qed.
Print Assumptions c13_content_no_panic_after_repair.

(* ---- no wedge ----
   A run of the model ends in [Err EBlocked] exactly when a goroutine of the client is parked until
   Close: a push to a track processor stuck in onPartTrackProcessed (finding 3), a rendition waiting
   for a time converter the leading stream never creates, a pull from a segment queue nobody fills.
   With the repair of finding 3 (/repo commit 098dd1f, rep_join = true; /repo as it is now:
   all_repairs) NO input wedges the client: for every repairs record with rep_join = true, every
   scenario (any primary playlist, any streams, nil elements and unsupported content included - a
   panic is a different outcome, excluded by the theorem above) and every elapsed time, the run
   does not end in EBlocked. No hypothesis. (runTraditional's own EBlocked - a playlist request the
   server never answers - is waiting for the network, not part of a client run over served content.) *)
Theorem c13_no_wedge_after_repair : forall rp sc el,
  rep_join rp = true -> o_end (client_run_gen rp sc el) <> Err EBlocked.
Proof. exact client_run_gen_never_wedges. Qed.
Print Assumptions c13_no_wedge_after_repair.

Theorem c13_no_wedge_repo : forall sc el, o_end (client_run_fixed sc el) <> Err EBlocked.
Proof. exact client_run_fixed_never_wedges. Qed.
Print Assumptions c13_no_wedge_repo.

(* not vacuous: the former wedge input (twelve parts in one segment) now plays to the end, and
   without rep_join the statement fails (c13_wedge_on_valid_content below) *)
Example c13_repair_of_wedge :
  client_run_fixed (many_parts 12) 0 =
    {| o_tracks := Some [Some GH264]; o_counts := [[12%nat]]; o_decodeErrors := 0; o_end := Ok tt |}.
Proof. exact repaired_many_parts. Qed.

Example c13_repair_on_witnesses :
  client_run_fixed witness_unsupported_codec 0 = fail_outcome (Err ENoSupportedTracks) /\
  client_run_fixed witness_zero_timescale 0 = fail_outcome (Err EInvalidTimeScale) /\
  client_run_fixed witness_valid 0 = client_run witness_valid 0 /\
  client_run_fixed (one_stream [{| it_id := 1; it_timescale := 90000; it_codec := FH264 |};
                                {| it_id := 2; it_timescale := 48000; it_codec := FAC3 |}] [1; 2]) 0 =
    {| o_tracks := Some [Some GH264]; o_counts := [[1%nat]]; o_decodeErrors := 0; o_end := Ok tt |}.
Proof. exact repaired_on_witnesses. Qed.

(* mc_wf is load-bearing too (the repo's code indexes init.Tracks[0] and calls Codec.IsVideo()
   unguarded); the harness checks on every parsed init that mediacommon keeps this promise *)
Example c13_needs_parser_guarantees :
  o_end (client_run (one_stream [] []) 0) = Panic PIndex /\
  o_end (client_run (one_stream [{| it_id := 1; it_timescale := 90000; it_codec := FNil |}] [1]) 0) = Panic PNilDeref.
Proof. exact needs_parser_guarantees. Qed.

(* The third finding (repaired by /repo commit 098dd1f), about the unrepaired model [client_run]:
   not a panic but a wedge - a VALID stream (one supported track) with twelve parts in one segment
   blocks the fMP4 stream processor until Close (EBlocked: neither EOS nor an error from Wait); see
   Model jstate. Eleven parts play to the end. Kept as a regression witness. *)
Theorem c13_wedge_on_valid_content : exists sc el,
  mc_wf sc = true /\ all_supported sc = true /\ o_end (client_run sc el) = Err EBlocked.
Proof. exact wedge_witness. Qed.
Print Assumptions c13_wedge_on_valid_content.

Example c13_eleven_parts_play :
  client_run (many_parts 11) 0 =
    {| o_tracks := Some [Some GH264]; o_counts := [[11%nat]]; o_decodeErrors := 0; o_end := Ok tt |}.
Proof. exact eleven_parts_play. Qed.

(* Schedule independence: a panic is local to one operation of one goroutine. For ALL arguments
   (any entry, any time-conversion state with non-zero divisors, any elapsed time) the
   operations of a track processor and of the stream processor's push path do not panic. *)
Theorem c13_op_track_processor : forall tp el dts ntp samples,
  tproc_ok tp -> is_panic (process tp el dts ntp samples) = false.
Proof. exact process_np. Qed.
Print Assumptions c13_op_track_processor.

Theorem c13_op_stream_processor : forall rep procs tc el parts counts js,
  procs_ok procs -> tconv_ok tc ->
  is_panic (parts_loop rep procs (Some (CFmp4 tc)) el parts counts js) = false.
Proof. exact parts_loop_np. Qed.
Print Assumptions c13_op_stream_processor.

(* MPEG-TS: only supported codecs become tracks, so no nil Codec is ever exposed there *)
Theorem c13_mpegts_tracks_supported : forall pmt lead ts,
  ts_initializeReader pmt = Ok (lead, ts) -> Forall (fun t => t_codec t <> None) ts.
Proof. exact ts_tracks_have_codec. Qed.
Print Assumptions c13_mpegts_tracks_supported.

(* ---- no busy loop ----
   Every loop of the modelled code that is not a range over a finite slice takes one unit of
   fuel per iteration; with fuel = (remaining input + 1) it never runs out: each iteration
   consumes an input element (a queued segment, a packet of the reader, an answer of the
   server) or ends the loop. Unconditional: no hypothesis on the content. *)
Theorem c13_no_busy_loop : forall sc el, is_oof (o_end (client_run sc el)) = false.
Proof. exact client_run_noof. Qed.
Print Assumptions c13_no_busy_loop.

Theorem c13_no_busy_loop_any_tree : forall rp sc el,
  is_oof (o_end (client_run_gen rp sc el)) = false.
Proof. exact client_run_gen_noof. Qed.
Print Assumptions c13_no_busy_loop_any_tree.

Theorem c13_no_busy_loop_fmp4_run : forall queue fuel p c el counts,
  (List.length queue < fuel)%nat -> is_oof (fmp4_run_loop fuel p c el queue counts) = false.
Proof. exact fmp4_run_loop_fuel. Qed.
Print Assumptions c13_no_busy_loop_fmp4_run.

Theorem c13_no_busy_loop_ts_run : forall queue fuel p c el counts nerr,
  (List.length queue < fuel)%nat -> is_oof (ts_run_loop fuel p c el queue counts nerr) = false.
Proof. exact ts_run_loop_fuel. Qed.
Print Assumptions c13_no_busy_loop_ts_run.

(* the Read loop over ANY reader that honours the contract "a Read that neither fails nor
   reports the end of the input has consumed at least one packet" *)
Theorem c13_no_busy_loop_reader : forall (R : Type) (rd_read : R -> R * ts_read) (rd_size : R -> nat),
  (forall r r' x, rd_read r = (r', x) ->
     match x with RData _ _ _ _ | RNone _ => (rd_size r' < rd_size r)%nat | _ => True end) ->
  forall fuel rd p c el dt counts nerr,
  (rd_size rd < fuel)%nat -> is_oof (ts_read_loop rd_read fuel rd p c el dt counts nerr) = false.
Proof. exact (@ts_read_loop_fuel). Qed.
Print Assumptions c13_no_busy_loop_reader.

Example c13_reader_contract_sat : forall (r r' : list ts_read) x, list_reader r = (r', x) ->
  match x with RData _ _ _ _ | RNone _ => (List.length r' < List.length r)%nat | _ => True end.
Proof. exact list_reader_contract. Qed.

Theorem c13_no_busy_loop_downloader : forall answers fuel first cur pl,
  (List.length answers < fuel)%nat -> is_oof (runTraditional fuel first cur pl answers) = false.
Proof. exact runTraditional_fuel. Qed.
Print Assumptions c13_no_busy_loop_downloader.

(* ---- behaviour after the C09 fixes in /repo (8f9d4a5, d590576 + c9db2ec); the model follows them ---- *)

(* checkSupport: exactly the strings with one of the six prefixes, or "opus" *)
Theorem c13_checkSupport : forall codec,
  codec_supported codec = true <->
  (String.prefix "avc1." codec = true \/ String.prefix "hvc1." codec = true \/ String.prefix "hev1." codec = true
   \/ String.prefix "mp4a." codec = true \/ String.prefix "av01." codec = true \/ String.prefix "vp09." codec = true
   \/ codec = "opus"%string).
Proof. exact codec_supported_spec. Qed.
Print Assumptions c13_checkSupport.

Example c13_checkSupport_ex :
  checkSupport ["av01.0.08M.08.0.110.01.01.01.0"; "vp09.00.10.08"; "opus"]%string = true
  /\ checkSupport ["avc1.640028"; "ac-3"]%string = false.
Proof. split; reflexivity. Qed.

(* an fMP4 segment / Low-Latency part whose parts hold no track at all is skipped without any effect by a
   rendition's stream processor, and by the leading one once its track processors exist ... *)
Theorem c13_empty_segment_skipped : forall p c el seg counts parts,
  fg_parts seg = Some parts -> parts_empty parts = true ->
  (f_isLeading p = false \/ f_procs p <> None) ->
  fmp4_processSegment p c el seg counts = Ok (p, c, counts).
Proof. exact empty_segment_skipped. Qed.
Print Assumptions c13_empty_segment_skipped.

(* ... but it is still "could not find data of leading track" for a leading stream that has not created
   the time converter (renditions wait for it: skipping there wedged the client, the regression of
   d590576 repaired by c9db2ec), and for any segment that has tracks but not the leading one *)
Theorem c13_empty_first_leading_segment : forall p c el seg counts parts,
  fg_parts seg = Some parts -> parts_empty parts = true ->
  f_isLeading p = true -> f_procs p = None ->
  fmp4_processSegment p c el seg counts = Err ENoLeadingData.
Proof. exact empty_first_leading_segment. Qed.
Print Assumptions c13_empty_first_leading_segment.

Theorem c13_segment_without_leading_track : forall p c el seg counts parts,
  fg_parts seg = Some parts -> parts_empty parts = false ->
  findFirstPartTrackOfLeadingTrack parts (f_leadingTrackID p) = None ->
  fmp4_processSegment p c el seg counts = Err ENoLeadingData.
Proof. exact nonempty_without_leading. Qed.
Print Assumptions c13_segment_without_leading_track.

Example c13_empty_segments_ex :
  client_run_fixed sc_av1_empty_rendition_part 0 =
    {| o_tracks := Some [Some GAV1; Some GMPEG4Audio]; o_counts := [[3%nat]; [2%nat]]; o_decodeErrors := 0;
       o_end := Ok tt |}
  /\ o_end (client_run_fixed sc_leading_empty_with_rendition 0) = Err ENoLeadingData.
Proof. exact (conj av1_with_empty_rendition_part_plays leading_empty_segment_is_an_error). Qed.
