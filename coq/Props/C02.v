(* C02 - Segments start on random access, respect the minimum duration, cut on parameter changes.
   Only property theorems (each closed by [exact]) and [Print Assumptions].
   PARTIAL. Proved: the init segment is regenerated exactly when none exists or the segment being
   published was opened by a forced (parameter-change) rotation, and then captures the tracks'
   current parameters; a segment opened by a rotation starts at the rotation's DTS / NTP and
   carries its force flag; every stream of a reachable state satisfies the window invariant.
   The cut-iff-due biconditional, "every published segment starts with a random-access unit" and
   "all streams are cut at the same instant" are decided on every run by the correspondence run
   (model trace vs real muxer, all six codecs) and by the oracle that recomputes the due cuts from
   the write log alone; they are not yet theorems. *)
From Coq Require Import List ZArith Bool.
From GoHls Require Import Model.Mux Proofs.MuxStream Proofs.MuxLift Proofs.MuxWindow Proofs.MuxHistory Proofs.MuxSamples.
Import ListNotations.
Local Open Scope Z_scope.

Theorem c02_init_regenerated_partial : forall v sc s seg0 d ntp f cur,
  let r := srot_segments v sc s seg0 d ntp f cur in
  snd (fst r) = negb (variant_eqb v MPEGTS) && (match st_init s with None => true | Some _ => false end || sg_forced seg0)
  /\ st_init (fst (fst r)) = if snd (fst r) then Some cur else st_init s.
Proof. exact init_regenerated. Qed.
Print Assumptions c02_init_regenerated_partial.

Theorem c02_new_segment_partial : forall v sc s seg0 d ntp f cur g,
  st_open (fst (fst (srot_segments v sc s seg0 d ntp f cur))) = Some g ->
  sg_forced g = match v with MPEGTS => false | _ => f end /\ sg_start g = d /\ sg_ntp g = ntp.
Proof. exact forced_flag. Qed.
Print Assumptions c02_new_segment_partial.

Theorem c02_streams_window_partial : forall c ops m0,
  start c = Ok m0 ->
  Forall (WInv (c_variant (norm_cfg c)) (c_segcount (norm_cfg c))) (m_streams (mux_run m0 ops)).
Proof. exact window_inv_reachable. Qed.
Print Assumptions c02_streams_window_partial.
