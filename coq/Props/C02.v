(* C02 - Segments start on random access, respect the minimum duration, cut on parameter changes.
   Only property theorems (each closed by [exact]) and [Print Assumptions].
   Proved for every reachable state / every write:
   - cut exactly when due (fMP4, Low-Latency): a write of the leading track is, after the previous
     unit has been accepted into the open part, the function [fmp4_tail]; in its result every open
     stream has its segment counter advanced by one and a new open segment starting at the incoming
     unit's DTS / NTP iff [due_fmp4] = random access && (parameters changed || elapsed >= SegmentMinDuration),
     and is otherwise left with the same counter and the same open segment start (parts may rotate);
   - the same biconditional for the MPEG-TS H264 track and for the audio-only MPEG-TS stream (which
     additionally needs mpegtsSegmentMinAUCount writes); a non-leading MPEG-TS track never cuts;
   - all streams are cut at the same instant (every open stream, same DTS / NTP);
   - every reachable state has exactly one leading stream, so "every open stream" is not vacuous;
   - the init segment is regenerated exactly when none exists or the segment being published was
     opened by a forced (parameter-change) rotation, and then captures the tracks' current parameters;
     a segment opened by a rotation starts at the rotation's DTS / NTP and carries its force flag.
   - every segment of the leading track's stream - evicted, listed or open - begins with a random-access
     (sync) sample (fMP4 and Low-Latency; c02_segments_start_with_random_access): in every state reachable
     from Start by successful writes whose video units lie at or after -10 s, the grouped log of the
     leading stream (one group per real segment) has a sync sample at the head of every non-empty group;
     the proof goes through "the look-ahead unit is the first sample of a freshly opened segment" and
     "the first accepted unit of a video track is random access" (the gate the AV1 fix 78859ca restored).
   - MPEG-TS (c02_mpegts_segments_start_with_random_access): in every state reachable from Start by successful
     writes, every segment of the stream - evicted, listed or open - is non-empty and its first unit is a
     random-access unit of a leading track (the H264 track when there is one: every video track is leading);
     the proof goes through the grouped log (one group per segment): a rotation or the creation of the first
     segment appends an empty group, the segment writer appends to the last group, and a whole write opens a
     group only together with a random-access unit (cut condition / first-random-access gate).
   - the init served carries the current parameters (fMP4 and Low-Latency; c02_init_carries_current_parameters): in
     every state reachable from Start by successful writes whose video units lie at or after -10 s, for every
     stream: if no parameter change is pending (m_pending = false) and the stream's open segment, if any, was not
     opened by a forced rotation, the parameter ids captured by its cached init file are the current parameters
     (tk_params) of exactly the tracks of the stream, in order.  The proof follows the change through video_params
     (recorded, left pending or consumed by a random-access unit as paramsChanged), fmp4WriteSample (paramsChanged
     always ends in a forced rotation of every stream, or - first unit of the track - no stream has an init yet)
     and the close of the forced segment (init regenerated from the current parameters).  The hypothesis on video
     units is needed: c02_init_stale_before_minus_10s_refuted is a history, accepted write by write, whose last unit
     - random access, new parameters, before -10 s - is dropped by fmp4WriteSample after the parameters were
     recorded and the pending flag consumed, so no forced rotation follows and the init keeps the old parameters
     (the Go code does the same: muxer_segmenter.go fmp4WriteSample returns nil on dts < 0).
     c02_init_nonvacuous: a concrete history with a change on a random-access unit (init still old while the forced
     segment is open, new once it has been closed).  c02_init_exists_once_published: a stream that has published
     a segment has an init (any history).
   Not theorems (tie + oracle): for MPEG-TS that PAT / PMT open each segment (written by mediacommon's
   writer, outside the model); that the served bytes decode to the model's samples / units. *)
From Coq Require Import List ZArith Bool.
From GoHls Require Import Model.Mux Proofs.MuxStream Proofs.MuxLift Proofs.MuxWindow Proofs.MuxHistory Proofs.MuxSamples Proofs.MuxCut Proofs.MuxLog Proofs.MuxLogStep Proofs.MuxGroups Proofs.MuxRAStart Proofs.MuxRAHist Proofs.MuxLogTS Proofs.MuxTSStart Proofs.MuxTimes Proofs.MuxInit Proofs.MuxInitHist Proofs.MuxAuditAdds.
Import ListNotations.
Local Open Scope Z_scope.

Theorem c02_init_regenerated_partial : forall v sc s seg0 d ntp f cur,
  let r := srot_segments v sc s seg0 d ntp f cur in
  snd (fst r) = negb (variant_eqb v MPEGTS) && (match st_init s with None => true | Some _ => false end || sg_forced seg0)
  /\ st_init (fst (fst r)) = if snd (fst r) then Some cur else st_init s.
Proof. exact init_regenerated. Qed.
Print Assumptions c02_init_regenerated_partial.

Theorem c02_new_segment_partial : forall v sc s seg0 d ntp f cur g,
  st_open (fst (fst (srot_segments v sc s seg0 d ntp f cur))) = Some g ->
  sg_forced g = match v with MPEGTS => false | _ => f end /\ sg_start g = d /\ sg_ntp g = ntp.
Proof. exact forced_flag. Qed.
Print Assumptions c02_new_segment_partial.

Theorem c02_streams_window_partial : forall c ops m0,
  start c = Ok m0 ->
  Forall (WInv (c_variant (norm_cfg c)) (c_segcount (norm_cfg c))) (m_streams (mux_run m0 ops)).
Proof. exact window_inv_reachable. Qed.
Print Assumptions c02_streams_window_partial.

(* ---- a new segment is started exactly when due ---- *)
Theorem c02_fmp4_leading_write_is_tail : forall m ti t prev ra pc smp0 m4 s,
  nth_error (m_tracks m) ti = Some t -> tk_leading t = true -> tk_next t = Some prev ->
  0 <= s_dts smp0 + durationToTimestamp fmp4StartDTS (t_rate (tk_cfg t)) ->
  part_writeSample (fst (fmp4_pre m ti t prev smp0)) ti (tk_stream t) (snd (fmp4_pre m ti t prev smp0)) = Ok m4 ->
  nth_error (m_streams m4) (tk_stream t) = Some s ->
  fmp4WriteSample m ti ra pc smp0 =
  wok (fmp4_tail m4 s ra pc
         (timestampToDuration (s_dts smp0 + durationToTimestamp fmp4StartDTS (t_rate (tk_cfg t))) (t_rate (tk_cfg t)))
         (s_ntp smp0)).
Proof. exact fmp4WriteSample_leading. Qed.
Print Assumptions c02_fmp4_leading_write_is_tail.

Theorem c02_cut_iff_due_fmp4 : forall m4 s ra pc nextD ntp sl,
  leading_stream m4 = Some sl -> st_leading sl = true ->
  forall j sj, nth_error (m_streams m4) j = Some sj -> st_open sj <> None ->
               (j = leading_index m4 \/ st_leading sj = false) ->
  exists sj', nth_error (m_streams (fmp4_tail m4 s ra pc nextD ntp)) j = Some sj'
              /\ CutIff (due_fmp4 m4 s ra pc nextD) nextD ntp sj sj'.
Proof. exact fmp4_cut_iff_due. Qed.
Print Assumptions c02_cut_iff_due_fmp4.

Theorem c02_cut_only_at_random_access : forall m4 s ra pc nextD,
  due_fmp4 m4 s ra pc nextD = true -> ra = true.
Proof. intros m4 s ra pc nextD H. unfold due_fmp4 in H. now apply andb_true_iff in H. Qed.
Print Assumptions c02_cut_only_at_random_access.

Theorem c02_cut_iff_due_mpegts_video : forall m ti t a sl s,
  c_variant (m_cfg m) = MPEGTS -> t_kind (tk_cfg t) = H264 ->
  negb (a_ra a) && negb (a_nonidr a) = false -> negb (tk_firstRA t) && negb (a_ra a) = false ->
  nth_error (m_streams m) (tk_stream t) = Some s -> st_open s <> None ->
  leading_stream m = Some sl -> st_leading sl = true ->
  let d := timestampToDuration (a_dts a) (t_rate (tk_cfg t)) in
  let due := a_ra a && ((c_segmin (m_cfg m) <=? d - stream_open_start s) || snd (video_params m ti t a true)) in
  forall j sj, nth_error (m_streams m) j = Some sj -> st_open sj <> None ->
               (j = leading_index m \/ st_leading sj = false) ->
  exists sj', nth_error (m_streams (fst (write_video m ti t a))) j = Some sj' /\ CutIff due d (a_ntp a) sj sj'.
Proof. exact ts_video_cut_iff_due. Qed.
Print Assumptions c02_cut_iff_due_mpegts_video.

Theorem c02_cut_iff_due_mpegts_audio_only : forall m ti t a sl s seg,
  c_variant (m_cfg m) = MPEGTS -> tk_leading t = true ->
  nth_error (m_streams m) (tk_stream t) = Some s -> st_open s = Some seg ->
  leading_stream m = Some sl -> st_leading sl = true ->
  let d := timestampToDuration (a_pts a) (t_rate (tk_cfg t)) in
  let due := (mpegtsSegmentMinAUCount <=? sg_aucount seg) && (c_segmin (m_cfg m) <=? d - sg_start seg) in
  forall j sj, nth_error (m_streams m) j = Some sj -> st_open sj <> None ->
               (j = leading_index m \/ st_leading sj = false) ->
  exists sj', nth_error (m_streams (fst (write_audio m ti t a))) j = Some sj' /\ CutIff due d (a_ntp a) sj sj'.
Proof. exact ts_audio_cut_iff_due. Qed.
Print Assumptions c02_cut_iff_due_mpegts_audio_only.

Theorem c02_mpegts_nonleading_never_cuts : forall m ti t a j sj,
  c_variant (m_cfg m) = MPEGTS -> tk_leading t = false ->
  nth_error (m_streams m) j = Some sj ->
  exists sj', nth_error (m_streams (fst (write_audio m ti t a))) j = Some sj' /\ Same sj sj'.
Proof. exact ts_audio_nonleading_never_cuts. Qed.
Print Assumptions c02_mpegts_nonleading_never_cuts.

(* ---- all streams are cut at that same instant ---- *)
Theorem c02_all_streams_cut_together : forall m d ntp f sl,
  leading_stream m = Some sl -> st_leading sl = true ->
  forall j s, nth_error (m_streams m) j = Some s -> st_open s <> None ->
              (j = leading_index m \/ st_leading s = false) ->
  exists s', nth_error (m_streams (rotateSegments m d ntp f)) j = Some s' /\ Cut d ntp s s'.
Proof. exact rotateSegments_cuts_all. Qed.
Print Assumptions c02_all_streams_cut_together.

(* ---- the side conditions above hold in every reachable state ---- *)
Theorem c02_one_leading_stream_reachable : forall c m0 ops,
  start c = Ok m0 ->
  let m := mux_run m0 ops in
  exists sl, leading_stream m = Some sl /\ st_leading sl = true
             /\ forall j s, nth_error (m_streams m) j = Some s -> st_leading s = true -> j = leading_index m.
Proof. exact reachable_one_leading. Qed.
Print Assumptions c02_one_leading_stream_reachable.

(* ---- every segment begins with a random-access unit of the leading track (fMP4 variants) ---- *)
Theorem c02_segments_start_with_random_access : forall c m0 ops,
  start c = Ok m0 -> c_variant c <> MPEGTS ->
  Forall (wf_op (map tk_static (m_tracks m0))) ops -> all_ok m0 ops ->
  let m := mux_run m0 ops in
  Forall group_ok (glog m (leading_index m)).
Proof. exact segments_start_with_random_access. Qed.
Print Assumptions c02_segments_start_with_random_access.

Theorem c02_segments_start_nonvacuous : exists m0,
  start ex_cfg = Ok m0 /\ c_variant ex_cfg <> MPEGTS
  /\ Forall (wf_op (map tk_static (m_tracks m0))) ex_ops /\ all_ok m0 ex_ops
  /\ map (map (fun s => (s_pay s, s_nonsync s))) (glog (mux_run m0 ex_ops) (leading_index (mux_run m0 ex_ops)))
     = [[(11, false); (12, true)]].
Proof. exact ra_example. Qed.
Print Assumptions c02_segments_start_nonvacuous.

(* ---- every segment begins with a random-access unit of the leading track (MPEG-TS) ---- *)
Theorem c02_mpegts_segments_start_with_random_access : forall c m0 ops,
  start c = Ok m0 -> c_variant c = MPEGTS -> all_ok m0 ops ->
  let m := mux_run m0 ops in
  Forall (fun g => exists u rest t, g = u :: rest /\ u_ra u = true
                                    /\ nth_error (m_tracks m) (u_track u) = Some t /\ tk_leading t = true) (tsg m).
Proof. exact ts_segments_start_with_random_access. Qed.
Print Assumptions c02_mpegts_segments_start_with_random_access.

Theorem c02_mpegts_segments_start_nonvacuous : exists m0,
  start ts_cfg = Ok m0 /\ c_variant ts_cfg = MPEGTS /\ all_ok m0 ts_ops
  /\ map (map (fun u => (u_track u, u_ra u, u_dts u))) (tsg (mux_run m0 ts_ops))
     = [[(0%nat, true, 45000); (1%nat, true, 45000); (0%nat, false, 90000)];
        [(0%nat, true, 135000); (1%nat, true, 90000); (0%nat, false, 180000)]].
Proof. exact ts_ra_example. Qed.
Print Assumptions c02_mpegts_segments_start_nonvacuous.

(* ---- the init segment served carries the current parameters of exactly the stream's tracks ---- *)
Theorem c02_init_carries_current_parameters : forall c m0 ops,
  start c = Ok m0 -> c_variant c <> MPEGTS ->
  Forall (wf_op (map tk_static (m_tracks m0))) ops -> all_ok m0 ops ->
  let m := mux_run m0 ops in
  forall si s ps,
    nth_error (m_streams m) si = Some s ->
    m_pending m = false -> (forall g, st_open s = Some g -> sg_forced g = false) -> st_init s = Some ps ->
    ps = map (fun ti => match nth_error (m_tracks m) ti with Some t => tk_params t | None => 0 end) (st_tracks s).
Proof. exact init_carries_current_parameters. Qed.
Print Assumptions c02_init_carries_current_parameters.

(* without the hypothesis on video units the statement is false of the model (and of the code) *)
Theorem c02_init_stale_before_minus_10s_refuted : exists m0 s ps,
  start ex_cfg = Ok m0 /\ c_variant ex_cfg <> MPEGTS /\ all_ok m0 bad_ops
  /\ let m := mux_run m0 bad_ops in
     nth_error (m_streams m) 0 = Some s
     /\ m_pending m = false /\ (forall g, st_open s = Some g -> sg_forced g = false) /\ st_init s = Some ps
     /\ ps = [1]
     /\ map (fun ti => match nth_error (m_tracks m) ti with Some t => tk_params t | None => 0 end) (st_tracks s) = [2].
Proof. exact init_stale_before_minus_10s. Qed.
Print Assumptions c02_init_stale_before_minus_10s_refuted.

Theorem c02_init_nonvacuous : exists m0,
  start ex_cfg = Ok m0 /\ c_variant ex_cfg <> MPEGTS
  /\ Forall (wf_op (map tk_static (m_tracks m0))) in_ops /\ all_ok m0 in_ops
  /\ (let m := mux_run m0 (firstn 9 in_ops) in
      m_pending m = false /\ init_view m 0 = Some (Some [1], Some true, [2]))
  /\ (let m := mux_run m0 in_ops in
      m_pending m = false /\ init_view m 0 = Some (Some [2], Some false, [2])
      /\ init_view m 1 = Some (Some [2], Some false, [2])).
Proof. exact init_example. Qed.
Print Assumptions c02_init_nonvacuous.

Theorem c02_init_exists_once_published : forall c m0 ops si s,
  start c = Ok m0 -> c_variant c <> MPEGTS ->
  nth_error (m_streams (mux_run m0 ops)) si = Some s -> published s <> [] -> st_init s <> None.
Proof. exact init_exists_once_published. Qed.
Print Assumptions c02_init_exists_once_published.

(* ---- never at another unit: a write of a non-leading fMP4 / Low-Latency track cuts no stream ---- *)
Theorem c02_fmp4_nonleading_never_cuts : forall m ti t ra pc smp0,
  nth_error (m_tracks m) ti = Some t -> tk_leading t = false ->
  forall j sj, nth_error (m_streams m) j = Some sj ->
  exists sj', nth_error (m_streams (fst (fmp4WriteSample m ti ra pc smp0))) j = Some sj' /\ Same sj sj'.
Proof. exact fmp4_nonleading_never_cuts. Qed.
Print Assumptions c02_fmp4_nonleading_never_cuts.
