(* C19 - LL-HLS parts are regular: non-final parts within 85-100 % of PART-TARGET.
   Only the property theorems (each closed by [exact]) and [Print Assumptions]; the model is
   Model/PartDur.v, the proofs Proofs/PartDur{Arith,Run,Main,Props}.v, arithmetic Lib/ZLib.v.

   Reading guide.  [run c init_state (constWrites d0 T flags)] is the state of the leading
   stream of a Low-Latency muxer after the writes of a leading track whose k-th access unit
   has dts d0 + k*T ticks (constant sample duration T) and (randomAccess, paramsChanged) =
   nth k flags; any prefix of such a run is such a run, so a theorem about every [flags]
   speaks about every playlist ever served.  [nonFinalListed s] are the parts a media
   playlist generated in state s lists that are not the last of their segment,
   [partTarget s] is its PART-TARGET, [allParts s] every retained part.
   [c19_ranges c T]: 0 < clock rate <= 1 MHz, T >= 1, sample duration in [2.5 ms, 1 s],
   PartMinDuration in [50 ms, 2 s]; SegmentMinDuration, SegmentCount, d0, flags unrestricted.
   FINDING: regularity needs the side condition [c19_side] (implied by "PartMinDuration is a
   whole number of milliseconds"); without it the *_refuted theorems give counterexamples
   ([segments s <> []]: a media playlist is being served in the witness state). *)
From Coq Require Import List ZArith Bool.
From GoHls Require Import Lib.ZLib Model.PartDur Proofs.PartDurArith Proofs.PartDurRun
  Proofs.PartDurMain Proofs.PartDurProps.
Import ListNotations.
Local Open Scope Z_scope.

(* ---------- arithmetic of the conversions ---------- *)

Theorem c19_mulDiv_floor : forall v m d, 0 <= v -> 0 < d -> 0 <= m ->
  multiplyAndDivide v m d = POk (v * m / d).
Proof. exact multiplyAndDivide_floor. Qed.
Print Assumptions c19_mulDiv_floor.
Example c19_mulDiv_floor_ex : 0 <= 900900 /\ 0 < 90000 /\ 0 <= second /\
  multiplyAndDivide 900900 second 90000 = POk 10010000000.
Proof. vm_compute. intuition discriminate. Qed.

Theorem c19_mulDiv_panic : forall v m d, multiplyAndDivide v m d = PPanic <-> d = 0.
Proof. exact multiplyAndDivide_panic_iff. Qed.
Print Assumptions c19_mulDiv_panic.

Theorem c19_timestampToDuration_floor : forall t R, 0 <= t -> 0 < R ->
  timestampToDuration t R = POk (t * second / R).
Proof. exact timestampToDuration_floor. Qed.
Print Assumptions c19_timestampToDuration_floor.

Theorem c19_start_offset : forall R, durationToTimestamp fmp4StartDTS R = POk (10 * R).
Proof. exact durationToTimestamp_start. Qed.
Print Assumptions c19_start_offset.

(* duration of N ticks seen from any phase a: floor(N*1e9/R) or one more; exact when R | N*1e9 *)
Theorem c19_jitter : forall a N R, 0 < R ->
  N * second / R <= tsd (a + N) R - tsd a R <= N * second / R + 1 /\
  ((N * second) mod R = 0 -> tsd (a + N) R - tsd a R = N * second / R).
Proof. exact jitter. Qed.
Print Assumptions c19_jitter.
Example c19_jitter_ex : 0 < 90000 /\ tsd (3 + 3003) 90000 - tsd 3 90000 = 3003 * second / 90000 + 1.
Proof. vm_compute. intuition discriminate. Qed.

(* ---------- the adjusted part duration ---------- *)

Theorem c19_find_terminates : forall pm sds, findCompatiblePartDuration pm sds <> POutOfFuel.
Proof. exact findCompatiblePartDuration_fuel. Qed.
Print Assumptions c19_find_terminates.

Theorem c19_find_no_panic : forall pm sds, Forall (fun sd => sd <> 0) sds ->
  findCompatiblePartDuration pm sds <> PPanic.
Proof. exact findCompatiblePartDuration_nopanic. Qed.
Print Assumptions c19_find_no_panic.

Theorem c19_compatible_spec : forall p sd, 0 < sd -> 0 <= p ->
  partDurationIsCompatible p sd = POk ((sd <=? p) && (85 * (cdiv p sd * sd) <? 100 * p)).
Proof. exact partDurationIsCompatible_spec. Qed.
Print Assumptions c19_compatible_spec.

Theorem c19_adjusted_exists : forall pm sd,
  50 * millisecond <= pm <= 2 * second ->
  5 * millisecond / 2 <= sd <= second ->
  exists adj, findCompatiblePartDuration pm [sd] = POk adj
    /\ pm <= adj /\ sd <= adj /\ adj < 2 * Z.max pm sd /\ adj < 5 * second
    /\ compatb adj sd = true /\ (adj - pm) mod (5 * millisecond) = 0.
Proof. exact adjusted_exists. Qed.
Print Assumptions c19_adjusted_exists.
Example c19_adjusted_exists_ex :
  50 * millisecond <= 200 * millisecond <= 2 * second /\ 5 * millisecond / 2 <= 33366666 <= second /\
  findCompatiblePartDuration (200 * millisecond) [33366666] = POk 200000000.
Proof. vm_compute. intuition discriminate. Qed.

(* ---------- the run ---------- *)

Theorem c19_run_total : forall c T flags d0, c19_ranges c T ->
  exists s, run c init_state (constWrites d0 T flags) = POk s.
Proof. exact run_total. Qed.
Print Assumptions c19_run_total.
Example c19_ranges_ex : c19_ranges cfg_2997 3003 /\ c19_side cfg_2997 3003.
Proof. split; [exact ranges_2997|exact side_2997]. Qed.
(* ... and a run inside these hypotheses whose playlist lists a non-final part (29.97 fps,
   PartMinDuration 200 ms: 6 frames, 200.2 ms), at a clock rate of the text theorem *)
Example c19_run_ex : exists s p,
  run cfg_2997 init_state (constWrites 0 3003 (flags_gop 3 30)) = POk s /\ In p (nonFinalListed s)
  /\ clockRate cfg_2997 <= 5000 * Z.gcd 200000 (clockRate cfg_2997).
Proof. exact run_example. Qed.

Theorem c19_prefix_closed : forall n flags d0 T,
  firstn n (constWrites d0 T flags) = constWrites d0 T (firstn n flags).
Proof. exact constWrites_firstn. Qed.
Print Assumptions c19_prefix_closed.

(* D >= PartMinDuration, D < 2*max(PartMinDuration, sample duration) + sample duration,
   D <= PART-TARGET of the same playlist: no side condition *)
Theorem c19_bounds : forall c T flags d0 s p, c19_ranges c T ->
  run c init_state (constWrites d0 T flags) = POk s -> In p (nonFinalListed s) ->
  let pm := partMinDuration c in let sd := tsd T (clockRate c) in
  pm <= p_dur p /\ p_dur p < 2 * Z.max pm sd + sd /\ p_dur p <= partTarget s /\
  adjOf c T <= p_dur p <= adjOf c T + sd.
Proof. exact bounds. Qed.
Print Assumptions c19_bounds.

Theorem c19_all_parts_bounded : forall c T flags d0 s p, c19_ranges c T ->
  run c init_state (constWrites d0 T flags) = POk s -> In p (allParts s) ->
  p_dur p <= adjOf c T + tsd T (clockRate c) /\ p_dur p <= partTarget s /\ partTarget s mod millisecond = 0.
Proof. exact all_parts_bounded. Qed.
Print Assumptions c19_all_parts_bounded.

(* the side condition: implied by a PartMinDuration on the millisecond grid *)
Theorem c19_whole_ms_side : forall c T, c19_ranges c T -> partMinDuration c mod millisecond = 0 -> c19_side c T.
Proof. exact whole_ms_side. Qed.
Print Assumptions c19_whole_ms_side.

(* ... and it is exact: where NoStraddle fails, m samples complete a part from one start
   phase and not from another *)
Theorem c19_side_exact : forall adj T R, 0 < R -> 0 < T -> ~ NoStraddle adj T R ->
  exists m a1 a2, 0 <= m /\ 0 <= a1 /\ 0 <= a2 /\
    tsd (a1 + m * T) R - tsd a1 R < adj /\ adj <= tsd (a2 + m * T) R - tsd a2 R.
Proof. exact side_exact. Qed.
Print Assumptions c19_side_exact.
Example c19_side_exact_ex : 0 < 90000 /\ 0 < 3000 /\ ~ NoStraddle 233333334 3000 90000.
Proof.
  split; [reflexivity|]. split; [reflexivity|]. intro H. apply (H 7); vm_compute; congruence.
Qed.

(* ... and decidable: the harness classifies every irregularity it observes by this verdict *)
Theorem c19_side_decidable : forall c T, c19_ranges c T ->
  (sideb (adjOf c T) T (clockRate c) = true <-> c19_side c T).
Proof. exact side_decidable. Qed.
Print Assumptions c19_side_decidable.
Example c19_side_decidable_ex :
  sideb (adjOf cfg_2997 3003) 3003 90000 = true /\ sideb (adjOf cfg_v30 3000) 3000 90000 = false.
Proof. split; vm_compute; reflexivity. Qed.

(* every non-final part holds the same number of samples; durations within 1 ns *)
Theorem c19_same_count_partial : forall c T flags d0 s p, c19_ranges c T -> c19_side c T ->
  run c init_state (constWrites d0 T flags) = POk s -> In p (nonFinalListed s) ->
  p_n p = samplesOf c T /\ DloOf c T <= p_dur p <= DhiOf c T /\ DhiOf c T <= DloOf c T + 1.
Proof. exact same_count. Qed.
Print Assumptions c19_same_count_partial.

Theorem c19_same_count_refuted : exists c T flags d0 s p1 p2,
  c19_ranges c T /\ run c init_state (constWrites d0 T flags) = POk s /\
  segments s <> [] /\
  In p1 (nonFinalListed s) /\ In p2 (nonFinalListed s) /\
  p_n p1 <> p_n p2 /\ p_dur p1 + 33000000 < p_dur p2.
Proof. exact same_count_refuted. Qed.
Print Assumptions c19_same_count_refuted.

Theorem c19_final_shorter_partial : forall c T flags d0 s ps, c19_ranges c T -> c19_side c T ->
  run c init_state (constWrites d0 T flags) = POk s -> In ps (published s) ->
  exists init last, ps = init ++ [last] /\
    Forall (fun p => p_n p = samplesOf c T /\ DloOf c T <= p_dur p <= DhiOf c T) init /\
    1 <= p_n last <= samplesOf c T /\ 0 < p_dur last <= DhiOf c T.
Proof. exact final_shorter. Qed.
Print Assumptions c19_final_shorter_partial.

(* 0.85 * PART-TARGET <= D <= PART-TARGET *)
Theorem c19_85_partial : forall c T flags d0 s p, c19_ranges c T -> c19_side c T ->
  run c init_state (constWrites d0 T flags) = POk s -> In p (nonFinalListed s) ->
  85 * partTarget s <= 100 * p_dur p /\ p_dur p <= partTarget s.
Proof. exact rule85. Qed.
Print Assumptions c19_85_partial.

Theorem c19_85_refuted : exists c T flags d0 s p,
  c19_ranges c T /\ run c init_state (constWrites d0 T flags) = POk s /\
  segments s <> [] /\
  In p (nonFinalListed s) /\ 85 * partTarget s > 100 * p_dur p.
Proof. exact rule85_refuted. Qed.
Print Assumptions c19_85_refuted.

(* PART-TARGET of every playlist that lists a non-final part is one value, ceil-to-ms of D *)
Theorem c19_target_value_partial : forall c T flags d0 s, c19_ranges c T -> c19_side c T ->
  run c init_state (constWrites d0 T flags) = POk s ->
  partTarget s <= ceil_ms (DloOf c T) /\ (nonFinalListed s <> [] -> partTarget s = ceil_ms (DloOf c T)).
Proof. exact target_value. Qed.
Print Assumptions c19_target_value_partial.

Theorem c19_target_stable_partial : forall c T flags f d0 s1 s2, c19_ranges c T -> c19_side c T ->
  run c init_state (constWrites d0 T flags) = POk s1 ->
  run c init_state (constWrites d0 T (flags ++ [f])) = POk s2 ->
  nonFinalListed s1 <> [] -> nonFinalListed s2 <> [] ->
  partTarget s2 = partTarget s1 /\ encodeErrors s2 = encodeErrors s1.
Proof. exact target_stable. Qed.
Print Assumptions c19_target_stable_partial.

Theorem c19_target_stable_refuted : exists c T flags f d0 s1 s2,
  c19_ranges c T /\
  run c init_state (constWrites d0 T flags) = POk s1 /\
  run c init_state (constWrites d0 T (flags ++ [f])) = POk s2 /\
  segments s1 <> [] /\
  nonFinalListed s1 <> [] /\ nonFinalListed s2 <> [] /\
  partTarget s1 = 234000000 /\ partTarget s2 = 267000000 /\ encodeErrors s2 = encodeErrors s1 + 1.
Proof. exact target_stable_refuted. Qed.
Print Assumptions c19_target_stable_refuted.

(* "part duration changed" is reported exactly when the stored part target changes *)
Theorem c19_error_iff_change : forall c s w s', fmp4WriteSample c s w = POk s' ->
  partTarget s' = partTarget s -> encodeErrors s' = encodeErrors s.
Proof. exact step_errors. Qed.
Print Assumptions c19_error_iff_change.

(* the same 5-decimal text for all non-final parts, whatever the tie rule of the printer,
   for every standard media clock rate *)
Theorem c19_text_equal_std_rates : forall c T fl1 d1 s1 p1 fl2 d2 s2 p2, c19_ranges c T -> c19_side c T ->
  clockRate c <= 5000 * Z.gcd 200000 (clockRate c) ->
  run c init_state (constWrites d1 T fl1) = POk s1 -> In p1 (nonFinalListed s1) ->
  run c init_state (constWrites d2 T fl2) = POk s2 -> In p2 (nonFinalListed s2) ->
  p_dur p1 = p_dur p2 \/
  exists q, 10000 * q - 5000 < p_dur p1 < 10000 * q + 5000 /\ 10000 * q - 5000 < p_dur p2 < 10000 * q + 5000.
Proof. exact text_equal_runs. Qed.
Print Assumptions c19_text_equal_std_rates.

Theorem c19_std_rates : forall R, In R std_rates -> 0 < R <= 1000000 /\ R <= 5000 * Z.gcd 200000 R.
Proof. exact std_rates_text. Qed.
Print Assumptions c19_std_rates.
