(* C05 - Every advertised URI is fetchable, immutable and consistent with its parts.
   Only property theorems (each closed by [exact]) and [Print Assumptions].
   Proved (all configurations, all write histories): index.m3u8 and every media playlist always
   resolve; a segment evicted from the window and, in Low-Latency, each of its parts stop resolving
   at that very rotation; an unregistered key never resolves; a published segment record (hence the
   bytes its handler serves) never changes while it exists; every listed segment URI, every part URI of
   a listed or open segment and the init URI of a stream that has an init resolve to their handlers
   (c05_listed_uris_resolve, through the window and part-number invariants: an eviction unregisters only
   keys of the evicted segment); and conversely nothing else resolves (c05_only_listed_uris_resolve: in
   every reachable state a resolving key is the index, a playlist, an existing init, a listed
   segment, a listed / open part or the preload hint). Established by the correspondence run (trace line 5 = the complete
   key set of the real table after every rotation) and the oracle only: status 200 and content type,
   byte equality of a segment with the concatenation of its parts (storage: C17), fragment sequence
   numbers, slow readers. *)
From Coq Require Import List ZArith Bool.
From GoHls Require Import Model.Mux Proofs.MuxStream Proofs.MuxLift Proofs.MuxWindow Proofs.MuxHistory
  Proofs.MuxPlaylist Proofs.MuxTimes Proofs.MuxPaths
  Proofs.MuxPartIds Proofs.MuxResolve Proofs.MuxTableConv.
Import ListNotations.
Local Open Scope Z_scope.

Theorem c05_index_and_playlists_resolve : forall c ops m,
  reach c ops m ->
  lookup (m_paths m) KIndex = Some HStatic /\
  forall i, (i < length (m_streams m))%nat -> lookup (m_paths m) (KPlaylist i) = Some HStatic.
Proof. exact index_and_playlists_resolve. Qed.
Print Assumptions c05_index_and_playlists_resolve.

Theorem c05_evicted_segment_unresolvable : forall v sc t si segs seg regen d,
  snd (window_append v sc segs seg) = Some d -> sg_gap d = false -> sg_id d <> sg_id seg ->
  lookup (paths_rot_segments v sc t si segs seg regen) (KSeg si (sg_id d)) = None.
Proof. exact evicted_segment_unresolvable. Qed.
Print Assumptions c05_evicted_segment_unresolvable.

Theorem c05_evicted_parts_unresolvable : forall v sc t si segs seg regen d p,
  snd (window_append v sc segs seg) = Some d -> In p (listed_parts v d) ->
  lookup (paths_rot_segments v sc t si segs seg regen) (KPart si (p_id p)) = None.
Proof. exact evicted_parts_unresolvable. Qed.
Print Assumptions c05_evicted_parts_unresolvable.

Theorem c05_unregistered_never_resolves : forall t k, lookup (unregister t k) k = None.
Proof. exact unregistered_absent. Qed.
Print Assumptions c05_unregistered_never_resolves.

Theorem c05_register_lookup : forall t k h k',
  lookup (register t k h) k' = if pathkey_eqb k k' then Some h else lookup t k'.
Proof. exact lookup_register. Qed.
Print Assumptions c05_register_lookup.

(* immutability: the record at a given position of the published list is the same in every later state (published =
   evicted + listed segments with their parts; the finalized parts of the OPEN segment are covered by
   c01_no_rotation_changes_a_log / the log theorems of C01, not by this theorem) *)
Theorem c05_immutable : forall (ops2 : list wop) m1 m2,
  m2 = mux_run m1 ops2 -> forall si s1 s2 n g,
  nth_error (m_streams m1) si = Some s1 -> nth_error (m_streams m2) si = Some s2 ->
  nth_error (published s1) n = Some g -> nth_error (published s2) n = Some g.
Proof. exact msn_stable. Qed.
Print Assumptions c05_immutable.

(* the parts of a published segment tile its TIME span (invariant TI: part i ends where part i+1 starts, the first
   starts at the segment's start, the last ends at its end); that the segment's BYTES are the concatenation of its
   parts' bytes is the storage model's theorem (C17) plus the oracle on the served bytes, not this theorem *)
Theorem c05_segment_is_its_parts : forall c ops m si s,
  reach c ops m -> nth_error (m_streams m) si = Some s -> TI (c_variant (norm_cfg c)) s.
Proof. exact reach_TI. Qed.
Print Assumptions c05_segment_is_its_parts.

(* every listed URI resolves: in every reachable state the URI of every listed non-gap segment maps to a
   segment handler, the URI of every part of a listed or open segment (Low-Latency) to a part handler, and
   the init URI of a stream that has an init segment to its handler *)
Theorem c05_listed_uris_resolve : forall c m0 ops si s,
  start c = Ok m0 -> nth_error (m_streams (mux_run m0 ops)) si = Some s ->
  let m := mux_run m0 ops in
  (forall g, In g (st_segments s) -> sg_gap g = false -> lookup (m_paths m) (KSeg si (sg_id g)) = Some HStatic)
  /\ (c_variant (m_cfg m) = LL -> forall p, In p (listed_all s) -> lookup (m_paths m) (KPart si (p_id p)) = Some HPart)
  /\ (st_init s <> None -> lookup (m_paths m) (KInit si) = Some HStatic).
Proof. exact listed_uris_resolve. Qed.
Print Assumptions c05_listed_uris_resolve.

Theorem c05_only_listed_uris_resolve : forall c m0 ops k h,
  start c = Ok m0 -> lookup (m_paths (mux_run m0 ops)) k = Some h -> allowed (mux_run m0 ops) k.
Proof. exact table_only_lists_retained. Qed.
Print Assumptions c05_only_listed_uris_resolve.
