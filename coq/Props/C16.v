(* C16 - The multivariant playlist truthfully describes tracks, renditions and bitrate.
   Only property theorems (each closed by [exact]) and [Print Assumptions].
   Proved for every track list Start accepts and every write history: one stream per track with the
   rendition / leading / name / language attributes Start assigns, constant along the history;
   exactly one DEFAULT rendition (the user-marked one, else the first); the multivariant playlist
   lists exactly the rendition streams in order, with a URI iff the stream is not the leading one,
   AUDIO group iff a rendition exists, variant URI = leading stream; BANDWIDTH >= AVERAGE >= 0;
   BANDWIDTH is the peak and AVERAGE-BANDWIDTH the mean bit rate of the listed segments
   (c16_bandwidth_is_peak_and_mean: over the listed non-gap segments of positive duration, every
   segment's own rate 8 x bytes / duration is at most BANDWIDTH, one of them attains it, and
   AVERAGE-BANDWIDTH = 8 x total bytes / total duration).
   Established by the correspondence run + oracle only: the RFC 6381 strings, RESOLUTION and
   FRAME-RATE (SPS / sequence-header parsing is an oracle), the bandwidth values against the bytes
   actually served. *)
From Coq Require Import List ZArith Bool.
From GoHls Require Import Model.Mux Proofs.MuxStream Proofs.MuxLift Proofs.MuxWindow Proofs.MuxHistory
  Proofs.MuxPlaylist Proofs.MuxMulti Proofs.MuxBandwidth Proofs.MuxLogStep Proofs.MuxSpanHist Proofs.MuxAuditAddsEx Proofs.MuxOneDefault.
Import ListNotations.
Local Open Scope Z_scope.

Theorem c16_start_streams : forall c m,
  start c = Ok m ->
  m_streams m =
  match c_variant c with
  | MPEGTS => [mk_stream (seq 0 (length (c_tracks c))) false 0 true false false 0 0 0]
  | FMP4 => mk_streams (norm_cfg c) 0 (c_tracks c) false 0
  | LL => mk_streams (norm_cfg c) 0 (c_tracks c) false 7
  end.
Proof. exact start_streams. Qed.
Print Assumptions c16_start_streams.

Theorem c16_stream_attributes : forall c ts i ch n k s,
  nth_error (mk_streams c i ts ch n) k = Some s ->
  exists t, nth_error ts k = Some t
            /\ st_tracks s = [(i + k)%nat] /\ st_isvideo s = isVideo (t_kind t)
            /\ st_num s = Z.of_nat (i + k) + 1
            /\ st_leading s = track_leading c (i + k) t
            /\ st_rendition s = is_rend c (i + k) t
            /\ st_lang s = t_lang t
            /\ st_name s = (if is_rend c (i + k) t then t_name t else 0)
            /\ (st_rendition s = false -> st_default s = false)
            /\ st_nextSeg s = n.
Proof. exact mk_streams_nth. Qed.
Print Assumptions c16_stream_attributes.

Theorem c16_one_default_first : forall c ts, hasDefaultAudio c = false -> forall i ch n,
  count_rd (mk_streams c i ts ch n) =
  if ch then O else if Nat.eqb (count_rend c i ts) 0 then O else 1%nat.
Proof. exact defaults_first. Qed.
Print Assumptions c16_one_default_first.

Theorem c16_one_default_marked : forall c ts, hasDefaultAudio c = true -> forall i ch n,
  count_rd (mk_streams c i ts ch n) = count_rend_default c i ts.
Proof. exact defaults_marked. Qed.
Print Assumptions c16_one_default_marked.

Theorem c16_static : forall m ops si s0,
  nth_error (m_streams m) si = Some s0 ->
  exists s, nth_error (m_streams (mux_run m ops)) si = Some s
            /\ st_isvideo s = st_isvideo s0 /\ st_num s = st_num s0 /\ st_leading s = st_leading s0
            /\ st_rendition s = st_rendition s0 /\ st_default s = st_default s0
            /\ st_name s = st_name s0 /\ st_lang s = st_lang s0 /\ st_tracks s = st_tracks s0.
Proof. exact static_along_history. Qed.
Print Assumptions c16_static.

Theorem c16_multivariant_shape : forall m mv,
  gen_multivariant m = Ok (Some mv) ->
  mv_renditions mv = map (fun s => {| r_isvideo := st_isvideo s; r_num := st_num s; r_name := st_name s;
                                      r_lang := st_lang s; r_default := st_default s;
                                      r_hasuri := negb (st_leading s) |})
                         (filter st_rendition (m_streams m))
  /\ mv_audio mv = existsb st_rendition (m_streams m)
  /\ mv_uri mv = match filter st_leading (m_streams m) with
                 | s :: _ => Some (st_isvideo s, st_num s) | [] => None end.
Proof. exact gen_multivariant_shape. Qed.
Print Assumptions c16_multivariant_shape.

Theorem c16_bandwidth_order : forall segs mx avg,
  Forall (fun g => 0 <= sg_size g) segs -> bandwidth segs = Ok (mx, avg) -> 0 <= avg <= mx.
Proof. exact bandwidth_order. Qed.
Print Assumptions c16_bandwidth_order.

Theorem c16_bandwidth_is_peak_and_mean : forall segs mx avg,
  bandwidth segs = Ok (mx, avg) ->
  let real := filter counted_seg segs in
  let bytes := sumZf sg_size real in
  let dur := sumZf sg_dur real in
  (0 < dur ->
     avg = Z.quot (8 * bytes * second) dur
     /\ (forall g, In g real -> seg_rate g <= mx)
     /\ (mx = 0 \/ exists g, In g real /\ mx = seg_rate g))
  /\ (dur <= 0 -> mx = 0 /\ avg = 0).
Proof. exact bandwidth_is_peak_and_mean. Qed.
Print Assumptions c16_bandwidth_is_peak_and_mean.

(* "exactly one rendition is DEFAULT" as one statement over every configuration Start accepts, in every
   variant, at every moment of every write history: the streams that are a DEFAULT rendition number
   one when the muxer has a rendition and none when it has none, and the EXT-X-MEDIA entries of the
   multivariant playlist generated in that state likewise *)
Theorem c16_one_default_always : forall c m ops,
  start c = Ok m ->
  let m' := mux_run m ops in
  count_rd (m_streams m') = if Nat.eqb (n_rend (m_streams m')) 0 then O else 1%nat.
Proof. exact one_default_always. Qed.
Print Assumptions c16_one_default_always.

Theorem c16_one_default_in_playlist : forall c m ops mv,
  start c = Ok m -> gen_multivariant (mux_run m ops) = Ok (Some mv) ->
  count_default_r (mv_renditions mv) = if Nat.eqb (length (mv_renditions mv)) 0 then O else 1%nat.
Proof. exact one_default_in_playlist. Qed.
Print Assumptions c16_one_default_in_playlist.

(* non-vacuity: a reachable state (H264 + AAC, Low-Latency, two complete segments) with one DEFAULT rendition, one
   variant pointing at the leading stream and a non-zero BANDWIDTH *)
Theorem c16_example_nonvacuous : exists m0 mv,
  start ex_cfg = Ok m0
  /\ let m := mux_run m0 sp_ops in
     count_rd (m_streams m) = 1%nat /\ map st_default (m_streams m) = [false; true]
     /\ gen_multivariant m = Ok (Some mv)
     /\ (mv_bandwidth mv, mv_avg mv, mv_uri mv, map r_default (mv_renditions mv), map r_hasuri (mv_renditions mv))
        = (2400, 2400, Some (true, 1), [true], [true]).
Proof. exact multivariant_example. Qed.
Print Assumptions c16_example_nonvacuous.
