(* C16 - The multivariant playlist truthfully describes tracks, renditions and bitrate.
   Only property theorems (each closed by [exact]) and [Print Assumptions].
   Proved for every track list Start accepts and every write history: one stream per track with the
   rendition / leading / name / language attributes Start assigns, constant along the history;
   exactly one DEFAULT rendition (the user-marked one, else the first); the multivariant playlist
   lists exactly the rendition streams in order, with a URI iff the stream is not the leading one,
   AUDIO group iff a rendition exists, variant URI = leading stream; BANDWIDTH >= AVERAGE >= 0;
   BANDWIDTH is the peak and AVERAGE-BANDWIDTH the mean bit rate of the listed segments
   (c16_bandwidth_is_peak_and_mean: over the listed non-gap segments of positive duration, every
   segment's own rate 8 x bytes / duration is at most BANDWIDTH, one of them attains it, and
   AVERAGE-BANDWIDTH = 8 x total bytes / total duration).
   The RFC 6381 strings (last section): Model/CodecStr.v transcribes pkg/codecparams/marshal.go over
   the fields Marshal reads (avc1 from SPS bytes 1..3, hvc1 from the SPS profile_tier_level, vp09,
   av01 from the sequence header, mp4a.40, opus). For all field values within the ranges of their Go
   types: every string Marshal returns is accepted by the grammar of its family written from the
   bindings (fixed number of dot-separated components, none empty, decimal / lower-case
   hexadecimal digits, fixed widths where the binding fixes them), it is empty exactly when the
   parameters do not parse / the SPS is too short / the codec is unknown, and it determines every
   field it prints (for av01: up to an absent colour description being printed like the explicit
   1, 1, 1, limited range). The muxer model still treats a track's codec string as an abstract code:
   that CODECS lists Marshal of the CURRENT parameters is the model's statement about these codes
   plus the correspondence run; that the fields are what the parameter bytes encode (SPS /
   sequence-header parsing by mediacommon) is an oracle.
   Established by the correspondence run + oracle only: RESOLUTION and FRAME-RATE, the bandwidth
   values against the bytes actually served. *)
From Coq Require Import List ZArith Bool.
From GoHls Require Import Model.Mux Proofs.MuxStream Proofs.MuxLift Proofs.MuxWindow Proofs.MuxHistory
  Proofs.MuxPlaylist Proofs.MuxMulti Proofs.MuxBandwidth Proofs.MuxLogStep Proofs.MuxSpanHist Proofs.MuxAuditAddsEx Proofs.MuxOneDefault.
Import ListNotations.
Local Open Scope Z_scope.

Theorem c16_start_streams : forall c m,
  start c = Ok m ->
  m_streams m =
  match c_variant c with
  | MPEGTS => [mk_stream (seq 0 (length (c_tracks c))) false 0 true false false 0 0 0]
  | FMP4 => mk_streams (norm_cfg c) 0 (c_tracks c) false 0
  | LL => mk_streams (norm_cfg c) 0 (c_tracks c) false 7
  end.
Proof. exact start_streams. Qed.
Print Assumptions c16_start_streams.

Theorem c16_stream_attributes : forall c ts i ch n k s,
  nth_error (mk_streams c i ts ch n) k = Some s ->
  exists t, nth_error ts k = Some t
            /\ st_tracks s = [(i + k)%nat] /\ st_isvideo s = isVideo (t_kind t)
            /\ st_num s = Z.of_nat (i + k) + 1
            /\ st_leading s = track_leading c (i + k) t
            /\ st_rendition s = is_rend c (i + k) t
            /\ st_lang s = t_lang t
            /\ st_name s = (if is_rend c (i + k) t then t_name t else 0)
            /\ (st_rendition s = false -> st_default s = false)
            /\ st_nextSeg s = n.
Proof. exact mk_streams_nth. Qed.
Print Assumptions c16_stream_attributes.

Theorem c16_one_default_first : forall c ts, hasDefaultAudio c = false -> forall i ch n,
  count_rd (mk_streams c i ts ch n) =
  if ch then O else if Nat.eqb (count_rend c i ts) 0 then O else 1%nat.
Proof. exact defaults_first. Qed.
Print Assumptions c16_one_default_first.

Theorem c16_one_default_marked : forall c ts, hasDefaultAudio c = true -> forall i ch n,
  count_rd (mk_streams c i ts ch n) = count_rend_default c i ts.
Proof. exact defaults_marked. Qed.
Print Assumptions c16_one_default_marked.

Theorem c16_static : forall m ops si s0,
  nth_error (m_streams m) si = Some s0 ->
  exists s, nth_error (m_streams (mux_run m ops)) si = Some s
            /\ st_isvideo s = st_isvideo s0 /\ st_num s = st_num s0 /\ st_leading s = st_leading s0
            /\ st_rendition s = st_rendition s0 /\ st_default s = st_default s0
            /\ st_name s = st_name s0 /\ st_lang s = st_lang s0 /\ st_tracks s = st_tracks s0.
Proof. exact static_along_history. Qed.
Print Assumptions c16_static.

Theorem c16_multivariant_shape : forall m mv,
  gen_multivariant m = Ok (Some mv) ->
  mv_renditions mv = map (fun s => {| r_isvideo := st_isvideo s; r_num := st_num s; r_name := st_name s;
                                      r_lang := st_lang s; r_default := st_default s;
                                      r_hasuri := negb (st_leading s) |})
                         (filter st_rendition (m_streams m))
  /\ mv_audio mv = existsb st_rendition (m_streams m)
  /\ mv_uri mv = match filter st_leading (m_streams m) with
                 | s :: _ => Some (st_isvideo s, st_num s) | [] => None end.
Proof. exact gen_multivariant_shape. Qed.
Print Assumptions c16_multivariant_shape.

Theorem c16_bandwidth_order : forall segs mx avg,
  Forall (fun g => 0 <= sg_size g) segs -> bandwidth segs = Ok (mx, avg) -> 0 <= avg <= mx.
Proof. exact bandwidth_order. Qed.
Print Assumptions c16_bandwidth_order.

Theorem c16_bandwidth_is_peak_and_mean : forall segs mx avg,
  bandwidth segs = Ok (mx, avg) ->
  let real := filter counted_seg segs in
  let bytes := sumZf sg_size real in
  let dur := sumZf sg_dur real in
  (0 < dur ->
     avg = Z.quot (8 * bytes * second) dur
     /\ (forall g, In g real -> seg_rate g <= mx)
     /\ (mx = 0 \/ exists g, In g real /\ mx = seg_rate g))
  /\ (dur <= 0 -> mx = 0 /\ avg = 0).
Proof. exact bandwidth_is_peak_and_mean. Qed.
Print Assumptions c16_bandwidth_is_peak_and_mean.

(* "exactly one rendition is DEFAULT" as one statement over every configuration Start accepts, in every
   variant, at every moment of every write history: the streams that are a DEFAULT rendition number
   one when the muxer has a rendition and none when it has none, and the EXT-X-MEDIA entries of the
   multivariant playlist generated in that state likewise *)
Theorem c16_one_default_always : forall c m ops,
  start c = Ok m ->
  let m' := mux_run m ops in
  count_rd (m_streams m') = if Nat.eqb (n_rend (m_streams m')) 0 then O else 1%nat.
Proof. exact one_default_always. Qed.
Print Assumptions c16_one_default_always.

Theorem c16_one_default_in_playlist : forall c m ops mv,
  start c = Ok m -> gen_multivariant (mux_run m ops) = Ok (Some mv) ->
  count_default_r (mv_renditions mv) = if Nat.eqb (length (mv_renditions mv)) 0 then O else 1%nat.
Proof. exact one_default_in_playlist. Qed.
Print Assumptions c16_one_default_in_playlist.

(* non-vacuity: a reachable state (H264 + AAC, Low-Latency, two complete segments) with one DEFAULT rendition, one
   variant pointing at the leading stream and a non-zero BANDWIDTH *)
Theorem c16_example_nonvacuous : exists m0 mv,
  start ex_cfg = Ok m0
  /\ let m := mux_run m0 sp_ops in
     count_rd (m_streams m) = 1%nat /\ map st_default (m_streams m) = [false; true]
     /\ gen_multivariant m = Ok (Some mv)
     /\ (mv_bandwidth mv, mv_avg mv, mv_uri mv, map r_default (mv_renditions mv), map r_hasuri (mv_renditions mv))
        = (2400, 2400, Some (true, 1), [true], [true]).
Proof. exact multivariant_example. Qed.
Print Assumptions c16_example_nonvacuous.

(* ---- the RFC 6381 codec strings (pkg/codecparams.Marshal as a function of the fields it reads) ---- *)
From Coq Require Import String Ascii.
From GoHls Require Import Model.CodecStr Proofs.CodecStr.
Local Open Scope string_scope.

(* well-formedness: whenever Marshal returns a string, the string is in the grammar of its family
   (in particular no empty component, no dangling period) *)
Theorem c16_codec_string_wellformed : forall c : codec,
  codec_fields_ok c = true -> no_string c = false -> wf_codec_string (marshal c) = true.
Proof. exact marshal_wellformed. Qed.
Print Assumptions c16_codec_string_wellformed.

(* ... and it returns the empty string exactly when the parameters do not parse (AV1, H265), the H264
   SPS has fewer than 4 bytes, or the codec is none of the six *)
Theorem c16_codec_string_empty_iff : forall c : codec,
  codec_fields_ok c = true -> (marshal c = "" <-> no_string c = true).
Proof. exact marshal_empty_iff. Qed.
Print Assumptions c16_codec_string_empty_iff.

(* case: the hexadecimal positions of the grammar admit 0-9 a-f only (Go's %x and hex.EncodeToString) *)
Theorem c16_codec_string_hex_is_lower_case : forall ch : ascii,
  is_lhex_digit ch = true -> (Nat.leb 65 (nat_of_ascii ch) && Nat.leb (nat_of_ascii ch) 90)%bool = false.
Proof. exact lhex_not_upper. Qed.
Print Assumptions c16_codec_string_hex_is_lower_case.

(* the string determines the fields it prints *)
Theorem c16_codec_string_injective_h265 : forall p q : h265_ptl,
  h265_ptl_ok p = true -> h265_ptl_ok q = true -> marshal (H265 (Some p)) = marshal (H265 (Some q)) -> p = q.
Proof. exact marshal_h265_injective. Qed.
Print Assumptions c16_codec_string_injective_h265.

Theorem c16_codec_string_injective_av1 : forall s t : av1_sh,
  av1_sh_ok s = true -> av1_sh_ok t = true -> marshal (AV1 (Some s)) = marshal (AV1 (Some t)) -> av1_shown s = av1_shown t.
Proof. exact marshal_av1_injective. Qed.
Print Assumptions c16_codec_string_injective_av1.

Theorem c16_codec_string_injective_vp9 : forall p b p' b' : Z,
  in_bits 8 p = true -> in_bits 8 b = true -> in_bits 8 p' = true -> in_bits 8 b' = true ->
  marshal (VP9 p b) = marshal (VP9 p' b') -> p = p' /\ b = b'.
Proof. exact marshal_vp9_injective. Qed.
Print Assumptions c16_codec_string_injective_vp9.

Theorem c16_codec_string_injective_h264 : forall (x a b c : Z) (r : list Z) (x' a' b' c' : Z) (r' : list Z),
  forallb (in_bits 8) [a; b; c; a'; b'; c'] = true ->
  marshal (H264 (x :: a :: b :: c :: r)) = marshal (H264 (x' :: a' :: b' :: c' :: r')) -> a = a' /\ b = b' /\ c = c'.
Proof. exact marshal_h264_injective. Qed.
Print Assumptions c16_codec_string_injective_h264.

Theorem c16_codec_string_injective_mpeg4audio : forall t t' : Z,
  0 <= t -> 0 <= t' -> marshal (MPEG4Audio t) = marshal (MPEG4Audio t') -> t = t'.
Proof. exact marshal_mpeg4audio_injective. Qed.
Print Assumptions c16_codec_string_injective_mpeg4audio.

(* strings of different codec families differ *)
Theorem c16_codec_string_family : forall c c' : codec,
  codec_fields_ok c = true -> codec_fields_ok c' = true -> no_string c = false -> no_string c' = false ->
  marshal c = marshal c' -> family c = family c'.
Proof. exact marshal_family. Qed.
Print Assumptions c16_codec_string_family.

(* non-vacuity: the values of pkg/codecparams/marshal_test.go are within the ranges and give its strings *)
Theorem c16_codec_string_examples :
  marshal (H265 (Some ex_h265)) = "hvc1.1.6.L120.90" /\ marshal (AV1 (Some ex_av1)) = "av01.0.08M.08.0.110.01.01.01.0"
  /\ marshal (VP9 1 8) = "vp09.01.10.08" /\ marshal (H264 [103; 66; 192; 40; 217]) = "avc1.42c028"
  /\ marshal Opus = "opus" /\ marshal (MPEG4Audio 2) = "mp4a.40.2"
  /\ forallb codec_fields_ok [H265 (Some ex_h265); AV1 (Some ex_av1); VP9 1 8; H264 [103; 66; 192; 40; 217]; Opus; MPEG4Audio 2] = true.
Proof. exact examples_marshal. Qed.
Print Assumptions c16_codec_string_examples.

(* the grammar is not trivial: a dangling period, an empty component, upper-case hexadecimal, a missing
   or superfluous component are rejected *)
Theorem c16_codec_string_grammar_rejects :
  map wf_codec_string ["hvc1.1.6.L120."; "hvc1.1..L120.90"; "hvc1.1.6.L120.B0"; "avc1.42C028"; "avc1.42c02";
                       "av01.0.08M.08"; "vp09.1.10.08"; "mp4a.40."; "hvc1.1.6.L120.90.0.0"; ""]
  = [false; false; false; false; false; false; false; false; false; false].
Proof. exact examples_rejected. Qed.
Print Assumptions c16_codec_string_grammar_rejects.
