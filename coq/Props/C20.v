(* C20 - Client download pipeline: FIFO, exactly once, bounded look-ahead, no lost wake-up.
   Only property theorems (closed by [exact]) and [Print Assumptions].  Model: Model/Queue.v
   (clientSegmentQueue as a small-step system of downloader, processor and cancel);
   proofs: Proofs/QueueInv.v (inductive invariant), Proofs/QueueMain.v, Proofs/QueueWitness.v.

   Every theorem quantifies over ALL schedules ([sched : list label]; labels that are not enabled
   are skipped, so every list is a schedule), all producer programs [prog] and all numbers of
   pulls [k] unless it says otherwise.

   RESULT.  The consumer side (pull) never misses a wake-up.  For the producer side the model carries
   BOTH variants of waitUntilSizeIsBelow, and the tie selects the one the source under test has
   (ties/C20.py reads client_segment_queue.go on every run):
   - [WaitBelow true] - q.didPull is captured while the mutex is held.  This is what /repo carries since
     fix 06bdfe7.  For it the properties hold at full strength: [c20_no_lost_wakeup_producer_fixed],
     [c20_no_deadlock_fixed].
   - [WaitBelow false] - the library's original code, which evaluated q.didPull after releasing the
     mutex.  A pull completing in between made the downloader wait on a fresh channel although the queue
     was already at/below the bound ([c20_no_lost_wakeup_producer_refuted]); with two pulls in that window
     the runTraditional pipeline deadlocked ([c20_trad_deadlock_refuted]).  These refutations are kept as
     regression witnesses of the unrepaired variant (finding F1, reproduced on the real code before the
     fix); the partial theorems exclude exactly that window (g = g0: the channel waited on is the one the
     field held at the length check) and are what remains true of the unrepaired code. *)
From Coq Require Import List ZArith Bool.
From GoHls Require Import Model.Queue Proofs.QueueInv Proofs.QueueMain Proofs.QueueWitness.
Import ListNotations.
Local Open Scope Z_scope.

(* ---- data ---- *)
(* at every instant: what was taken out, followed by what is queued, is what was put in (order,
   nothing lost, nothing invented); what pull returned plus the segment in flight is what was taken out *)
Theorem c20_fifo_once : forall prog k sched,
  let s := run (init prog k) sched in
  delivered s ++ queue s = pushed s /\ returned s ++ inflight (c_pc s) = delivered s.
Proof. exact fifo_once. Qed.
Print Assumptions c20_fifo_once.

(* the processor receives a prefix of the downloader's pushes, in program order ... *)
Theorem c20_delivery_order : forall prog k sched,
  let s := run (init prog k) sched in
  exists rest, returned s ++ rest = push_ids prog.
Proof. exact returned_prefix. Qed.
Print Assumptions c20_delivery_order.

(* ... hence each segment at most once *)
Theorem c20_exactly_once : forall prog k sched,
  NoDup (push_ids prog) -> NoDup (returned (run (init prog k) sched)).
Proof. exact returned_nodup. Qed.
Print Assumptions c20_exactly_once.
Example c20_exactly_once_sat : NoDup (push_ids prog3).
Proof. repeat constructor; cbn; intuition discriminate. Qed.

(* no close of a closed channel, no unlock of an unlocked mutex, no index out of range; the
   generation counters represent the closed channels exactly (no SGap) *)
Theorem c20_no_panic : forall prog k sched, stat (run (init prog k) sched) = SOk.
Proof. exact no_panic. Qed.
Print Assumptions c20_no_panic.

Theorem c20_mutual_exclusion : forall prog k sched,
  let s := run (init prog k) sched in
  p_locked (p_pc s) && c_locked (c_pc s) = false.
Proof. exact mutual_exclusion. Qed.
Print Assumptions c20_mutual_exclusion.

(* ---- bounded look-ahead (runTraditional: push; waitUntilSizeIsBelow(1); on ENDLIST push, push(nil)) ---- *)
Theorem c20_bound : forall prog k sched,
  trad prog ->
  let s := run (init prog k) sched in
  qlen s <= 3 /\ segs (queue s) <= 2.
Proof. intros prog k sched H. exact (bound_all _ (bound_run sched _ (trad_init_ok prog k H))). Qed.
Print Assumptions c20_bound.
Example c20_bound_sat : trad prog3 /\ trad (trad_prog true [1; 2] ++ [Push 3; Push nilSeg]).
Proof. exact ex_trad. Qed.
Example c20_bound_tight :
  let s := run (init (trad_prog false [1] ++ [Push 2; Push nilSeg]) 0) (rep 14 P) in
  qlen s = 3 /\ segs (queue s) = 2.
Proof. exact ex_bound_tight_sentinel. Qed.

(* ---- wake-ups: processor ---- *)
(* a processor parked in pull's select while a segment is queued (and the downloader is not in
   the middle of the push that queues it) can proceed: its channel is closed *)
Theorem c20_no_lost_wakeup_consumer : forall prog k sched g,
  let s := run (init prog k) sched in
  c_pc s = CSel g -> queue s <> [] -> push_in_progress s = false ->
  enabled s (TC, BChan) = true.
Proof. exact consumer_wakeup. Qed.
Print Assumptions c20_no_lost_wakeup_consumer.

(* "as soon as a push completed": whenever the mutex is free *)
Theorem c20_no_lost_wakeup_consumer_unlocked : forall prog k sched g,
  let s := run (init prog k) sched in
  c_pc s = CSel g -> queue s <> [] -> mutex s = None ->
  enabled s (TC, BChan) = true.
Proof. exact consumer_wakeup_unlocked. Qed.
Print Assumptions c20_no_lost_wakeup_consumer_unlocked.
Example c20_consumer_sat :
  let s := run (init prog2 1) (rep 4 C ++ rep 5 P) in
  c_pc s = CSel 0 /\ queue s <> [] /\ push_in_progress s = false /\ enabled s (TC, BChan) = true.
Proof. exact ex_consumer_parked. Qed.

(* ---- wake-ups: downloader ---- *)
(* REFUTED at full strength: a schedule of runTraditional (two segments, one pull) after which the
   downloader sits in its select with len(queue) <= n, nobody in a critical section, not
   cancelled, and no case of the select can fire *)
Theorem c20_no_lost_wakeup_producer_refuted :
  exists sched, lost_state (run (init (trad_prog false [10; 11]) 1) sched).
Proof. exists lost_sched. exact lost_wakeup_witness. Qed.
Print Assumptions c20_no_lost_wakeup_producer_refuted.

(* PARTIAL: outside the window (the channel waited on is the one q.didPull held at the length
   check) a drained backlog enables the downloader *)
Theorem c20_no_lost_wakeup_producer_partial : forall prog k sched f n g0 g,
  let s := run (init prog k) sched in
  p_pc s = WSel f n g0 g -> g = g0 ->
  qlen s <= n -> pull_in_progress s = false ->
  enabled s (TP, BChan) = true.
Proof. exact producer_wakeup_partial. Qed.
Print Assumptions c20_no_lost_wakeup_producer_partial.
Example c20_producer_partial_sat :
  let s := run (init prog2 1) (to_hook ++ [P] ++ rep 5 C) in
  p_pc s = WSel false 1 0 0 /\ qlen s <= 1 /\ pull_in_progress s = false
  /\ enabled s (TP, BChan) = true.
Proof. exact ex_producer_parked. Qed.

(* the hypothesis excludes exactly the finding: a lost wake-up implies the library's variant and a
   channel installed after the length check *)
Theorem c20_lost_only_in_window : forall prog k sched f n g0 g,
  let s := run (init prog k) sched in
  p_pc s = WSel f n g0 g ->
  qlen s <= n -> pull_in_progress s = false ->
  enabled s (TP, BChan) = false ->
  f = false /\ g0 < g.
Proof. exact lost_only_in_window. Qed.
Print Assumptions c20_lost_only_in_window.

(* the repaired variant (didPull := q.didPull while holding the mutex; /repo since 06bdfe7): the property
   holds at full strength *)
Theorem c20_no_lost_wakeup_producer_fixed : forall prog k sched n g0 g,
  let s := run (init prog k) sched in
  p_pc s = WSel true n g0 g ->
  qlen s <= n -> pull_in_progress s = false ->
  enabled s (TP, BChan) = true.
Proof. exact producer_wakeup_fixed. Qed.
Print Assumptions c20_no_lost_wakeup_producer_fixed.
Example c20_producer_fixed_sat :
  let s := run (init (trad_prog true [10; 11]) 1) lost_sched in
  p_pc s = WSel true 1 0 0 /\ qlen s <= 1 /\ pull_in_progress s = false.
Proof. exact ex_producer_parked_fixed. Qed.

(* how long the lost wake-up lasts: until the NEXT pull closes q.didPull *)
Theorem c20_lost_recovers_on_next_pull : forall prog k sched f n g0 g seg s',
  let s := run (init prog k) sched in
  p_pc s = WSel f n g0 g -> c_pc s = CClose seg ->
  step s (TC, BChan) = Some s' ->
  enabled s' (TP, BChan) = true.
Proof. exact lost_recovers_on_next_pull. Qed.
Print Assumptions c20_lost_recovers_on_next_pull.
Example c20_lost_recovers_sat :
  let s := run (init prog2 2) (lost_sched ++ rep 3 C) in
  p_pc s = WSel false 1 0 1 /\ c_pc s = CClose 11 /\ enabled s (TP, BChan) = false
  /\ exists s', step s (TC, BChan) = Some s' /\ enabled s' (TP, BChan) = true.
Proof. exact ex_recover. Qed.

(* ... which never comes if the window spanned two pulls: runTraditional (three segments) and the
   processor reach a state in which each waits for the other, with work left on both sides *)
Theorem c20_trad_deadlock_refuted :
  exists sched, deadlocked (run (init (trad_prog false [10; 11; 12]) 3) sched).
Proof. exists deadlock_sched. exact deadlock_witness. Qed.
Print Assumptions c20_trad_deadlock_refuted.

(* PARTIAL: outside the window the two sides are never both parked with nothing enabled *)
Theorem c20_no_deadlock_partial : forall prog k sched f n g0 g gc,
  let s := run (init prog k) sched in
  p_pc s = WSel f n g0 g -> c_pc s = CSel gc -> g = g0 -> 0 <= n ->
  enabled s (TP, BChan) = true \/ enabled s (TC, BChan) = true.
Proof. exact no_deadlock_partial. Qed.
Print Assumptions c20_no_deadlock_partial.
Example c20_no_deadlock_partial_sat :
  let s := run (init prog3 3) (to_hook ++ [P] ++ rep 6 C ++ rep 6 C ++ rep 4 C) in
  p_pc s = WSel false 1 0 0 /\ c_pc s = CSel 1 /\ enabled s (TP, BChan) = true.
Proof. exact ex_both_parked_outside_window. Qed.

(* FULL STRENGTH for the repaired downloader: in every reachable state of every program whose throttles
   are all the repaired waitUntilSizeIsBelow, the pipeline is not deadlocked; more generally, whenever
   downloader and processor are both parked in their selects (any bound n >= 0), one of the two selects
   can fire on its channel *)
Theorem c20_no_deadlock_fixed : forall prog k sched,
  repaired prog ->
  let s := run (init prog k) sched in
  ~ deadlocked s
  /\ (forall f n g0 g gc, p_pc s = WSel f n g0 g -> c_pc s = CSel gc -> 0 <= n ->
        enabled s (TP, BChan) = true \/ enabled s (TC, BChan) = true).
Proof. exact no_deadlock_fixed. Qed.
Print Assumptions c20_no_deadlock_fixed.
(* the schedule of [c20_trad_deadlock_refuted] on the repaired pipeline: both parked, backlog drained,
   work left on both sides, not cancelled - and the downloader can proceed *)
Example c20_no_deadlock_fixed_sat :
  let prog := trad_prog true [10; 11; 12] in
  let s := run (init prog 3) deadlock_sched in
  repaired prog /\ (exists g0 g, p_pc s = WSel true 1 g0 g) /\ (exists gc, c_pc s = CSel gc)
  /\ qlen s <= 1 /\ p_prog s <> [] /\ c_pulls s <> O /\ cancelled s = false
  /\ enabled s (TP, BChan) = true.
Proof. exact ex_repaired_both_parked. Qed.

(* ---- cancellation ---- *)
Theorem c20_cancel : forall prog k sched,
  let s := run (init prog k) sched in
  cancelled s = true ->
  (forall g, c_pc s = CSel g -> enabled s (TC, BCtx) = true)
  /\ (forall f n g0 g, p_pc s = WSel f n g0 g -> enabled s (TP, BCtx) = true).
Proof. exact cancel_enables. Qed.
Print Assumptions c20_cancel.

(* cancellation is permanent: once the cancel thread has been scheduled, every later state is cancelled *)
Theorem c20_cancel_sticks : forall prog k s1 s2,
  cancelled (run (init prog k) (s1 ++ (TX, BChan) :: s2)) = true.
Proof. exact cancel_sticks. Qed.
Print Assumptions c20_cancel_sticks.
Example c20_cancel_sat :
  let s := run (init prog3 3) (deadlock_sched ++ [X]) in
  cancelled s = true /\ (exists g, c_pc s = CSel g) /\ (exists f n g0 g, p_pc s = WSel f n g0 g)
  /\ enabled s (TC, BCtx) = true /\ enabled s (TP, BCtx) = true.
Proof. exact ex_cancel_both_parked. Qed.

(* ---- the tie evaluates the same transition system ---- *)
(* every state the correspondence harness compares with the real queue is [run init sched] for
   some schedule, so all theorems above apply to it *)
Theorem c20_tie_states_reachable : forall ds s,
  exists sched, fst (fst (macro_run s ds)) = run s sched.
Proof. exact macro_run_reachable. Qed.
Print Assumptions c20_tie_states_reachable.
