(* C18 - Retention is bounded: segment count, segment size, URL table, (disk files).
   Only property theorems (each closed by [exact]) and [Print Assumptions].
   The URL table (last section): in every reachable state a key that resolves is the index, a media
   playlist, the init segment of a stream that has one, a LISTED non-gap segment of its stream, or
   (Low-Latency) a part of a listed or open segment or the preload hint - so what has left the
   window does not resolve any more, and at most SegmentCount segment URIs per stream resolve. *)
From Coq Require Import List ZArith Bool.
From GoHls Require Import Model.Mux Proofs.MuxStream Proofs.MuxLift Proofs.MuxWindow Proofs.MuxHistory Proofs.MuxPlaylist Proofs.MuxPaths Proofs.MuxResolve Proofs.MuxTableConv Proofs.MuxLog Proofs.MuxLogStep Proofs.MuxSpanHist Proofs.MuxAuditAdds Proofs.MuxAuditAddsEx.
Import ListNotations.
Local Open Scope Z_scope.

(* at any time a stream retains at most SegmentCount segments (plus the open one), for any
   configuration accepted by Start and any write history of any length *)
Theorem c18_window : forall c ops m0,
  start c = Ok m0 ->
  Forall (WInv (c_variant (norm_cfg c)) (c_segcount (norm_cfg c))) (m_streams (mux_run m0 ops)).
Proof. exact window_inv_reachable. Qed.
Print Assumptions c18_window.

(* no published segment and no open segment ever accounts more than SegmentMaxSize payload bytes *)
Theorem c18_max_size : forall ops m, GS m -> GS (mux_run m ops).
Proof. exact GS_mux_run. Qed.
Print Assumptions c18_max_size.

Theorem c18_max_size_start : forall c m, start c = Ok m -> 0 <= c_segmax c -> GS m.
Proof. exact GS_start. Qed.
Print Assumptions c18_max_size_start.

(* the write that would exceed the limit returns an error and buffers nothing *)
Theorem c18_error_not_buffered_ts : forall m si u size e inc s seg,
  nth_error (m_streams m) si = Some s -> st_open s = Some seg ->
  c_segmax (m_cfg m) < sg_size seg + size ->
  ts_write m si u size e inc = (m, Err 2).
Proof. exact ts_write_limit. Qed.
Print Assumptions c18_error_not_buffered_ts.

Theorem c18_error_not_buffered_fmp4 : forall m ti si smp s t seg p,
  nth_error (m_streams m) si = Some s -> nth_error (m_tracks m) ti = Some t ->
  st_open s = Some seg -> st_openpart s = Some p ->
  c_segmax (m_cfg m) < sg_size seg + s_size smp ->
  part_writeSample m ti si smp = Err 2.
Proof. exact part_writeSample_limit. Qed.
Print Assumptions c18_error_not_buffered_fmp4.

(* ---- the URL table holds nothing but what the playlists list ---- *)
Theorem c18_table_only_lists_retained : forall c m0 ops k h,
  start c = Ok m0 -> lookup (m_paths (mux_run m0 ops)) k = Some h -> allowed (mux_run m0 ops) k.
Proof. exact table_only_lists_retained. Qed.
Print Assumptions c18_table_only_lists_retained.

Theorem c18_resolving_segments_are_listed : forall c m0 ops si id h,
  start c = Ok m0 -> lookup (m_paths (mux_run m0 ops)) (KSeg si id) = Some h ->
  exists s g, nth_error (m_streams (mux_run m0 ops)) si = Some s /\ In g (st_segments s) /\ sg_gap g = false /\ sg_id g = id
              /\ Z.of_nat (length (st_segments s)) <= c_segcount (norm_cfg c).
Proof. exact resolving_segments_are_listed. Qed.
Print Assumptions c18_resolving_segments_are_listed.

(* ---- Write level: the write SegmentMaxSize refuses returns the error and buffers nothing (fMP4 variants) ---- *)
Theorem c18_refused_write_buffers_nothing : forall m ti ra pc smp0 m' e,
  LI m -> fmp4WriteSample m ti ra pc smp0 = (m', Err e) ->
  map tk_samples (m_tracks m') = map tk_samples (m_tracks m)
  /\ length (m_streams m') = length (m_streams m)
  /\ forall j sj, nth_error (m_streams m) j = Some sj ->
       exists sj', nth_error (m_streams m') j = Some sj' /\ holds_same sj sj'.
Proof. exact refused_write_buffers_nothing. Qed.
Print Assumptions c18_refused_write_buffers_nothing.

(* non-vacuity: a reachable state in which the URI of a listed segment and of a listed part resolve and that of an
   unpublished segment does not; a history whose third write SegmentMaxSize (150 bytes) refuses *)
Theorem c18_example_nonvacuous : exists m0 m1,
  start ex_cfg = Ok m0 /\ start small_cfg = Ok m1
  /\ (let m := mux_run m0 sp_ops in
      (lookup (m_paths m) (KSeg 0 8), lookup (m_paths m) (KSeg 0 6), lookup (m_paths m) (KPart 0 3))
      = (Some HStatic, None, Some HPart))
  /\ map (fun k => snd (mux_step (mux_run m1 (firstn k sp_ops)) (nth k sp_ops (WWrite 0 (ex_au 0 true 0))))) [0; 1; 2]%nat
     = [Ok tt; Ok tt; Err 2].
Proof. exact retention_example. Qed.
Print Assumptions c18_example_nonvacuous.
