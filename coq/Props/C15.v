(* C15 - Playlist decoder is total; encoder output is grammatical M3U8.
   Only property theorems (each closed by [exact]) and [Print Assumptions]; the model is
   Model/Playlist*.v, the proofs Proofs/Playlist*.v. *)
From Coq Require Import List ZArith Bool String.
From GoHls Require Import Model.PlaylistBase Model.Playlist Model.PlaylistSpec Proofs.PlaylistTotal Proofs.PlaylistStruct.
Import ListNotations.

(* For every byte string b and every behaviour of the external float / time parsers, the three
   decoders return a playlist or an error: never Panic (every slice and index expression of
   the Go code is in range), never OutOfFuel with the fuel length b + 1 (every loop terminates). *)
Theorem c15_total : forall (O : oracles) (b : string),
  ((exists p, unmarshal O b = Ok p) \/ unmarshal O b = Err)
  /\ ((exists p, media_unmarshal O b = Ok p) \/ media_unmarshal O b = Err)
  /\ ((exists p, multivariant_unmarshal O b = Ok p) \/ multivariant_unmarshal O b = Err).
Proof. exact decoders_total. Qed.
Print Assumptions c15_total.

(* Marshal of any playlist value succeeds *)
Theorem c15_remarshal : forall (O : oracles) (p : playlist), exists s, marshal O p = Ok s.
Proof. exact marshal_total. Qed.
Print Assumptions c15_remarshal.

(* Whenever a decoder succeeds, the returned playlist has the structure callers index into
   without checking: at least one segment / variant, each with a non-empty URI; a non-zero
   target duration; non-zero segment, part and part-target durations; maps, parts and preload
   hints with a URI; renditions with a known type and a group id. *)
Theorem c15_structural_media : forall (O : oracles) (b : string) (m : Media),
  media_unmarshal O b = Ok m -> media_structb m = true.
Proof. exact media_unmarshal_struct. Qed.
Print Assumptions c15_structural_media.

Theorem c15_structural_multivariant : forall (O : oracles) (b : string) (m : Multivariant),
  multivariant_unmarshal O b = Ok m -> multivariant_structb m = true.
Proof. exact multivariant_unmarshal_struct. Qed.
Print Assumptions c15_structural_multivariant.

Theorem c15_structural : forall (O : oracles) (b : string) (p : playlist),
  unmarshal O b = Ok p -> playlist_structb p = true.
Proof. exact unmarshal_struct. Qed.
Print Assumptions c15_structural.
