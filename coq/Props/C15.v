(* C15 - Playlist decoder is total; encoder output is grammatical M3U8.
   Only property theorems (each closed by [exact]) and [Print Assumptions]; the model is
   Model/Playlist*.v, the proofs Proofs/Playlist*.v. *)
From Coq Require Import List ZArith Bool String.
From GoHls Require Import Model.PlaylistBase Model.PlaylistIdeal Model.Playlist Model.PlaylistSpec
  Model.PlaylistStrict Model.PlaylistStrictSpec
  Proofs.PlaylistTotal Proofs.PlaylistStruct Proofs.PlaylistAttrs Proofs.PlaylistTags Proofs.PlaylistGrammar
  Proofs.PlaylistExamples Proofs.PlaylistStrictMedia Proofs.PlaylistStrictMulti Proofs.PlaylistStrictExamples.
Local Open Scope string_scope.
Import ListNotations.

(* For every byte string b and every behaviour of the external float / time parsers, the three
   decoders return a playlist or an error: never Panic (every slice and index expression of
   the Go code is in range), never OutOfFuel with the fuel length b + 1 (every loop terminates). *)
Theorem c15_total : forall (O : oracles) (b : string),
  ((exists p, unmarshal O b = Ok p) \/ unmarshal O b = Err)
  /\ ((exists p, media_unmarshal O b = Ok p) \/ media_unmarshal O b = Err)
  /\ ((exists p, multivariant_unmarshal O b = Ok p) \/ multivariant_unmarshal O b = Err).
Proof. exact decoders_total. Qed.
Print Assumptions c15_total.

(* Marshal of any playlist value succeeds. Definitional in the model: [marshal]
   (Model/Playlist.v) returns Ok on both branches, the Go function having no error or panic site
   the model represents. The claim therefore rests on the tie: the harness re-marshals every
   decoded value with the real Marshal (observables remarshal:panic / remarshal:error). *)
Theorem c15_remarshal : forall (O : oracles) (p : playlist), exists s, marshal O p = Ok s.
Proof. exact marshal_total. Qed.
Print Assumptions c15_remarshal.

(* Whenever a decoder succeeds, the returned playlist has the structure callers index into
   without checking: at least one segment / variant, each with a non-empty URI; a non-zero
   target duration; non-zero segment, part and part-target durations; maps, parts and preload
   hints with a URI; renditions with a known type and a group id. *)
Theorem c15_structural_media : forall (O : oracles) (b : string) (m : Media),
  media_unmarshal O b = Ok m -> media_structb m = true.
Proof. exact media_unmarshal_struct. Qed.
Print Assumptions c15_structural_media.

Theorem c15_structural_multivariant : forall (O : oracles) (b : string) (m : Multivariant),
  multivariant_unmarshal O b = Ok m -> multivariant_structb m = true.
Proof. exact multivariant_unmarshal_struct. Qed.
Print Assumptions c15_structural_multivariant.

Theorem c15_structural : forall (O : oracles) (b : string) (p : playlist),
  unmarshal O b = Ok p -> playlist_structb p = true.
Proof. exact unmarshal_struct. Qed.
Print Assumptions c15_structural.

(* Grammar, tag level, against the library's own tokenizer: for every oracle instance within
   the C14 envelope, every attribute-list tag Marshal prints for a valid value is
   "#TAG:" ++ NAME=value[,NAME=value]* ++ "\n" with a non-empty list that the tokenizer of
   pkg/playlist/primitives reads back unambiguously (the strict-grammar theorems below do not
   depend on this one). *)
Theorem c15_attribute_lists_read_back : forall (O : oracles), oracle_ok O ->
  (forall t, dur_signed (st_timeoffset t) = true -> attr_line "#EXT-X-START:" (start_marshal O t))
  /\ (forall t, dur_pos (pi_parttarget t) = true -> attr_line "#EXT-X-PART-INF:" (part_inf_marshal O t))
  /\ (forall t, wf_map t = true -> attr_line "#EXT-X-MAP:" (map_marshal t))
  /\ (forall t, wf_key t = true -> attr_line "#EXT-X-KEY:" (key_marshal t))
  /\ (forall t, int31 (sk_skipped t) = true -> attr_line "#EXT-X-SKIP:" (skip_marshal t))
  /\ (forall t, wf_part t = true -> attr_line "#EXT-X-PART:" (part_marshal O t))
  /\ (forall t, wf_hint t = true -> attr_line "#EXT-X-PRELOAD-HINT:" (preload_hint_marshal t))
  /\ (forall t, wf_rendition t = true -> attr_line "#EXT-X-MEDIA:" (rendition_marshal t))
  /\ (forall t, wf_variant t = true ->
        exists l, l <> nil /\ forallb attr_ok2 l = true
                  /\ variant_marshal O t = "#EXT-X-STREAM-INF:" ++ render_attrs l ++ lf ++ v_uri t ++ lf)
  /\ (forall t, wf_server_control t = true ->
        attr_line "#EXT-X-SERVER-CONTROL:" (server_control_marshal O t)).
Proof. exact tag_lines_are_attribute_lists. Qed.
Print Assumptions c15_attribute_lists_read_back.

(* the hypothesis of the structural theorems is satisfiable: a text that decodes *)
Theorem c15_example_decodes :
  exists b m, media_unmarshal z_oracles b = Ok m /\ media_structb m = true.
Proof.
  exact (ex_intro _ _ (ex_intro _ _ (conj (eq_refl : media_unmarshal z_oracles
    ("#EXTM3U" ++ lf ++ "#EXT-X-TARGETDURATION:2" ++ lf ++ "#EXTINF:1.5,t" ++ lf ++ "s.mp4" ++ lf) = Ok _) eq_refl))).
Qed.
Print Assumptions c15_example_decodes.

(* ---- the strict RFC 8216 / 8216bis grammar ---- *)
(* strict_ok (Model/PlaylistStrict.v) is an independent executable recogniser of the line
   grammar: #EXTM3U first, known tags only, each tag at most where it is allowed, values and
   attribute values of the right lexical type, every URI line preceded by its EXTINF resp.
   EXT-X-STREAM-INF, media and multivariant tags not mixed. It enforces the rule set of the Go
   checker harness/internal/playlist/grammar; the two are compared on every run (Marshal
   output, muxer-served playlists, mutated and arbitrary texts).

   Hypotheses: [oracle_lex_ok O] - FormatFloat with a fixed precision prints
   [-]digits.digits (no sign for a non-negative value), Time.Format an ISO 8601 date-time on
   one line; [wf_*] - the documented field requirements; [strict_*] - what the grammar requires
   of fields the Go structs type as free strings (URI lines without white space and control
   characters, IV a hexadecimal-sequence, RESOLUTION a decimal-resolution, PART-HOLD-BACK and
   CAN-SKIP-UNTIL unsigned), and NO byte range in EXT-X-MAP and EXT-X-PART: Marshal prints that
   attribute unquoted (recorded finding, refuted below). *)
Theorem c15_grammar_media : forall (O : oracles), oracle_lex_ok O -> forall p : Media,
  wf_media p = true -> strict_media p = true -> strict_ok (media_marshal O p) = true.
Proof. exact marshal_media_strict. Qed.
Print Assumptions c15_grammar_media.

Theorem c15_grammar_multivariant : forall (O : oracles), oracle_lex_ok O -> forall p : Multivariant,
  wf_multivariant p = true -> strict_multivariant p = true -> strict_ok (multivariant_marshal O p) = true.
Proof. exact marshal_multivariant_strict. Qed.
Print Assumptions c15_grammar_multivariant.

(* non-vacuity: the lexical envelope has a model ... *)
Theorem c15_grammar_envelope_satisfiable : oracle_lex_ok lex_oracles.
Proof. exact lex_oracles_ok. Qed.
Print Assumptions c15_grammar_envelope_satisfiable.

(* ... and rich values (keys changing, parts, date-time with Go's layout, server control, skip,
   preload hint; renditions of three types) satisfy the hypotheses and the conclusion *)
Theorem c15_grammar_example_media :
  wf_media ex_media_strict = true /\ strict_media ex_media_strict = true
  /\ strict_ok (media_marshal zg_oracles ex_media_strict) = true.
Proof. exact ex_media_strict_ok. Qed.
Print Assumptions c15_grammar_example_media.

Theorem c15_grammar_example_multivariant :
  wf_multivariant ex_multivariant = true /\ strict_multivariant ex_multivariant = true
  /\ strict_ok (multivariant_marshal zg_oracles ex_multivariant) = true.
Proof. exact ex_multivariant_strict_ok. Qed.
Print Assumptions c15_grammar_example_multivariant.

(* recorded findings: without the side condition the statement is false - BYTERANGE of
   EXT-X-MAP and of EXT-X-PART is printed unquoted (known_findings.json:
   C15:grammar:attr-type-map-byterange-unquoted..., ...part-byterange-unquoted...) *)
Theorem c15_grammar_refuted_map_byterange :
  exists p, wf_media p = true /\ strict_ok (media_marshal zg_oracles p) = false
            /\ media_marshal zg_oracles p =
               "#EXTM3U" ++ lf ++ "#EXT-X-VERSION:3" ++ lf ++ "#EXT-X-TARGETDURATION:2" ++ lf
               ++ "#EXT-X-MEDIA-SEQUENCE:0" ++ lf ++ "#EXT-X-MAP:URI=""k.mp4"",BYTERANGE=1" ++ lf
               ++ "#EXTINF:1.00000," ++ lf ++ "s.mp4" ++ lf.
Proof. exact grammar_refuted_map_byterange. Qed.
Print Assumptions c15_grammar_refuted_map_byterange.

Theorem c15_grammar_refuted_part_byterange :
  exists p, wf_media p = true /\ strict_ok (media_marshal zg_oracles p) = false
            /\ media_marshal zg_oracles p =
               "#EXTM3U" ++ lf ++ "#EXT-X-VERSION:3" ++ lf ++ "#EXT-X-TARGETDURATION:2" ++ lf
               ++ "#EXT-X-MEDIA-SEQUENCE:0" ++ lf ++ "#EXTINF:1.00000," ++ lf ++ "s.mp4" ++ lf
               ++ "#EXT-X-PART:DURATION=1.00000,URI=""p.mp4"",BYTERANGE=7@0" ++ lf.
Proof. exact grammar_refuted_part_byterange. Qed.
Print Assumptions c15_grammar_refuted_part_byterange.
