(* C15 - Playlist decoder is total; encoder output is grammatical M3U8.
   Only property theorems (each closed by [exact]) and [Print Assumptions]; the model is
   Model/Playlist*.v, the proofs Proofs/Playlist*.v. *)
From Coq Require Import List ZArith Bool String.
From GoHls Require Import Model.PlaylistBase Model.PlaylistIdeal Model.Playlist Model.PlaylistSpec
  Proofs.PlaylistTotal Proofs.PlaylistStruct Proofs.PlaylistAttrs Proofs.PlaylistTags Proofs.PlaylistGrammar.
Local Open Scope string_scope.
Import ListNotations.

(* For every byte string b and every behaviour of the external float / time parsers, the three
   decoders return a playlist or an error: never Panic (every slice and index expression of
   the Go code is in range), never OutOfFuel with the fuel length b + 1 (every loop terminates). *)
Theorem c15_total : forall (O : oracles) (b : string),
  ((exists p, unmarshal O b = Ok p) \/ unmarshal O b = Err)
  /\ ((exists p, media_unmarshal O b = Ok p) \/ media_unmarshal O b = Err)
  /\ ((exists p, multivariant_unmarshal O b = Ok p) \/ multivariant_unmarshal O b = Err).
Proof. exact decoders_total. Qed.
Print Assumptions c15_total.

(* Marshal of any playlist value succeeds *)
Theorem c15_remarshal : forall (O : oracles) (p : playlist), exists s, marshal O p = Ok s.
Proof. exact marshal_total. Qed.
Print Assumptions c15_remarshal.

(* Whenever a decoder succeeds, the returned playlist has the structure callers index into
   without checking: at least one segment / variant, each with a non-empty URI; a non-zero
   target duration; non-zero segment, part and part-target durations; maps, parts and preload
   hints with a URI; renditions with a known type and a group id. *)
Theorem c15_structural_media : forall (O : oracles) (b : string) (m : Media),
  media_unmarshal O b = Ok m -> media_structb m = true.
Proof. exact media_unmarshal_struct. Qed.
Print Assumptions c15_structural_media.

Theorem c15_structural_multivariant : forall (O : oracles) (b : string) (m : Multivariant),
  multivariant_unmarshal O b = Ok m -> multivariant_structb m = true.
Proof. exact multivariant_unmarshal_struct. Qed.
Print Assumptions c15_structural_multivariant.

Theorem c15_structural : forall (O : oracles) (b : string) (p : playlist),
  unmarshal O b = Ok p -> playlist_structb p = true.
Proof. exact unmarshal_struct. Qed.
Print Assumptions c15_structural.

(* Grammar, tag level (partial): for every oracle instance within the envelope, every
   attribute-list tag Marshal prints for a valid value is "#TAG:" ++ NAME=value[,NAME=value]*
   ++ "\n" with a non-empty list, names free of '=' and leading blanks, quoted values free of
   quotes, unquoted values free of commas, nothing containing CR or LF.
   Missing for the full c15_grammar: an independent recogniser strict_ok in Gallina for the
   line-level grammar and the lexical types; that part is checked by the independent Go
   grammar checker of the harness on every Marshal output. *)
Theorem c15_grammar_partial_attribute_lists : forall (O : oracles), oracle_ok O ->
  (forall t, dur_signed (st_timeoffset t) = true -> attr_line "#EXT-X-START:" (start_marshal O t))
  /\ (forall t, dur_pos (pi_parttarget t) = true -> attr_line "#EXT-X-PART-INF:" (part_inf_marshal O t))
  /\ (forall t, wf_map t = true -> attr_line "#EXT-X-MAP:" (map_marshal t))
  /\ (forall t, wf_key t = true -> attr_line "#EXT-X-KEY:" (key_marshal t))
  /\ (forall t, int31 (sk_skipped t) = true -> attr_line "#EXT-X-SKIP:" (skip_marshal t))
  /\ (forall t, wf_part t = true -> attr_line "#EXT-X-PART:" (part_marshal O t))
  /\ (forall t, wf_hint t = true -> attr_line "#EXT-X-PRELOAD-HINT:" (preload_hint_marshal t))
  /\ (forall t, wf_rendition t = true -> attr_line "#EXT-X-MEDIA:" (rendition_marshal t))
  /\ (forall t, wf_variant t = true ->
        exists l, l <> nil /\ forallb attr_ok2 l = true
                  /\ variant_marshal O t = "#EXT-X-STREAM-INF:" ++ render_attrs l ++ lf ++ v_uri t ++ lf)
  /\ (forall t, wf_server_control t = true ->
        attr_line "#EXT-X-SERVER-CONTROL:" (server_control_marshal O t)).
Proof. exact tag_lines_are_attribute_lists. Qed.
Print Assumptions c15_grammar_partial_attribute_lists.

(* the hypothesis of the structural theorems is satisfiable: a text that decodes *)
Theorem c15_example_decodes :
  exists b m, media_unmarshal z_oracles b = Ok m /\ media_structb m = true.
Proof.
  exact (ex_intro _ _ (ex_intro _ _ (conj (eq_refl : media_unmarshal z_oracles
    ("#EXTM3U" ++ lf ++ "#EXT-X-TARGETDURATION:2" ++ lf ++ "#EXTINF:1.5,t" ++ lf ++ "s.mp4" ++ lf) = Ok _) eq_refl))).
Qed.
Print Assumptions c15_example_decodes.
