(* C10 - the Client delivers every sample of a well-formed stream with normalised time.
   This file contains only the property theorems (each closed by [exact]), Examples showing
   that the hypotheses are satisfiable, and [Print Assumptions]. Model: Model/ClientTime.v;
   proofs: Proofs/ClientTime*.v.

   Reading guide. [runLeadingFMP4] / [runRenditionFMP4] / [runClientFMP4] and
   [runStreamMPEGTS] are the transcribed stream processors; a result [Ok out] lists the
   OnData* callbacks as (client track position, delivery); [proj j out] is the callback
   sequence of track j. Outcomes other than [Ok] are the Client's fatal errors (a segment
   without its leading track, the 10 s DTS-RTC cap, ...) or a Go panic (timescale 0).
   Real-time pacing is not modelled (what is delivered, not when). *)
From Coq Require Import List ZArith Bool.
From GoHls Require Import Model.ClientTime Proofs.ClientTimeArith Proofs.ClientTimeDecode
  Proofs.ClientTimeFMP4 Proofs.ClientTimeMPEGTS Proofs.ClientTimeMain Proofs.ClientTimeExamples
  Proofs.ClientTimePMT.
Import ListNotations.
Local Open Scope Z_scope.

(* ------------------------------------------------------------------ arithmetic *)

(* multiplyAndDivide(v,m,d) is the exact floor of v*m/d (no loss in the two-step form) *)
Theorem c10_mulDiv_floor : forall v m d,
  0 <= v -> 0 <= m -> 0 < d -> multiplyAndDivide v m d = Ok (v * m / d).
Proof. exact mulDiv_floor. Qed.
Print Assumptions c10_mulDiv_floor.

Example c10_mulDiv_floor_ex : multiplyAndDivide ex_B 48000 90000 = Ok 586406201480.
Proof. exact ex_mulDiv. Qed.

(* and truncates towards zero like Go's / for negative v *)
Theorem c10_mulDiv_quot : forall v m d,
  0 <= m -> 0 < d -> multiplyAndDivide v m d = Ok (Z.quot (v * m) d).
Proof. exact mulDiv_quot. Qed.
Print Assumptions c10_mulDiv_quot.

(* it panics exactly on a zero divisor (a track or leading timescale of 0) *)
Theorem c10_mulDiv_panic : forall v m d, multiplyAndDivide v m d = Panic <-> d = 0.
Proof. exact mulDiv_panic_iff. Qed.
Print Assumptions c10_mulDiv_panic.

(* convert(v, rate) = v - floor(B * rate / rl): the origin B (leading clock rl) re-expressed
   in the track's clock *)
Theorem c10_convert : forall B rl v r,
  0 <= B -> 0 < rl -> 0 <= r ->
  fmp4_convert {| leadingTimeScale := rl; leadingBaseTime := B |} v r = Ok (v - B * r / rl).
Proof. exact fmp4_convert_floor. Qed.
Print Assumptions c10_convert.

(* the delivered time is the container time minus the origin, rounded up by less than a tick *)
Theorem c10_origin_error : forall B rl c r,
  0 <= B -> 0 < rl -> 0 < r ->
  let d := c - B * r / rl in
  0 <= d * rl - (c * rl - B * r) < rl.
Proof. exact convert_origin_error. Qed.
Print Assumptions c10_origin_error.

(* c10_sync: the delivered offset between units of two tracks, d1/r1 - d2/r2, differs from
   their container offset c1/r1 - c2/r2 by less than one tick of the coarser clock
   (stated with denominators cleared: multiply by r1*r2) *)
Theorem c10_sync : forall B rl r1 r2 c1 c2,
  0 <= B -> 0 < rl -> 0 < r1 -> 0 < r2 ->
  let d1 := c1 - B * r1 / rl in
  let d2 := c2 - B * r2 / rl in
  - r1 < (d1 - c1) * r2 - (d2 - c2) * r1 < r2.
Proof. exact convert_sync. Qed.
Print Assumptions c10_sync.

(* in particular units with the same container instant stay within one coarser tick *)
Theorem c10_sync_equal : forall B rl r1 r2 c1 c2,
  0 <= B -> 0 < rl -> 0 < r1 -> 0 < r2 -> c1 * r2 = c2 * r1 ->
  let d1 := c1 - B * r1 / rl in
  let d2 := c2 - B * r2 / rl in
  Z.abs (d1 * r2 - d2 * r1) < Z.max r1 r2.
Proof. exact convert_sync_equal. Qed.
Print Assumptions c10_sync_equal.

Example c10_sync_ex : let B := ex_B in
  0 <= B /\ 0 < 90000 /\ 0 < 44100 /\ 0 < 48000 /\ 441 * 48000 = 480 * 44100.
Proof. exact ex_sync. Qed.

(* ------------------------------------------------------------------ fMP4 *)

(* c10_all_delivered + c10_fmp4_time, leading stream (list form): for every track j of the
   playlist, the callbacks (pts, dts, payload) are exactly the container's samples of that
   track - in container order (segment, fragment, traf, sample), each once - normalised by
   [norm] (dts = base + sum of the earlier durations - floor(B*r_j/r_l), pts = dts + offset)
   and filtered by pts >= 0. Nothing else is dropped, nothing is duplicated or reordered. *)
Theorem c10_all_delivered_fmp4 : forall st out c h conv j t,
  wf_init (st_init st) -> wf_segs (st_segments st) ->
  runLeadingFMP4 st = Ok (out, c, h) -> c = Some conv ->
  nth_error (st_init st) j = Some t ->
  map dkey (proj j out)
  = filter keepk (map (norm conv (it_timeScale t)) (stream_units (st_init st) j (st_segments st))).
Proof. exact fmp4_leading_delivers. Qed.
Print Assumptions c10_all_delivered_fmp4.

(* the origin is (first base time of the leading track in the first segment, its timescale);
   the leading track is the first video track, else the first track *)
Theorem c10_fmp4_origin : forall st out c h,
  wf_init (st_init st) -> wf_segs (st_segments st) ->
  runLeadingFMP4 st = Ok (out, c, h) ->
  exists lid, fmp4PickLeadingTrack (st_init st) = Ok lid /\
  c = origin (st_init st) lid (st_segments st) /\
  match c with
  | None => st_segments st = [] /\ out = [] /\ h = []
  | Some conv =>
      wf_conv conv /\
      (out, h) = spec_leadingSegs (st_init st) lid conv ntpFMP4_zero (st_segments st) /\
      Forall ntp_ok h
  end.
Proof. exact runLeadingFMP4_spec. Qed.
Print Assumptions c10_fmp4_origin.

(* c10_fmp4_time + c10_nonneg, "for every delivered unit" form *)
Theorem c10_fmp4_time : forall st out conv h j t d,
  wf_init (st_init st) -> wf_segs (st_segments st) ->
  runLeadingFMP4 st = Ok (out, Some conv, h) ->
  nth_error (st_init st) j = Some t -> In d (proj j out) ->
  exists seg p pt i s,
    In seg (st_segments st) /\ In p (sg_parts seg) /\ In pt p /\
    lookupProc (st_init st) (pt_id pt) = Some (j, it_timeScale t) /\
    nth_error (pt_samples pt) i = Some s /\
    dl_dts d = pt_baseTime pt + sumDur (firstn i (pt_samples pt))
               - leadingBaseTime conv * it_timeScale t / leadingTimeScale conv /\
    dl_pts d = dl_dts d + s_ptsOffset s /\ dl_data d = s_payload s /\ 0 <= dl_pts d.
Proof. exact fmp4_time_leading. Qed.
Print Assumptions c10_fmp4_time.

Example c10_fmp4_time_ex :
  wf_init (st_init ex_stream) /\ wf_segs (st_segments ex_stream) /\
  runLeadingFMP4 ex_stream = Ok (ex_out, Some ex_conv, ex_hist) /\
  map dkey (proj 1 ex_out) = [(6000, 0, 3); (6000, 6000, 5); (12000, 9000, 6); (12000, 12000, 7)] /\
  map dkey (proj 0 ex_out) = [(24, 24, 2); (5000, 5000, 8)].
Proof. exact (conj ex_wf_init (conj ex_wf_segs (conj ex_run ex_delivered))). Qed.

(* the same for a rendition playlist (one track), whatever converter and NTP history the
   leading stream has produced *)
Theorem c10_all_delivered_fmp4_rendition : forall conv hist st out t,
  wf_init (st_init st) -> wf_conv conv -> Forall ntp_ok hist ->
  runRenditionFMP4 (Some conv) hist st = Ok out ->
  nth_error (st_init st) 0 = Some t ->
  map dkey (proj 0 out)
  = filter keepk (map (norm conv (it_timeScale t)) (stream_units (st_init st) 0 (st_segments st))).
Proof. exact fmp4_rendition_delivers. Qed.
Print Assumptions c10_all_delivered_fmp4_rendition.

Theorem c10_fmp4_time_rendition : forall conv hist st out t d,
  wf_init (st_init st) -> wf_conv conv -> Forall ntp_ok hist ->
  runRenditionFMP4 (Some conv) hist st = Ok out ->
  nth_error (st_init st) 0 = Some t -> In d (proj 0 out) ->
  exists seg p pt i s,
    In seg (st_segments st) /\ In p (sg_parts seg) /\ In pt p /\
    nth_error (pt_samples pt) i = Some s /\
    dl_dts d = pt_baseTime pt + sumDur (firstn i (pt_samples pt))
               - leadingBaseTime conv * it_timeScale t / leadingTimeScale conv /\
    dl_pts d = dl_dts d + s_ptsOffset s /\ dl_data d = s_payload s /\ 0 <= dl_pts d.
Proof. exact fmp4_time_rendition. Qed.
Print Assumptions c10_fmp4_time_rendition.

Example c10_fmp4_rendition_ex :
  wf_init (st_init ex_rend) /\ wf_conv ex_conv /\ Forall ntp_ok ex_hist /\
  runRenditionFMP4 (Some ex_conv) ex_hist ex_rend = Ok ex_rend_out.
Proof. exact (conj ex_rend_wf (conj ex_conv_wf (conj ex_hist_ok ex_rend_run))). Qed.

(* the client's tracks are the leading playlist's tracks followed by one per rendition; each
   track's callbacks are those of its stream processor *)
Theorem c10_client_fmp4 : forall leading rends out,
  runClientFMP4 leading rends = Ok out ->
  exists a conv hist,
    runLeadingFMP4 leading = Ok (a, conv, hist) /\
    (forall j, (j < length (st_init leading))%nat -> proj j out = proj j a) /\
    (forall k st, nth_error rends k = Some st ->
       exists bk, runRenditionFMP4 conv hist st = Ok bk /\
                  proj (length (st_init leading) + k) out = proj 0 bk).
Proof. exact runClientFMP4_decompose. Qed.
Print Assumptions c10_client_fmp4.

Example c10_client_fmp4_ex :
  exists out, runClientFMP4 ex_stream [ex_rend] = Ok out /\ length (proj 2 out) = 1%nat.
Proof. exact ex_client. Qed.

(* c10_nonneg: handleData, the only place a callback is made, never passes a negative pts *)
Theorem c10_nonneg : forall rate el pts dts ntp data d,
  handleData rate el pts dts ntp data = Ok (Some d) -> 0 <= dl_pts d /\ dl_pts d = pts /\ dl_dts d = dts.
Proof. exact handleData_nonneg. Qed.
Print Assumptions c10_nonneg.

(* dts is non-negative as well on the leading track ... *)
Theorem c10_dts_nonneg_leading : forall B rl c, rl <> 0 -> B <= c ->
  exists d, fmp4_convert {| leadingTimeScale := rl; leadingBaseTime := B |} c rl = Ok d /\ 0 <= d.
Proof. exact dts_nonneg_leading. Qed.
Print Assumptions c10_dts_nonneg_leading.

(* ... and wherever the pts offset is not positive; BUT a unit of another track whose decode
   time precedes the origin while its presentation time does not is delivered as the code
   stands, with a negative dts (visible to the application only through OnDataH26x, i.e.
   for a second video track - outside C10's "1 video + audio" quantifier) *)
Theorem c10_negative_dts_is_delivered :
  exists out d, runClientFMP4 neg_dts_stream [] = Ok out /\ In d (proj 1 out) /\
                dl_dts d < 0 /\ 0 <= dl_pts d.
Proof. exact negative_dts_delivered. Qed.
Print Assumptions c10_negative_dts_is_delivered.

(* ------------------------------------------------------------------ MPEG-TS *)

(* c10_mpegts_unwrap: true 90 kHz times t_0, t_1, .. fed as t_k mod 2^33 in call order, each
   within [-2^32, 2^32) of its predecessor: Decode returns t_k - t_0, wherever t_0 lies on the
   circle and however many wraps occur *)
Theorem c10_mpegts_unwrap : forall t0 ts,
  gaps_ok t0 ts ->
  decode_all td_zero (map wrap33 (t0 :: ts)) = map (fun t => t - t0) (t0 :: ts).
Proof. exact mpegts_unwrap. Qed.
Print Assumptions c10_mpegts_unwrap.

Example c10_mpegts_unwrap_ex :
  gaps_ok 8589933592 long_stream /\ 19 * M33 < last long_stream 0 - 8589933592.
Proof. exact (conj long_stream_gaps long_stream_wraps). Qed.

(* from any later decoder state too (a rendition joining the shared converter) *)
Theorem c10_mpegts_unwrap_from : forall ts t0 p d,
  td_inv t0 p d -> gaps_ok p ts ->
  decode_all d (map wrap33 ts) = map (fun t => t - t0) ts.
Proof. exact decode_all_from. Qed.
Print Assumptions c10_mpegts_unwrap_from.

(* the bound is tight: a forward jump of exactly 2^32 ticks (13.25 h) is mis-decoded *)
Theorem c10_mpegts_unwrap_tight :
  exists t0 t1, t1 - t0 = 4294967296 /\
    decode_all td_zero (map wrap33 [t0; t1]) <> map (fun t => t - t0) [t0; t1].
Proof. exact gap_bound_tight. Qed.
Print Assumptions c10_mpegts_unwrap_tight.

(* c10_all_delivered + c10_mpegts_time: a stream processor (isL = the leading playlist's;
   otherwise a rendition's, joining a converter with origin t0g) fed with the 33-bit values
   of true times delivers, per track, exactly the units from the leading track's first unit
   on ([processed]: what the demultiplexer hands over earlier is dropped BY DESIGN - the
   processor waits for the leading track - whatever its timestamp), in order, once, with
   pts = true pts - t0, dts = true dts - t0, filtered by pts >= 0. t0 is the decode time of
   the leading track's first unit; the Decode calls are: that dts, then pts and dts of every
   processed unit in order ([pes_gaps]: consecutive calls less than 2^32 ticks apart). *)
Theorem c10_all_delivered_mpegts : forall isL st s0 s' out t0g lastg j,
  (isL = true \/ exists td, m_td s0 = Some td /\ td_inv t0g lastg td) ->
  runStreamMPEGTS isL s0 (wrap_stream st) = Ok (s', out) ->
  let tracks := mst_tracks st in
  let p := processed st in
  let t0 := if isL then origin_of tracks p else t0g in
  let last0 := if isL then origin_of tracks p else lastg in
  pes_gaps tracks last0 p ->
  map dkey (proj j out) = filter keepk (map (mnorm tracks t0) (track_units tracks j p)).
Proof. exact mpegts_stream_delivers. Qed.
Print Assumptions c10_all_delivered_mpegts.

Theorem c10_mpegts_time : forall isL st s0 s' out t0g lastg j d,
  (isL = true \/ exists td, m_td s0 = Some td /\ td_inv t0g lastg td) ->
  runStreamMPEGTS isL s0 (wrap_stream st) = Ok (s', out) ->
  let tracks := mst_tracks st in
  let p := processed st in
  let t0 := if isL then origin_of tracks p else t0g in
  let last0 := if isL then origin_of tracks p else lastg in
  pes_gaps tracks last0 p ->
  In d (proj j out) ->
  exists e, In e p /\ pe_track e = j /\
    dl_pts d = pe_rawPTS e - t0 /\ dl_dts d = tdts tracks e - t0 /\
    dl_data d = pe_payload e /\ 0 <= dl_pts d.
Proof. exact mpegts_time. Qed.
Print Assumptions c10_mpegts_time.

Example c10_mpegts_time_ex :
  runStreamMPEGTS true mstate_zero (wrap_stream ex_mstream) = Ok (ex_m_state, ex_m_out) /\
  pes_gaps (mst_tracks ex_mstream) (origin_of (mst_tracks ex_mstream) (processed ex_mstream))
           (processed ex_mstream) /\
  map dkey (proj 1 ex_m_out) = [(6000, 0, 3); (3000, 3000, 5); (9000, 6000, 8)] /\
  map dkey (proj 0 ex_m_out) = [(3340, 3340, 6); (5260, 5260, 7)] /\
  wrap33 (ex_S + 3000) < wrap33 ex_S.
Proof. exact (conj ex_m_run (conj ex_m_gaps ex_m_delivered)). Qed.

(* the state a stream processor leaves lets the next one continue (shared converter) *)
Theorem c10_mpegts_converter_state : forall isL st s0 s' out t0g lastg,
  (isL = true \/ exists td, m_td s0 = Some td /\ td_inv t0g lastg td) ->
  runStreamMPEGTS isL s0 (wrap_stream st) = Ok (s', out) ->
  let tracks := mst_tracks st in
  let p := processed st in
  let t0 := if isL then origin_of tracks p else t0g in
  let last0 := if isL then origin_of tracks p else lastg in
  pes_gaps tracks last0 p ->
  mkeys out = flat_map (unit_out tracks t0) p
  /\ (mst_segments st <> [] -> started t0 (last_time tracks last0 p) s').
Proof. exact runStream_keys. Qed.
Print Assumptions c10_mpegts_converter_state.

(* ------------------------------------------------------------------ MPEG-TS: the PMT *)

(* "the client reports exactly the stream's supported tracks": the PMT ([pmt_tracks], what
   mediacommon's Reader.Tracks() returns) may list elementary streams the client does not
   support ([POther]: H265, MPEG-1/2/4 video, MPEG-1 audio, AC-3, Opus, unknown) anywhere.
   [supportedTracks] are the reported tracks, [supportedIndex l k] the client track of PMT
   entry k. A PMT entry is a client track iff it is H264 or MPEG-4 audio; its position among
   the client tracks is the number of supported entries before it. *)
Theorem c10_pmt_track_position : forall l k i,
  supportedIndex l k = Some i <->
  exists c m, nth_error l k = Some c /\ codec_of c = Some m /\
              i = length (supportedTracks (firstn k l)).
Proof. exact supportedIndex_spec. Qed.
Print Assumptions c10_pmt_track_position.

(* that client track has the entry's codec *)
Theorem c10_pmt_track_codec : forall l k i,
  supportedIndex l k = Some i ->
  exists c m, nth_error l k = Some c /\ codec_of c = Some m /\ nth_error (supportedTracks l) i = Some m.
Proof. exact supportedIndex_nth. Qed.
Print Assumptions c10_pmt_track_codec.

(* every reported track is a PMT entry (nothing invented), PMT order is kept (hence no entry
   is reported twice) *)
Theorem c10_pmt_tracks_complete : forall l i m,
  nth_error (supportedTracks l) i = Some m -> exists k, supportedIndex l k = Some i.
Proof. exact supportedIndex_surj. Qed.
Print Assumptions c10_pmt_tracks_complete.

Theorem c10_pmt_order : forall l k1 k2 i1 i2,
  supportedIndex l k1 = Some i1 -> supportedIndex l k2 = Some i2 -> (k1 < k2)%nat -> (i1 < i2)%nat.
Proof. exact supportedIndex_mono. Qed.
Print Assumptions c10_pmt_order.

(* exactly the unsupported entries (and PIDs outside the PMT) have no callback *)
Theorem c10_pmt_unsupported_dropped : forall l k,
  supportedIndex l k = None <-> nth_error l k = None \/ nth_error l k = Some POther.
Proof. exact supportedIndex_None. Qed.
Print Assumptions c10_pmt_unsupported_dropped.

(* the leading track is the client track of the FIRST H264 ENTRY OF THE PMT, whatever
   precedes it, and client track 0 (the first supported entry) when there is none *)
Theorem c10_pmt_leading : forall l,
  match firstPH264 l with
  | Some k => supportedIndex l k = Some (mpegtsPickLeadingTrack (supportedTracks l))
  | None => mpegtsPickLeadingTrack (supportedTracks l) = O
  end.
Proof. exact pmt_leading. Qed.
Print Assumptions c10_pmt_leading.

(* ... an index into the filtered list: the H264 entry's position in the PMT designates
   another track, or none, as soon as an unsupported entry precedes it *)
Theorem c10_pmt_position_is_not_index :
  exists l k, firstPH264 l = Some k /\
    mpegtsPickLeadingTrack (supportedTracks l) <> k /\
    nth_error (supportedTracks l) k = Some MAudio.
Proof. exact pmt_position_is_not_index. Qed.
Print Assumptions c10_pmt_position_is_not_index.

Theorem c10_pmt_position_is_not_index_none :
  exists l k, firstPH264 l = Some k /\ nth_error (supportedTracks l) k = None.
Proof. exact pmt_position_is_not_index_none. Qed.
Print Assumptions c10_pmt_position_is_not_index_none.

(* c10_all_delivered_mpegts / c10_mpegts_time for a PMT-level stream: the stream processor
   works on [readerView st] (supported tracks; the PES of their PIDs, in order) *)
Theorem c10_pmt_view : forall st,
  mst_tracks (readerView st) = supportedTracks (pmt_tracks st) /\
  all_pes (mst_segments (readerView st))
  = flat_map (readerDispatch (pmt_tracks st)) (all_pes (pmt_segments st)).
Proof. exact (fun st => conj eq_refl (readerView_all_pes st)). Qed.
Print Assumptions c10_pmt_view.

Theorem c10_all_delivered_pmt : forall isL st s0 s' out t0g lastg j,
  (isL = true \/ exists td, m_td s0 = Some td /\ td_inv t0g lastg td) ->
  runStreamPMT isL s0 (wrap_pmt st) = Ok (s', out) ->
  let v := readerView st in
  let tracks := mst_tracks v in
  let p := processed v in
  let t0 := if isL then origin_of tracks p else t0g in
  let last0 := if isL then origin_of tracks p else lastg in
  pes_gaps tracks last0 p ->
  map dkey (proj j out) = filter keepk (map (mnorm tracks t0) (track_units tracks j p)).
Proof. exact pmt_stream_delivers. Qed.
Print Assumptions c10_all_delivered_pmt.

(* every callback on client track j carries a PES that arrived on the PID of the supported
   PMT entry which is client track j, with time = true time - origin *)
Theorem c10_pmt_time : forall isL st s0 s' out t0g lastg j d,
  (isL = true \/ exists td, m_td s0 = Some td /\ td_inv t0g lastg td) ->
  runStreamPMT isL s0 (wrap_pmt st) = Ok (s', out) ->
  let v := readerView st in
  let tracks := mst_tracks v in
  let p := processed v in
  let t0 := if isL then origin_of tracks p else t0g in
  let last0 := if isL then origin_of tracks p else lastg in
  pes_gaps tracks last0 p ->
  In d (proj j out) ->
  exists e c, In e (all_pes (pmt_segments st)) /\
    supportedIndex (pmt_tracks st) (pe_track e) = Some j /\
    nth_error (pmt_tracks st) (pe_track e) = Some c /\ c <> POther /\
    dl_pts d = pe_rawPTS e - t0 /\
    dl_dts d = (match c with PH264 => pe_rawDTS e | _ => pe_rawPTS e end) - t0 /\
    dl_data d = pe_payload e /\ 0 <= dl_pts d.
Proof. exact pmt_time. Qed.
Print Assumptions c10_pmt_time.

(* PMT [MPEG-1 audio; H264; MPEG-4 audio; AC-3]: tracks H264, MPEG-4 audio; origin = first
   H264 dts; the MPEG-1 audio and AC-3 PES never reach a callback *)
Example c10_pmt_ex :
  runStreamPMT true mstate_zero (wrap_pmt ex_pmt) = Ok (ex_pmt_state, ex_pmt_out) /\
  reportedTracksPMT ex_pmt [] = [MH264; MAudio] /\
  firstPH264 (pmt_tracks ex_pmt) = Some 1%nat /\
  mpegtsPickLeadingTrack (supportedTracks (pmt_tracks ex_pmt)) = 0%nat /\
  pes_gaps (mst_tracks (readerView ex_pmt))
           (origin_of (mst_tracks (readerView ex_pmt)) (processed (readerView ex_pmt)))
           (processed (readerView ex_pmt)) /\
  map dkey (proj 0 ex_pmt_out) = [(6000, 0, 2); (3000, 3000, 5)] /\
  map dkey (proj 1 ex_pmt_out) = [(1500, 1500, 4)].
Proof. exact (conj ex_pmt_run ex_pmt_facts). Qed.

(* no callback is ever made on a position beyond the reported tracks (leading playlist's
   supported tracks, then each rendition's) *)
Theorem c10_pmt_reported_only : forall leading rends out,
  runClientPMT leading rends = Ok out ->
  Forall (fun x => (fst x < length (reportedTracksPMT leading rends))%nat) out.
Proof. exact runClientPMT_pos. Qed.
Print Assumptions c10_pmt_reported_only.

(* a playlist without any supported elementary stream is refused ("no supported tracks
   found"), one with more than ten supported ones too; unsupported entries do not count *)
Theorem c10_pmt_refused : forall isL s st,
  pmt_segments st <> [] ->
  (supportedTracks (pmt_tracks st) = [] -> runStreamPMT isL s st = Err ErrNoSupportedTracks) /\
  ((clientMaxTracksPerStream < length (supportedTracks (pmt_tracks st)))%nat ->
   runStreamPMT isL s st = Err ErrTooManyTracks).
Proof. exact runStreamPMT_refused. Qed.
Print Assumptions c10_pmt_refused.

(* ------------------------------------------------------------------ AbsoluteTime *)

(* c10_abs_time, MPEG-TS, leading playlist: from the segment's first leading-track unit e0 on,
   AbsoluteTime = DateTime + duration_of(dts - dts(e0)) (duration_of = ticks*1e9 quot 90000) *)
Theorem c10_abs_time_mpegts : forall tracks lead dtv e0 post s t0 last s' out,
  started t0 last s -> m_dateTimeProcessed s = false ->
  isLeadUnit tracks lead e0 = true ->
  pes_gaps tracks last (e0 :: post) ->
  processPES true tracks lead (Some dtv) s (map wrap_pes (e0 :: post)) = Ok (s', out) ->
  forall j d, In (j, d) out ->
    dl_ntp d = Some (dtv + Z.quot ((dl_dts d - (tdts tracks e0 - t0)) * second) 90000).
Proof. exact mpegts_abs_time. Qed.
Print Assumptions c10_abs_time_mpegts.

(* stated, not hidden: units of other tracks that the demultiplexer hands over before the
   segment's first leading-track unit are stamped from the PREVIOUS anchor (equal to the
   above only if consecutive dates are consistent with the media timeline) *)
Theorem c10_abs_time_mpegts_before : forall tracks lead dt pre s t0 last s' out,
  started t0 last s -> m_dateTimeProcessed s = false ->
  dropUntilLead tracks lead pre = [] ->
  pes_gaps tracks last pre ->
  processPES true tracks lead dt s (map wrap_pes pre) = Ok (s', out) ->
  m_ntp s' = m_ntp s /\ m_dateTimeProcessed s' = false /\
  forall j d, In (j, d) out -> dl_ntp d = spec_mgetNTP (m_ntp s) (dl_dts d).
Proof. exact mpegts_abs_time_before. Qed.
Print Assumptions c10_abs_time_mpegts_before.

(* c10_abs_time, fMP4, leading playlist: every callback of segment k carries
   getNTP(anchor_k, part dts) + duration_of(dts - part dts); for a dated segment the anchor is
   (DateTime, converted base time of the segment's first leading part track) *)
Theorem c10_abs_time_fmp4 : forall st out conv h j d,
  wf_init (st_init st) -> wf_segs (st_segments st) ->
  runLeadingFMP4 st = Ok (out, Some conv, h) -> In (j, d) out ->
  exists lid k seg n pt rate,
    fmp4PickLeadingTrack (st_init st) = Ok lid /\
    nth_error (st_segments st) k = Some seg /\ nth_error h k = Some n /\
    In pt (concat (sg_parts seg)) /\ lookupProc (st_init st) (pt_id pt) = Some (j, rate) /\
    (let pd := pt_baseTime pt - leadingBaseTime conv * rate / leadingTimeScale conv in
     dl_ntp d = match spec_getNTP n pd rate with
                | None => None
                | Some v => Some (v + Z.quot ((dl_dts d - pd) * second) rate)
                end) /\
    (forall dt lpt jj R,
       sg_dateTime seg = Some dt ->
       findFirstPartTrackOfLeadingTrack (sg_parts seg) lid = Some lpt ->
       lookupProc (st_init st) (pt_id lpt) = Some (jj, R) ->
       n = fmp4_setNTP dt (pt_baseTime lpt - leadingBaseTime conv * R / leadingTimeScale conv) R).
Proof. exact fmp4_abs_time. Qed.
Print Assumptions c10_abs_time_fmp4.

(* and that value is the ideal  DateTime + (c/r - L/rl) s  (c = base + cum the unit's container
   dts in clock r, L the segment's first leading base time in clock rl) up to the integer
   clocks: off is the offset added to DateTime; with denominators cleared (times r*rl),
   -2 ns < off - ideal < 2 ticks of r + 2 ns *)
Theorem c10_abs_time_fmp4_envelope : forall B L rl r base cum,
  0 <= B -> B <= L -> 0 < rl -> 0 < r ->
  let pd := base - B * r / rl in
  let x := (L - B) * r / rl in
  let off := Z.quot ((pd - x) * second) r + Z.quot (cum * second) r in
  let ideal_num := second * ((base + cum) * rl - L * r) in
  - 2 * r * rl < off * r * rl - ideal_num < 2 * second * rl + 2 * r * rl.
Proof. exact fmp4_ntp_envelope. Qed.
Print Assumptions c10_abs_time_fmp4_envelope.

(* ------------------------------------------------------------------ byte-range addressing *)

(* FINDING (signature C10:<container>:range-implicit:<what>): an EXT-X-BYTERANGE tag giving a
   length n without an offset designates the bytes following the previous segment's sub-range
   (RFC 8216 4.3.2.2); downloadSegment requests bytes 0..n-1 instead. *)
Theorem c10_byterange_refuted :
  exists l, ~ In Undefined (rfcRanges None l) /\ codeRanges l <> rfcRanges None l.
Proof. exact byterange_refuted. Qed.
Print Assumptions c10_byterange_refuted.

(* with explicit offsets (every playlist gohlslib's own Muxer writes) the requested ranges are
   the designated ones *)
Theorem c10_byterange_partial : forall l prev,
  Forall (fun r => sr_length r <> None -> sr_start r <> None) l ->
  codeRanges l = rfcRanges prev l.
Proof. exact byterange_partial. Qed.
Print Assumptions c10_byterange_partial.

Example c10_byterange_partial_ex :
  Forall (fun r => sr_length r <> None -> sr_start r <> None)
         [ {| sr_uri := 1; sr_start := Some 0; sr_length := Some 100 |};
           {| sr_uri := 1; sr_start := Some 100; sr_length := Some 50 |};
           {| sr_uri := 2; sr_start := None; sr_length := None |} ].
Proof. exact ex_byterange_explicit. Qed.
