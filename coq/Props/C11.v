(* C11 - Client fetches segments consecutively, exactly once, from the right start.
   Only the property theorems (each closed by [exact]) and [Print Assumptions].
   Model: Model/ClientSel.v (fillSegmentQueue, runTraditional, runLowLatency, run; URL oracles
   [resolve] / [with_skip] universally quantified). Proofs: Proofs/ClientSel{Fill,Run,Main}.v.
   Every statement is for ALL histories (lists of playlists the server returns, one per poll) -
   no assumption on how MEDIA-SEQUENCE, the window, ENDLIST or the type evolve.

   Vocabulary (Proofs/ClientSelRun.v):
     EvPlaylist k skip / EvInit m / EvSegment k pos msn seg / EvHint k ph : the request log;
       k = index of the poll whose playlist the request was derived from, pos = position in it.
     prelude fp        = [EvPlaylist 0 false] ++ [EvInit m] if the first playlist has a Map URI.
     truthful h k pos m seg : seg is the entry at position pos of the k-th playlist of h and its
       media sequence number MediaSequence + pos is m.
     trad_trace h k m l : l = segment m from poll k; ONE playlist request; segment m+1 from poll
       k+1; ... (every segment request truthful).
     ll_trace h skip k l : l = hint of playlist k; ONE playlist request carrying skip; hint of k+1 ...
     requested .. h log o l1 k pos m seg l2 pl : run h = (log,o), log = l1 ++ EvSegment k pos m seg :: l2
       and pl is the k-th playlist of h. *)
From Coq Require Import List ZArith String Bool.
From GoHls Require Import Model.ClientSel Proofs.ClientSelFill Proofs.ClientSelRun Proofs.ClientSelMain.
Import ListNotations.
Local Open Scope Z_scope.

(* ---------- c11_start ---------- *)
Theorem c11_start_vod :
  forall (resolve : string -> string -> option string) (purl : string) (fp : playlist)
         (rest : list playlist) (seg : segment) (segs : list segment),
    isLowLatency fp = false -> init_ok resolve purl fp ->
    PlaylistType fp = PTVod -> Segments fp = seg :: segs ->
    resolves resolve purl (sg_uri seg) = true ->
    exists l, fst (run resolve purl (fp :: rest)) =
              prelude fp ++ EvSegment 0 0 (MediaSequence fp) seg :: l.
Proof. exact start_vod. Qed.
Print Assumptions c11_start_vod.

Theorem c11_start_live :
  forall (resolve : string -> string -> option string) (purl : string) (fp : playlist)
         (rest : list playlist),
    isLowLatency fp = false -> init_ok resolve purl fp ->
    PlaylistType fp <> PTVod -> clientLiveInitialDistance <= len (Segments fp) ->
    exists seg,
      nth_error (Segments fp) (Z.to_nat (len (Segments fp) - clientLiveInitialDistance)) = Some seg /\
      (resolves resolve purl (sg_uri seg) = true ->
       exists l, fst (run resolve purl (fp :: rest)) =
                 prelude fp ++
                 EvSegment 0 (len (Segments fp) - clientLiveInitialDistance)
                           (MediaSequence fp + (len (Segments fp) - clientLiveInitialDistance)) seg :: l).
Proof. exact start_live. Qed.
Print Assumptions c11_start_live.

(* too few segments on a live playlist: error, and no segment request at all *)
Theorem c11_start_live_short :
  forall (resolve : string -> string -> option string) (purl : string) (fp : playlist)
         (rest : list playlist),
    isLowLatency fp = false -> init_ok resolve purl fp ->
    PlaylistType fp <> PTVod -> len (Segments fp) < clientLiveInitialDistance ->
    run resolve purl (fp :: rest) = (prelude fp, OErrNotEnough).
Proof. exact start_live_short. Qed.
Print Assumptions c11_start_live_short.

Theorem c11_start_vod_empty :
  forall (resolve : string -> string -> option string) (purl : string) (fp : playlist)
         (rest : list playlist),
    isLowLatency fp = false -> init_ok resolve purl fp ->
    PlaylistType fp = PTVod -> Segments fp = [] ->
    run resolve purl (fp :: rest) = (prelude fp, OErrNoSegments).
Proof. exact start_vod_empty. Qed.
Print Assumptions c11_start_vod_empty.

(* ---------- c11_consecutive ---------- *)
(* the whole log after (a prefix of) the prelude is: segment m, one playlist request, segment m+1, ... *)
Theorem c11_consecutive :
  forall (resolve : string -> string -> option string) (purl : string) (fp : playlist)
         (rest : list playlist) (log : list event) (o : outcome),
    isLowLatency fp = false ->
    run resolve purl (fp :: rest) = (log, o) ->
    exists l m, log = firstn (List.length log - List.length l) (prelude fp) ++ l /\
                trad_trace (fp :: rest) 0 m l.
Proof. exact consecutive. Qed.
Print Assumptions c11_consecutive.

Theorem c11_consecutive_msns :
  forall (resolve : string -> string -> option string) (purl : string) (fp : playlist)
         (rest : list playlist) (log : list event) (o : outcome),
    isLowLatency fp = false ->
    run resolve purl (fp :: rest) = (log, o) ->
    exists m, map ev_msn (seg_events log) = zseq m (List.length (seg_events log)).
Proof. exact consecutive_msns. Qed.
Print Assumptions c11_consecutive_msns.

Theorem c11_exactly_once :
  forall (resolve : string -> string -> option string) (purl : string) (fp : playlist)
         (rest : list playlist) (log : list event) (o : outcome),
    isLowLatency fp = false ->
    run resolve purl (fp :: rest) = (log, o) -> NoDup (map ev_msn (seg_events log)).
Proof. exact exactly_once. Qed.
Print Assumptions c11_exactly_once.

(* findSegmentWithID: the index arithmetic id - MediaSequence selects the entry whose media
   sequence number is id, or nothing *)
Theorem c11_find_id_found :
  forall (seqNo : Z) (segments : list segment) (id : Z),
    seqNo <= id < seqNo + len segments ->
    exists s, nth_error segments (Z.to_nat (id - seqNo)) = Some s /\
              findSegmentWithID seqNo segments id = Found3 s (id - seqNo) (len segments - (id - seqNo)).
Proof. exact findSegmentWithID_found. Qed.
Print Assumptions c11_find_id_found.

Theorem c11_find_id_absent :
  forall (seqNo : Z) (segments : list segment) (id : Z),
    id < seqNo \/ seqNo + len segments <= id -> findSegmentWithID seqNo segments id = Nil3.
Proof. exact findSegmentWithID_nil. Qed.
Print Assumptions c11_find_id_absent.

(* ---------- c11_stop_not_jump ---------- *)
Theorem c11_stop_next :
  forall (resolve : string -> string -> option string) (purl : string) (fp : playlist)
         (rest : list playlist) (log : list event) (o : outcome) (l1 : list event) (k : nat)
         (pos m : Z) (seg : segment) (l2 : list event) (pl pl' : playlist),
    requested resolve purl (fp :: rest) log o l1 k pos m seg l2 pl ->
    ~ (Endlist pl = true /\ pos = len (Segments pl) - 1) ->
    nth_error (fp :: rest) (S k) = Some pl' ->
    m + 1 < MediaSequence pl' \/ MediaSequence pl' + len (Segments pl') <= m + 1 ->
    ~ ended_after m pl' ->   (* not: ENDLIST and m was its last segment - that is c11_eos_endlist_after_last *)
    l2 = [EvPlaylist (S k) false] /\ o = OErrNext.
Proof. exact stop_next. Qed.
Print Assumptions c11_stop_next.

Theorem c11_stop_too_late :
  forall (resolve : string -> string -> option string) (purl : string) (fp : playlist)
         (rest : list playlist) (log : list event) (o : outcome) (l1 : list event) (k : nat)
         (pos m : Z) (seg : segment) (l2 : list event) (pl pl' : playlist),
    requested resolve purl (fp :: rest) log o l1 k pos m seg l2 pl ->
    ~ (Endlist pl = true /\ pos = len (Segments pl) - 1) ->
    nth_error (fp :: rest) (S k) = Some pl' ->
    MediaSequence pl' <= m + 1 < MediaSequence pl' + len (Segments pl') ->
    Endlist pl' = false ->
    clientLiveMaxDistanceFromEnd < MediaSequence pl' + len (Segments pl') - (m + 1) ->
    l2 = [EvPlaylist (S k) false] /\ o = OErrTooLate.
Proof. exact stop_too_late. Qed.
Print Assumptions c11_stop_too_late.

(* otherwise exactly the entry with MSN m+1 of the next playlist is requested next *)
Theorem c11_continue_next :
  forall (resolve : string -> string -> option string) (purl : string) (fp : playlist)
         (rest : list playlist) (log : list event) (o : outcome) (l1 : list event) (k : nat)
         (pos m : Z) (seg : segment) (l2 : list event) (pl pl' : playlist),
    requested resolve purl (fp :: rest) log o l1 k pos m seg l2 pl ->
    ~ (Endlist pl = true /\ pos = len (Segments pl) - 1) ->
    nth_error (fp :: rest) (S k) = Some pl' ->
    MediaSequence pl' <= m + 1 < MediaSequence pl' + len (Segments pl') ->
    Endlist pl' = true \/
    MediaSequence pl' + len (Segments pl') - (m + 1) <= clientLiveMaxDistanceFromEnd ->
    exists seg',
      nth_error (Segments pl') (Z.to_nat (m + 1 - MediaSequence pl')) = Some seg' /\
      (resolves resolve purl (sg_uri seg') = true ->
       exists l3, l2 = EvPlaylist (S k) false ::
                       EvSegment (S k) (m + 1 - MediaSequence pl') (m + 1) seg' :: l3) /\
      (resolves resolve purl (sg_uri seg') = false ->
       l2 = [EvPlaylist (S k) false] /\ o = OErrResolve).
Proof. exact continue_next. Qed.
Print Assumptions c11_continue_next.

Theorem c11_server_gone :
  forall (resolve : string -> string -> option string) (purl : string) (fp : playlist)
         (rest : list playlist) (log : list event) (o : outcome) (l1 : list event) (k : nat)
         (pos m : Z) (seg : segment) (l2 : list event) (pl : playlist),
    requested resolve purl (fp :: rest) log o l1 k pos m seg l2 pl ->
    ~ (Endlist pl = true /\ pos = len (Segments pl) - 1) ->
    nth_error (fp :: rest) (S k) = None ->
    l2 = [EvPlaylist (S k) false] /\ o = OServerGone.
Proof. exact server_gone. Qed.
Print Assumptions c11_server_gone.

(* ---------- c11_eos ---------- *)
(* the model follows /repo after fix 3b9aa17 (former finding C11-F11): full strength *)

(* the request for the last segment of an ENDLIST playlist, selected from that playlist, is the
   final request and the stream ends *)
Theorem c11_eos_last_segment :
  forall (resolve : string -> string -> option string) (purl : string) (fp : playlist)
         (rest : list playlist) (log : list event) (o : outcome) (l1 : list event) (k : nat)
         (pos m : Z) (seg : segment) (l2 : list event) (pl : playlist),
    requested resolve purl (fp :: rest) log o l1 k pos m seg l2 pl ->
    Endlist pl = true -> pos = len (Segments pl) - 1 ->
    l2 = [] /\ o = OEOS.
Proof. exact eos_last_segment. Qed.
Print Assumptions c11_eos_last_segment.

(* ENDLIST shows up at the next poll and segment m was that playlist's last one: one playlist
   request, then the stream ends - no error, no further request *)
Theorem c11_eos_endlist_after_last :
  forall (resolve : string -> string -> option string) (purl : string) (fp : playlist)
         (rest : list playlist) (log : list event) (o : outcome) (l1 : list event) (k : nat)
         (pos m : Z) (seg : segment) (l2 : list event) (pl pl' : playlist),
    requested resolve purl (fp :: rest) log o l1 k pos m seg l2 pl ->
    ~ (Endlist pl = true /\ pos = len (Segments pl) - 1) ->
    nth_error (fp :: rest) (S k) = Some pl' ->
    Endlist pl' = true -> m = MediaSequence pl' + len (Segments pl') - 1 ->
    l2 = [EvPlaylist (S k) false] /\ o = OEOS.
Proof. exact eos_endlist_after_last. Qed.
Print Assumptions c11_eos_endlist_after_last.

(* history level: for every history of a consistent server (a playlist carrying ENDLIST never
   changes again - RFC 8216 6.2.1 -, the last media sequence number never moves backwards):
   whenever the client has polled a playlist carrying ENDLIST and has requested that playlist's
   last media sequence number, the stream ends with EOS.
   (eos_full is the statement that was refuted for the code before 3b9aa17.) *)
Theorem c11_eos :
  forall (resolve : string -> string -> option string) (purl : string) (h : list playlist),
    endlist_final h -> end_monotone h ->
    forall log o, run resolve purl h = (log, o) ->
    forall k pl s, nth_error h k = Some pl -> Endlist pl = true -> In (EvPlaylist k s) log ->
      In (MediaSequence pl + len (Segments pl) - 1) (map ev_msn (seg_events log)) ->
      o = OEOS.
Proof. exact eos_full_consistent. Qed.
Print Assumptions c11_eos.

(* EOS arises only in these two ways *)
Theorem c11_eos_only_at_end :
  forall (resolve : string -> string -> option string) (purl : string) (fp : playlist)
         (rest : list playlist) (log : list event) (o : outcome),
    run resolve purl (fp :: rest) = (log, o) -> o = OEOS ->
    (exists l1 k pos m seg pl,
       log = l1 ++ [EvSegment k pos m seg] /\ nth_error (fp :: rest) k = Some pl /\
       Endlist pl = true /\ pos = len (Segments pl) - 1) \/
    (exists l1 k pos m seg pl',
       log = l1 ++ [EvSegment k pos m seg; EvPlaylist (S k) false] /\
       nth_error (fp :: rest) (S k) = Some pl' /\
       Endlist pl' = true /\ m = MediaSequence pl' + len (Segments pl') - 1).
Proof. exact eos_only_at_end. Qed.
Print Assumptions c11_eos_only_at_end.

(* when every stream ended Client.Wait returns ErrClientEOS, and only then *)
Theorem c11_client_eos :
  forall (outs : list outcome) (r : outcome),
    forallb is_eos outs = true -> (client_result outs r = true <-> r = OEOS).
Proof. exact client_eos_iff. Qed.
Print Assumptions c11_client_eos.

Theorem c11_client_error :
  forall (outs : list outcome) (r : outcome),
    forallb is_eos outs = false -> client_result outs r = true -> r <> OEOS /\ In r outs.
Proof. exact client_error. Qed.
Print Assumptions c11_client_error.

(* ---------- c11_urls ---------- *)
Theorem c11_urls_segment :
  forall (resolve : string -> string -> option string) (purl : string)
         (with_skip : string -> string) (fp : playlist) (rest : list playlist) (log : list event)
         (o : outcome) (k : nat) (pos m : Z) (seg : segment),
    run resolve purl (fp :: rest) = (log, o) ->
    In (EvSegment k pos m seg) log ->
    exists pl u,
      nth_error (fp :: rest) k = Some pl /\
      MediaSequence pl <= m < MediaSequence pl + len (Segments pl) /\
      pos = m - MediaSequence pl /\
      nth_error (Segments pl) (Z.to_nat (m - MediaSequence pl)) = Some seg /\
      resolve purl (sg_uri seg) = Some u /\
      wire resolve with_skip purl (EvSegment k pos m seg) =
      Some {| w_kind := WSegment; w_url := u;
              w_range := segment_range (sg_start seg) (sg_length seg) |}.
Proof. exact segment_request_wire. Qed.
Print Assumptions c11_urls_segment.

Theorem c11_urls_every_request :
  forall (resolve : string -> string -> option string) (with_skip : string -> string)
         (purl : string) (h : list playlist) (log : list event) (o : outcome) (e : event),
    run resolve purl h = (log, o) -> In e log ->
    exists w, wire resolve with_skip purl e = Some w.
Proof. exact wire_total. Qed.
Print Assumptions c11_urls_every_request.

Theorem c11_range_none : forall start, segment_range start None = None.
Proof. exact segment_range_none. Qed.
Print Assumptions c11_range_none.

Theorem c11_range_start_absent :
  forall l, 1 <= l <= 2 ^ 64 ->
    segment_range None (Some l) = Some ("bytes=0-" ++ dec (l - 1))%string.
Proof. exact segment_range_start_absent. Qed.
Print Assumptions c11_range_start_absent.

Theorem c11_range_start_present :
  forall s l, 0 <= s -> 1 <= l -> s + l <= 2 ^ 64 ->
    segment_range (Some s) (Some l) = Some ("bytes=" ++ dec s ++ "-" ++ dec (s + l - 1))%string.
Proof. exact segment_range_start_present. Qed.
Print Assumptions c11_range_start_present.

Theorem c11_range_hint :
  forall s l, 0 <= s -> 1 <= l -> s + l <= 2 ^ 64 ->
    hint_range s (Some l) = Some ("bytes=" ++ dec s ++ "-" ++ dec (s + l - 1))%string /\
    hint_range s None = None.
Proof. exact hint_range_spec. Qed.
Print Assumptions c11_range_hint.

Theorem c11_dec_injective : forall a b, 0 <= a -> 0 <= b -> dec a = dec b -> a = b.
Proof. exact dec_inj. Qed.
Print Assumptions c11_dec_injective.

(* ---------- c11_ll ---------- *)
Theorem c11_ll_mode :
  forall fp, isLowLatency fp = true <->
    exists sc ph, ServerControl fp = Some sc /\ sc_canBlockReload sc = true /\ PreloadHint fp = Some ph.
Proof. exact isLowLatency_spec. Qed.
Print Assumptions c11_ll_mode.

Theorem c11_ll :
  forall (resolve : string -> string -> option string) (purl : string) (fp : playlist)
         (rest : list playlist) (log : list event) (o : outcome) (sc : serverControl),
    isLowLatency fp = true -> ServerControl fp = Some sc ->
    run resolve purl (fp :: rest) = (log, o) ->
    exists l, log = firstn (List.length log - List.length l) (prelude fp) ++ l /\
              ll_trace (fp :: rest) (sc_canSkipUntil sc) 0 l.
Proof. exact low_latency. Qed.
Print Assumptions c11_ll.

Theorem c11_ll_first_hint :
  forall (resolve : string -> string -> option string) (purl : string) (fp : playlist)
         (rest : list playlist) (sc : serverControl) (ph : preloadHint),
    isLowLatency fp = true -> init_ok resolve purl fp -> ServerControl fp = Some sc ->
    PreloadHint fp = Some ph -> resolves resolve purl (ph_uri ph) = true ->
    exists l, fst (run resolve purl (fp :: rest)) =
              prelude fp ++ EvHint 0 ph :: EvPlaylist 1 (sc_canSkipUntil sc) :: l.
Proof. exact low_latency_first_hint. Qed.
Print Assumptions c11_ll_first_hint.

(* after a hint: one playlist request (with skip iff the FIRST playlist advertised CAN-SKIP-UNTIL),
   then the hint of the playlist just received, or "preload hint disappeared" *)
Theorem c11_ll_after_hint :
  forall (resolve : string -> string -> option string) (purl : string) (fp : playlist)
         (rest : list playlist) (log : list event) (o : outcome) (sc : serverControl)
         (l1 : list event) (k : nat) (ph : preloadHint) (l2 : list event),
    ServerControl fp = Some sc ->
    run resolve purl (fp :: rest) = (log, o) ->
    log = l1 ++ EvHint k ph :: l2 ->
    ll_follows resolve purl (fp :: rest) (sc_canSkipUntil sc) k l2 o.
Proof. exact after_hint. Qed.
Print Assumptions c11_ll_after_hint.

Theorem c11_ll_skip_url :
  forall (resolve : string -> string -> option string) (purl : string)
         (with_skip : string -> string) (k : nat) (skip : bool),
    wire resolve with_skip purl (EvPlaylist k skip) =
    Some {| w_kind := WPlaylist; w_url := if skip then with_skip purl else purl; w_range := None |}.
Proof. exact playlist_request_wire. Qed.
Print Assumptions c11_ll_skip_url.

Theorem c11_traditional_no_skip :
  forall (resolve : string -> string -> option string) (purl : string) (fp : playlist)
         (rest : list playlist) (log : list event) (o : outcome) (k : nat) (s : bool),
    isLowLatency fp = false ->
    run resolve purl (fp :: rest) = (log, o) -> In (EvPlaylist k s) log -> s = false.
Proof. exact traditional_no_skip. Qed.
Print Assumptions c11_traditional_no_skip.

Theorem c11_urls_hint :
  forall (resolve : string -> string -> option string) (purl : string)
         (with_skip : string -> string) (h : list playlist) (log : list event) (o : outcome)
         (k : nat) (ph : preloadHint),
    run resolve purl h = (log, o) -> In (EvHint k ph) log ->
    exists u, resolve purl (ph_uri ph) = Some u /\
      wire resolve with_skip purl (EvHint k ph) =
      Some {| w_kind := WPart; w_url := u; w_range := hint_range (ph_start ph) (ph_length ph) |}.
Proof. exact hint_request_wire. Qed.
Print Assumptions c11_urls_hint.

(* ---------- no panic, for ANY history (even structurally invalid playlists) ---------- *)
Theorem c11_no_panic :
  forall (resolve : string -> string -> option string) (purl : string) (h : list playlist),
    snd (run resolve purl h) <> OPanic.
Proof. exact no_panic. Qed.
Print Assumptions c11_no_panic.

(* the panic findSegmentWithInvPosition does have (invPos <= 0) is out of reach of its only
   caller, which passes clientLiveInitialDistance = 3 *)
Theorem c11_inv_position_panics_only_nonpositive :
  forall (segments : list segment) (invPos : Z),
    invPos <= 0 -> findSegmentWithInvPosition segments invPos = Panic2.
Proof. exact findSegmentWithInvPosition_panic. Qed.
Print Assumptions c11_inv_position_panics_only_nonpositive.
