(* C08 - one writer + concurrent HTTP readers: no data race, atomic views (generic lemma + table check).
   Only the property theorems (each closed by [exact]) and [Print Assumptions]; the trace model and
   the definition of a race are in Model/Lockset.v, the generic proof in Proofs/LocksetSound.v, the
   access table in Generated/LocksetTable.v (regenerated from /repo on every run), the recorded
   racing pairs in Model/LocksetFindings.v, the atomic-view model in Model/LocksetAtomic.v.
   Atomic / monotone views: a GENERIC lemma (any state type S, any response type R, any generator
   [gen] called under the mutex yields a view of one state; monotone relations are inherited) plus
   the table check that every playlist generator runs under the muxer mutex
   ([c08_generate_under_mutex], the only part tied to the code).  [c08_atomic_view],
   [c08_monotone_view] and the two relation theorems follow from the definition of [run] in
   Model/LocksetAtomic.v with S, R, gen universally quantified. INSTANTIATED with the executable muxer
   model (Proofs/MuxViews.v): the writer's critical sections are the model's write operations, reads
   are interleaved anywhere between them; [c08_muxer_view_reachable] (every response of any generator
   is the generator applied to the state reached from the initial one by a PREFIX of the write
   history), [c08_muxer_views_in_order] (two successive responses to one requester come from states
   of which the later is reached from the earlier by further writes) and [c08_muxer_views_monotone]
   (their streams are related by the history relation R of C04: published list append-only, evictions
   at the head only and counted by MEDIA-SEQUENCE, segment / part counters never decreasing). The
   single-playlist invariants of each response are those of the reachable states (C03-C05 theorems);
   that the real handlers compute [gen] of the state they lock is the table check plus the harness.
   Panic freedom of handle/mux_write is a statement about the sequential muxer model (M3) and is
   exercised here only by the stress harness (see the tie). *)
From Coq Require Import List String Bool Arith ZArith Sorting.Sorted.
From GoHls Require Import Model.Lockset Model.LocksetFindings Model.LocksetCheck Model.LocksetAtomic
     Proofs.LocksetSound Proofs.LocksetTableCheck Proofs.LocksetAtomicProofs Proofs.LocksetExamples
     Generated.LocksetTable Model.Mux Proofs.MuxHistory Proofs.MuxViews.
Import ListNotations.

(* Generic, proved once: if every pair of rows of a table is checked ([pair_safe]: not conflicting,
   or same single thread, or a common mutex held at least once exclusively, or ordered by
   publication), then no well-formed trace that conforms to the rows' claims has a data race
   (two accesses to one location by different threads, one a write, unordered by
   program order U lock hand-over U publication). *)
Theorem c08_lockset_sound : forall (T : list access) tr,
  table_ok T = true -> wf_trace tr -> conforms tr -> runs_table T tr -> ~ race tr.
Proof. exact lockset_sound. Qed.
Print Assumptions c08_lockset_sound.

(* its hypotheses are satisfiable by a two-thread trace with a lock hand-over and a publication,
   and the definition of a race is inhabited by an unguarded pair *)
Theorem c08_hypotheses_satisfiable :
  wf_trace ex_trace /\ conforms ex_trace /\ runs_table exT ex_trace /\ table_ok exT = true /\
  (exists i j t t' a b o, i <> j /\ at_ ex_trace i (Acc t a o) /\ at_ ex_trace j (Acc t' b o) /\
                          t <> t' /\ conflicting a b).
Proof. exact example_hypotheses_satisfiable. Qed.
Print Assumptions c08_hypotheses_satisfiable.

Theorem c08_race_definition_inhabited : race bad_trace /\ table_ok [badW; badR] = false.
Proof. exact example_race. Qed.
Print Assumptions c08_race_definition_inhabited.

(* FINDING (DESIGN F6): the faithful table of the current tree does NOT pass the complete check,
   and each recorded racing pair (field, writing function, other function) is an unsafe pair. *)
Theorem c08_table_refuted :
  ~ (forall p, In p (all_pairs table) -> pair_safe p = true) /\
  (forall e, In e known_racing ->
     exists p, In p (all_pairs table) /\ pair_safe p = false /\ matches loc_names fn_names e p = true).
Proof. exact table_refuted. Qed.
Print Assumptions c08_table_refuted.

(* ... and the unsafe pairs are exactly the recorded ones: a new unsafe pair, or a recorded pair
   that disappeared from the source, stops this theorem from checking *)
Theorem c08_findings_exact : unsafe_exactly loc_names fn_names table known_racing = true.
Proof. exact table_unsafe_exactly. Qed.
Print Assumptions c08_findings_exact.

(* complete check of the finite generated table (bound: the accesses the translator found),
   minus exactly the recorded pairs *)
Theorem c08_table_ok_partial :
  forall p, In p (all_pairs table) -> pair_safe p = true \/ excl p = true.
Proof. exact table_partial. Qed.
Print Assumptions c08_table_ok_partial.

(* no execution of the muxer's accesses has a data race, except between recorded pairs *)
Theorem c08_race_free_model_partial : forall tr,
  wf_trace tr -> conforms tr -> runs_table table tr ->
  forall i j t t' a b o,
    i <> j -> at_ tr i (Acc t a o) -> at_ tr j (Acc t' b o) -> t <> t' -> conflicting a b ->
    ~ hb tr i j -> ~ hb tr j i ->
    excl (a, b) = true \/ excl (b, a) = true.
Proof. exact race_free_model_partial. Qed.
Print Assumptions c08_race_free_model_partial.

(* atomic views: in handlers, every field read by generateMediaPlaylist* /
   generateMultivariantPlaylist and everything they call happens under the muxer mutex
   (at least 10 such rows exist) ... *)
Theorem c08_generate_under_mutex :
  gen_under_mutex gen_fns table = true /\ Nat.leb 10 (gen_rows gen_fns table) = true.
Proof. exact generate_under_mutex. Qed.
Print Assumptions c08_generate_under_mutex.

(* ... hence, at critical-section granularity, every response is the generator applied to ONE
   state of the writer's history, and inherits every single-response invariant of those states *)
Theorem c08_atomic_view : forall (S R : Type) (gen : S -> R) s0 steps r n resp,
  In (r, n, resp) (responses S R gen s0 steps) ->
  exists s, nth_error (history S s0 steps) n = Some s /\ resp = gen s.
Proof. exact atomic_view. Qed.
Print Assumptions c08_atomic_view.

Theorem c08_atomic_view_invariant : forall (S R : Type) (gen : S -> R) (I : R -> Prop) s0 steps,
  (forall s, In s (history S s0 steps) -> I (gen s)) ->
  forall r n resp, In (r, n, resp) (responses S R gen s0 steps) -> I resp.
Proof. exact atomic_view_invariant. Qed.
Print Assumptions c08_atomic_view_invariant.

(* one requester's successive responses observe states in the order of the writer's history,
   so any relation that holds from earlier to later states (C04) holds between them *)
Theorem c08_monotone_view : forall (S R : Type) (gen : S -> R) s0 steps r,
  StronglySorted le (indices R (of_requester R r (responses S R gen s0 steps))).
Proof. exact monotone_view. Qed.
Print Assumptions c08_monotone_view.

Theorem c08_monotone_view_relation : forall (S R : Type) (gen : S -> R) (Q : R -> R -> Prop) s0 steps,
  (forall i j si sj, i <= j -> nth_error (history S s0 steps) i = Some si ->
                     nth_error (history S s0 steps) j = Some sj -> Q (gen si) (gen sj)) ->
  forall r l1 e1 e2 l2,
    of_requester R r (responses S R gen s0 steps) = l1 ++ e1 :: e2 :: l2 ->
    Q (snd e1) (snd e2).
Proof. exact monotone_view_relation. Qed.
Print Assumptions c08_monotone_view_relation.

(* ---- the generic lemmas instantiated with the executable muxer model (Model/Mux.v) ---- *)
Theorem c08_muxer_view_reachable : forall (Rsp : Type) (gen : mstate -> Rsp) m0 evs r n resp,
  In (r, n, resp) (responses mstate Rsp gen m0 (steps_of m0 evs)) ->
  resp = gen (mux_run m0 (firstn n (writes evs))).
Proof. exact muxer_view_reachable. Qed.
Print Assumptions c08_muxer_view_reachable.

Theorem c08_muxer_views_in_order : forall (Rsp : Type) (gen : mstate -> Rsp) m0 evs r l1 e1 e2 l2,
  of_requester Rsp r (responses mstate Rsp gen m0 (steps_of m0 evs)) = l1 ++ e1 :: e2 :: l2 ->
  exists ops1 ops2, snd e1 = gen (mux_run m0 ops1) /\ snd e2 = gen (mux_run m0 (ops1 ++ ops2)).
Proof. exact muxer_views_in_order. Qed.
Print Assumptions c08_muxer_views_in_order.

Theorem c08_muxer_views_monotone : forall m0 evs r l1 e1 e2 l2,
  of_requester _ r (responses mstate _ m_streams m0 (steps_of m0 evs)) = l1 ++ e1 :: e2 :: l2 ->
  Forall2 MuxHistory.R (snd e1) (snd e2).
Proof. exact muxer_views_monotone. Qed.
Print Assumptions c08_muxer_views_monotone.

Theorem c08_muxer_views_nonvacuous : forall m0 o1 o2,
  map (fun e => snd (fst e)) (of_requester _ 7 (responses mstate _ m_streams m0
        (steps_of m0 [ERead 7; EWrite o1; ERead 7; ERead 3; EWrite o2; ERead 7]))) = [0; 1; 2]%nat.
Proof. exact views_example. Qed.
Print Assumptions c08_muxer_views_nonvacuous.

(* what one client sees on successive requests for a stream's media playlist, a writer running concurrently:
   MEDIA-SEQUENCE never decreases and the preload hint's part number never decreases (C04's history clause at
   critical-section granularity) *)
Theorem c08_successive_playlists_monotone : forall si m0 evs r l1 e1 e2 l2 p1 p2,
  of_requester _ r (responses mstate _ (fun m => gen_media_playlist m si) m0 (steps_of m0 evs)) = l1 ++ e1 :: e2 :: l2 ->
  snd e1 = Some p1 -> snd e2 = Some p2 ->
  (pl_msn p1 <= pl_msn p2)%Z
  /\ (forall h1 h2, pl_hint p1 = Some h1 -> pl_hint p2 = Some h2 -> (h1 <= h2)%Z).
Proof. exact muxer_playlists_monotone. Qed.
Print Assumptions c08_successive_playlists_monotone.

(* two successive responses to one client are two moments of one write history from Start (the hypothesis shape of
   C04's two-moment theorems: reach c ops1 m1, m2 = mux_run m1 ops2), whatever the generator *)
Theorem c08_successive_views_are_two_moments : forall (Rsp : Type) (gen : mstate -> Rsp) c m0 evs r l1 e1 e2 l2,
  start c = Ok m0 ->
  of_requester Rsp r (responses mstate Rsp gen m0 (steps_of m0 evs)) = l1 ++ e1 :: e2 :: l2 ->
  exists ops1 ops2 m1 m2,
    (exists m00, start c = Ok m00 /\ m1 = mux_run m00 ops1) /\ m2 = mux_run m1 ops2
    /\ snd e1 = gen m1 /\ snd e2 = gen m2.
Proof. exact muxer_views_two_moments. Qed.
Print Assumptions c08_successive_views_are_two_moments.
