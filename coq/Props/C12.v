(* C12 - Client always terminates cleanly: one error, no leaked goroutines.
   Only the property theorems (each closed by [exact]) and [Print Assumptions]; the model is
   Model/ClientLife.v (process network) + Model/ClientLifeOps.v (rules over the table),
   the table is Generated/ClientLifeBlockOps.v (regenerated from the Go source on every run),
   the proofs are Proofs/ClientLife*.v.

   All theorems quantify over EVERY schedule [sch] (a list of events: which goroutine moves,
   what its code does next, when the user calls Close - any number of times -, when an HTTP
   operation fails, when runInner's select fires) and every [nh] (the behaviour of net/http on
   cancellation); the termination theorem assumes [http_honours_ctx nh].  [F] bounds only what
   the runnables' own code does AFTER the pool context is cancelled (see Model/ClientLife.v). *)
From Coq Require Import List Bool Arith String.
From GoHls Require Import Lib.ClientLifeIR Model.ClientLifeOps Model.ClientLife
  Generated.ClientLifeBlockOps Proofs.ClientLifeInv Proofs.ClientLife Proofs.ClientLifeTable Proofs.ClientLifeMain.
Import ListNotations.

(* the complete check of the generated table: every blocking operation of every non-test
   client*.go is cancellable by the pool context, non-blocking, a disciplined mutex, or one of
   the seven individually justified entries of allow_list (each matching exactly its stated number of
   operations: 1, except the two parks of fillSegmentQueue);
   every context that reaches a blocking operation is the pool's; the only goroutines are
   Client.run and the pool's wrapper; the run thread and the pool have the modelled skeleton *)
Theorem c12_table_ok : all_cancellable table = true.
Proof. exact table_ok. Qed.
Print Assumptions c12_table_ok.

(* exactly one value is ever sent on outErr (at most one, here; that one is sent, below), the
   send never blocks, and the value is the first (and only) error delivered on the pool's error
   channel - ErrClientEOS is such an error -, or "terminated" when Close was called and no error
   had been delivered *)
Theorem c12_one_result : forall nh F sch, let s := exec table nh (init F) sch in
  out s = results (log s)
  /\ List.length (results (log s)) <= 1
  /\ (forall v, rpc s = RSend v -> step table nh s ERunSend <> None)
  /\ (forall v, results (log s) = [v] ->
        match v with
        | RErr e => delivered (log s) = [e]
        | RTerminated => has_close (log s) = true /\ delivered (log s) = []
        end).
Proof. exact main_one_result. Qed.
Print Assumptions c12_one_result.

(* when the value has been sent the pool's wait counter is 0: every goroutine added has returned *)
Theorem c12_all_joined : forall nh F sch, let s := exec table nh (init F) sch in
  results (log s) <> [] -> wg s = 0 /\ all_done (gs s) = true.
Proof. exact main_all_joined. Qed.
Print Assumptions c12_all_joined.

(* ... and it IS sent: once the pool context is cancelled (runInner does that as soon as it has
   taken an error or the Close), no state is a deadlock - wg.Wait and the send on outErr cannot
   wedge, every goroutine blocked in an operation of the table is enabled -, every schedule
   performs at most [mu s] further steps, and a schedule of at most that length ends with the
   run thread done, exactly one result, counter 0, everything joined *)
Theorem c12_pool_joins : forall nh, http_honours_ctx nh ->
  forall F sch, let s := exec table nh (init F) sch in
  pctx s = true ->
  (rpc s <> RDone -> exists e, is_close e = false /\ step table nh s e <> None)
  /\ (forall sch2, eff table nh s sch2 + mu (exec table nh s sch2) <= mu s)
  /\ (exists sch2, let s2 := exec table nh s sch2 in
        rpc s2 = RDone /\ List.length sch2 <= mu s /\ List.length (results (log s2)) = 1
        /\ wg s2 = 0 /\ all_done (gs s2) = true).
Proof. exact main_pool_joins. Qed.
Print Assumptions c12_pool_joins.

(* before that, the run thread is never stuck either: Close enables the context case, a sender
   enables the error case, and the cancel call is always enabled *)
Theorem c12_run_thread_enabled : forall nh s,
  (rpc s = RSelect -> cctx s = true -> step table nh s ERunCtx <> None)
  /\ (forall g e, rpc s = RSelect -> nth_error (gs s) g = Some (GSending e) -> step table nh s (ERunRecv g) <> None)
  /\ (forall v, rpc s = RCancel v -> step table nh s ERunCancel <> None).
Proof. exact main_run_thread_enabled. Qed.
Print Assumptions c12_run_thread_enabled.

(* no user callback after the result: callbacks are only invoked by pool goroutines *)
Theorem c12_no_callback_after : forall nh F sch, let s := exec table nh (init F) sch in
  no_callback_after_result (log s) = true
  /\ (results (log s) <> [] -> forall g a, step table nh s (EG g a) = None).
Proof. exact main_no_callback_after. Qed.
Print Assumptions c12_no_callback_after.

(* an HTTP failure and an OnTracks error are surfaced: the goroutine offers the error on the
   pool's error channel until runInner takes it or the pool is cancelled (which runInner only
   does after taking an earlier error or the Close), and an error that was taken is the result *)
Theorem c12_http_error : forall nh F sch g e s',
  step table nh (exec table nh (init F) sch) (EG g (AFault e)) = Some s' ->
  In (LFault g e) (log s')
  /\ forall sch2, let s2 := exec table nh s' sch2 in
       (nth_error (gs s2) g = Some (GSending e) \/ In (LDelivered g e) (log s2) \/ pctx s2 = true)
       /\ (In (LDelivered g e) (log s2) -> forall v, results (log s2) = [v] -> v = RErr e).
Proof. intros nh F sch g e s'. exact (main_error_surfaced nh F sch g e (AFault e) (or_introl eq_refl) s'). Qed.
Print Assumptions c12_http_error.

Theorem c12_ontracks_error : forall nh F sch g e s',
  step table nh (exec table nh (init F) sch) (EG g (ACallback CbOnTracks (Some e))) = Some s' ->
  In (LFault g e) (log s')
  /\ forall sch2, let s2 := exec table nh s' sch2 in
       (nth_error (gs s2) g = Some (GSending e) \/ In (LDelivered g e) (log s2) \/ pctx s2 = true)
       /\ (In (LDelivered g e) (log s2) -> forall v, results (log s2) = [v] -> v = RErr e).
Proof.
  intros nh F sch g e s'.
  exact (main_error_surfaced nh F sch g e (ACallback CbOnTracks (Some e)) (or_intror eq_refl) s').
Qed.
Print Assumptions c12_ontracks_error.
