(* C14 - Playlist Marshal/Unmarshal round-trips every field.
   Only property theorems (each closed by [exact]) and [Print Assumptions]; the model is
   Model/Playlist*.v, the proofs Proofs/Playlist*.v. *)
From Coq Require Import List ZArith Bool String.
From GoHls Require Import Model.PlaylistBase Model.PlaylistIdeal Model.Playlist Model.PlaylistSpec
  Proofs.PlaylistRefute.
Import ListNotations.
Local Open Scope string_scope.

(* Finding F4 (a): a valid media playlist whose EXT-X-DISCONTINUITY-SEQUENCE differs from its
   media sequence does not round-trip: Marshal prints the media sequence. *)
Theorem c14_media_roundtrip_refuted_discseq :
  exists p, wf_media p = true /\ media_roundtrip_ok z_oracles p = false
            /\ media_marshal z_oracles p =
               "#EXTM3U" ++ lf ++ "#EXT-X-VERSION:3" ++ lf ++ "#EXT-X-TARGETDURATION:2" ++ lf
               ++ "#EXT-X-MEDIA-SEQUENCE:0" ++ lf ++ "#EXT-X-DISCONTINUITY-SEQUENCE:0" ++ lf
               ++ "#EXTINF:1.00000," ++ lf ++ "s.mp4" ++ lf.
Proof. exact media_roundtrip_refuted_discseq. Qed.
Print Assumptions c14_media_roundtrip_refuted_discseq.

(* Finding F4 (b): EXT-X-START of a media playlist is never printed. *)
Theorem c14_media_roundtrip_refuted_start :
  exists p, wf_media p = true /\ media_roundtrip_ok z_oracles p = false
            /\ media_marshal z_oracles p = media_marshal z_oracles media_min.
Proof. exact media_roundtrip_refuted_start. Qed.
Print Assumptions c14_media_roundtrip_refuted_start.

(* Finding F4 (c): EXT-X-SERVER-CONTROL without CAN-BLOCK-RELOAD starts with a comma; the
   first attribute is lost on re-read and Marshal is not a fixpoint on its own output. *)
Theorem c14_media_roundtrip_refuted_server_control :
  exists p, wf_media p = true /\ media_roundtrip_ok z_oracles p = false
            /\ media_fixpoint_ok z_oracles p = false
            /\ media_marshal z_oracles p =
               "#EXTM3U" ++ lf ++ "#EXT-X-VERSION:3" ++ lf ++ "#EXT-X-TARGETDURATION:2" ++ lf
               ++ "#EXT-X-SERVER-CONTROL:,PART-HOLD-BACK=1.00000" ++ lf
               ++ "#EXT-X-MEDIA-SEQUENCE:0" ++ lf ++ "#EXTINF:1.00000," ++ lf ++ "s.mp4" ++ lf.
Proof. exact media_roundtrip_refuted_server_control. Qed.
Print Assumptions c14_media_roundtrip_refuted_server_control.
