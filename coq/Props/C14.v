(* C14 - Playlist Marshal/Unmarshal round-trips every field.
   Only property theorems (each closed by [exact]) and [Print Assumptions]; the model is
   Model/Playlist*.v, the proofs Proofs/Playlist*.v.

   On the pinned tree Media.Marshal has three defects (finding F4), so the faithful model
   refutes the full media statement ([.._refuted_..]); what holds is stated at full strength for
   the model ([c14_media_roundtrip_image]: Unmarshal (Marshal p) is the F4 image of p) and as
   the [.._partial] theorems under the hypothesis that excludes exactly the findings' inputs. *)
From Coq Require Import List ZArith Bool String.
From GoHls Require Import Model.PlaylistBase Model.PlaylistIdeal Model.Playlist Model.PlaylistSpec
  Proofs.PlaylistRefute Proofs.PlaylistIdeal Proofs.PlaylistMedia Proofs.PlaylistMulti Proofs.PlaylistC14
  Proofs.PlaylistExamples Proofs.PlaylistVariants Proofs.PlaylistKind.
Import ListNotations.
Local Open Scope string_scope.

(* ---- the hypotheses are satisfiable ---- *)
(* the envelope assumed of FormatFloat/ParseFloat/time.Format/time.Parse has a model *)
Theorem c14_oracle_envelope_satisfiable : oracle_ok z_oracles.
Proof. exact z_oracles_ok. Qed.
Print Assumptions c14_oracle_envelope_satisfiable.

(* a rich media playlist (keys changing, parts, byte ranges, date-time, server control, skip,
   preload hint) satisfies wf_media and the hypotheses of the partial theorems *)
Theorem c14_example_media :
  wf_media ex_media = true /\ f4_free ex_media = true
  /\ opt_ok sc_canblockreload (m_servercontrol ex_media) = true.
Proof. exact ex_media_ok. Qed.
Print Assumptions c14_example_media.

Theorem c14_example_multivariant : wf_multivariant ex_multivariant = true.
Proof. exact ex_multivariant_ok. Qed.
Print Assumptions c14_example_multivariant.

(* ---- Media ---- *)
(* For every oracle instance within the envelope and every media playlist value satisfying the
   documented field requirements: Unmarshal (Marshal p) succeeds and reproduces, field by field
   (durations to 10 us, date-times to 1 ms and the same zone offset, everything else exactly),
   the F4 image of p: p with DiscontinuitySequence replaced by MediaSequence, Start dropped, and
   the first attribute of a SERVER-CONTROL without CAN-BLOCK-RELOAD dropped. *)
Theorem c14_media_roundtrip_image : forall (O : oracles), oracle_ok O -> forall p : Media,
  wf_media p = true ->
  exists p', media_unmarshal O (media_marshal O p) = Ok p' /\ media_eqvb (f4_image p) p' = true.
Proof. exact media_roundtrip_image. Qed.
Print Assumptions c14_media_roundtrip_image.

(* the round trip proper, for the values the three defects leave alone *)
Theorem c14_media_roundtrip_partial : forall (O : oracles), oracle_ok O -> forall p : Media,
  wf_media p = true -> f4_free p = true -> media_roundtrip_ok O p = true.
Proof. exact media_roundtrip_partial. Qed.
Print Assumptions c14_media_roundtrip_partial.

(* Marshal (Unmarshal (Marshal p)) = Marshal p unless SERVER-CONTROL lacks CAN-BLOCK-RELOAD *)
Theorem c14_media_fixpoint_partial : forall (O : oracles), oracle_ok O -> forall p : Media,
  wf_media p = true -> opt_ok sc_canblockreload (m_servercontrol p) = true ->
  media_fixpoint_ok O p = true.
Proof. exact media_fixpoint_partial. Qed.
Print Assumptions c14_media_fixpoint_partial.

(* Finding F4 (a): EXT-X-DISCONTINUITY-SEQUENCE carries the media sequence number *)
Theorem c14_media_roundtrip_refuted_discseq :
  exists p, wf_media p = true /\ media_roundtrip_ok z_oracles p = false
            /\ media_marshal z_oracles p =
               "#EXTM3U" ++ lf ++ "#EXT-X-VERSION:3" ++ lf ++ "#EXT-X-TARGETDURATION:2" ++ lf
               ++ "#EXT-X-MEDIA-SEQUENCE:0" ++ lf ++ "#EXT-X-DISCONTINUITY-SEQUENCE:0" ++ lf
               ++ "#EXTINF:1.00000," ++ lf ++ "s.mp4" ++ lf.
Proof. exact media_roundtrip_refuted_discseq. Qed.
Print Assumptions c14_media_roundtrip_refuted_discseq.

(* Finding F4 (b): EXT-X-START of a media playlist is never printed *)
Theorem c14_media_roundtrip_refuted_start :
  exists p, wf_media p = true /\ media_roundtrip_ok z_oracles p = false
            /\ media_marshal z_oracles p = media_marshal z_oracles media_min.
Proof. exact media_roundtrip_refuted_start. Qed.
Print Assumptions c14_media_roundtrip_refuted_start.

(* Finding F4 (c): EXT-X-SERVER-CONTROL without CAN-BLOCK-RELOAD starts with a comma; the first
   attribute is lost on re-read and Marshal is not a fixpoint on its own output *)
Theorem c14_media_roundtrip_refuted_server_control :
  exists p, wf_media p = true /\ media_roundtrip_ok z_oracles p = false
            /\ media_fixpoint_ok z_oracles p = false
            /\ media_marshal z_oracles p =
               "#EXTM3U" ++ lf ++ "#EXT-X-VERSION:3" ++ lf ++ "#EXT-X-TARGETDURATION:2" ++ lf
               ++ "#EXT-X-SERVER-CONTROL:,PART-HOLD-BACK=1.00000" ++ lf
               ++ "#EXT-X-MEDIA-SEQUENCE:0" ++ lf ++ "#EXTINF:1.00000," ++ lf ++ "s.mp4" ++ lf.
Proof. exact media_roundtrip_refuted_server_control. Qed.
Print Assumptions c14_media_roundtrip_refuted_server_control.

(* ---- Multivariant ---- *)
(* round trip (every field exactly, EXT-X-START to 10 us) and fixpoint, no exception *)
Theorem c14_multivariant_roundtrip : forall (O : oracles), oracle_ok O -> forall p : Multivariant,
  wf_multivariant p = true ->
  exists p', multivariant_unmarshal O (multivariant_marshal O p) = Ok p'
    /\ multivariant_eqvb p p' = true
    /\ multivariant_marshal O p' = multivariant_marshal O p.
Proof. exact multivariant_roundtrip. Qed.
Print Assumptions c14_multivariant_roundtrip.

(* ---- kind selection ---- *)
(* playlist.Unmarshal picks the right kind: of the Marshal output of a media playlist value it
   returns a Media (the F4 image of the value), of a multivariant value a Multivariant *)
Theorem c14_kind_media : forall (O : oracles), oracle_ok O -> forall p : Media,
  wf_media p = true ->
  exists p', unmarshal O (media_marshal O p) = Ok (PMedia p') /\ media_eqvb (f4_image p) p' = true.
Proof. exact unmarshal_media_kind. Qed.
Print Assumptions c14_kind_media.

Theorem c14_kind_multivariant : forall (O : oracles), oracle_ok O -> forall p : Multivariant,
  wf_multivariant p = true ->
  exists p', unmarshal O (multivariant_marshal O p) = Ok (PMultivariant p')
             /\ multivariant_eqvb p p' = true.
Proof. exact unmarshal_multivariant_kind. Qed.
Print Assumptions c14_kind_multivariant.

(* ---- syntactic variants ---- *)
(* CRLF line ends, for EVERY byte string without CR (not only Marshal output): replacing each LF
   by CR LF changes neither the result nor the error of the two typed decoders.
   Partial: the statement for playlist.Unmarshal (findType), unknown tags and attributes and
   attribute order are covered by the correspondence run and the oracle only. *)
Theorem c14_variants_partial_crlf : forall (O : oracles) (b : string), no_byte CR b = true ->
  media_unmarshal O (crlf b) = media_unmarshal O b
  /\ multivariant_unmarshal O (crlf b) = multivariant_unmarshal O b.
Proof. exact (fun O b H => conj (media_unmarshal_crlf O b H) (multivariant_unmarshal_crlf O b H)). Qed.
Print Assumptions c14_variants_partial_crlf.

(* missing trailing newline, for every byte string without CR (Media.Unmarshal) *)
Theorem c14_variants_partial_final_newline : forall (O : oracles) (b : string), no_byte CR b = true ->
  media_unmarshal O (b ++ lf) = media_unmarshal O b.
Proof. exact media_unmarshal_final_lf. Qed.
Print Assumptions c14_variants_partial_final_newline.
