(* C14 - Playlist Marshal/Unmarshal round-trips every field.
   Only property theorems (each closed by [exact]) and [Print Assumptions]; the model is
   Model/Playlist*.v, the proofs Proofs/Playlist*.v.

   The model follows /repo after the three repairs of finding F4 (6848a21 DISCONTINUITY-SEQUENCE,
   93623b4 EXT-X-START of media playlists, aab99f6 SERVER-CONTROL attribute list). *)
From Coq Require Import List ZArith Bool String.
From GoHls Require Import Model.PlaylistBase Model.PlaylistIdeal Model.Playlist Model.PlaylistSpec
  Proofs.PlaylistIdeal Proofs.PlaylistMedia Proofs.PlaylistMulti Proofs.PlaylistC14
  Proofs.PlaylistExamples Proofs.PlaylistVariants Proofs.PlaylistKind.
Import ListNotations.
Local Open Scope string_scope.

(* ---- the hypotheses are satisfiable ---- *)
(* the envelope assumed of FormatFloat/ParseFloat/time.Format/time.Parse has a model *)
Theorem c14_oracle_envelope_satisfiable : oracle_ok z_oracles.
Proof. exact z_oracles_ok. Qed.
Print Assumptions c14_oracle_envelope_satisfiable.

(* a rich media playlist (EXT-X-START, discontinuity sequence different from the media sequence,
   SERVER-CONTROL without CAN-BLOCK-RELOAD, keys changing, parts, byte ranges, date-time, skip,
   preload hint) satisfies wf_media *)
Theorem c14_example_media : wf_media ex_media = true.
Proof. exact ex_media_ok. Qed.
Print Assumptions c14_example_media.

Theorem c14_example_multivariant : wf_multivariant ex_multivariant = true.
Proof. exact ex_multivariant_ok. Qed.
Print Assumptions c14_example_multivariant.

(* ---- Media ---- *)
(* For every oracle instance within the envelope and every media playlist value satisfying the
   documented field requirements: Unmarshal (Marshal p) succeeds and reproduces p field by field
   (durations to 10 us, date-times to 1 ms and the same zone offset, everything else exactly). *)
Theorem c14_media_roundtrip : forall (O : oracles), oracle_ok O -> forall p : Media,
  wf_media p = true ->
  exists p', media_unmarshal O (media_marshal O p) = Ok p' /\ media_eqvb p p' = true.
Proof. exact media_roundtrip_eqv. Qed.
Print Assumptions c14_media_roundtrip.

(* Marshal (Unmarshal (Marshal p)) = Marshal p *)
Theorem c14_media_fixpoint : forall (O : oracles), oracle_ok O -> forall p : Media,
  wf_media p = true -> media_fixpoint_ok O p = true.
Proof. exact media_fixpoint. Qed.
Print Assumptions c14_media_fixpoint.

(* ---- Multivariant ---- *)
(* round trip (every field exactly, EXT-X-START to 10 us) and fixpoint *)
Theorem c14_multivariant_roundtrip : forall (O : oracles), oracle_ok O -> forall p : Multivariant,
  wf_multivariant p = true ->
  exists p', multivariant_unmarshal O (multivariant_marshal O p) = Ok p'
    /\ multivariant_eqvb p p' = true
    /\ multivariant_marshal O p' = multivariant_marshal O p.
Proof. exact multivariant_roundtrip. Qed.
Print Assumptions c14_multivariant_roundtrip.

(* ---- kind selection ---- *)
(* playlist.Unmarshal picks the right kind: of the Marshal output of a media playlist value it
   returns a Media equivalent to the value, of a multivariant value a Multivariant *)
Theorem c14_kind_media : forall (O : oracles), oracle_ok O -> forall p : Media,
  wf_media p = true ->
  exists p', unmarshal O (media_marshal O p) = Ok (PMedia p') /\ media_eqvb p p' = true.
Proof. exact unmarshal_media_kind. Qed.
Print Assumptions c14_kind_media.

Theorem c14_kind_multivariant : forall (O : oracles), oracle_ok O -> forall p : Multivariant,
  wf_multivariant p = true ->
  exists p', unmarshal O (multivariant_marshal O p) = Ok (PMultivariant p')
             /\ multivariant_eqvb p p' = true.
Proof. exact unmarshal_multivariant_kind. Qed.
Print Assumptions c14_kind_multivariant.

(* ---- syntactic variants ---- *)
(* CRLF line ends, for EVERY byte string without CR (not only Marshal output): replacing each LF
   by CR LF changes neither the result nor the error of the two typed decoders.
   Partial: the statement for playlist.Unmarshal (findType), unknown tags and attributes and
   attribute order are covered by the correspondence run and the oracle only. *)
Theorem c14_variants_partial_crlf : forall (O : oracles) (b : string), no_byte CR b = true ->
  media_unmarshal O (crlf b) = media_unmarshal O b
  /\ multivariant_unmarshal O (crlf b) = multivariant_unmarshal O b.
Proof. exact (fun O b H => conj (media_unmarshal_crlf O b H) (multivariant_unmarshal_crlf O b H)). Qed.
Print Assumptions c14_variants_partial_crlf.

(* missing trailing newline, for every byte string without CR (Media.Unmarshal) *)
Theorem c14_variants_partial_final_newline : forall (O : oracles) (b : string), no_byte CR b = true ->
  media_unmarshal O (b ++ lf) = media_unmarshal O b.
Proof. exact media_unmarshal_final_lf. Qed.
Print Assumptions c14_variants_partial_final_newline.
