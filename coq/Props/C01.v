(* C01 - The muxer preserves every accepted access unit: bytes, order, timestamps.
   Only property theorems (each closed by [exact]) and [Print Assumptions].
   Proved for the fMP4 and Low-Latency variants (each stream's LOG = the samples of its evicted, listed
   and open segments' parts, in order, followed by the samples buffered for the part being built):
   - c01_write_appends_exactly_the_lookahead_unit: a write that returns nil appends to the log of the
     written track's stream exactly the previously written unit, with its duration set to the
     distance of the two decode times and every other field (decode time, presentation offset, sync
     flag, NTP, payload, size) untouched - or nothing, when there is no previous unit yet, when the
     unit lies before -10 s, when a non-leading track is still waiting for the stream to start or
     when a video unit is skipped before the first random-access one - and changes no other stream's
     log; the written unit becomes the look-ahead unit. Hence none lost, duplicated or invented, in
     writing order, with durations = next dts - dts;
   - c01_no_rotation_changes_a_log: rotating parts or segments (own stream or another, eviction
     included) moves samples between buffered / open / listed / evicted but changes no log;
   - c01_log_only_grows: along every history of successful writes from Start, a log only grows at
     its tail (nothing emitted is ever lost, changed or reordered), and the structural invariant
     (one stream per track and vice versa, all streams open together, an open stream has an open
     part) holds in every reachable state;
   - the constant offset is 10 s in the track's clock; the sample handed to the segmenter carries the
     written decode time, presentation offset pts - dts and sync flag = random access; units earlier
     than -10 s are rejected silently; everything published is append-only and immutable and the
     advertised window is a suffix of it.
   Proved for the MPEG-TS variant (log = the units of the evicted, listed and open segments, in order):
   - c01_mpegts_video_write_log / c01_mpegts_audio_write_log: a write that returns nil appends exactly
     its unit (pts / dts rescaled to 90 kHz, random-access flag, payload ids) or nothing (video unit
     skipped before the first random-access one; audio unit of a non-leading track before the stream
     has started); c01_mpegts_log_only_grows along every history of successful writes from Start.
   - c01_durations_chain_decode_times: in every state reachable by successful writes from Start, every
     stream's log followed by its look-ahead unit is CHAINED: each unit's duration is the 32-bit
     distance (uint32 conversion of the code) from its decode time to the next unit's;
   - c01_base_times_contiguous: consecutive fragments of a track have contiguous base times: for any
     two parts P, Q of a stream (evicted, listed or open) with only sample-less parts between them,
     base(Q) = base(P) + the sum of P's sample durations - in every reachable state, for every
     history whose decode times never decrease nor jump by 2^32 ticks or more (the guard is on the
     written units only; c01_base_times_nonvacuous meets it with four finalized parts).
   - c01_history_accounting: HISTORY-LEVEL ACCOUNTING (refinement to the abstract specification
     Model/MuxSpec.v - per track a log, the look-ahead unit and "random access seen", globally "the
     presentation has started"; no segments, parts, rotations or playlists): for every configuration Start
     accepts, every history of successful writes and every track, the model's log, look-ahead unit and
     openness are exactly the specification's, which is a fold over the written units. The
     specification itself loses, duplicates and invents nothing (c01_spec_unit_conservation: one offered
     unit with a shifted decode time >= 0 extends "log ++ look-ahead" by exactly that unit, older units
     keep every field but the duration, and the only unit that can disappear is the look-ahead unit of a
     non-leading track while the presentation has not started; c01_spec_unit_negative: a unit before -10 s
     changes nothing); c01_accounting_nonvacuous runs it on the example history.
   - c01_leading_track_closed_form: the CLOSED FORM for the leading track: along every history of successful
     writes from Start its log followed by its look-ahead unit is exactly the units the history offers to the
     track ([offered]: every video access unit not skipped before the first random-access one, every access unit /
     packet of an audio write with the computed timestamps) that lie at or after -10 s, each once, in writing
     order, every field but the duration as written, +10 s (c01_closed_form_nonvacuous). Non-leading tracks
     additionally lose whatever they were offered before the presentation started (c01_spec_unit_conservation).
   - c01_mpegts_history_accounting: the same for the MPEG-TS variant (specification tspec in Model/MuxSpec.v: one
     log without look-ahead, "random access seen" per track, "the presentation has started"): for every
     configuration Start accepts and every history of successful writes the model's log, flags and openness
     are the specification's; c01_mpegts_accounting_nonvacuous; c01_mpegts_video_track_closed_form: the units of a
     video track in the log are exactly the access units written to it that were not skipped before the first
     random-access one, each once, in writing order.
   PARTIAL in one respect, decided on every run by the correspondence run (every decoded sample of
   every published part / segment is compared with the model's, all six codecs) and by the oracle
   over the harness's own write log: that the bytes served for a part / segment decode to the
   model's samples / units is the tie's claim, not a theorem (mediacommon's fMP4 and MPEG-TS writers
   are outside the model). *)
From Coq Require Import List ZArith Bool.
From GoHls Require Import Model.Mux Proofs.MuxStream Proofs.MuxLift Proofs.MuxWindow Proofs.MuxHistory
  Proofs.MuxPlaylist Proofs.MuxSamples Proofs.MuxLog Proofs.MuxLogStep Proofs.MuxLogTS Proofs.MuxPartIds Proofs.MuxChain Proofs.MuxRAStart Proofs.MuxAuditAdds Model.MuxSpec Proofs.MuxAccount Proofs.MuxTSStart Proofs.MuxAccountTS Proofs.MuxAccountClosed.
Import ListNotations.
Local Open Scope Z_scope.

Theorem c01_offset_partial : forall rate, 0 <= rate -> durationToTimestamp fmp4StartDTS rate = 10 * rate.
Proof. exact start_offset. Qed.
Print Assumptions c01_offset_partial.

Theorem c01_sample_fields_partial : forall a,
  s_dts (video_sample a) = a_dts a /\ s_ptsoff (video_sample a) = a_pts a - a_dts a
  /\ s_nonsync (video_sample a) = negb (a_ra a) /\ s_ntp (video_sample a) = a_ntp a.
Proof. exact video_sample_fields. Qed.
Print Assumptions c01_sample_fields_partial.

Theorem c01_rejects_before_minus_10s_partial : forall m ti t ra pc smp,
  nth_error (m_tracks m) ti = Some t ->
  s_dts smp + durationToTimestamp fmp4StartDTS (t_rate (tk_cfg t)) < 0 ->
  fmp4WriteSample m ti ra pc smp = (m, Ok tt).
Proof. exact fmp4_rejects_negative. Qed.
Print Assumptions c01_rejects_before_minus_10s_partial.

Theorem c01_lookahead_partial : forall m ti t ra pc smp,
  nth_error (m_tracks m) ti = Some t -> tk_next t = None ->
  0 <= s_dts smp + durationToTimestamp fmp4StartDTS (t_rate (tk_cfg t)) ->
  m_streams (fst (fmp4WriteSample m ti ra pc smp)) = m_streams m
  /\ snd (fmp4WriteSample m ti ra pc smp) = Ok tt.
Proof. exact fmp4_first_unit_buffered. Qed.
Print Assumptions c01_lookahead_partial.

Theorem c01_published_append_only_partial : forall m ops, Forall2 R (m_streams m) (m_streams (mux_run m ops)).
Proof. exact history_monotone. Qed.
Print Assumptions c01_published_append_only_partial.

Theorem c01_window_suffix_partial : forall c ops m, reach c ops m -> forall si s,
  nth_error (m_streams m) si = Some s ->
  st_segments s = skipn (Z.to_nat (st_delcount s)) (published s).
Proof. exact window_is_suffix. Qed.
Print Assumptions c01_window_suffix_partial.

(* ---- conservation of samples (fMP4 variants) ---- *)
Theorem c01_write_appends_exactly_the_lookahead_unit : forall m ti t ra pc smp0 m',
  LI m -> nth_error (m_tracks m) ti = Some t ->
  fmp4WriteSample m ti ra pc smp0 = (m', Ok tt) ->
  LI m'
  /\ (forall j, j <> ti -> slog m' j = slog m j)
  /\ slog m' ti = slog m ti ++ emitted_by m ti t smp0
  /\ (0 <= shifted t smp0 -> nth_error (tk_nexts m') ti = Some (Some (incoming_of t smp0)))
  /\ (shifted t smp0 < 0 -> m' = m).
Proof. exact fmp4_log_step. Qed.
Print Assumptions c01_write_appends_exactly_the_lookahead_unit.

Theorem c01_emitted_unit_fields : forall prev dts,
  s_dts (emit_of prev dts) = s_dts prev /\ s_ptsoff (emit_of prev dts) = s_ptsoff prev
  /\ s_nonsync (emit_of prev dts) = s_nonsync prev /\ s_ntp (emit_of prev dts) = s_ntp prev
  /\ s_pay (emit_of prev dts) = s_pay prev /\ s_size (emit_of prev dts) = s_size prev
  /\ s_dur (emit_of prev dts) = u32 (dts - s_dts prev).
Proof. exact emit_fields. Qed.
Print Assumptions c01_emitted_unit_fields.

Theorem c01_video_write_log : forall m ti t a m',
  LI m -> nth_error (m_tracks m) ti = Some t -> write_video m ti t a = (m', Ok tt) ->
  LI m' /\ (forall j, j <> ti -> slog m' j = slog m j)
  /\ slog m' ti = slog m ti ++ (if video_skipped t a then [] else emitted_by m ti t (video_sample a)).
Proof. exact write_video_log. Qed.
Print Assumptions c01_video_write_log.

Theorem c01_no_rotation_changes_a_log : forall m d ntp f, LI m ->
  (LI (rotateSegments m d ntp f) /\ forall j, slog (rotateSegments m d ntp f) j = slog m j)
  /\ (LI (rotateParts m d) /\ forall j, slog (rotateParts m d) j = slog m j).
Proof. exact rotations_keep_logs. Qed.
Print Assumptions c01_no_rotation_changes_a_log.

Theorem c01_log_only_grows : forall c m0 ops1 ops2,
  start c = Ok m0 -> c_variant c <> MPEGTS -> all_ok m0 (ops1 ++ ops2) ->
  forall j, exists new, slog (mux_run m0 (ops1 ++ ops2)) j = slog (mux_run m0 ops1) j ++ new.
Proof. exact log_monotone_reachable. Qed.
Print Assumptions c01_log_only_grows.

Theorem c01_structure_reachable : forall c m0 ops,
  start c = Ok m0 -> c_variant c <> MPEGTS -> LI (mux_run m0 ops) /\ forall j, slog m0 j = [].
Proof. exact structure_reachable. Qed.
Print Assumptions c01_structure_reachable.

(* ---- conservation of units (MPEG-TS) ---- *)
Theorem c01_mpegts_video_write_log : forall m ti t a m',
  TSI m -> nth_error (m_tracks m) ti = Some t -> t_kind (tk_cfg t) = H264 ->
  write_video m ti t a = (m', Ok tt) ->
  TSI m' /\ tslog m' = tslog m ++ (if video_skipped t a then [] else [ts_video_unit ti t a]).
Proof. exact ts_video_log. Qed.
Print Assumptions c01_mpegts_video_write_log.

Theorem c01_mpegts_audio_write_log : forall m ti t a m',
  TSI m -> nth_error (m_tracks m) ti = Some t ->
  write_audio m ti t a = (m', Ok tt) ->
  TSI m' /\ tslog m' = tslog m ++ (if negb (tk_leading t) && negb (ts_opened m) then [] else [ts_audio_unit ti t a]).
Proof. exact ts_audio_log. Qed.
Print Assumptions c01_mpegts_audio_write_log.

Theorem c01_mpegts_log_only_grows : forall c m0 ops1 ops2,
  start c = Ok m0 -> c_variant c = MPEGTS -> all_ok m0 (ops1 ++ ops2) ->
  exists new, tslog (mux_run m0 (ops1 ++ ops2)) = tslog (mux_run m0 ops1) ++ new.
Proof. exact ts_log_monotone_reachable. Qed.
Print Assumptions c01_mpegts_log_only_grows.

Theorem c01_mpegts_structure_reachable : forall c m0, start c = Ok m0 -> c_variant c = MPEGTS -> TSI m0 /\ tslog m0 = [].
Proof. exact start_TSI. Qed.
Print Assumptions c01_mpegts_structure_reachable.

(* non-vacuity: a concrete Low-Latency muxer (H264 + AAC) and four successful writes after which the
   video stream's log holds the first two written units, in order, with their durations *)
Theorem c01_example_nonvacuous : exists m0,
  start ex_cfg = Ok m0 /\ c_variant ex_cfg <> MPEGTS /\ all_ok m0 ex_ops
  /\ map (fun s => (s_pay s, s_dts s, s_dur s)) (slog (mux_run m0 ex_ops) 0) = [(11, 900000, 3000); (12, 903000, 3000)].
Proof. exact log_example. Qed.
Print Assumptions c01_example_nonvacuous.

(* ---- durations and base times ---- *)
Theorem c01_durations_chain_decode_times : forall c m0 ops j,
  start c = Ok m0 -> c_variant c <> MPEGTS -> all_ok m0 ops ->
  chained (slog (mux_run m0 ops) j ++ pend_list (mux_run m0 ops) j).
Proof. exact durations_chain_decode_times. Qed.
Print Assumptions c01_durations_chain_decode_times.

Theorem c01_base_times_contiguous : forall c m0 ops j s A P E Q B,
  start c = Ok m0 -> c_variant c <> MPEGTS -> all_ok m0 ops ->
  let m := mux_run m0 ops in
  nth_error (m_streams m) j = Some s ->
  all_parts s = A ++ P :: E ++ Q :: B ->
  p_samples P <> [] -> p_samples Q <> [] -> Forall (fun p => p_samples p = []) E ->
  steps_fit (slog m j ++ pend_list m j) ->
  p_base Q = p_base P + sum_dur (p_samples P).
Proof. exact base_times_contiguous. Qed.
Print Assumptions c01_base_times_contiguous.

Theorem c01_base_times_nonvacuous : exists m0 s P Q B,
  start ex_cfg = Ok m0 /\ c_variant ex_cfg <> MPEGTS /\ all_ok m0 ch_ops
  /\ nth_error (m_streams (mux_run m0 ch_ops)) 0 = Some s
  /\ all_parts s = [] ++ P :: [] ++ Q :: B
  /\ p_samples P <> [] /\ p_samples Q <> [] /\ Forall (fun p => p_samples p = []) []
  /\ steps_fit (slog (mux_run m0 ch_ops) 0 ++ pend_list (mux_run m0 ch_ops) 0)
  /\ (p_base P, map s_dur (p_samples P), p_base Q) = (900000, [9000; 9000], 918000).
Proof. exact chain_example. Qed.
Print Assumptions c01_base_times_nonvacuous.

(* a write touches no other track's look-ahead unit: with c01_write_appends_exactly_the_lookahead_unit ("the
   written unit becomes the look-ahead") the unit a later write of track j appends is the one track j wrote last *)
Theorem c01_write_leaves_other_lookaheads : forall m ti t ra pc smp0 m',
  nth_error (m_tracks m) ti = Some t -> fmp4WriteSample m ti ra pc smp0 = (m', Ok tt) ->
  forall j, j <> ti -> pending m' j = pending m j.
Proof. exact write_leaves_other_lookaheads. Qed.
Print Assumptions c01_write_leaves_other_lookaheads.

(* ---- history-level accounting: refinement to the abstract specification Model/MuxSpec.v ---- *)
Theorem c01_history_accounting : forall c m0 ops,
  start c = Ok m0 -> c_variant c <> MPEGTS -> all_ok m0 ops ->
  let T0 := map tk_static (m_tracks m0) in
  let sp := sp_run T0 (sp_init (length T0)) ops in
  let m := mux_run m0 ops in
  forall j, (j < length T0)%nat ->
    slog m j = sp_log sp j /\ pending m j = sp_pend sp j /\ opened_at m j = sp_open sp.
Proof. exact history_accounting. Qed.
Print Assumptions c01_history_accounting.

Theorem c01_spec_unit_conservation : forall cf ld sp ti smp0 x,
  nth_error (sp_trk sp) ti = Some x -> 0 <= s_dts (sp_incoming cf smp0) ->
  let sp' := sp_unit cf ld sp ti smp0 in
  (exists x', nth_error (sp_trk sp') ti = Some x' /\ a_seen x' = a_seen x
     /\ map core (kept x') = map core (if negb ld && negb (sp_open sp) then a_log x else kept x) ++ [core (sp_incoming cf smp0)]
     /\ (forall p, a_pend x = Some p -> negb ld && negb (sp_open sp) = false ->
           a_log x' = a_log x ++ [sp_emit p (s_dts (sp_incoming cf smp0))]))
  /\ (forall j, j <> ti -> nth_error (sp_trk sp') j = nth_error (sp_trk sp) j).
Proof. exact spec_unit_conservation. Qed.
Print Assumptions c01_spec_unit_conservation.

Theorem c01_spec_unit_negative : forall cf ld sp ti smp0,
  s_dts (sp_incoming cf smp0) < 0 -> sp_unit cf ld sp ti smp0 = sp.
Proof. exact spec_unit_negative. Qed.
Print Assumptions c01_spec_unit_negative.

Theorem c01_accounting_nonvacuous : exists m0,
  start ex_cfg = Ok m0 /\ c_variant ex_cfg <> MPEGTS /\ all_ok m0 ex_ops
  /\ let T0 := map tk_static (m_tracks m0) in
     let sp := sp_run T0 (sp_init (length T0)) ex_ops in
     (length T0 = 2%nat)
     /\ map (fun s => (s_pay s, s_dts s, s_dur s)) (sp_log sp 0) = [(11, 900000, 3000); (12, 903000, 3000)]
     /\ option_map s_pay (sp_pend sp 0) = Some 13 /\ sp_log sp 1 = [] /\ option_map s_pay (sp_pend sp 1) = Some 21
     /\ sp_open sp = true.
Proof. exact account_example. Qed.
Print Assumptions c01_accounting_nonvacuous.

(* ---- the same for the MPEG-TS variant ---- *)
Theorem c01_mpegts_history_accounting : forall c m0 ops,
  start c = Ok m0 -> c_variant c = MPEGTS -> all_ok m0 ops ->
  let T0 := map tk_static (m_tracks m0) in
  let sp := tsp_run T0 (tsp_init (length T0)) ops in
  let m := mux_run m0 ops in
  tslog m = tp_log sp /\ ts_opened m = tp_open sp /\ map tk_firstRA (m_tracks m) = tp_seen sp.
Proof. exact ts_history_accounting. Qed.
Print Assumptions c01_mpegts_history_accounting.

Theorem c01_mpegts_accounting_nonvacuous : exists m0,
  start ts_cfg = Ok m0 /\ c_variant ts_cfg = MPEGTS /\ all_ok m0 ts_ops
  /\ let T0 := map tk_static (m_tracks m0) in
     let sp := tsp_run T0 (tsp_init (length T0)) ts_ops in
     tp_open sp = true /\ map (fun u => (u_track u, u_ra u, u_dts u)) (tp_log sp)
       = [(0%nat, true, 45000); (1%nat, true, 45000); (0%nat, false, 90000); (0%nat, true, 135000); (1%nat, true, 90000); (0%nat, false, 180000)].
Proof. exact ts_account_example. Qed.
Print Assumptions c01_mpegts_accounting_nonvacuous.

(* the leading track never loses a unit *)
Theorem c01_spec_leading_keeps_everything : forall cf sp ti smp0 x,
  nth_error (sp_trk sp) ti = Some x -> 0 <= s_dts (sp_incoming cf smp0) ->
  exists x', nth_error (sp_trk (sp_unit cf true sp ti smp0)) ti = Some x'
             /\ map core (kept x') = map core (kept x) ++ [core (sp_incoming cf smp0)].
Proof. exact spec_leading_keeps_everything. Qed.
Print Assumptions c01_spec_leading_keeps_everything.

(* ---- the closed form for the leading track ---- *)
Theorem c01_leading_track_closed_form : forall c m0 ops ti cf si,
  start c = Ok m0 -> c_variant c <> MPEGTS -> all_ok m0 ops ->
  nth_error (map tk_static (m_tracks m0)) ti = Some (cf, true, si) ->
  let m := mux_run m0 ops in
  map core (slog m ti ++ pend_list m ti) = map core (accepted cf (offered cf ti false ops)).
Proof. exact leading_track_closed_form. Qed.
Print Assumptions c01_leading_track_closed_form.

Theorem c01_closed_form_nonvacuous : exists m0 cf si,
  start ex_cfg = Ok m0 /\ c_variant ex_cfg <> MPEGTS /\ all_ok m0 ex_ops
  /\ nth_error (map tk_static (m_tracks m0)) 0 = Some (cf, true, si)
  /\ map (fun s => (s_pay s, s_dts s)) (accepted cf (offered cf 0 false ex_ops)) = [(11, 900000); (12, 903000); (13, 906000)].
Proof. exact closed_form_example. Qed.
Print Assumptions c01_closed_form_nonvacuous.

(* ---- MPEG-TS: the units of a video track in the log are exactly the access units written to it that were not
   skipped before the first random-access one, each once, in writing order ---- *)
Theorem c01_mpegts_video_track_closed_form : forall c m0 ops ti cf ld si,
  start c = Ok m0 -> c_variant c = MPEGTS -> all_ok m0 ops ->
  nth_error (map tk_static (m_tracks m0)) ti = Some (cf, ld, si) -> isVideo (t_kind cf) = true ->
  of_track ti (tslog (mux_run m0 ops)) = map (tsp_video_unit ti cf) (tsv_offered ti false ops).
Proof. exact ts_video_track_closed_form. Qed.
Print Assumptions c01_mpegts_video_track_closed_form.
