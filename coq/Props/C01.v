(* C01 - The muxer preserves every accepted access unit: bytes, order, timestamps.
   Only property theorems (each closed by [exact]) and [Print Assumptions].
   PARTIAL. Proved: the constant fMP4 offset is 10 s in the track's clock; the sample handed to the
   segmenter carries the written decode time, presentation offset pts - dts and sync flag = random
   access; units earlier than -10 s are rejected silently and the first accepted unit only fills
   the one-sample look-ahead; everything published is append-only and immutable (history relation),
   and the advertised window is a suffix of it. The full accounting statement (decoded = written,
   no loss / duplicate / reorder, durations = next dts - dts, contiguous base times) is decided on
   every run by the correspondence run (every decoded sample of every published part / segment is
   compared with the model's, all six codecs) and by the oracle over the harness's own write log;
   it is not yet a theorem. *)
From Coq Require Import List ZArith Bool.
From GoHls Require Import Model.Mux Proofs.MuxStream Proofs.MuxLift Proofs.MuxWindow Proofs.MuxHistory
  Proofs.MuxPlaylist Proofs.MuxSamples.
Import ListNotations.
Local Open Scope Z_scope.

Theorem c01_offset_partial : forall rate, 0 <= rate -> durationToTimestamp fmp4StartDTS rate = 10 * rate.
Proof. exact start_offset. Qed.
Print Assumptions c01_offset_partial.

Theorem c01_sample_fields_partial : forall a,
  s_dts (video_sample a) = a_dts a /\ s_ptsoff (video_sample a) = a_pts a - a_dts a
  /\ s_nonsync (video_sample a) = negb (a_ra a) /\ s_ntp (video_sample a) = a_ntp a.
Proof. exact video_sample_fields. Qed.
Print Assumptions c01_sample_fields_partial.

Theorem c01_rejects_before_minus_10s_partial : forall m ti t ra pc smp,
  nth_error (m_tracks m) ti = Some t ->
  s_dts smp + durationToTimestamp fmp4StartDTS (t_rate (tk_cfg t)) < 0 ->
  fmp4WriteSample m ti ra pc smp = (m, Ok tt).
Proof. exact fmp4_rejects_negative. Qed.
Print Assumptions c01_rejects_before_minus_10s_partial.

Theorem c01_lookahead_partial : forall m ti t ra pc smp,
  nth_error (m_tracks m) ti = Some t -> tk_next t = None ->
  0 <= s_dts smp + durationToTimestamp fmp4StartDTS (t_rate (tk_cfg t)) ->
  m_streams (fst (fmp4WriteSample m ti ra pc smp)) = m_streams m
  /\ snd (fmp4WriteSample m ti ra pc smp) = Ok tt.
Proof. exact fmp4_first_unit_buffered. Qed.
Print Assumptions c01_lookahead_partial.

Theorem c01_published_append_only_partial : forall m ops, Forall2 R (m_streams m) (m_streams (mux_run m ops)).
Proof. exact history_monotone. Qed.
Print Assumptions c01_published_append_only_partial.

Theorem c01_window_suffix_partial : forall c ops m, reach c ops m -> forall si s,
  nth_error (m_streams m) si = Some s ->
  st_segments s = skipn (Z.to_nat (st_delcount s)) (published s).
Proof. exact window_is_suffix. Qed.
Print Assumptions c01_window_suffix_partial.
