(* C06 - LL-HLS blocking reload, preload hints and delta updates.
   Only property theorems (closed by [exact]) and [Print Assumptions].
   Model: Model/MuxConcSeq.v (sequential core), Model/MuxConcPar.v (threads), Model/MuxConcSpec.v
   (well-formedness); proofs: Proofs/MuxConc*.v.

   The model follows /repo after the repairs bb6b0bd (hasPart indexes the window by position:
   former findings F3a, F3b), da34093 (_HLS_msn without _HLS_part waits for the complete segment:
   F11), def6988 (filterOutHLSParams on the lenient parse: F9), e317305 (404 when the hinted part
   was evicted: F12); every theorem is stated at full strength, there is no _partial / _refuted.

   Refinement (last section): the abstract stream state is the abstraction [MuxConcRefine.A_mux] of the
   muxer model Model/Mux.v (the model of C01-C05, tied to the real Muxer by the trace comparison), and
   the three writer operations commute with it on the streams the handlers read - in every state
   reachable from Start in which the streams are open (c06_writer_*_refines_muxer_model). *)
From Coq Require Import List ZArith Bool String.
From GoHls Require Import Lib.MuxSched Model.MuxConcSeq Model.MuxConcSpec Model.MuxConcPar
  Proofs.MuxConcSeqA Proofs.MuxConcSeqB Proofs.MuxConcSeqC
  Proofs.MuxConcInvA Proofs.MuxConcInvB Proofs.MuxConcInvC Proofs.MuxConcInvD
  Proofs.MuxConcProg Proofs.MuxConcMain Proofs.MuxConcAll Tie.MuxConcTie Proofs.MuxConcTieRun.
From GoHls Require Model.Mux Proofs.MuxLogStep Proofs.MuxConcRefine.
Import ListNotations.
Local Open Scope Z_scope.

(* ---------------- sequential core ---------------- *)

(* every state the writer can produce is well-formed: the theorems below speak about all
   reachable states *)
Theorem c06_reachable_wf : forall ops m m',
  1 <= m_segmentCount m -> wf_mux m -> run_wops m ops = Some m' -> wf_mux m'.
Proof. exact reachable_wf. Qed.
Print Assumptions c06_reachable_wf.

Theorem c06_initial_wf : forall v sc n lead, wf_mux (mux_init v sc n lead).
Proof. exact init_mux_wf. Qed.
Print Assumptions c06_initial_wf.

(* ... and so is the shared state along every CONCURRENT run (the writer's steps are the same
   operations): the Ready-iff-contains theorems below apply to every state a requester can see.
   (in_range - ids below 2^64-2, i.e. fewer than 1.8e19 segment rotations - stays an assumption) *)
Theorem c06_reachable_wf_concurrent : forall m prog reqs sched,
  1 <= m_segmentCount m -> wf_mux m -> wf_mux (c_mux (crun (cinit m prog reqs) sched)).
Proof. exact wf_reachable_concurrent. Qed.
Print Assumptions c06_reachable_wf_concurrent.

(* Ready => the playlist generated in that same state contains what was asked *)
Theorem c06_ready_sound : forall s q M P,
  wf_stream LL s -> in_range s -> 0 <= M -> (forall p, P = Some p -> 0 <= p) ->
  decide LL s M P = Ready ->
  exists pl, generateMediaPlaylistFMP4 LL s false q = Some pl /\ pl_contains pl M P = true.
Proof. exact ready_sound. Qed.
Print Assumptions c06_ready_sound.

Example c06_ready_sound_hyps :
  wf_stream LL ex_stream /\ in_range ex_stream /\ decide LL ex_stream 8 (Some 0) = Ready.
Proof. split; [exact ex_wf|]. split; [exact ex_in_range|]. exact ex_ready. Qed.

(* contains => not Block: no further input is needed *)
Theorem c06_ready_complete : forall s q M P pl,
  wf_stream LL s -> in_range s -> 0 <= M -> (forall p, P = Some p -> 0 <= p) ->
  segments s <> [] ->
  generateMediaPlaylistFMP4 LL s false q = Some pl ->
  pl_contains pl M P = true ->
  decide LL s M P <> Block.
Proof. exact ready_complete. Qed.
Print Assumptions c06_ready_complete.

Example c06_ready_complete_hyps :
  exists pl, generateMediaPlaylistFMP4 LL ex_stream false [] = Some pl /\
             pl_contains pl 7 (Some 1) = true /\ pl_contains pl 7 (Some 3) = true /\
             pl_contains pl 3 None = true /\ pl_contains pl 8 None = false /\
             decide LL ex_stream 7 (Some 1) = Ready.
Proof. exact ex_contained. Qed.

(* the inputs of the repaired defects, on a reachable state: a part index past the end of the
   last complete segment and a listed gap are answered; the open segment without a part index
   waits *)
Example c06_former_findings :
  decide LL ex_stream 7 (Some 3) = Ready /\ decide LL ex_stream 3 None = Ready /\
  decide LL ex_stream 3 (Some 5) = Ready /\ decide LL ex_stream 8 None = Block.
Proof. exact ex_former_findings. Qed.

(* what the code does: 400 exactly when M > last complete + 2 or M <= the head of the window.
   The second disjunct includes M = head_msn s, the first LISTED segment, which has not expired:
   recorded finding F28 (c06_400_head_of_window_refuted; not repaired because the existing test
   TestMuxerExpiredSegment expects 400 for exactly that request) *)
Theorem c06_400_only_if : forall s M P,
  wf_stream LL s -> in_range s -> segments s <> [] -> 0 <= M ->
  (decide LL s M P = Respond400 <-> (M > last_complete_msn s + 2 \/ M <= head_msn s)).
Proof. exact only_400_if. Qed.
Print Assumptions c06_400_only_if.

Theorem c06_400_head_of_window_refuted :
  exists s M pl, wf_stream LL s /\ in_range s /\ M = head_msn s /\
    generateMediaPlaylistFMP4 LL s false [] = Some pl /\
    pl_contains pl M None = true /\ pl_contains pl M (Some 0) = true /\
    decide LL s M None = Respond400 /\ decide LL s M (Some 0) = Respond400.
Proof. exact head_of_window_400_refuted. Qed.
Print Assumptions c06_400_head_of_window_refuted.

Theorem c06_never_reject : forall s M P,
  wf_stream LL s -> in_range s -> hasContent LL s = true -> 0 <= nextSegmentID s ->
  M = nextSegmentID s \/ M = nextSegmentID s + 1 ->
  decide LL s M P <> Respond400.
Proof. exact never_reject. Qed.
Print Assumptions c06_never_reject.

Example c06_400_examples :
  decide LL ex_stream 10 None = Respond400 /\ decide LL ex_stream 1 None = Respond400 /\
  decide LL ex_stream 9 (Some 0) = Block.
Proof. exact ex_reject. Qed.

(* the uint64 wrap of nextSegmentID - uint64(len-1): before the first segment exists every
   msn except next+1 is rejected (outside the property: the playlist is not yet available) *)
Theorem c06_reject_before_content : forall v s M P,
  segments s = [] -> 0 <= nextSegmentID s -> in_range s -> 0 <= M ->
  decide v s M P = if M =? nextSegmentID s + 1 then Block else Respond400.
Proof. exact reject_before_content. Qed.
Print Assumptions c06_reject_before_content.

Theorem c06_no_panic : forall s M P,
  wf_stream LL s -> in_range s -> 0 <= M -> decide_core LL s M P <> DPanic.
Proof. exact decide_no_panic. Qed.
Print Assumptions c06_no_panic.

(* _HLS_part without _HLS_msn, unparsable numbers: 400 before the mutex is touched *)
Theorem c06_bad_args : forall q,
  let msn := queryVal q "_HLS_msn" in
  let part := queryVal q "_HLS_part" in
  (is_empty msn = false /\ parseUint msn = None)
  \/ (is_empty part = false /\ parseUint part = None)
  \/ (is_empty msn = true /\ is_empty part = false) ->
  handleMediaPlaylist_pre LL q = MK400.
Proof. exact pre_bad_args. Qed.
Print Assumptions c06_bad_args.

Theorem c06_good_args : forall q M,
  parseUint (queryVal q "_HLS_msn") = Some M ->
  (is_empty (queryVal q "_HLS_part") = true \/ exists p, parseUint (queryVal q "_HLS_part") = Some p) ->
  exists d, handleMediaPlaylist_pre LL q =
              MKBlocking M (if is_empty (queryVal q "_HLS_part") then None
                            else parseUint (queryVal q "_HLS_part")) d
    /\ 0 <= M < two64.
Proof. exact pre_good_args. Qed.
Print Assumptions c06_good_args.

Theorem c06_parseUint_digits : forall s z,
  parseUint s = Some z -> s <> EmptyString /\ all_digits s = true.
Proof. exact parseUint_digits. Qed.
Print Assumptions c06_parseUint_digits.

(* delta update = the full playlist of the same instant with its first SKIPPED-SEGMENTS
   segments and the map replaced by one skip tag *)
Theorem c06_delta : forall v s q,
  generateMediaPlaylistFMP4 v s true q =
  option_map (replace_head (skipped_count s)) (generateMediaPlaylistFMP4 v s false q).
Proof. exact delta_shape. Qed.
Print Assumptions c06_delta.

Theorem c06_delta_fields : forall v s q pl,
  generateMediaPlaylistFMP4 v s false q = Some pl ->
  exists pld, generateMediaPlaylistFMP4 v s true q = Some pld
    /\ pl_map pl = true /\ pl_skip pl = None
    /\ pl_map pld = false /\ pl_skip pld = Some (skipped_count s)
    /\ 0 <= skipped_count s <= zlen (pl_segments pl)
    /\ pl_segments pld = skipn (Z.to_nat (skipped_count s)) (pl_segments pl)
    /\ pl_parts pld = pl_parts pl /\ pl_hint pld = pl_hint pl /\ pl_query pld = pl_query pl
    /\ pl_mediaSequence pld = pl_mediaSequence pl /\ pl_targetDuration pld = pl_targetDuration pl.
Proof. exact delta_shape_fields. Qed.
Print Assumptions c06_delta_fields.

(* no _HLS_ directive is copied into the URIs, whatever the query (also a partly malformed one) *)
Theorem c06_no_directives : forall v s d q pl k x,
  generateMediaPlaylistFMP4 v s d q = Some pl ->
  In (QPair k x) (pl_query pl) -> prefix "_HLS_" k = false.
Proof. exact no_directives. Qed.
Print Assumptions c06_no_directives.

Theorem c06_no_malformed_token : forall q, ~ In QBad (filterOutHLSParams q).
Proof. exact filter_no_bad. Qed.
Print Assumptions c06_no_malformed_token.

Theorem c06_other_params_kept : forall q k v,
  In (QPair k v) q -> prefix "_HLS_" k = false -> In (QPair k v) (filterOutHLSParams q).
Proof. exact filter_keeps_others. Qed.
Print Assumptions c06_other_params_kept.

Example c06_no_directives_example :
  queryVal [QPair "_HLS_skip" "YES"; QBad; QPair "token" "t"] "_HLS_skip" = "YES"%string /\
  filterOutHLSParams [QPair "_HLS_skip" "YES"; QBad; QPair "token" "t"] = [QPair "token" "t"].
Proof. exact no_directives_example. Qed.

(* ---------------- concurrent layer: all schedules, any number of requesters ---------------- *)

(* safety: a response decided under the mutex was decided by the handler's loop test, with the
   mutex held, in a state of this run; for a blocking reload that means decide = Ready there *)
Theorem c06_safety : forall m prog reqs sched i r resp,
  fresh m ->
  nth_error (c_reqs (crun (cinit m prog reqs) sched)) i = Some r ->
  (r_pc r = PUnlock resp \/ r_pc r = PDone resp) -> from_test resp = true ->
  exists p rest f, sched = p ++ TR i :: rest /\
    let c := crun (cinit m prog reqs) p in
    c_owner c = Some (TR i) /\ req_pc c i = Some (PTest f) /\
    test (c_mux c) (req_query (r_req r)) f = TExit resp.
Proof. exact safety_all_schedules. Qed.
Print Assumptions c06_safety.

Theorem c06_safety_blocking : forall m q k M (p : option Z) d pl,
  test m q (FBlocking k M p d) = TExit (R200Playlist pl) ->
  exists s, nth_error (m_streams m) k = Some s /\ s_closed s = false /\
            decide_core (m_variant m) s M p = Ready /\
            generateMediaPlaylist (m_variant m) s d q = Some pl.
Proof. exact test_blocking_200. Qed.
Print Assumptions c06_safety_blocking.

Theorem c06_safety_plain : forall m q k d pl,
  test m q (FPlain k d) = TExit (R200Playlist pl) ->
  exists s, nth_error (m_streams m) k = Some s /\ s_closed s = false /\
            hasContent (m_variant m) s = true /\ generateMediaPlaylist (m_variant m) s d q = Some pl.
Proof. exact test_plain_200. Qed.
Print Assumptions c06_safety_plain.

(* the frame a media-playlist request runs is the one its query selects *)
Theorem c06_request_frame : forall m prog reqs sched,
  reqs_all media_frame_ok (crun (cinit m prog reqs) sched).
Proof. exact media_frame_reachable. Qed.
Print Assumptions c06_request_frame.

(* no lost wake-up: whoever sleeps while its condition holds is owed a Broadcast by the writer
   (the writer is between its state change and the Broadcast) *)
Theorem c06_no_lost_wakeup : forall m prog reqs sched i r f,
  fresh m ->
  let c := crun (cinit m prog reqs) sched in
  nth_error (c_reqs c) i = Some r -> r_pc r = PWaiting f ->
  content_ready (c_mux c) f = true -> owed_rot (c_wpc c) = true.
Proof. exact no_lost_wakeup. Qed.
Print Assumptions c06_no_lost_wakeup.

Theorem c06_sleepers_blocked_when_idle : forall m prog reqs sched i r f,
  fresh m ->
  let c := crun (cinit m prog reqs) sched in
  owed_rot (c_wpc c) = false ->
  nth_error (c_reqs c) i = Some r -> r_pc r = PWaiting f ->
  content_ready (c_mux c) f = false.
Proof. exact sleepers_blocked_when_idle. Qed.
Print Assumptions c06_sleepers_blocked_when_idle.

Theorem c06_content_ready_blocking : forall m k M (p : option Z) d s,
  nth_error (m_streams m) k = Some s ->
  content_ready m (FBlocking k M p d) = true <->
  (decide_core (m_variant m) s M p = Ready \/ decide_core (m_variant m) s M p = Respond400).
Proof. exact content_ready_blocking. Qed.
Print Assumptions c06_content_ready_blocking.

(* progress by the requester's OWN steps (no writer step needed): from Lock() on a free mutex,
   if the loop test does not wait, the response is produced within 4 steps *)
Theorem c06_progress : forall c i r f,
  Inv c -> hint_prop (c_mux c) -> c_wpc c <> WCrashed ->
  nth_error (c_reqs c) i = Some r -> (r_pc r = PLock f \/ r_pc r = PWoken f) ->
  c_owner c = None ->
  test (c_mux c) (req_query (r_req r)) f <> TWait ->
  exists k, (k <= 4)%nat /\ exists resp,
    let c' := crun c (repeat (TR i) k) in
    done_with c' i = Some resp /\
    resp_of_test (test (c_mux c) (req_query (r_req r)) f) resp /\
    (exists r', nth_error (c_reqs c') i = Some r' /\ r_waits r' = r_waits r /\ c_owner c' = None).
Proof. exact ready_progress. Qed.
Print Assumptions c06_progress.

Theorem c06_own_progress : forall c i r,
  Inv c -> hint_prop (c_mux c) -> c_wpc c <> WCrashed ->
  nth_error (c_reqs c) i = Some r ->
  (c_owner c = None \/ c_owner c = Some (TR i)) ->
  exists k, (k <= 6)%nat /\
    let c' := crun c (repeat (TR i) k) in
    (exists r', nth_error (c_reqs c') i = Some r' /\ finished r' /\ consistent r' (c_owner c') i) /\
    c_mux c' = c_mux c.
Proof. exact own_progress. Qed.
Print Assumptions c06_own_progress.

(* the hypotheses of the two progress theorems hold in every reachable state *)
Theorem c06_inv_reachable : forall m prog reqs sched,
  fresh m -> Inv (crun (cinit m prog reqs) sched).
Proof. exact Inv_reachable. Qed.
Print Assumptions c06_inv_reachable.

Theorem c06_hint_prop_reachable : forall m prog reqs sched,
  m_variant m = LL -> paths_ok m -> paths_inv (crun (cinit m prog reqs) sched).
Proof. exact paths_reachable. Qed.
Print Assumptions c06_hint_prop_reachable.

(* hint_prop for every variant: fMP4 / MPEG-TS never register a part path *)
Theorem c06_hint_prop_reachable_all_variants : forall m prog reqs sched,
  table_ok m -> hint_prop (c_mux (crun (cinit m prog reqs) sched)).
Proof. exact hint_prop_reachable_all_variants. Qed.
Print Assumptions c06_hint_prop_reachable_all_variants.

Theorem c06_initial_table_ok : forall v sc n lead, table_ok (mux_init v sc n lead).
Proof. exact init_table_ok. Qed.
Print Assumptions c06_initial_table_ok.

Theorem c06_not_wait_when_ready : forall m q f,
  content_ready m f = true -> test m q f <> TWait.
Proof. exact test_not_wait_of_ready. Qed.
Print Assumptions c06_not_wait_when_ready.

Example c06_concurrent_hyps :
  fresh (mux_init LL 7 1 0) /\ m_variant (mux_init LL 7 1 0) = LL /\ paths_ok (mux_init LL 7 1 0).
Proof. split; [apply init_fresh|]. split; [reflexivity|apply init_paths_ok]. Qed.

(* the preload hint: the closure leaves its wait loop only in a state where the part is
   complete (nextPartID > id), and then calls the real handler of exactly that part - or
   answers 404 when the part has been evicted in the meantime ([hint_resp]) *)
Theorem c06_hint_body : forall m prog reqs sched i r h,
  m_variant m = LL -> paths_ok m ->
  nth_error (c_reqs (crun (cinit m prog reqs) sched)) i = Some r ->
  r_pc r = PUnlockCall h ->
  exists k id, (h = Some (HPart k id) \/ h = None) /\
    exists p rest, sched = p ++ TR i :: rest /\
      let c := crun (cinit m prog reqs) p in
      req_pc c i = Some (PTest (FHint k id)) /\
      exists s, nth_error (m_streams (c_mux c)) k = Some s /\ s_closed s = false /\ id < nextPartID s.
Proof. exact hint_body. Qed.
Print Assumptions c06_hint_body.

(* the same, stated for the request: GET of the URI of part id of stream k *)
Theorem c06_hint_body_of_request : forall m prog reqs sched i r h k id,
  m_variant m = LL -> paths_ok m ->
  nth_error (c_reqs (crun (cinit m prog reqs) sched)) i = Some r ->
  r_req r = RqPath (PPart k id) -> r_pc r = PUnlockCall h ->
  (h = Some (HPart k id) \/ h = None) /\
  exists p rest, sched = p ++ TR i :: rest /\
    let c := crun (cinit m prog reqs) p in
    req_pc c i = Some (PTest (FHint k id)) /\
    exists s, nth_error (m_streams (c_mux c)) k = Some s /\ s_closed s = false /\ id < nextPartID s.
Proof. exact hint_body_of_request. Qed.
Print Assumptions c06_hint_body_of_request.

(* the macro schedules the correspondence run evaluates are ordinary schedules of the model:
   every theorem above applies to the runs the tie compares with the real muxer *)
Theorem c06_tie_schedules : forall items c,
  exists sched, fold_left sitem_run items c = crun c sched.
Proof. exact tie_schedule_is_schedule. Qed.
Print Assumptions c06_tie_schedules.

(* ---------------- the writer of this model is the muxer model of C01-C05, abstracted ---------------- *)
(* [A_mux m t fs]: variant, SegmentCount, index of the leading stream and, per stream, next segment id, next
   part id, window (ids, listed part ids, durations; gaps), open segment's part ids, delete count, target
   duration - read off the muxer-model state m; path table and file set arbitrary *)
Theorem c06_writer_createFirst_refines_muxer_model : forall (m : Mux.mstate) d ntp t fs,
  option_map m_streams (apply_wop (MuxConcRefine.A_mux m t fs) WCreateFirst)
  = Some (m_streams (MuxConcRefine.A_mux (Mux.createFirstSegment m d ntp) t fs)).
Proof. exact MuxConcRefine.wop_createFirst_refines. Qed.
Print Assumptions c06_writer_createFirst_refines_muxer_model.

Theorem c06_writer_rotateParts_refines_muxer_model : forall c ops (m : Mux.mstate) d t fs,
  MuxConcRefine.reachable c ops m -> MuxConcRefine.started m -> Mux.c_variant (Mux.m_cfg m) <> Mux.MPEGTS ->
  option_map m_streams (apply_wop (MuxConcRefine.A_mux m t fs) WRotateParts)
  = Some (m_streams (MuxConcRefine.A_mux (Mux.rotateParts m d) t fs)).
Proof. exact MuxConcRefine.wop_rotateParts_refines. Qed.
Print Assumptions c06_writer_rotateParts_refines_muxer_model.

Theorem c06_writer_rotateSegments_refines_muxer_model : forall c ops (m : Mux.mstate) d ntp f t fs,
  MuxConcRefine.reachable c ops m -> MuxConcRefine.started m ->
  exists dur, option_map m_streams (apply_wop (MuxConcRefine.A_mux m t fs) (WRotateSegments dur))
              = Some (m_streams (MuxConcRefine.A_mux (Mux.rotateSegments m d ntp f) t fs)).
Proof. exact MuxConcRefine.wop_rotateSegments_refines. Qed.
Print Assumptions c06_writer_rotateSegments_refines_muxer_model.

Theorem c06_hasContent_commutes : forall v (s : Mux.stream),
  hasContent (MuxConcRefine.av v) (MuxConcRefine.abs_stream v s) = Mux.hasContent v s.
Proof. exact MuxConcRefine.abs_hasContent. Qed.
Print Assumptions c06_hasContent_commutes.

Theorem c06_refinement_nonvacuous : exists m : Mux.mstate,
  MuxConcRefine.reachable MuxLogStep.ex_cfg MuxLogStep.ex_ops m /\ MuxConcRefine.started m
  /\ Mux.c_variant (Mux.m_cfg m) <> Mux.MPEGTS /\ List.length (Mux.m_streams m) = 2%nat.
Proof. exact MuxConcRefine.refine_example. Qed.
Print Assumptions c06_refinement_nonvacuous.
