(* C09 - A Client reading a Muxer reproduces the written stream.
   Only property theorems (each closed by [exact]), Examples showing that hypotheses are satisfiable,
   and [Print Assumptions]. Composition of the muxer model (Model/Mux.v, C01-C05 / C16), the client
   content model (Model/ClientContent.v, C13) and the client time model (Model/ClientTime.v, C10)
   through the thin layer Model/E2E.v; lemmas in Proofs/E2E.v and Proofs/E2EPlan.v.

   PARTIAL, with one refutation (finding):
   * [c09_tracks_refuted_leading_rendition]  audio-only muxer with two or more tracks: the first track is
     the leading stream and is advertised as an audio rendition (EXT-X-MEDIA without URI, NAME, LANGUAGE,
     DEFAULT); the Client drops these attributes for the leading stream.
   Fixed in /repo, the models follow the fixed code: F10 (8f9d4a5: checkSupport accepts av01. / vp09. -
   [c09_codecs_supported], [c09_streams], [c09_tracks_av1_vp9]); F21 (d590576 + c9db2ec: a rendition part /
   segment without tracks is skipped - [client_view], [c09_rendition_never_aborts]); F20 (69594d6: the muxer
   never writes EXT-X-TARGETDURATION:0; Model/Mux.v).
   What is an INPUT of the theorems, not a conclusion: which segments / parts a live client downloads
   (wall-clock scheduling); that the samples of a published segment are the accepted written units with
   decode time "written dts + 10 s x rate" and durations "next dts - dts" (C01's accounting statement,
   established by C01's correspondence run and oracle, not yet a theorem); the byte codecs (init / PMT,
   moof / PES, the text of the playlists incl. the millisecond resolution of the date-times) and
   Track.ClockRate = the codec's fMP4 time scale (90000 video, sample rate MPEG-4 Audio, 48000 Opus). *)
From Coq Require Import List ZArith Bool String.
From GoHls Require Model.Mux Model.ClientContent.
From GoHls Require Import Model.ClientTime Model.E2E.
From GoHls Require Import Proofs.ClientTimeDecode Proofs.ClientTimeFMP4 Proofs.E2E Proofs.E2EPlan.
Import ListNotations.
Local Open Scope Z_scope.

(* ------------------------------------------------------------------ time *)

(* c09_offset_cancels: the muxer emits a unit written with dts d (track clock r) at container time
   d + 10 s x r (C01's offset lemma); the client's origin is the container time d0 + 10 s x rl of the
   first delivered leading unit; what the client delivers is d - floor(d0 * r / rl): the +10 s offset
   cancels exactly, and the origin is converted by a floor (next theorem: less than one tick).
   0 <= d0 + 10 rl is the muxer's own acceptance test. *)
Theorem c09_offset_cancels : forall d d0 r rl,
  0 < r -> 0 < rl -> 0 <= d0 + 10 * rl ->
  e2e_norm_fmp4 r rl d d0 = Ok (d - d0 * r / rl).
Proof. exact offset_cancels. Qed.
Print Assumptions c09_offset_cancels.

Example c09_offset_cancels_ex :
  0 < 48000 /\ 0 < 90000 /\ 0 <= -899999 + 10 * 90000 /\ e2e_norm_fmp4 48000 90000 (-479000) (-899999) = Ok 1000.
Proof. repeat split; vm_compute; congruence. Qed.

Theorem c09_origin_floor_error : forall d0 r rl, 0 < rl -> 0 <= d0 * r - (d0 * r / rl) * rl < rl.
Proof. exact origin_floor_error. Qed.
Print Assumptions c09_origin_floor_error.

Example c09_origin_floor_error_ex : 0 < 90000 /\ 0 <= (-899999) * 48000 - ((-899999) * 48000 / 90000) * 90000 < 90000.
Proof. vm_compute. repeat split; congruence. Qed.

Theorem c09_offset_cancels_same_clock : forall d d0 r,
  0 < r -> 0 <= d0 + 10 * r -> e2e_norm_fmp4 r r d d0 = Ok (d - d0).
Proof. exact offset_cancels_same_clock. Qed.
Print Assumptions c09_offset_cancels_same_clock.

(* with that origin, the sample the muxer emitted for a unit written with (pts, dts) is delivered with
   dts - floor(d0 r / rl) and pts - floor(d0 r / rl) (the sample's offset is pts - dts, C01) *)
Theorem c09_norm_written : forall d d0 r rl (s : ClientTime.sample),
  0 < r -> 0 < rl -> 0 <= d0 + 10 * rl ->
  norm {| leadingTimeScale := rl; leadingBaseTime := container_dts d0 rl |} r (container_dts d r, s)
  = (d - d0 * r / rl + s_ptsOffset s, d - d0 * r / rl, s_payload s).
Proof. exact norm_written. Qed.
Print Assumptions c09_norm_written.

(* MPEG-TS: 90 kHz throughout; the muxer writes mulDiv(ts, 90000, rate) on the 33-bit circle, the shared
   TimeDecoder returns the distance from the leading track's first value (C10's unwrap theorem) *)
Theorem c09_offset_cancels_mpegts : forall d0 rl (units : list (Z * Z)),
  let t0 := Mux.mulDiv d0 90000 rl in
  let ts := map (fun u => Mux.mulDiv (fst u) 90000 (snd u)) units in
  gaps_ok t0 ts ->
  decode_all td_zero (map wrap33 (t0 :: ts))
  = 0 :: map (fun u => e2e_norm_mpegts (snd u) rl (fst u) d0) units.
Proof. exact offset_cancels_mpegts. Qed.
Print Assumptions c09_offset_cancels_mpegts.

Example c09_offset_cancels_mpegts_ex :
  gaps_ok (Mux.mulDiv 8589930000 90000 90000) (map (fun u => Mux.mulDiv (fst u) 90000 (snd u)) [(4581300000, 48000); (8589940000, 90000)])
  /\ 8589934592 < Mux.mulDiv 8589940000 90000 90000.
Proof. vm_compute. repeat split; congruence. Qed.

(* ------------------------------------------------------------------ codecs *)

(* c09_codecs_supported: the RFC 6381 string codecparams.Marshal produces for a track of any of the six
   kinds (whatever follows the constant prefix) passes checkSupport (since fix 8f9d4a5 also av01. / vp09.) *)
Theorem c09_codecs_supported : forall k sfx, ClientContent.codec_supported (codec_string k sfx) = true.
Proof. exact codec_supported_all. Qed.
Print Assumptions c09_codecs_supported.

(* so the single variant of the muxer's multivariant playlist is always a candidate, whatever its tracks *)
Theorem c09_variant_accepted : forall (sfx : Mux.ckind * Z -> string) l,
  ClientContent.checkSupport (map (fun c => codec_string (fst c) (sfx c)) l) = true.
Proof. exact checkSupport_strings. Qed.
Print Assumptions c09_variant_accepted.

(* (checkSupport is not vacuous: strings of other codec families still fail a variant) *)
Example c09_checkSupport_rejects_others :
  ClientContent.checkSupport ["avc1.640028"; "ac-3"]%string = false /\ ClientContent.checkSupport ["mp4v.20.9"]%string = false.
Proof. exact checkSupport_rejects_others. Qed.

(* F10 fixed: a Client pointed at index.m3u8 of an AV1 (fMP4) or VP9 + audio (Low-Latency) muxer reports
   the muxer's tracks, the same as when pointed at the media playlist *)
Theorem c09_tracks_av1_vp9 :
  client_plan cfg_av1 true 0
  = PTracks [{| ct_kind := Some ClientContent.GAV1; ct_rate := 90000; ct_name := -1; ct_lang := 0; ct_default := false |}]
  /\ client_plan cfg_av1 false 0 = client_plan cfg_av1 true 0
  /\ client_plan cfg_vp9_ll true 0
    = PTracks [{| ct_kind := Some ClientContent.GVP9; ct_rate := 90000; ct_name := -1; ct_lang := 0; ct_default := false |};
               {| ct_kind := Some ClientContent.GMPEG4Audio; ct_rate := 44100; ct_name := 2; ct_lang := 2; ct_default := true |}].
Proof. exact av1_vp9_plans. Qed.
Print Assumptions c09_tracks_av1_vp9.

(* ------------------------------------------------------------------ streams and tracks *)

(* c09_streams: for every multivariant playlist the muxer model generates, the Client opens the leading
   stream's playlist and one stream per rendition that has a URI, in the muxer's order ... *)
Theorem c09_streams : forall sfx m mv,
  Mux.gen_multivariant m = Mux.Ok (Some mv) ->
  client_streams sfx mv
  = ClientContent.Ok ((true, Some (leading_res mv))
                      :: map (fun s => (false, Some (Z.to_nat (Mux.st_num s - 1))))
                             (filter (fun s => Mux.st_rendition s && negb (Mux.st_leading s)) (Mux.m_streams m))).
Proof.
  exact (fun sfx m mv H =>
    eq_trans (client_streams_supported sfx mv (proj1 (gen_multivariant_audio m mv H)) (proj2 (gen_multivariant_audio m mv H)))
             (f_equal (fun l => ClientContent.Ok ((true, Some (leading_res mv)) :: l)) (gen_multivariant_uri_renditions m mv H))).
Qed.
Print Assumptions c09_streams.

(* a state with content of the configuration [AAC; H264; Opus] (two published segments per stream) *)
Definition ex_state : option Mux.mstate :=
  match Mux.start cfg_h264_aac_opus with
  | Mux.Ok m =>
      Some (Mux.set_stream m (map (fun s => let x := Mux.st_mut s in
              Mux.st_with s {| Mux.x_nextSeg := 2; Mux.x_nextPart := Mux.x_nextPart x;
                               Mux.x_segments := [Mux.mkgap 5; Mux.mkgap 5]; Mux.x_open := Mux.x_open x;
                               Mux.x_openpart := Mux.x_openpart x; Mux.x_init := Mux.x_init x;
                               Mux.x_delcount := 0; Mux.x_target := 1; Mux.x_parttarget := 0;
                               Mux.x_evicted := [] |}) (Mux.m_streams m)))
  | _ => None
  end.

Example c09_streams_ex :
  exists m mv, ex_state = Some m /\ Mux.gen_multivariant m = Mux.Ok (Some mv)
               /\ client_streams (fun _ => EmptyString) mv
                  = ClientContent.Ok [(true, Some 1%nat); (false, Some 0%nat); (false, Some 2%nat)].
Proof. do 2 eexists. repeat split; vm_compute; reflexivity. Qed.

(* ... and those are all the streams but the leading one: a stream Start creates that is not the leading
   one is always advertised as a rendition *)
Theorem c09_nonleading_is_rendition : forall c ts i ch n k s,
  nth_error (Mux.mk_streams c i ts ch n) k = Some s -> Mux.st_leading s = false -> Mux.st_rendition s = true.
Proof. exact nonleading_is_rendition. Qed.
Print Assumptions c09_nonleading_is_rendition.

Example c09_nonleading_is_rendition_ex :
  exists s, nth_error (Mux.mk_streams cfg_h264_aac_opus 0 (Mux.c_tracks cfg_h264_aac_opus) false 0) 2 = Some s
            /\ Mux.st_leading s = false /\ Mux.st_rendition s = true
            /\ advertised_attrs s = Some (3, 3, true).
Proof. eexists. repeat split; vm_compute; reflexivity. Qed.

(* codec types survive the container: init (ToFMP4 / FromFMP4) and PMT (ToMPEGTS / FromMPEGTS) *)
Theorem c09_track_kinds : forall k,
  ClientContent.FromFMP4 (ToFMP4 k) = Some (gkind k)
  /\ ClientContent.FromMPEGTS (ToMPEGTS k) = match k with Mux.H264 | Mux.AAC => Some (gkind k) | _ => None end.
Proof. exact (fun k => conj (FromFMP4_ToFMP4 k) (FromMPEGTS_ToMPEGTS k)). Qed.
Print Assumptions c09_track_kinds.

(* the attributes of a rendition stream are copied *)
Theorem c09_rendition_attrs_partial : forall s,
  Mux.st_rendition s = true -> Some (client_attrs false s) = advertised_attrs s.
Proof. exact rendition_attrs_copied. Qed.
Print Assumptions c09_rendition_attrs_partial.

(* c09_tracks, MPEG-TS: every configuration Start accepts, client pointed at either playlist *)
Theorem c09_tracks_mpegts : forall c m index target,
  Mux.start c = Mux.Ok m -> Mux.c_variant c = Mux.MPEGTS ->
  client_plan c index target = PTracks (map ts_track (Mux.c_tracks c)).
Proof. exact plan_mpegts. Qed.
Print Assumptions c09_tracks_mpegts.

Example c09_tracks_mpegts_ex :
  let c := {| Mux.c_variant := Mux.MPEGTS; Mux.c_tracks := mk_tcfgs [Mux.AAC; Mux.H264] 9; Mux.c_segcount := 0;
              Mux.c_segmin := 0; Mux.c_partmin := 0; Mux.c_segmax := 0 |} in
  (exists m, Mux.start c = Mux.Ok m) /\ Mux.c_variant c = Mux.MPEGTS /\
  client_plan c true 0
  = PTracks [{| ct_kind := Some ClientContent.GMPEG4Audio; ct_rate := 90000; ct_name := -1; ct_lang := 0; ct_default := false |};
             {| ct_kind := Some ClientContent.GH264; ct_rate := 90000; ct_name := -1; ct_lang := 0; ct_default := false |}].
Proof. cbv zeta. split; [eexists; vm_compute; reflexivity|]. split; vm_compute; reflexivity. Qed.

(* c09_tracks, fMP4 variants, on the completely enumerated family (656 configurations: every list of 1..3
   tracks over the six codecs with at most one video track, every placement of the DEFAULT mark, fMP4 and
   Low-Latency): the composition of the models reports exactly what the property text demands
   ([expected_plan]) unless the leading track is itself advertised as a rendition *)
Theorem c09_tracks_family_partial : forall x,
  In x family -> leading_is_rendition (snd x) = false ->
  client_plan (cfg_of x) true 0 = expected_plan (snd x).
Proof. exact family_partial. Qed.
Print Assumptions c09_tracks_family_partial.

Example c09_tracks_family_ex :
  (exists i, nth_error family i = Some (Mux.FMP4, mk_tcfgs [Mux.AAC; Mux.H264; Mux.OPUS] 2)) /\
  leading_is_rendition (mk_tcfgs [Mux.AAC; Mux.H264; Mux.OPUS] 2) = false /\
  (exists i, nth_error family i = Some (Mux.FMP4, mk_tcfgs [Mux.AAC; Mux.OPUS] 9)) /\
  leading_is_rendition (mk_tcfgs [Mux.AAC; Mux.OPUS] 9) = true /\
  List.length family = 656%nat /\
  client_plan cfg_h264_aac_opus true 0
  = PTracks [{| ct_kind := Some ClientContent.GH264; ct_rate := 90000; ct_name := -1; ct_lang := 0; ct_default := false |};
             {| ct_kind := Some ClientContent.GMPEG4Audio; ct_rate := 44100; ct_name := 1; ct_lang := 1; ct_default := false |};
             {| ct_kind := Some ClientContent.GOpus; ct_rate := 48000; ct_name := 3; ct_lang := 3; ct_default := true |}].
Proof.
  split; [exists 174%nat; vm_compute; reflexivity|]. split; [reflexivity|].
  split; [exists 78%nat; vm_compute; reflexivity|]. split; [reflexivity|].
  exact (conj family_size h264_aac_opus_plan).
Qed.

(* FINDING (signature C09:<variant>:rendition-attributes-missing:leading-audio): in every member of the
   family whose leading track is advertised as a rendition, the report differs from the specification *)
Theorem c09_tracks_refuted_leading_rendition :
  (forall x, In x family -> leading_is_rendition (snd x) = true ->
             client_plan (cfg_of x) true 0 <> expected_plan (snd x))
  /\ exists m s,
       Mux.start cfg_two_audio = Mux.Ok m /\ nth_error (Mux.m_streams m) 0 = Some s /\
       Mux.st_leading s = true /\ advertised_attrs s = Some (1, 1, true) /\
       client_plan cfg_two_audio true 0
       = PTracks [{| ct_kind := Some ClientContent.GMPEG4Audio; ct_rate := 44100; ct_name := -1; ct_lang := 0; ct_default := false |};
                  {| ct_kind := Some ClientContent.GOpus; ct_rate := 48000; ct_name := 2; ct_lang := 2; ct_default := false |}].
Proof. exact (conj family_refuted two_audio_attrs). Qed.
Print Assumptions c09_tracks_refuted_leading_rendition.

(* ------------------------------------------------------------------ units *)

(* c09_units (PARTIAL - see the header for the missing muxer half): a Client that downloads the segments
   [segs] (whole segments, or single parts wrapped as one-part segments) of a single-track muxer stream as
   its leading playlist delivers exactly the samples of those segments in container order, each once,
   normalised by the origin (first base time of the first segment, in the track's clock) and filtered by
   pts >= 0; nothing is duplicated or reordered; gaps can only come from [segs] itself. [client_view]: what
   the stream processor acts on - trackless segments / parts are skipped once the stream has started. *)
Theorem c09_units_leading_partial : forall r isv segs out conv h,
  0 < r -> bases_nonneg segs ->
  runLeadingFMP4 (client_view true (to_stream r isv segs)) = Ok (out, Some conv, h) ->
  map dkey (proj 0 out) = filter keepk (map (norm conv r) (flat_map (fun x => seg_units (snd x)) segs))
  /\ leadingTimeScale conv = r.
Proof. exact units_leading. Qed.
Print Assumptions c09_units_leading_partial.

(* the same for a rendition stream, under the leading stream's converter *)
Theorem c09_units_rendition_partial : forall r isv segs conv hist out,
  0 < r -> wf_conv conv -> Forall ntp_ok hist ->
  runRenditionFMP4 (Some conv) hist (client_view false (to_stream r isv segs)) = Ok out ->
  map dkey (proj 0 out) = filter keepk (map (norm conv r) (flat_map (fun x => seg_units (snd x)) segs)).
Proof. exact units_rendition. Qed.
Print Assumptions c09_units_rendition_partial.

(* F21 fixed: whatever parts of a rendition are empty, every segment its stream processor acts on holds data
   of the stream's track: the "could not find data of leading track" exit of a rendition is never taken
   on content of a single-track muxer stream *)
Theorem c09_rendition_never_aborts : forall r isv segs s,
  In s (ClientTime.st_segments (client_view false (to_stream r isv segs))) ->
  findFirstPartTrackOfLeadingTrack (ClientTime.sg_parts s) 1 <> None.
Proof. exact rendition_view_has_leading. Qed.
Print Assumptions c09_rendition_never_aborts.

Definition ex_seg : Mux.segrec :=
  {| Mux.sg_gap := false; Mux.sg_id := 3; Mux.sg_ntp := 1700000000000000000; Mux.sg_start := 10000000000;
     Mux.sg_end := 10066666666; Mux.sg_forced := false; Mux.sg_size := 30;
     Mux.sg_parts := [{| Mux.p_id := 0; Mux.p_start := 10000000000; Mux.p_end := 10066666666; Mux.p_indep := true;
                         Mux.p_hastrack := true; Mux.p_base := 900000;
                         Mux.p_samples := [{| Mux.s_dts := 900000; Mux.s_ptsoff := 0; Mux.s_dur := 3000; Mux.s_nonsync := false;
                                              Mux.s_ntp := 1700000000000000000; Mux.s_pay := 1; Mux.s_size := 10 |};
                                           {| Mux.s_dts := 903000; Mux.s_ptsoff := 0; Mux.s_dur := 3000; Mux.s_nonsync := true;
                                              Mux.s_ntp := 1700000000033333333; Mux.s_pay := 2; Mux.s_size := 20 |}] |}];
     Mux.sg_units := []; Mux.sg_aucount := 0 |}.

(* a segment whose only part got no sample (p_hastrack = false): served as a fragment without tracks *)
Definition ex_empty_seg : Mux.segrec :=
  {| Mux.sg_gap := false; Mux.sg_id := 4; Mux.sg_ntp := 1700000000066666666; Mux.sg_start := 10066666666;
     Mux.sg_end := 10133333333; Mux.sg_forced := false; Mux.sg_size := 0;
     Mux.sg_parts := [{| Mux.p_id := 1; Mux.p_start := 10066666666; Mux.p_end := 10133333333; Mux.p_indep := false;
                         Mux.p_hastrack := false; Mux.p_base := 0; Mux.p_samples := [] |}];
     Mux.sg_units := []; Mux.sg_aucount := 0 |}.

Example c09_units_leading_ex :
  0 < 90000 /\ bases_nonneg [(Some 1700000000000000000, ex_seg)] /\
  exists out conv h,
    runLeadingFMP4 (client_view true (to_stream 90000 true [(Some 1700000000000000000, ex_seg)])) = Ok (out, Some conv, h) /\
    map dkey (proj 0 out) = [(0, 0, 1); (3000, 3000, 2)].
Proof.
  split; [reflexivity|]. split.
  - intros x p [<-|[]] [<-|[]]. vm_compute. congruence.
  - do 3 eexists. split; vm_compute; reflexivity.
Qed.

Example c09_units_rendition_ex :
  let conv := {| leadingTimeScale := 90000; leadingBaseTime := 900000 |} in
  0 < 48000 /\ wf_conv conv /\ Forall ntp_ok [ntpFMP4_zero] /\
  exists out, runRenditionFMP4 (Some conv) [ntpFMP4_zero]
                (client_view false (to_stream 48000 false [(None, ex_seg); (None, ex_empty_seg); (None, ex_seg)])) = Ok out
              /\ map dkey (proj 0 out) = [(420000, 420000, 1); (423000, 423000, 2); (420000, 420000, 1); (423000, 423000, 2)]
              /\ In (to_segment None ex_seg) (ClientTime.st_segments (client_view false (to_stream 48000 false [(None, ex_seg); (None, ex_empty_seg)]))).
Proof.
  cbv zeta. split; [reflexivity|]. split; [split; vm_compute; congruence|].
  split; [constructor; [intros H; discriminate H|constructor]|].
  eexists. split; [vm_compute; reflexivity|]. split; [vm_compute; reflexivity|]. left. reflexivity.
Qed.

(* ------------------------------------------------------------------ AbsoluteTime *)

(* muxer half: a date in a media playlist is the NTP value recorded when that segment was opened
   (C02: the NTP argument of the unit that starts the segment) *)
Theorem c09_playlist_date : forall v n segs e x,
  In e (Mux.gen_segs v n segs) -> Mux.ps_dt e = Some x ->
  exists g, In g segs /\ Mux.sg_gap g = false /\ Mux.ps_id e = Mux.sg_id g /\ x = Mux.sg_ntp g.
Proof. exact gen_segs_date. Qed.
Print Assumptions c09_playlist_date.

Example c09_playlist_date_ex :
  exists e, In e (Mux.gen_segs Mux.FMP4 0 [ex_seg]) /\ Mux.ps_dt e = Some 1700000000000000000.
Proof. eexists. split; [left; reflexivity|]. reflexivity. Qed.

(* client half (C10's c10_abs_time_fmp4 gives the anchor n = setNTP date T r at the segment's first leading
   part track and AbsoluteTime = getNTP n pd + duration_of(dts - pd)): in one clock that value is the date
   plus the DTS distance (dts - T ticks) to less than 2 ns *)
Theorem c09_abs_time : forall dt T pd dts r,
  0 < r ->
  let n := fmp4_setNTP dt T r in
  exists v, spec_getNTP n pd r = Some v /\
            let abs := v + Z.quot ((dts - pd) * second) r in
            - 2 * r < (abs - dt) * r - (dts - T) * second < 2 * r.
Proof. exact abs_time_same_clock. Qed.
Print Assumptions c09_abs_time.
