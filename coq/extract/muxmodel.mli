
val negb : bool -> bool

type nat =
| O
| S of nat

val fst : ('a1 * 'a2) -> 'a1

val snd : ('a1 * 'a2) -> 'a2

val length : 'a1 list -> nat

val app : 'a1 list -> 'a1 list -> 'a1 list

type comparison =
| Eq
| Lt
| Gt

val compOpp : comparison -> comparison

module Nat :
 sig
  val eqb : nat -> nat -> bool

  val leb : nat -> nat -> bool

  val ltb : nat -> nat -> bool
 end

val nth_error : 'a1 list -> nat -> 'a1 option

val rev : 'a1 list -> 'a1 list

val map : ('a1 -> 'a2) -> 'a1 list -> 'a2 list

val flat_map : ('a1 -> 'a2 list) -> 'a1 list -> 'a2 list

val fold_left : ('a1 -> 'a2 -> 'a1) -> 'a2 list -> 'a1 -> 'a1

val fold_right : ('a2 -> 'a1 -> 'a1) -> 'a1 -> 'a2 list -> 'a1

val existsb : ('a1 -> bool) -> 'a1 list -> bool

val forallb : ('a1 -> bool) -> 'a1 list -> bool

val filter : ('a1 -> bool) -> 'a1 list -> 'a1 list

val seq : nat -> nat -> nat list

val repeat : 'a1 -> nat -> 'a1 list

type positive =
| XI of positive
| XO of positive
| XH

type n =
| N0
| Npos of positive

type z =
| Z0
| Zpos of positive
| Zneg of positive

module Pos :
 sig
  type mask =
  | IsNul
  | IsPos of positive
  | IsNeg
 end

module Coq_Pos :
 sig
  val succ : positive -> positive

  val add : positive -> positive -> positive

  val add_carry : positive -> positive -> positive

  val pred_double : positive -> positive

  type mask = Pos.mask =
  | IsNul
  | IsPos of positive
  | IsNeg

  val succ_double_mask : mask -> mask

  val double_mask : mask -> mask

  val double_pred_mask : positive -> mask

  val sub_mask : positive -> positive -> mask

  val sub_mask_carry : positive -> positive -> mask

  val mul : positive -> positive -> positive

  val compare_cont : comparison -> positive -> positive -> comparison

  val compare : positive -> positive -> comparison

  val eqb : positive -> positive -> bool

  val of_succ_nat : nat -> positive
 end

module N :
 sig
  val succ_double : n -> n

  val double : n -> n

  val sub : n -> n -> n

  val compare : n -> n -> comparison

  val leb : n -> n -> bool

  val pos_div_eucl : positive -> n -> n * n
 end

module Z :
 sig
  val double : z -> z

  val succ_double : z -> z

  val pred_double : z -> z

  val pos_sub : positive -> positive -> z

  val add : z -> z -> z

  val opp : z -> z

  val sub : z -> z -> z

  val mul : z -> z -> z

  val compare : z -> z -> comparison

  val leb : z -> z -> bool

  val ltb : z -> z -> bool

  val eqb : z -> z -> bool

  val max : z -> z -> z

  val of_nat : nat -> z

  val of_N : n -> z

  val pos_div_eucl : positive -> z -> z * z

  val div_eucl : z -> z -> z * z

  val div : z -> z -> z

  val modulo : z -> z -> z

  val quotrem : z -> z -> z * z

  val quot : z -> z -> z

  val rem : z -> z -> z
 end

type 'a res =
| Ok of 'a
| Err of nat
| Panic of nat

val mulDiv : z -> z -> z -> z

val second : z

val millisecond : z

val durationToTimestamp : z -> z -> z

val timestampToDuration : z -> z -> z

val fmp4StartDTS : z

val mpegtsSegmentMinAUCount : z

val u32 : z -> z

val partDurationIsCompatible : z -> z -> bool

val compatibleWithAll : z -> z list -> bool

val findCompat : nat -> z -> z list -> z

val findCompatiblePartDuration : z -> z list -> z

val roundSeconds : z -> z

val ceilMs : z -> z

type variant =
| MPEGTS
| FMP4
| LL

type ckind =
| H264
| H265
| VP9
| AV1
| AAC
| OPUS

val variant_eqb : variant -> variant -> bool

val isVideo : ckind -> bool

type tcfg = { t_kind : ckind; t_rate : z; t_srate : z; t_name : z;
              t_lang : z; t_default : bool; t_params0 : z }

type cfg = { c_variant : variant; c_tracks : tcfg list; c_segcount : 
             z; c_segmin : z; c_partmin : z; c_segmax : z }

type au = { a_pts : z; a_dts : z; a_ntp : z; a_ra : bool; a_nonidr : 
            bool; a_params : z option; a_units : (((z * z) * z) * z) list }

type wop =
| WWrite of nat * au

type sample = { s_dts : z; s_ptsoff : z; s_dur : z; s_nonsync : bool;
                s_ntp : z; s_pay : z; s_size : z }

type part = { p_id : z; p_start : z; p_end : z; p_indep : bool;
              p_hastrack : bool; p_base : z; p_samples : sample list }

type tsunit = { u_track : nat; u_pts : z; u_dts : z; u_ra : bool;
                u_pays : (z * z) list }

type segrec = { sg_gap : bool; sg_id : z; sg_ntp : z; sg_start : z;
                sg_end : z; sg_forced : bool; sg_size : z;
                sg_parts : part list; sg_units : tsunit list; sg_aucount : 
                z }

val sg_dur : segrec -> z

val p_dur : part -> z

val mkgap : z -> segrec

type pathkey =
| KIndex
| KPlaylist of nat
| KInit of nat
| KSeg of nat * z
| KPart of nat * z

type hkind =
| HStatic
| HPart
| HHint

val pathkey_eqb : pathkey -> pathkey -> bool

type ptable = (pathkey * hkind) list

val unregister : ptable -> pathkey -> ptable

val register : ptable -> pathkey -> hkind -> ptable

type trk = { tk_cfg : tcfg; tk_leading : bool; tk_stream : nat;
             tk_firstRA : bool; tk_params : z; tk_next : sample option;
             tk_samples : sample list option; tk_start : z }

type stream = { st_tracks : nat list; st_isvideo : bool; st_num : z;
                st_leading : bool; st_rendition : bool; st_default : 
                bool; st_name : z; st_lang : z; st_nextSeg : z;
                st_nextPart : z; st_segments : segrec list;
                st_open : segrec option; st_openpart : part option;
                st_init : z list option; st_delcount : z; st_target : 
                z; st_parttarget : z; st_evicted : segrec list }

type mstate = { m_cfg : cfg; m_tracks : trk list; m_streams : stream list;
                m_pending : bool; m_sdurs : z list; m_adj : z;
                m_freeze : bool; m_paths : ptable; m_errs : z }

val upd : 'a1 list -> nat -> ('a1 -> 'a1) -> 'a1 list

val set_stream : mstate -> stream list -> mstate

val set_tracks : mstate -> trk list -> mstate

val set_paths : mstate -> ptable -> mstate

val set_pending : mstate -> bool -> mstate

val set_adj : mstate -> z list -> z -> bool -> mstate

val add_err : mstate -> mstate

val upd_track : mstate -> nat -> (trk -> trk) -> mstate

val upd_stream : mstate -> nat -> (stream -> stream) -> mstate

val tk_with :
  trk -> bool -> z -> sample option -> sample list option -> z -> trk

type stmut = { x_nextSeg : z; x_nextPart : z; x_segments : segrec list;
               x_open : segrec option; x_openpart : part option;
               x_init : z list option; x_delcount : z; x_target : z;
               x_parttarget : z; x_evicted : segrec list }

val st_mut : stream -> stmut

val st_with : stream -> stmut -> stream

val count_video : tcfg list -> nat

val count_audio : tcfg list -> nat

val count_default_audio : tcfg list -> nat

val norm_cfg : cfg -> cfg

val start_ok : cfg -> bool

val hasVideo : cfg -> bool

val hasDefaultAudio : cfg -> bool

val track_leading : cfg -> nat -> tcfg -> bool

val mk_stream :
  nat list -> bool -> z -> bool -> bool -> bool -> z -> z -> z -> stream

val mk_streams : cfg -> nat -> tcfg list -> bool -> z -> stream list

val mk_tracks : cfg -> nat -> tcfg list -> trk list

val start : cfg -> mstate res

val listed_parts : variant -> segrec -> part list

val targetDuration : segrec list -> z

val partTargetDuration : variant -> segrec list -> part list -> z

val new_part : z -> z -> part

val new_seg : z -> z -> z -> bool -> segrec

val sg_with_parts : segrec -> part list -> segrec

val sg_with_end : segrec -> z -> segrec

val sg_with_size : segrec -> z -> segrec

val stream_createFirst : variant -> stream -> z -> z -> stream

val createFirstSegment : mstate -> z -> z -> mstate

val part_finalize : part -> trk list -> nat list -> z -> part * trk list

val stream_rotateParts : mstate -> nat -> z -> bool -> mstate

val unregister_parts : ptable -> nat -> part list -> ptable

val stream_rotateSegments : mstate -> nat -> z -> z -> bool -> mstate

val leading_index : mstate -> nat

val nonleading_indices : mstate -> nat list

val leading_stream : mstate -> stream option

val rotateParts : mstate -> z -> mstate

val rotateSegments : mstate -> z -> z -> bool -> mstate

val fmp4AdjustPartDuration : mstate -> z -> mstate

val stream_open_start : stream -> z

val stream_openpart_start : stream -> z

val part_writeSample : mstate -> nat -> nat -> sample -> mstate res

type wres = mstate * unit res

val wok : mstate -> wres

val fmp4WriteSample : mstate -> nat -> bool -> bool -> sample -> wres

val sg_ts_write : segrec -> tsunit -> z -> z option -> bool -> segrec

val ts_write : mstate -> nat -> tsunit -> z -> z option -> bool -> wres

val sum4 : ((((z * z) * z) * z) -> z) -> (((z * z) * z) * z) list -> z

val u_id : (((z * z) * z) * z) -> z

val u_fsize : (((z * z) * z) * z) -> z

val u_tsize : (((z * z) * z) * z) -> z

val u_opusdur : (((z * z) * z) * z) -> z

val video_params : mstate -> nat -> trk -> au -> bool -> mstate * bool

val video_sample : au -> sample

val set_firstRA : mstate -> nat -> mstate

val write_video : mstate -> nat -> trk -> au -> wres

val write_audio_units :
  mstate -> nat -> ckind -> z -> z -> z -> z -> z -> (((z * z) * z) * z) list
  -> wres

val write_audio : mstate -> nat -> trk -> au -> wres

val mux_write : mstate -> nat -> au -> wres

val mux_step : mstate -> wop -> wres

val hasContent : variant -> stream -> bool

type plpart = { pp_id : z; pp_dur : z; pp_indep : bool }

type plseg = { ps_gap : bool; ps_id : z; ps_dur : z; ps_dt : z option;
               ps_parts : plpart list }

type mediapl = { pl_version : z; pl_msn : z; pl_target : z; pl_ll : bool;
                 pl_parttarget : z; pl_holdback : z; pl_skipuntil : z;
                 pl_map : bool; pl_segs : plseg list;
                 pl_trailing : plpart list; pl_hint : z option }

val mkplpart : part -> plpart

val gen_segs : variant -> nat -> segrec list -> plseg list

val gen_media_playlist : mstate -> nat -> mediapl option

val bandwidth : segrec list -> (z * z) res

type mvrend = { r_isvideo : bool; r_num : z; r_name : z; r_lang : z;
                r_default : bool; r_hasuri : bool }

type multivariant = { mv_version : z; mv_bandwidth : z; mv_avg : z;
                      mv_codecs : (ckind * z) list;
                      mv_video : (ckind * z) option;
                      mv_uri : (bool * z) option; mv_audio : bool;
                      mv_renditions : mvrend list }

val ck_eqb : ckind -> ckind -> bool

val codec_key : trk -> ckind * z

val ckey_eqb : (ckind * z) -> (ckind * z) -> bool

val all_stream_tracks : mstate -> trk list

val dedup_codecs : (ckind * z) list -> trk list -> (ckind * z) list

val gen_multivariant : mstate -> multivariant option res

val b2z : bool -> z

val zlen : 'a1 list -> z

val kind_code : ckind -> z

val res_code : 'a1 res -> z

val stream_digest : variant -> stream -> z list

val digest_line : z -> variant -> mstate -> z list

val enc_part : plpart -> z list

val enc_seg : plseg -> z list

val playlist_line : z -> nat -> mstate -> z list

val codec_obs : (ckind * z) -> z

val multivariant_line : z -> mstate -> z list

val enc_key : pathkey -> (z * z) * z

val key_leb : ((z * z) * z) -> ((z * z) * z) -> bool

val insert_key : ((z * z) * z) -> ((z * z) * z) list -> ((z * z) * z) list

val sort_keys : ((z * z) * z) list -> ((z * z) * z) list

val paths_line : z -> mstate -> z list

val enc_sample : sample -> z list

val parts_between : stream -> z -> z -> part list

val part_lines : z -> nat -> stream -> stream -> z list list

val enc_unit : tsunit -> z list

val tsseg_line : z -> nat -> stream -> z list list

val counters : mstate -> (z * z) list

val counters_eqb : (z * z) list -> (z * z) list -> bool

val segcounters_changed : mstate -> mstate -> bool

val enum_from : nat -> 'a1 list -> (nat * 'a1) list

val rotation_lines : z -> mstate -> mstate -> z list list

val trace_from : z -> mstate -> wop list -> z list list

val trace : cfg -> wop list -> z list list
