(* Line-oriented driver for the extracted muxer model (coq/extract/MuxExtract.v).
   Input (all integers, one record per line):
     CFG variant segcount segmin partmin segmax
     T kind rate srate name lang default params0
     W track pts dts ntp ra nonidr hasparams params nunits {id fsize tsize opusdur}*
     END
   Output: the model's trace, one line of space-separated integers per trace line, then "#". *)
open Muxmodel

let rec pos_of_int (n : int) : positive =
  if n = 1 then XH
  else if n land 1 = 0 then XO (pos_of_int (n lsr 1))
  else XI (pos_of_int (n lsr 1))

let z_of_int (n : int) : z =
  if n = 0 then Z0 else if n > 0 then Zpos (pos_of_int n) else Zneg (pos_of_int (- n))

let rec int_of_pos (p : positive) : int =
  match p with
  | XH -> 1
  | XO q -> 2 * int_of_pos q
  | XI q -> 2 * int_of_pos q + 1

let string_of_z (x : z) : string =
  (* values printed by the model fit OCaml's 63-bit int (asserted by the harness ranges) *)
  match x with
  | Z0 -> "0"
  | Zpos p -> string_of_int (int_of_pos p)
  | Zneg p -> "-" ^ string_of_int (int_of_pos p)

let rec nat_of_int (n : int) : nat = if n <= 0 then O else S (nat_of_int (n - 1))

let variant_of = function 1 -> MPEGTS | 2 -> FMP4 | _ -> LL
let kind_of = function 1 -> H264 | 2 -> H265 | 3 -> VP9 | 4 -> AV1 | 5 -> AAC | _ -> OPUS

let ints_of_line l =
  List.filter (fun s -> s <> "") (String.split_on_char ' ' l)

let () =
  let cfgl = ref None and tracks = ref [] and ops = ref [] in
  (try
     while true do
       let line = input_line stdin in
       match ints_of_line line with
       | "CFG" :: rest ->
           let a = Array.of_list (List.map int_of_string rest) in
           cfgl := Some a; tracks := []; ops := []
       | "T" :: rest ->
           let a = Array.of_list (List.map int_of_string rest) in
           tracks := { t_kind = kind_of a.(0); t_rate = z_of_int a.(1); t_srate = z_of_int a.(2);
                       t_name = z_of_int a.(3); t_lang = z_of_int a.(4); t_default = (a.(5) <> 0);
                       t_params0 = z_of_int a.(6) } :: !tracks
       | "W" :: rest ->
           let a = Array.of_list (List.map int_of_string rest) in
           let n = a.(8) in
           let units = List.init n (fun i ->
             (((z_of_int a.(9 + 4*i), z_of_int a.(10 + 4*i)), z_of_int a.(11 + 4*i)), z_of_int a.(12 + 4*i))) in
           ops := WWrite (nat_of_int a.(0),
                          { a_pts = z_of_int a.(1); a_dts = z_of_int a.(2); a_ntp = z_of_int a.(3);
                            a_ra = (a.(4) <> 0); a_nonidr = (a.(5) <> 0);
                            a_params = (if a.(6) <> 0 then Some (z_of_int a.(7)) else None);
                            a_units = units }) :: !ops
       | "END" :: _ ->
           (match !cfgl with
            | None -> ()
            | Some c ->
                let cfg = { c_variant = variant_of c.(0); c_tracks = List.rev !tracks;
                            c_segcount = z_of_int c.(1); c_segmin = z_of_int c.(2);
                            c_partmin = z_of_int c.(3); c_segmax = z_of_int c.(4) } in
                let tr = trace cfg (List.rev !ops) in
                List.iter (fun l -> print_endline (String.concat " " (List.map string_of_z l))) tr;
                print_endline "#")
       | _ -> ()
     done
   with End_of_file -> ())
