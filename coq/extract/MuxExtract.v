(* Extraction of the muxer model's trace function for the correspondence run.
   Directives used: those of ExtrOcamlBasic (bool, option, unit, list, prod, sumbool -> OCaml's own)
   and nothing else; Z, positive, nat stay Coq's inductive types. *)
From Coq Require Import Extraction ExtrOcamlBasic.
From GoHls Require Import Model.Mux Tie.MuxTie.
Extraction Language OCaml.
Extraction "muxmodel.ml" trace.
